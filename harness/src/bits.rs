//! C13: bit reader / writer / natural-number code on the implementation.
//! Output format mirrors coq/Bits/Run.v.
use crate::util::*;
use simplicity::{encode_natural, BitCollector, BitIter, BitWriter};
use std::io::Write;

/// parse the Debug form of the (unnameable) DecodeNaturalError
fn nat_err(dbg: &str) -> Vec<u128> {
    if dbg.starts_with("EndOfStream") {
        vec![1]
    } else if dbg.starts_with("Overflow") {
        vec![2]
    } else if dbg.starts_with("BadIndex") {
        let nums: Vec<u128> = dbg
            .split(|c: char| !c.is_ascii_digit())
            .filter(|s| !s.is_empty())
            .map(|s| s.parse().unwrap())
            .collect();
        vec![3, nums[0], nums[1]]
    } else {
        vec![99]
    }
}

fn read_nat_ty<I: Iterator<Item = u8>>(
    it: &mut BitIter<I>,
    ty: &str,
    bound: Option<u128>,
) -> Result<u128, Vec<u128>> {
    macro_rules! go {
        ($t:ty) => {{
            let b: Option<$t> = bound.map(|b| b as $t);
            it.read_natural::<$t>(b)
                .map(|n| n as u128)
                .map_err(|e| nat_err(&format!("{:?}", e)))
        }};
    }
    match ty {
        "u8" => go!(u8),
        "u16" => go!(u16),
        "u32" => go!(u32),
        "i32" => go!(i32),
        "u64" => go!(u64),
        "i64" => go!(i64),
        "usize" => go!(usize),
        _ => panic!("type"),
    }
}

fn parse_bound(s: &str) -> Option<u128> {
    if s == "-" {
        None
    } else {
        Some(s.parse().unwrap())
    }
}

fn pack(bits: &[bool]) -> Vec<u8> {
    let mut bytes = Vec::new();
    let mut w = BitWriter::new(&mut bytes);
    for b in bits {
        w.write_bit(*b).unwrap();
    }
    w.flush_all().unwrap();
    bytes
}

pub fn run(t: &[&str]) -> String {
    let r = guarded(|| run_inner(t));
    match r {
        Some(v) => join(&v),
        None => "9".to_string(),
    }
}

fn run_inner(t: &[&str]) -> Vec<u128> {
    match t[0] {
        "nat" => {
            let n: usize = t[1].parse().unwrap();
            let ty = t[2];
            let bound = parse_bound(t[3]);
            let extra = bits_of_str(t[4]);
            let mut bytes = Vec::new();
            let mut w = BitWriter::new(&mut bytes);
            let written = encode_natural(n, &mut w).unwrap();
            let enc_total = w.n_total_written();
            assert_eq!(written, enc_total);
            for b in &extra {
                w.write_bit(*b).unwrap();
            }
            w.flush_all().unwrap();
            drop(w);
            let mut out: Vec<u128> = BitIter::from(bytes.clone().into_iter())
                .take(written)
                .map(|b| b as u128)
                .collect();
            out.push(2);
            let mut it = BitIter::from(bytes.into_iter());
            match read_nat_ty(&mut it, ty, bound) {
                Ok(m) => out.extend([0, m, it.n_total_read() as u128]),
                Err(e) => out.extend(e),
            }
            out
        }
        "dec" => {
            let ty = t[1];
            let bound = parse_bound(t[2]);
            let bytes = pack(&bits_of_str(t[3]));
            let mut it = BitIter::from(bytes.into_iter());
            match read_nat_ty(&mut it, ty, bound) {
                Ok(m) => vec![0, m, it.n_total_read() as u128],
                Err(e) => e,
            }
        }
        "ops" | "winops" => {
            let bytes = unhex(t[1]);
            if t[0] == "winops" {
                let s: usize = t[2].parse().unwrap();
                let e: usize = t[3].parse().unwrap();
                let it = BitIter::byte_slice_window(&bytes, s, e);
                return run_reader_ops(it, &t[4..]);
            }
            let it = BitIter::from(bytes.into_iter());
            return run_reader_ops(it, &t[2..]);
        }
        "wr" => {
            let mut bytes = Vec::new();
            let mut w = BitWriter::new(&mut bytes);
            for op in &t[1..] {
                if *op == "b0" {
                    w.write_bit(false).unwrap();
                } else if *op == "b1" {
                    w.write_bit(true).unwrap();
                } else if let Some(rest) = op.strip_prefix("be:") {
                    let parts: Vec<&str> = rest.split(':').collect();
                    let n: u64 = parts[0].parse().unwrap();
                    let len: usize = parts[1].parse().unwrap();
                    let r = w.write_bits_be(n, len).unwrap();
                    assert_eq!(r, len);
                } else if let Some(rest) = op.strip_prefix("by:") {
                    let b = unhex(rest);
                    w.write_all(&b).unwrap();
                } else if *op == "fl" {
                    // flush_all in the middle of the stream
                    w.flush_all().unwrap();
                } else if *op == "fs" {
                    // io::Write::flush: the cached bits stay cached
                    w.flush().unwrap();
                } else {
                    panic!("wop");
                }
            }
            let t0 = w.n_total_written() as u128;
            w.flush_all().unwrap();
            let t1 = w.n_total_written() as u128;
            drop(w);
            let mut out = vec![t0, t1];
            out.extend(bytes.iter().map(|b| *b as u128));
            out
        }
        "win" => {
            let bytes = unhex(t[1]);
            let s: usize = t[2].parse().unwrap();
            let e: usize = t[3].parse().unwrap();
            let it = BitIter::byte_slice_window(&bytes, s, e);
            let claimed = it.len();
            let bits: Vec<bool> = it.collect();
            assert_eq!(claimed, bits.len());
            let mut out = vec![bits.len() as u128];
            out.extend(bits.iter().map(|b| *b as u128));
            out
        }
        "col" => {
            let bits = bits_of_str(t[1]);
            let (bytes, n) = bits.into_iter().collect_bits();
            let mut out = vec![n as u128];
            out.extend(bytes.iter().map(|b| *b as u128));
            out
        }
        _ => panic!("kind"),
    }
}

fn run_reader_ops<I: Iterator<Item = u8>>(mut it: BitIter<I>, ops: &[&str]) -> Vec<u128> {
            let mut out: Vec<u128> = vec![];
            for op in ops {
                match *op {
                    "b" => match it.read_bit() {
                        Ok(b) => out.extend([0, b as u128, it.n_total_read() as u128]),
                        Err(_) => out.extend([1, it.n_total_read() as u128]),
                    },
                    "2" => match it.read_u2() {
                        Ok(v) => out.extend([0, u8::from(v) as u128, it.n_total_read() as u128]),
                        Err(_) => out.extend([1, it.n_total_read() as u128]),
                    },
                    "8" => match it.read_u8() {
                        Ok(v) => out.extend([0, v as u128, it.n_total_read() as u128]),
                        Err(_) => out.extend([1, it.n_total_read() as u128]),
                    },
                    o if o.starts_with("nth:") => {
                        let k: usize = o[4..].parse().unwrap();
                        match it.nth(k) {
                            Some(b) => out.extend([0, b as u128, it.n_total_read() as u128]),
                            None => out.extend([1, it.n_total_read() as u128]),
                        }
                    }
                    _ => {
                        let parts: Vec<&str> = op.split(':').collect();
                        assert_eq!(parts[0], "n");
                        match read_nat_ty(&mut it, parts[1], parse_bound(parts[2])) {
                            Ok(m) => out.extend([0, m, it.n_total_read() as u128]),
                            Err(e) => {
                                // the failed call has consumed the bits it looked at; go on
                                out.extend(e);
                                out.push(it.n_total_read() as u128);
                            }
                        }
                    }
                }
            }
            out.push(7);
            match it.close() {
                Ok(()) => out.push(0),
                Err(simplicity::BitIterCloseError::TrailingBytes { first_byte }) => {
                    out.extend([1, first_byte as u128])
                }
                Err(simplicity::BitIterCloseError::IllegalPadding {
                    masked_padding,
                    n_bits,
                }) => out.extend([2, masked_padding as u128, n_bits as u128]),
            }
            out
}
