(* C03 - executable reference of the static cost bound (milli weight units) of a typed
   node table, in three versions:

     ideal_*  unbounded arithmetic over N (the mathematical bound),
     c_*      mirror of simplicity-sys/depend/simplicity/eval.c  analyseBounds  (field .cost):
              ubounded = uint32, bounded_add / bounded_max, type bit sizes clipped at
              UBOUNDED_MAX by type.c computeTypeAnalyses,
     rust_*   mirror of src/analysis.rs  NodeBounds::{iden,unit,injl,..,disconnect,witness,jet,
              const_word,fail} as called from src/node/redeem.rs RedeemData::new:
              Cost(u32) with saturating `+`, Cost::of_type(w) = `w as u32` (a truncating
              cast of the usize bit width, itself saturated at usize::MAX by Final::sum/product),
              usize subtraction for the B component of disconnect (panics on underflow in debug).

   No theorem here mentions the C or Rust code: the three functions are hand-written models,
   tied to the implementations only by the differential check of tools/props/c03.py
   (Coq value vs RedeemNode::bounds().cost vs analyseBounds).  *)
From RS Require Import Lib.Tac Lib.Outcome Ty.Ty Core.Prog.
Import ListNotations.
Local Open Scope N_scope.

Definition u32_max : N := 4294967295.
Definition two32 : N := 4294967296.
Definition overhead : N := 100.

(* What the cost of a node depends on: its kind, the positions of its children in the
   table, and the bit widths (ideal, unbounded) of the types the formulas mention. *)
Inductive cnode :=
| CIden (wa : N)                          (* width of the source type *)
| CUnit
| CUnary (c : nat)                        (* injl injr take drop *)
| CComp (l r : nat) (wb : N)              (* width of the middle type *)
| CCase (l r : nat)                       (* case / assertl / assertr; a hidden child is a CHidden entry *)
| CPair (l r : nat)
| CDisc (l r : nat) (w256a wbc wc wb : N) (* widths of: source of left, target of left, source of right, B *)
| CHidden
| CFail
| CJet (cost : N)
| CWord (w : N)
| CWitness (wb : N).

Definition nth_cost (tbl : list N) (i : nat) : N := nth i tbl 0.

(* ---------------------------------------------------------------- ideal *)
Definition ideal_node (tbl : list N) (n : cnode) : N :=
  match n with
  | CIden wa => overhead + wa
  | CUnit => overhead
  | CUnary c => overhead + nth_cost tbl c
  | CComp l r wb => overhead + wb + nth_cost tbl l + nth_cost tbl r
  | CCase l r => overhead + N.max (nth_cost tbl l) (nth_cost tbl r)
  | CPair l r => overhead + nth_cost tbl l + nth_cost tbl r
  | CDisc l r w256a wbc wc wb => overhead + w256a + w256a + wbc + wb + nth_cost tbl l + nth_cost tbl r
  | CHidden => 0
  | CFail => 0
  | CJet c => overhead + c
  | CWord w => overhead + w
  | CWitness wb => overhead + wb
  end.

(* ---------------------------------------------------------------- C *)
Definition sat32 (x : N) : N := N.min x u32_max.
(* bounded.h bounded_add on values that fit ubounded *)
Definition badd (x y : N) : N := if u32_max <? x then u32_max else if u32_max - x <? y then u32_max else x + y.

Definition c_node (tbl : list N) (n : cnode) : N :=
  match n with
  | CIden wa => badd overhead (sat32 wa)
  | CUnit => overhead
  | CUnary c => badd overhead (nth_cost tbl c)
  | CComp l r wb => badd overhead (badd (sat32 wb) (badd (nth_cost tbl l) (nth_cost tbl r)))
  | CCase l r => badd overhead (N.max (nth_cost tbl l) (nth_cost tbl r))
  | CPair l r => badd overhead (badd (nth_cost tbl l) (nth_cost tbl r))
  | CDisc l r w256a wbc wc wb =>
      badd overhead (badd (sat32 w256a) (badd (sat32 w256a) (badd (sat32 wbc) (badd (sat32 wb)
        (badd (nth_cost tbl l) (nth_cost tbl r))))))
  | CHidden => 0
  | CFail => 0     (* libsimplicity has no fail node; value chosen equal to the Rust one, never compared *)
  | CJet c => badd overhead (sat32 c)
  | CWord w => badd overhead (sat32 w)
  | CWitness wb => badd overhead (sat32 wb)
  end.

(* ---------------------------------------------------------------- Rust *)
Definition sadd (x y : N) : N := N.min (x + y) u32_max.           (* u32::saturating_add *)
Definition wusize (w : N) : N := N.min w usize_max.                (* Final::bit_width *)
Definition of_type (w : N) : N := (wusize w) mod two32.            (* Cost::of_type: `as u32` *)

Definition rust_node (tbl : list N) (n : cnode) : outcome unit N :=
  match n with
  | CIden wa => Ok (sadd overhead (of_type wa))
  | CUnit => Ok overhead
  | CUnary c => Ok (sadd overhead (nth_cost tbl c))
  | CComp l r wb => Ok (sadd (sadd (sadd overhead (of_type wb)) (nth_cost tbl l)) (nth_cost tbl r))
  | CCase l r =>
      (* Case: OVERHEAD + max; AssertL/AssertR: from_child of the non-hidden child.  A hidden child
         has no bounds in Rust; its table entry is 0, so both readings coincide (rust_case_assert). *)
      Ok (sadd overhead (N.max (nth_cost tbl l) (nth_cost tbl r)))
  | CPair l r => Ok (sadd (sadd overhead (nth_cost tbl l)) (nth_cost tbl r))
  | CDisc l r w256a wbc wc wb =>
      (* left.arrow.target.bit_width() - right.arrow.source.bit_width(): usize subtraction *)
      if wusize wbc <? wusize wc then Panic 1
      else
        let b := wusize wbc - wusize wc in
        Ok (sadd (sadd (sadd (sadd (sadd (sadd overhead (of_type w256a)) (of_type w256a)) (of_type wbc))
                  (b mod two32)) (nth_cost tbl l)) (nth_cost tbl r))
  | CHidden => Ok 0
  | CFail => Ok 0
  | CJet c => Ok (sadd overhead (sat32 c))
  | CWord w => Ok (sadd overhead (of_type w))
  | CWitness wb => Ok (sadd overhead (of_type wb))
  end.

(* ---------------------------------------------------------------- tables *)
Fixpoint run_tbl (f : list N -> cnode -> N) (acc : list N) (ns : list cnode) : list N :=
  match ns with
  | [] => acc
  | n :: r => run_tbl f (acc ++ [f acc n]) r
  end.

Fixpoint run_tbl_o (f : list N -> cnode -> outcome unit N) (acc : list N) (ns : list cnode)
  : outcome unit (list N) :=
  match ns with
  | [] => Ok acc
  | n :: r => match f acc n with
              | Ok c => run_tbl_o f (acc ++ [c]) r
              | Err e => Err e
              | Panic c => Panic c
              | OutOfFuel => OutOfFuel
              end
  end.

Definition ideal_table (ns : list cnode) : list N := run_tbl ideal_node [] ns.
Definition c_table (ns : list cnode) : list N := run_tbl c_node [] ns.
Definition rust_table (ns : list cnode) : outcome unit (list N) := run_tbl_o rust_node [] ns.

Definition ideal_cost (ns : list cnode) : N := last (ideal_table ns) 0.
Definition c_cost (ns : list cnode) : N := last (c_table ns) 0.
Definition rust_cost (ns : list cnode) : outcome unit N := omap (fun t => last t 0) (rust_table ns).

(* children point backwards *)
Definition cchildren (n : cnode) : list nat :=
  match n with
  | CUnary c => [c]
  | CComp l r _ | CCase l r | CPair l r | CDisc l r _ _ _ _ => [l; r]
  | _ => []
  end.

(* ---------------------------------------------------------------- annotation of a typed program *)
Definition arrow_of (tp : typed_prog) (i : nat) : option arrow :=
  match nth_error tp i with Some (_, a) => a | None => None end.

Definition annot_node (jc : N -> N -> N) (tp : typed_prog) (e : node * option arrow) : option cnode :=
  match e with
  | (NIden, Some (s, _)) => Some (CIden (width s))
  | (NUnit, Some _) => Some CUnit
  | (NInjL c, Some _) | (NInjR c, Some _) | (NTake c, Some _) | (NDrop c, Some _) => Some (CUnary c)
  | (NComp l r, Some _) =>
      match arrow_of tp l with Some (_, b) => Some (CComp l r (width b)) | None => None end
  | (NCase l r, Some _) => Some (CCase l r)
  | (NPair l r, Some _) => Some (CPair l r)
  | (NDisconnect l (Some r), Some (_, t)) =>
      match arrow_of tp l, arrow_of tp r with
      | Some (ls, lt), Some (rs, _) =>
          Some (CDisc l r (width ls) (width lt) (width rs)
                      (match t with Prod b _ => width b | _ => 0 end))
      | _, _ => None
      end
  | (NHidden _, None) => Some CHidden
  | (NFail _, Some _) => Some CFail
  | (NJet f id, Some _) => Some (CJet (jc f id))
  | (NWord n _, Some _) => Some (CWord (2 ^ N.of_nat n))
  | (NWitness _, Some (_, t)) => Some (CWitness (width t))
  | _ => None
  end.

Fixpoint all_some {A} (l : list (option A)) : option (list A) :=
  match l with
  | [] => Some []
  | Some a :: r => option_map (cons a) (all_some r)
  | None :: _ => None
  end.

Definition annotate (jc : N -> N -> N) (tp : typed_prog) : option (list cnode) :=
  all_some (map (annot_node jc tp) tp).

(* witness values erased *)
Definition erase_node (n : node) : node :=
  match n with NWitness _ => NWitness WNone | n => n end.
Definition erase_wit (tp : typed_prog) : typed_prog := map (fun e => (erase_node (fst e), snd e)) tp.

(* ================================================================ theorems *)

Lemma badd_min x y : x <= u32_max -> y <= u32_max -> badd x y = N.min (x + y) u32_max.
Proof.
  intros Hx Hy. unfold badd.
  destruct (N.ltb_spec u32_max x); [lia|].
  destruct (N.ltb_spec (u32_max - x) y); lia.
Qed.

Lemma sat32_le x : sat32 x <= u32_max.
Proof. unfold sat32; lia. Qed.

Lemma badd_le x y : badd x y <= u32_max.
Proof.
  unfold badd. destruct (N.ltb_spec u32_max x); [lia|].
  destruct (N.ltb_spec (u32_max - x) y); lia.
Qed.

Lemma nth_cost_map_sat tbl i : nth_cost (map sat32 tbl) i = sat32 (nth_cost tbl i).
Proof. unfold nth_cost. change 0 with (sat32 0) at 1. apply map_nth. Qed.

Lemma nth_cost_le tbl i m : Forall (fun x => x <= m) tbl -> nth_cost tbl i <= m.
Proof.
  intros H. unfold nth_cost. destruct (Nat.lt_ge_cases i (length tbl)) as [Hi|Hi].
  - rewrite Forall_forall in H. apply H, nth_In, Hi.
  - rewrite nth_overflow by exact Hi. lia.
Qed.

(* 1. the C formulas are the ideal formulas with the result clipped: saturation happens exactly
      where the ideal value exceeds 2^32-1, node by node *)
Lemma c_node_sat tbl n : c_node (map sat32 tbl) n = sat32 (ideal_node tbl n).
Proof.
  assert (O : overhead <= u32_max) by (unfold overhead, u32_max; lia).
  destruct n; cbn [c_node ideal_node]; rewrite ?nth_cost_map_sat;
    repeat (rewrite badd_min by (try apply sat32_le; try apply badd_le; unfold sat32, overhead, u32_max; lia));
    unfold sat32, overhead, u32_max; lia.
Qed.

Lemma run_tbl_sat ns : forall acc,
  run_tbl c_node (map sat32 acc) ns = map sat32 (run_tbl ideal_node acc ns).
Proof.
  induction ns as [|n r IH]; intros acc; cbn [run_tbl]; [reflexivity|].
  rewrite c_node_sat. rewrite <- IH. rewrite map_app. reflexivity.
Qed.

Theorem c_table_saturates ns : c_table ns = map sat32 (ideal_table ns).
Proof. unfold c_table, ideal_table. apply (run_tbl_sat ns []). Qed.

Lemma last_map_sat l : last (map sat32 l) 0 = sat32 (last l 0).
Proof.
  induction l as [|a [|b l] IH]; [reflexivity|reflexivity|].
  change (map sat32 (a :: b :: l)) with (sat32 a :: map sat32 (b :: l)).
  change (last (sat32 a :: map sat32 (b :: l)) 0) with (last (map sat32 (b :: l)) 0).
  rewrite IH. reflexivity.
Qed.

Theorem c_cost_saturates ns : c_cost ns = N.min (ideal_cost ns) u32_max.
Proof. unfold c_cost, ideal_cost. rewrite c_table_saturates. apply last_map_sat. Qed.

Corollary c_cost_bounded ns : c_cost ns <= u32_max.
Proof. rewrite c_cost_saturates. lia. Qed.

Corollary c_cost_exact ns : ideal_cost ns <= u32_max -> c_cost ns = ideal_cost ns.
Proof. rewrite c_cost_saturates. lia. Qed.

Corollary c_cost_clipped_iff ns : c_cost ns = u32_max <-> u32_max <= ideal_cost ns.
Proof. rewrite c_cost_saturates. lia. Qed.

(* 2. monotone in sub-costs, jet costs and widths *)
Inductive cle : cnode -> cnode -> Prop :=
| cle_iden a b : a <= b -> cle (CIden a) (CIden b)
| cle_unit : cle CUnit CUnit
| cle_unary c : cle (CUnary c) (CUnary c)
| cle_comp l r a b : a <= b -> cle (CComp l r a) (CComp l r b)
| cle_case l r : cle (CCase l r) (CCase l r)
| cle_pair l r : cle (CPair l r) (CPair l r)
| cle_disc l r a1 a2 a3 a4 b1 b2 b3 b4 : a1 <= b1 -> a2 <= b2 -> a4 <= b4 ->
    cle (CDisc l r a1 a2 a3 a4) (CDisc l r b1 b2 b3 b4)
| cle_hidden : cle CHidden CHidden
| cle_fail : cle CFail CFail
| cle_jet a b : a <= b -> cle (CJet a) (CJet b)
| cle_word a b : a <= b -> cle (CWord a) (CWord b)
| cle_witness a b : a <= b -> cle (CWitness a) (CWitness b).

Lemma nth_cost_mono t1 t2 i : Forall2 N.le t1 t2 -> nth_cost t1 i <= nth_cost t2 i.
Proof.
  intros H. revert i. induction H as [|a b t1 t2 Hab H IH]; intros [|i]; unfold nth_cost in *; cbn [nth];
    first [exact Hab | apply IH | lia].
Qed.

Lemma ideal_node_mono t1 t2 n1 n2 : Forall2 N.le t1 t2 -> cle n1 n2 ->
  ideal_node t1 n1 <= ideal_node t2 n2.
Proof.
  intros Ht Hn. destruct Hn; cbn [ideal_node];
    repeat match goal with |- context [nth_cost t1 ?i] =>
      let H := fresh in pose proof (nth_cost_mono t1 t2 i Ht) as H; revert H;
      generalize (nth_cost t1 i) end; intros; lia.
Qed.

Lemma Forall2_app_one {A} (R : A -> A -> Prop) l1 l2 a b : Forall2 R l1 l2 -> R a b -> Forall2 R (l1 ++ [a]) (l2 ++ [b]).
Proof. intros H Hab. apply Forall2_app; [exact H|constructor; [exact Hab|constructor]]. Qed.

Lemma run_tbl_ideal_mono ns1 : forall ns2 a1 a2, Forall2 cle ns1 ns2 -> Forall2 N.le a1 a2 ->
  Forall2 N.le (run_tbl ideal_node a1 ns1) (run_tbl ideal_node a2 ns2).
Proof.
  induction ns1 as [|n1 r1 IH]; intros ns2 a1 a2 Hn Ha; inversion Hn; subst; cbn [run_tbl]; [exact Ha|].
  apply IH; [assumption|]. apply Forall2_app_one; [exact Ha|]. apply ideal_node_mono; assumption.
Qed.

Lemma Forall2_last l1 : forall l2, Forall2 N.le l1 l2 -> last l1 0 <= last l2 0.
Proof.
  induction l1 as [|a [|b l1] IH]; intros l2 H; inversion H as [|? ? ? ? Hab Hr]; subst; [cbn; lia| |].
  - inversion Hr; subst. exact Hab.
  - inversion Hr as [|? ? ? ? ? ?]; subst.
    change (last (a :: b :: l1) 0) with (last (b :: l1) 0).
    match goal with |- _ <= last (?y :: ?y' :: ?l) 0 => change (last (y :: y' :: l) 0) with (last (y' :: l) 0) end.
    apply IH. assumption.
Qed.

Theorem ideal_cost_monotone ns1 ns2 : Forall2 cle ns1 ns2 -> ideal_cost ns1 <= ideal_cost ns2.
Proof.
  intros H. unfold ideal_cost, ideal_table. apply Forall2_last.
  apply run_tbl_ideal_mono; [exact H|constructor].
Qed.

Theorem c_cost_monotone ns1 ns2 : Forall2 cle ns1 ns2 -> c_cost ns1 <= c_cost ns2.
Proof.
  intros H. rewrite !c_cost_saturates. pose proof (ideal_cost_monotone _ _ H). lia.
Qed.

(* a node costs at least as much as any of its children (sub-costs are never lost), ideal and C *)
Lemma ideal_node_ge_child tbl n c : In c (cchildren n) -> nth_cost tbl c <= ideal_node tbl n.
Proof.
  destruct n; cbn [cchildren ideal_node In]; intros H; repeat destruct H as [H|H]; subst; try contradiction; lia.
Qed.

(* 3. the cost is a function of the typed structure only: witness values do not matter *)
Lemma arrow_of_erase tp i : arrow_of (erase_wit tp) i = arrow_of tp i.
Proof.
  unfold arrow_of, erase_wit. rewrite nth_error_map. destruct (nth_error tp i) as [[n a]|]; reflexivity.
Qed.

Lemma annot_node_erase jc tp n a :
  annot_node jc (erase_wit tp) (erase_node n, a) = annot_node jc tp (n, a).
Proof.
  destruct n; cbn [erase_node annot_node]; rewrite ?arrow_of_erase; try reflexivity.
  destruct r; [rewrite ?arrow_of_erase|]; reflexivity.
Qed.

Theorem annotate_erase jc tp : annotate jc (erase_wit tp) = annotate jc tp.
Proof.
  unfold annotate. f_equal. unfold erase_wit at 2. rewrite map_map.
  apply map_ext. intros [n a]. cbn [fst snd]. apply annot_node_erase.
Qed.

Theorem cost_witness_independent jc tp1 tp2 :
  erase_wit tp1 = erase_wit tp2 -> annotate jc tp1 = annotate jc tp2.
Proof. intros H. rewrite <- (annotate_erase jc tp1), <- (annotate_erase jc tp2), H. reflexivity. Qed.

(* the widths the code uses are the ideal widths clipped at the machine word *)
Lemma width_sat_min t : width_sat t = N.min (width t) usize_max.
Proof.
  induction t as [|a IHa b IHb|a IHa b IHb]; cbn [width width_sat]; [reflexivity| |];
    unfold sat_add; rewrite IHa, IHb; unfold usize_max; lia.
Qed.

