(* C17 - model of the parser behind `Forest::parse` (src/human_encoding/parse/{ast,mod}.rs) from
   the list of lines on: an input is a list of definitions `name := expression` (or a bare
   type declaration `name : arrow`, no expression) whose expressions may be nested ("inline").

   parse_inner:
     step 1  collect the lines into a map name -> expression (repeated name: error);
     step 2  resolve every reference; every named expression is ONE object however often it
             is referred to, an inline expression is one object per occurrence;
     step 3  for every name that nothing refers to (a root): walk its DAG in post order by
             object, build the NamedConstructNodes; nodes without name get one from a fresh
             `Namer`; a named reference `x := y` is a *copy* of y's node under the name x;
             then finalize_types (one more walk by object; typed holes are only allowed as the
             right child of a disconnect, where they become the hole name);
     last    from each root, count the paths to every witness / disconnect *name*: more
             than one is an error.
   Any error makes the result an error list.

   Not modelled: characters and tokens (logos lexer), the line grammar, type ascriptions and
   type inference (every NamedConstructNode::new / finalisation is taken to succeed), number
   formats, the jet name table.

   History (known_findings.json, F-C17b..): before the fixes `parse_cmr` returned
   `AstCmr::Literal` without the value of a `#<64 hex>` literal, so that step 3 found no right
   operand for the assertion, produced no node and reported nothing (`conv_old_assert`
   below keeps that behaviour for the refutation lemma); holes of `from_program` were called
   `hole <n>` with a space; step 3 handed out generated names that the text itself defined. *)
From RS Require Import Lib.Tac Lib.Outcome Human.Namer Human.Render.
Import ListNotations.
Local Open Scope N_scope.

(* ------------------------------------------------------------------ abstract syntax *)
Inductive expr :=
| ERef (n : name)                                    (* ExprInner::Reference *)
| EHole (n : name)                                   (* `?name`: Inline(Witness(TypedHole)) *)
| ENode (k : kind) (pay : list N) (l r : option expr)  (* ExprInner::Inline; disconnect: r = right expr *)
| EAssertLit (k : kind) (c : expr) (pay : list N)    (* assertl c #lit / assertr #lit c *)
| EAssertExpr (k : kind) (c : expr) (h : expr).      (* assertl c #{h} / assertr #{h} c *)

Record line := mk_line { ln_name : name; ln_expr : option expr }.

Inductive herr :=
| ENameIncomplete | ENameMissing | ENameRepeated | EHoleAtCommit | EHoleFilled | EWitnessRepeated
| EFuel.

Definition herr_code (e : herr) : N :=
  match e with
  | EHoleAtCommit => 5 | EHoleFilled => 6 | ENameIncomplete => 8 | ENameMissing => 9
  | ENameRepeated => 10 | EWitnessRepeated => 18 | EFuel => 99
  end.

(* ------------------------------------------------------------------ from rendered lines to syntax *)
(* parse_line / parse_expr on the text of one rendered definition *)
Definition expr_of_defline (l : defline) : expr :=
  match dl_kind l with
  | KAssertL | KAssertR =>
      EAssertLit (dl_kind l) (match dl_l l with Some a => ERef a | None => ERef NMain end) (dl_pay l)
  | KDisconnect =>
      ENode KDisconnect (dl_pay l)
            (option_map ERef (dl_l l))
            (Some (match dl_hole l with Some h => EHole h | None => EHole NMain end))
  | k => ENode k (dl_pay l) (option_map ERef (dl_l l)) (option_map ERef (dl_r l))
  end.

Definition parse_lines (ls : list defline) : list line :=
  map (fun l => mk_line (dl_name l) (Some (expr_of_defline l))) ls.

(* ------------------------------------------------------------------ step 1 *)
Definition umap := list (name * option expr).

Fixpoint um_get (um : umap) (n : name) : option (option expr) :=
  match um with
  | [] => None
  | (m, e) :: r => if name_eqb m n then Some e else um_get r n
  end.

Fixpoint um_set (um : umap) (n : name) (e : option expr) : umap :=
  match um with
  | [] => []
  | (m, e0) :: r => if name_eqb m n then (m, e) :: r else (m, e0) :: um_set r n e
  end.

(* `entry(name).or_insert(from_name)` then `add_expression` *)
Definition step1_line (acc : umap * list herr) (l : line) : umap * list herr :=
  let '(um, errs) := acc in
  match um_get um (ln_name l), ln_expr l with
  | None, e => (um ++ [(ln_name l, e)], errs)
  | Some None, Some e => (um_set um (ln_name l) (Some e), errs)
  | Some None, None => (um, errs)
  | Some (Some _), Some _ => (um, errs ++ [ENameRepeated])
  | Some (Some _), None => (um, errs)
  end.

Definition step1 (ls : list line) : umap * list herr := fold_left step1_line ls ([], []).

(* ------------------------------------------------------------------ roots: names nothing refers to *)
Fixpoint refs (e : expr) : list name :=
  match e with
  | ERef n => [n]
  | EHole _ => []
  | ENode _ _ l r =>
      match l with Some a => refs a | None => [] end ++ match r with Some b => refs b | None => [] end
  | EAssertLit _ c _ => refs c
  | EAssertExpr _ c h => refs c ++ refs h
  end.

Definition all_refs (um : umap) : list name :=
  flat_map (fun ne => match snd ne with Some e => refs e | None => [] end) um.

Definition root_names (um : umap) : list name :=
  map fst (filter (fun ne => negb (mem_name (fst ne) (all_refs um))) um).

(* ------------------------------------------------------------------ steps 2 and 3: construction *)
(* Construct stage nodes reuse `nnode`: a typed hole is a KWitness node with nn_hole = Some h;
   a disconnect has its right child in nn_r and no hole name yet. *)
Record rstate := mk_rs {
  rs_tbl : ndag;                             (* the NamedConstructNodes built so far *)
  rs_memo : list (name * option nat);        (* named expressions already converted *)
  rs_namer : namer;
  rs_errs : list herr }.

Fixpoint memo_get (m : list (name * option nat)) (n : name) : option (option nat) :=
  match m with
  | [] => None
  | (k, v) :: r => if name_eqb k n then Some v else memo_get r n
  end.

Definition add_err (e : herr) (st : rstate) : rstate :=
  mk_rs (rs_tbl st) (rs_memo st) (rs_namer st) (rs_errs st ++ [e]).
Definition memo_add (n : name) (v : option nat) (st : rstate) : rstate :=
  mk_rs (rs_tbl st) ((n, v) :: rs_memo st) (rs_namer st) (rs_errs st).
Definition push_node (n : nnode) (st : rstate) : option nat * rstate :=
  (Some (length (rs_tbl st)), mk_rs (rs_tbl st ++ [n]) (rs_memo st) (rs_namer st) (rs_errs st)).

(* `loop { fresh = namer.assign_name(inner); if !resolved_map.contains_key(fresh) { break } }` :
   generated names that the text defines itself are skipped.  `fuel` = number of defined names:
   among that many + 1 distinct candidates one is free. *)
Fixpoint fresh_loop (fuel : nat) (defined : list name) (nm : namer) (k : kind) : name * namer :=
  let '(n, nm') := assign_name nm k in
  match fuel with
  | O => (n, nm')
  | S f => if mem_name n defined then fresh_loop f defined nm' k else (n, nm')
  end.

(* name of a new node: its own name, or a fresh generated one *)
Definition fresh_name (defined : list name) (own : option name) (k : kind) (st : rstate) : name * rstate :=
  match own with
  | Some n => (n, st)
  | None => let '(n, nm) := fresh_loop (length defined) defined (rs_namer st) k in
            (n, mk_rs (rs_tbl st) (rs_memo st) nm (rs_errs st))
  end.

Section Conv.
Variable um : umap.
Let defined : list name := map fst um.
(* commitment root of a constructed node, for `assertl x #{expr}`; no theorem looks inside *)
Variable cmr_of : ndag -> nat -> list N.

(* `vis`: the named expressions being resolved (step 2 removed them from `unresolved_map`: a
   reference back to one of them finds nothing).  `own`: the name of this expression, if it is
   the right-hand side of a definition. *)
Fixpoint conv (fuel : nat) (vis : list name) (own : option name) (e : expr) (st : rstate)
  : option nat * rstate :=
  match fuel with
  | O => (None, add_err EFuel st)
  | S f =>
      let sub (c : option expr) (s : rstate) : option nat * rstate :=
          match c with Some x => conv f vis None x s | None => (None, s) end in
      match e with
      | ERef n =>
          let '(r, st1) :=
            match memo_get (rs_memo st) n with
            | Some r => (r, st)
            | None =>
                if mem_name n vis then (None, add_err ENameMissing st)
                else match um_get um n with
                     | None => (None, add_err ENameMissing st)
                     | Some None => (None, memo_add n None (add_err ENameIncomplete st))
                     | Some (Some e') =>
                         let '(r, st') := conv f (n :: vis) (Some n) e' st in
                         (r, memo_add n r st')
                     end
            end in
          match own, r with
          | Some m, Some j =>
              (* `node.renamed(name)`: a copy of the referent under this name *)
              let c := nget (rs_tbl st1) j in
              push_node (mk_nn (nn_kind c) (nn_pay c) (nn_l c) (nn_r c) m (nn_hole c)) st1
          | _, _ => (r, st1)
          end
      | EHole h =>
          (* Namer::assign_name returns the hole's own name for a typed hole *)
          push_node (mk_nn KWitness [] None None (match own with Some n => n | None => h end) (Some h)) st
      | ENode k pay l r =>
          let '(l', st1) := sub l st in
          let '(r', st2) := sub r st1 in
          let complete :=
              match arity k, k with
              | _, KDisconnect => opt_some l' && opt_some r'
              | O, _ => true
              | S O, _ => opt_some l'
              | _, _ => opt_some l' && opt_some r'
              end in
          if complete then
            let '(nme, st3) := fresh_name defined own k st2 in
            push_node (mk_nn k pay l' r' nme None) st3
          else (None, st2)
      | EAssertLit k c pay =>
          (* Dag::Unary(child): `left.map(|l| Inner::AssertL(l, cmr))` *)
          let '(c', st1) := conv f vis None c st in
          match c' with
          | Some cj =>
              let '(nme, st2) := fresh_name defined own k st1 in
              push_node (mk_nn k pay (Some cj) None nme None) st2
          | None => (None, st1)
          end
      | EAssertExpr k c h =>
          (* Dag::Binary(left, right): assertl = (c, h), assertr = (h, c) *)
          let '(first, second) := match k with KAssertR => (h, c) | _ => (c, h) end in
          let '(a, st1) := conv f vis None first st in
          let '(b, st2) := conv f vis None second st1 in
          let '(ci, hi) := match k with KAssertR => (b, a) | _ => (a, b) end in
          match ci, hi with
          | Some cj, Some hj =>
              let '(nme, st3) := fresh_name defined own k st2 in
              push_node (mk_nn k (cmr_of (rs_tbl st2) hj) (Some cj) None nme None) st3
          | _, _ => (None, st2)
          end
      end
  end.
End Conv.

(* ------------------------------------------------------------------ finalize_types_inner *)
Fixpoint map_get (m : list (nat * nat)) (i : nat) : option nat :=
  match m with
  | [] => None
  | (a, b) :: r => if Nat.eqb a i then Some b else map_get r i
  end.

Record fstate := mk_fs {
  fs_tbl : ndag;                  (* the NamedCommitNodes, in creation order *)
  fs_map : list (nat * nat);      (* construct node -> commit node (InternalSharing) *)
  fs_pending : bool;              (* FinalizeTypes::pending_hole_error *)
  fs_errs : list herr }.

Definition typed_hole (n : nnode) : option name :=
  match nn_kind n with KWitness => nn_hole n | _ => None end.

(* `convert::<InternalSharing>` with the FinalizeTypes converter: children first; visit_node
   (the hole state machine); convert_disconnect; convert_data *)
Fixpoint fin (fuel : nat) (t : ndag) (i : nat) (st : fstate) : option nat * fstate :=
  match fuel with
  | O => (None, mk_fs (fs_tbl st) (fs_map st) (fs_pending st) (fs_errs st ++ [EFuel]))
  | S f =>
      match map_get (fs_map st) i with
      | Some j => (Some j, st)
      | None =>
          let n := nget t i in
          let '(l', st1) := match nn_l n with Some c => fin f t c st | None => (None, st) end in
          let '(r', st2) := match nn_r n with Some c => fin f t c st1 | None => (None, st1) end in
          let is_disc := kind_eqb (nn_kind n) KDisconnect in
          (* visit_node *)
          let errs1 := if is_disc then fs_errs st2
                       else if fs_pending st2 then fs_errs st2 ++ [EHoleAtCommit] else fs_errs st2 in
          let pending := if is_disc then false else opt_some (typed_hole n) in
          (* convert_disconnect *)
          let '(hole, errs2) :=
            if is_disc then
              match nn_r n with
              | Some c => match typed_hole (nget t c) with
                          | Some h => (Some h, errs1)
                          | None => (Some (NUser 0), errs1 ++ [EHoleFilled])
                          end
              | None => (Some (NUser 0), errs1 ++ [EHoleFilled])
              end
            else (None, errs1) in
          let j := length (fs_tbl st2) in
          (Some j,
           mk_fs (fs_tbl st2 ++ [mk_nn (nn_kind n) (nn_pay n) l' (if is_disc then None else r') (nn_name n) hole])
                 ((i, j) :: fs_map st2) pending errs2)
      end
  end.

(* ------------------------------------------------------------------ values computed bottom-up over a table *)
Section Eval.
Context {X : Type}.
Variable dflt : X.
Variable f : nnode -> option X -> option X -> X.

Fixpoint eval_go (pre : list X) (rest : ndag) : list X :=
  match rest with
  | [] => pre
  | n :: r =>
      eval_go (pre ++ [f n (option_map (fun c => nth c pre dflt) (nn_l n))
                           (option_map (fun c => nth c pre dflt) (nn_r n))]) r
  end.
Definition eval_tbl (d : ndag) : list X := eval_go [] d.
End Eval.

(* ------------------------------------------------------------------ witness / disconnect names per path *)
Definition counts := list (name * N).

Fixpoint cnt_get (c : counts) (n : name) : N :=
  match c with
  | [] => 0
  | (m, k) :: r => if name_eqb m n then k else cnt_get r n
  end.

Fixpoint cnt_add (c : counts) (n : name) (k : N) : counts :=
  match c with
  | [] => [(n, k)]
  | (m, k0) :: r => if name_eqb m n then (m, k0 + k) :: r else (m, k0) :: cnt_add r n k
  end.

Definition cnt_merge (a b : counts) : counts := fold_left (fun acc nk => cnt_add acc (fst nk) (snd nk)) b a.

Definition counted (n : nnode) : bool :=
  kind_eqb (nn_kind n) KDisconnect || kind_eqb (nn_kind n) KWitness.

Definition cnt_node (n : nnode) (l r : option counts) : counts :=
  let c := cnt_merge (match l with Some a => a | None => [] end) (match r with Some b => b | None => [] end) in
  if counted n then cnt_add c (nn_name n) 1 else c.

Definition path_counts (d : ndag) : counts := nth (root_of d) (eval_tbl [] cnt_node d) [].

Definition path_errs (d : ndag) : list herr :=
  flat_map (fun nk => if 1 <? snd nk then [EWitnessRepeated] else []) (path_counts d).

(* ------------------------------------------------------------------ parse_inner *)
Definition total_size (um : umap) : nat :=
  fold_left (fun acc ne => acc + 1 +
     (fix sz (e : expr) : nat :=
        match e with
        | ERef _ | EHole _ => 1
        | ENode _ _ l r => 1 + match l with Some a => sz a | None => 0 end + match r with Some b => sz b | None => 0 end
        | EAssertLit _ c _ => 1 + sz c
        | EAssertExpr _ c h => 1 + sz c + sz h
        end) (match snd ne with Some e => e | None => ERef NMain end))%nat um 1%nat.

Section Resolve.
Variable cmr_of : ndag -> nat -> list N.

(* one root: construction with a fresh Namer, then finalisation, then the path count.
   Third component: the named expressions that were resolved on the way. *)
Definition resolve_root (um : umap) (fuel : nat) (n : name) : list herr * option ndag * list name :=
  let '(r, st) := conv um cmr_of fuel [] None (ERef n) (mk_rs [] [] namer_new []) in
  let seen := map fst (rs_memo st) in
  match r with
  | None => (rs_errs st, None, seen)    (* `if let Some(Some(root)) = converted.pop()` *)
  | Some j =>
      let t := rs_tbl st in
      let '(_, fst_) := fin (S (length t)) t j (mk_fs [] [] false []) in
      let d := fs_tbl fst_ in
      let errs := rs_errs st ++ fs_errs fst_ in
      match fs_errs fst_ with
      | [] => (errs ++ path_errs d, Some d, seen)
      | _ => (errs, None, seen)         (* finalisation failed: the root is not inserted *)
      end
  end.

Definition forest := list (name * ndag).

(* A definition that no root reaches lies on (or below) a cycle of references none of whose
   members is unreferenced.  Step 2 starts its walk inside such a cycle somewhere, the reference
   that closes the cycle finds its target neither resolved nor unresolved (`Missing`), the
   member it started from ends up with in-degree 0 and step 3 reports NameMissing for it. *)
Definition unreached (um : umap) (seen : list name) : list herr :=
  if forallb (fun ne => mem_name (fst ne) seen) um then [] else [ENameMissing].

Definition resolve (ls : list line) : outcome (list herr) forest :=
  let '(um, errs1) := step1 ls in
  let fuel := (2 * total_size um + 2)%nat in
  let results := map (fun n => (n, resolve_root um fuel n)) (root_names um) in
  let errs := errs1 ++ flat_map (fun x => fst (fst (snd x))) results
              ++ unreached um (flat_map (fun x => snd (snd x)) results) in
  let roots := flat_map (fun x => match snd (fst (snd x)) with Some d => [(fst x, d)] | None => [] end) results in
  match errs with
  | [] => Ok roots
  | _ => Err errs
  end.

(* Forest::parse on a rendered text *)
Definition resolve_lines (ls : list defline) : outcome (list herr) forest := resolve (parse_lines ls).
End Resolve.
