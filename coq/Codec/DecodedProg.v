(* C01 - the program the decoder rebuilds from what encode_program writes, at the level of PDL programs:
   the yielded items of the post-order iteration under the sharing ids, children = yielded indices, payload
   (and witness value) of the first-yielded node of every class.  Used by Codec/RunRoots.v (executable model of
   the correspondence check) and Codec/Quotient.v (theorems). *)
From RS Require Import Lib.Tac Lib.Outcome Lib.Bits Lib.ListExtra Ty.Ty Core.Prog
  Codec.NodeCodec Codec.Linearise Codec.WitnessCodec Codec.Run.
Import ListNotations.
Local Open Scope N_scope.

(* the node of a yielded item: constructor and payload of the PDL node, children = yielded indices *)
Definition relabel_node (nd : node) (cis : list nat) : node :=
  match nd, cis with
  | NInjL _, [c] => NInjL c
  | NInjR _, [c] => NInjR c
  | NTake _, [c] => NTake c
  | NDrop _, [c] => NDrop c
  | NComp _ _, [l; r] => NComp l r
  | NCase _ _, [l; r] => NCase l r
  | NPair _ _, [l; r] => NPair l r
  | NDisconnect _ _, [l; r] => NDisconnect l (Some r)
  | NDisconnect _ _, [l] => NDisconnect l None
  | _, _ => nd
  end.

Definition decoded_prog (p : prog) (keys : list (option N)) : prog :=
  let ns := map (pdl_node true) p in
  map (fun it => relabel_node (nth (N.to_nat (fst it)) p NUnit) (map N.to_nat (snd it)))
      (traverse (fun n => dchildren (node_at ns n)) (key_list keys) (N.of_nat (length ns) - 1)).

