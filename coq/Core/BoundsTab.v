(* The bottom-up computation of NodeBounds over a node table (the shape RedeemData::new has:
   every node once, children looked up by index, so sharing costs nothing) gives, for every
   node, the bounds of the tree that execution unfolds from it: sharing is irrelevant for the
   bounds as it is for execution. *)
From RS Require Import Lib.Tac Lib.Outcome Lib.Bits Ty.Ty Core.Prog Core.Term Core.Typing
  Core.Bounds Core.Machine.
Import ListNotations.
Local Open Scope N_scope.

Definition wnode_of (e : node * option arrow) : wnode :=
  (fst e, match snd e with Some (a, b) => (bw a, bw b) | None => (0, 0) end).
Definition wprog_of (p : typed_prog) : list wnode := map wnode_of p.

Section Tab.
  Variable jet_cost : N -> N.
  Notation dflt := (nb_fail, (0, 0)).
  Notation entry p done n := (bounds_node' jet_cost p done n, snd n).

  Lemma aux_app p : forall todo done,
    exists rest, bounds_tab_aux jet_cost p done todo = done ++ rest /\ length rest = length todo.
  Proof.
    induction todo as [|n r IH]; intros done; cbn [bounds_tab_aux].
    - exists []. rewrite app_nil_r. auto.
    - destruct (IH (done ++ [entry p done n])) as (rest & E & L).
      exists (entry p done n :: rest). rewrite E, <- app_assoc. cbn [app length]. auto.
  Qed.

  (* entry i of the result is computed from the entries before it *)
  Lemma aux_nth p : forall todo done i n,
    nth_error todo i = Some n ->
    exists done', firstn (length done + i) (bounds_tab_aux jet_cost p done todo) = done' /\
      length done' = (length done + i)%nat /\
      nth (length done + i) (bounds_tab_aux jet_cost p done todo) dflt = entry p done' n.
  Proof.
    induction todo as [|m r IH]; intros done i n H; [destruct i; discriminate|].
    cbn [bounds_tab_aux]. destruct i as [|i]; cbn [nth_error] in H.
    - injection H as <-. destruct (aux_app p r (done ++ [entry p done m])) as (rest & E & L).
      rewrite E, <- app_assoc, Nat.add_0_r. exists done. repeat split.
      + rewrite firstn_app, Nat.sub_diag, firstn_all. cbn [firstn]. apply app_nil_r.
      + rewrite app_nth2, Nat.sub_diag by lia. reflexivity.
    - destruct (IH (done ++ [entry p done m]) i n H) as (done' & E1 & E2 & E3).
      rewrite app_length in E1, E2, E3. cbn [length] in E1, E2, E3.
      replace (length done + 1 + i)%nat with (length done + S i)%nat in E1, E2, E3 by lia.
      exists done'. auto.
  Qed.

  Lemma tab_nth p i n : nth_error p i = Some n ->
    nth i (bounds_tab jet_cost p) dflt = entry p (firstn i (bounds_tab jet_cost p)) n.
  Proof.
    intros H. destruct (aux_nth p p [] i n H) as (done' & E1 & E2 & E3). cbn [length Nat.add] in *.
    unfold bounds_tab. rewrite E3, E1. reflexivity.
  Qed.

  Lemma tab_length p : length (bounds_tab jet_cost p) = length p.
  Proof. unfold bounds_tab. destruct (aux_app p p []) as (rest & E & L). rewrite E. exact L. Qed.

  Lemma nth_firstn {T} (l : list T) i c d : (c < i)%nat -> nth c (firstn i l) d = nth c l d.
  Proof.
    revert l c. induction i as [|i IH]; intros l c H; [lia|].
    destruct l as [|x r]; [destruct c; reflexivity|]. destruct c as [|c]; [reflexivity|].
    cbn [firstn nth]. apply IH. lia.
  Qed.

  (* children point backwards *)
  Lemma wf_from_spec : forall (p : prog) k i n, wf_from k p = true -> nth_error p i = Some n ->
    forall c, In c (children n) -> (c < k + i)%nat.
  Proof.
    induction p as [|m r IH]; intros k i n W H c Hc; [destruct i; discriminate|].
    cbn [wf_from] in W. apply andb_true_iff in W. destruct W as [W1 W2].
    destruct i as [|i]; cbn [nth_error] in H.
    - injection H as <-. rewrite forallb_forall in W1. specialize (W1 c Hc). apply Nat.ltb_lt in W1. lia.
    - specialize (IH (S k) i n W2 H c Hc). lia.
  Qed.

  Variable tp : typed_prog.
  Variable cm : cmr_table.
  Hypothesis Hwf : wf_from 0 (map fst tp) = true.

  Let wp := wprog_of tp.
  Let tab := bounds_tab jet_cost wp.

  Lemma child_lt i e c : nth_error tp i = Some e -> In c (children (fst e)) -> (c < i)%nat.
  Proof using Hwf.
    intros H Hc. apply (wf_from_spec (map fst tp) 0 i (fst e) Hwf); [|exact Hc].
    rewrite nth_error_map, H. reflexivity.
  Qed.

  Lemma term_of_arrow : forall fuel i t e, term_of fuel tp cm i = Some t -> nth_error tp i = Some e ->
    snd e = Some (arrow_of t).
  Proof.
    destruct fuel as [|f]; intros i t [n oar] H He; [discriminate|]. cbn [term_of] in H. rewrite He in H.
    cbn [snd]. destruct n, oar as [ar|]; try discriminate;
      repeat match type of H with
             | option_map _ ?x = Some _ => destruct x; cbn [option_map] in H; try discriminate
             | match ?x with _ => _ end = Some _ => destruct x; try discriminate
             end; injection H as <-; reflexivity.
  Qed.

  Lemma is_hidden i h oar : nth_error tp i = Some (NHidden h, oar) ->
    nth_error wp i = Some (NHidden h, snd (wnode_of (NHidden h, oar))).
  Proof. intros H. unfold wp, wprog_of. rewrite nth_error_map, H. reflexivity. Qed.

  Theorem bounds_tab_term : forall fuel i t, term_of fuel tp cm i = Some t ->
    nth i tab dflt = (bounds jet_cost t, (bw (src t), bw (tgt t))).
  Proof using Hwf.
    induction fuel as [|f IH]; intros i t H; [discriminate|].
    cbn [term_of] in H. destruct (nth_error tp i) as [[n oar]|] eqn:He; [|discriminate].
    assert (Hw : nth_error wp i = Some (wnode_of (n, oar))) by (unfold wp, wprog_of; rewrite nth_error_map, He; reflexivity).
    unfold tab. rewrite (tab_nth wp i _ Hw). fold tab.
    assert (Hch : forall c, In c (children n) -> nth c (firstn i tab) dflt = nth c tab dflt).
    { intros c Hc. apply nth_firstn. exact (child_lt i (n, oar) c He Hc). }
    assert (Hsub : forall c tc, In c (children n) -> term_of f tp cm c = Some tc ->
              nth c (firstn i tab) dflt = (bounds jet_cost tc, (bw (src tc), bw (tgt tc)))).
    { intros c tc Hc Hs. rewrite (Hch c Hc). apply IH. exact Hs. }
    unfold wnode_of. cbn [fst snd].
    destruct n; destruct oar as [[A B]|]; try discriminate; cbn [children] in Hsub;
      unfold bounds_node'; cbn [fst snd bounds_node].
    - injection H as <-. reflexivity.
    - injection H as <-. reflexivity.
    - destruct (term_of f tp cm c) as [tc|] eqn:Ec; [|discriminate]. injection H as <-.
      rewrite (Hsub c tc (or_introl eq_refl) Ec). reflexivity.
    - destruct (term_of f tp cm c) as [tc|] eqn:Ec; [|discriminate]. injection H as <-.
      rewrite (Hsub c tc (or_introl eq_refl) Ec). reflexivity.
    - destruct (term_of f tp cm c) as [tc|] eqn:Ec; [|discriminate]. injection H as <-.
      rewrite (Hsub c tc (or_introl eq_refl) Ec). reflexivity.
    - destruct (term_of f tp cm c) as [tc|] eqn:Ec; [|discriminate]. injection H as <-.
      rewrite (Hsub c tc (or_introl eq_refl) Ec). reflexivity.
    - destruct (term_of f tp cm l) as [tl|] eqn:El; [|discriminate].
      destruct (term_of f tp cm r) as [tr|] eqn:Er; [|discriminate]. injection H as <-.
      rewrite (Hsub l tl (or_introl eq_refl) El), (Hsub r tr (or_intror (or_introl eq_refl)) Er). reflexivity.
    - (* case: the three shapes *)
      unfold wp, wprog_of. rewrite !nth_error_map.
      destruct (nth_error tp l) as [[nl ol]|] eqn:Hl; cbn [option_map];
        destruct (nth_error tp r) as [[nr or_]|] eqn:Hr; cbn [option_map wnode_of fst snd].
      + destruct nl, nr; cbv beta iota in H; try discriminate;
          repeat match type of H with
                 | option_map _ ?x = Some _ => destruct x eqn:?; cbn [option_map] in H; try discriminate
                 | match ?x with _ => _ end = Some _ => destruct x eqn:?; try discriminate
                 end; injection H as <-;
          repeat match goal with
                 | E : term_of f tp cm l = Some ?tl |- _ => rewrite (Hsub l tl (or_introl eq_refl) E); clear E
                 | E : term_of f tp cm r = Some ?tr |- _ => rewrite (Hsub r tr (or_intror (or_introl eq_refl)) E); clear E
                 end; reflexivity.
      + destruct nl; cbv beta iota in H; try discriminate;
          repeat match type of H with
                 | option_map _ ?x = Some _ => destruct x eqn:?; cbn [option_map] in H; try discriminate
                 | match ?x with _ => _ end = Some _ => destruct x eqn:?; try discriminate
                 end; injection H as <-;
          repeat match goal with
                 | E : term_of f tp cm l = Some ?tl |- _ => rewrite (Hsub l tl (or_introl eq_refl) E); clear E
                 | E : term_of f tp cm r = Some ?tr |- _ => rewrite (Hsub r tr (or_intror (or_introl eq_refl)) E); clear E
                 end; reflexivity.
      + destruct nr; cbv beta iota in H; try discriminate;
          repeat match type of H with
                 | option_map _ ?x = Some _ => destruct x eqn:?; cbn [option_map] in H; try discriminate
                 | match ?x with _ => _ end = Some _ => destruct x eqn:?; try discriminate
                 end; injection H as <-;
          repeat match goal with
                 | E : term_of f tp cm l = Some ?tl |- _ => rewrite (Hsub l tl (or_introl eq_refl) E); clear E
                 | E : term_of f tp cm r = Some ?tr |- _ => rewrite (Hsub r tr (or_intror (or_introl eq_refl)) E); clear E
                 end; reflexivity.
      + cbv beta iota in H;
          repeat match type of H with
                 | option_map _ ?x = Some _ => destruct x eqn:?; cbn [option_map] in H; try discriminate
                 | match ?x with _ => _ end = Some _ => destruct x eqn:?; try discriminate
                 end; injection H as <-;
          repeat match goal with
                 | E : term_of f tp cm l = Some ?tl |- _ => rewrite (Hsub l tl (or_introl eq_refl) E); clear E
                 | E : term_of f tp cm r = Some ?tr |- _ => rewrite (Hsub r tr (or_intror (or_introl eq_refl)) E); clear E
                 end; reflexivity.
    - destruct (term_of f tp cm l) as [tl|] eqn:El; [|discriminate].
      destruct (term_of f tp cm r) as [tr|] eqn:Er; [|discriminate]. injection H as <-.
      rewrite (Hsub l tl (or_introl eq_refl) El), (Hsub r tr (or_intror (or_introl eq_refl)) Er). reflexivity.
    - destruct r as [r|]; [|discriminate].
      destruct (term_of f tp cm l) as [tl|] eqn:El; [|discriminate].
      destruct (term_of f tp cm r) as [tr|] eqn:Er; [|discriminate].
      destruct (lookup_cmr cm r) as [c|]; [|discriminate]. injection H as <-.
      cbn [children] in Hsub.
      rewrite (Hsub l tl (or_introl eq_refl) El), (Hsub r tr (or_intror (or_introl eq_refl)) Er). reflexivity.
    - destruct r; discriminate.
    - injection H as <-. reflexivity.
    - injection H as <-. reflexivity.
    - injection H as <-. reflexivity.
    - cbn [snd] in H. destruct (wit_pbits w B) as [bits|]; cbn [option_map] in H; [|discriminate].
      injection H as <-. reflexivity.
  Qed.
End Tab.
