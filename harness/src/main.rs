//! verif-harness: runs the implementation (/repo working tree) on generated cases and
//! prints canonical results, one line per case: `<id> <numbers...>`.
//!
//! usage: verif-harness <command> <casefile>
mod bits;
mod budget;
mod cdiff;
mod cdiff_env;
mod codec;
mod codec_wit;
mod conc;
mod core;
mod dag;
mod env;
mod findings;
mod human;
mod infer;
mod jets;
mod merkle;
mod policy;
mod prog;
mod redeem;
mod util;
mod value;

use std::io::{BufRead, Write};

/// Counting allocator: peak of live heap bytes since the last reset (used by the decoder checks to
/// relate allocation to input size).
pub mod alloc_count {
    use std::alloc::{GlobalAlloc, Layout, System};
    use std::sync::atomic::{AtomicUsize, Ordering};
    static CUR: AtomicUsize = AtomicUsize::new(0);
    static PEAK: AtomicUsize = AtomicUsize::new(0);
    pub struct Counting;
    unsafe impl GlobalAlloc for Counting {
        unsafe fn alloc(&self, l: Layout) -> *mut u8 {
            let p = System.alloc(l);
            if !p.is_null() {
                let c = CUR.fetch_add(l.size(), Ordering::Relaxed) + l.size();
                PEAK.fetch_max(c, Ordering::Relaxed);
            }
            p
        }
        unsafe fn dealloc(&self, p: *mut u8, l: Layout) {
            CUR.fetch_sub(l.size(), Ordering::Relaxed);
            System.dealloc(p, l)
        }
        unsafe fn alloc_zeroed(&self, l: Layout) -> *mut u8 {
            let p = System.alloc_zeroed(l);
            if !p.is_null() {
                let c = CUR.fetch_add(l.size(), Ordering::Relaxed) + l.size();
                PEAK.fetch_max(c, Ordering::Relaxed);
            }
            p
        }
        unsafe fn realloc(&self, p: *mut u8, l: Layout, new: usize) -> *mut u8 {
            let q = System.realloc(p, l, new);
            if !q.is_null() {
                if new >= l.size() {
                    let c = CUR.fetch_add(new - l.size(), Ordering::Relaxed) + (new - l.size());
                    PEAK.fetch_max(c, Ordering::Relaxed);
                } else {
                    CUR.fetch_sub(l.size() - new, Ordering::Relaxed);
                }
            }
            q
        }
    }
    /// forget the peak: from now on `peak_since_reset` is relative to the bytes live now
    pub fn reset() -> usize {
        let c = CUR.load(Ordering::Relaxed);
        PEAK.store(c, Ordering::Relaxed);
        c
    }
    pub fn peak_since(base: usize) -> usize {
        PEAK.load(Ordering::Relaxed).saturating_sub(base)
    }
}
#[global_allocator]
static GLOBAL: alloc_count::Counting = alloc_count::Counting;

#[repr(C)]
struct RLimit {
    cur: u64,
    max: u64,
}
extern "C" {
    fn setrlimit(resource: i32, rlim: *const RLimit) -> i32;
}
const RLIMIT_AS: i32 = 9; // Linux

fn main() {
    let args: Vec<String> = std::env::args().collect();
    if args.len() < 3 {
        eprintln!("usage: verif-harness <command> <casefile>");
        std::process::exit(2);
    }
    // optional address-space limit (MiB): a decoder allocating without bound dies and the
    // driver marks the case CRASH
    let mb: u64 = std::env::var("VERIF_AS_LIMIT_MB").ok().and_then(|s| s.parse().ok()).unwrap_or(0);
    if mb > 0 {
        let lim = RLimit { cur: mb << 20, max: mb << 20 };
        unsafe {
            setrlimit(RLIMIT_AS, &lim);
        }
    }
    // silence panic messages: panics are data here
    if std::env::var_os("VERIF_PANIC_MSG").is_none() {
        std::panic::set_hook(Box::new(|_| {}));
    }
    let file = std::fs::File::open(&args[2]).expect("open case file");
    let rd = std::io::BufReader::new(file);
    let out = std::io::stdout();
    let mut out = std::io::BufWriter::new(out.lock());
    for line in rd.lines() {
        let line = line.expect("read line");
        let line = line.trim();
        if line.is_empty() || line.starts_with('#') {
            continue;
        }
        let toks: Vec<&str> = line.split_whitespace().collect();
        let id = toks[0];
        let res: String = match args[1].as_str() {
            "bits" => bits::run(&toks[1..]),
            "budget" => budget::run(&toks[1..]),
            "findings" => findings::run(&toks[1..]),
            "prog" => prog::run(&toks[1..]),
            "jets" => jets::run(&toks[1..]),
            "policy" => policy::run(&toks[1..]),
            "value" => value::run(&toks[1..]),
            "c01" => codec::run_c01(&toks[1..]),
            "c02" => codec::run_c02(&toks[1..]),
            "redeem" => redeem::run(&toks[1..]),
            "infer" => infer::run(&toks[1..]),
            "env" => env::run(&toks[1..]),
            "conc" => conc::run(&toks[1..]),
            "c03" => cdiff::run_c03(&toks[1..]),
            "c06" => cdiff::run_c06(&toks[1..]),
            "dag" => dag::run(&toks[1..]),
            "human" => human::run(&toks[1..]),
            "roots" => merkle::run(&toks[1..]),
            "core" => core::run(&toks[1..]),
            other => {
                eprintln!("unknown command {}", other);
                std::process::exit(2);
            }
        };
        writeln!(out, "{} {}", id, res).unwrap();
    }
    out.flush().unwrap();
}
