(* C01 / C02 - executable entry points for the correspondence check.  Each maps a case to a flat `list N`
   in the canonical form of harness_codec/src/codec.rs (see tools/props/codec_common.py for the views).
   Jets are positions in `J::ALL`; the code table of the family is supplied by the case file
   (`jet_table_of [(n, len); ...]`, read from the implementation). *)
From RS Require Import Lib.Tac Lib.Outcome Lib.Bits Lib.ListExtra Lib.Sweep Ty.Ty Core.Prog
  Bits.Natural Bits.BitIter Codec.NodeCodec Codec.JetTab Codec.Linearise Codec.PoStack Codec.Decode Codec.WitnessCodec.
Import ListNotations.
Local Open Scope N_scope.

Definition dn := dnode N.

(* ------------------------------------------------------------------ numeric forms *)
Definition nat_err_triple (e : nat_err) : list N :=
  match e with
  | EndOfStream => [17; 0; 0]
  | Overflow => [18; 0; 0]
  | BadIndex got max => [16; got; max]
  end.

Definition err_triple (e : dec_err) : list N :=
  match e with
  | EEndOfStream => [13; 0; 0]
  | EInvalidJet => [15; 0; 0]
  | ENatural ne => nat_err_triple ne
  | EBothChildrenHidden => [12; 0; 0]
  | EHiddenNode => [14; 0; 0]
  | ENotInCanonicalOrder => [19; 0; 0]
  | ESharingNotMaximal => [20; 0; 0]
  | EClose (TrailingBytes b) => [10; b; 0]
  | EClose (IllegalPadding m n) => [11; m; n]
  end.

Definition dnode_nums (d : dn) : list N :=
  match d with
  | DIden => [0]
  | DUnit => [1]
  | DInjL i => [2; i]
  | DInjR i => [3; i]
  | DTake i => [4; i]
  | DDrop i => [5; i]
  | DComp i j => [6; i; j]
  | DCase i j => [7; i; j]
  | DPair i j => [8; i; j]
  | DDisconnect1 i => [9; i]
  | DDisconnect i j => [10; i; j]
  | DWitness => [11]
  | DFail e => 12 :: e
  | DHidden h => 13 :: h
  | DJet j => [14; j]
  | DWord n w => 15 :: n :: pack w
  end.

(* ------------------------------------------------------------------ recursive traversal = stack machine *)
Definition items_eqb (a b : list (N * list N)) : bool :=
  list_beq (fun x y => (fst x =? fst y) && list_beq N.eqb (snd x) (snd y)) a b.

Definition trav_agree (ns : list dn) (key : N -> option N) : bool :=
  let ch := fun n => dchildren (node_at ns n) in
  let root := N.of_nat (length ns) - 1 in
  match stack_traverse ch key root with
  | Ok items => items_eqb items (traverse ch key root)
  | _ => false
  end.

(* ------------------------------------------------------------------ C02 *)
(* [0; L; nodes...; structural triple; close triple] or an error triple of the syntactic layer;
   [7;7;7] if the two traversals disagree (never, see C18) *)
Definition run_c02 (jt : jtable) (bytes : list N) : list N :=
  let bits := bits_of_bytes bytes in
  match dec_prog N (jet_dec_tab jt) bits with
  | Err e => err_triple e
  | Panic c => [9; c; 0]
  | OutOfFuel => [8; 0; 0]
  | Ok (ns, rest) =>
      if negb (trav_agree ns key_ptr) then [7; 7; 7] else
      let nums := flat_map dnode_nums ns in
      [0; N.of_nat (length nums)] ++ nums ++
      match dec_struct ns with
      | Ok _ =>
          [0; 0; 0] ++
          match close_after bytes (N.of_nat (length bits - length rest)) with
          | Ok _ => [0; 0; 0]
          | Err ce => err_triple (EClose ce)
          | Panic c => [9; c; 0]
          | OutOfFuel => [8; 0; 0]
          end
      | Err e => err_triple e ++ [0; 0; 0]
      | Panic c => [9; c; 0; 0; 0; 0]
      | OutOfFuel => [8; 0; 0; 0; 0; 0]
      end
  end.

(* ------------------------------------------------------------------ C01 *)
(* the encoder's view of a PDL program (Core/Prog.v): hidden nodes are entries of their own; at commitment
   time a disconnect node has no right child ([redeem] = false) *)
Definition pdl_node (redeem : bool) (n : node) : dn :=
  match n with
  | NIden => DIden
  | NUnit => DUnit
  | NInjL c => DInjL (N.of_nat c)
  | NInjR c => DInjR (N.of_nat c)
  | NTake c => DTake (N.of_nat c)
  | NDrop c => DDrop (N.of_nat c)
  | NComp l r => DComp (N.of_nat l) (N.of_nat r)
  | NCase l r => DCase (N.of_nat l) (N.of_nat r)
  | NPair l r => DPair (N.of_nat l) (N.of_nat r)
  | NDisconnect l (Some r) => if redeem then DDisconnect (N.of_nat l) (N.of_nat r) else DDisconnect1 (N.of_nat l)
  | NDisconnect l None => DDisconnect1 (N.of_nat l)
  | NHidden cmr => DHidden cmr
  | NFail e => DFail e
  | NJet _ id => DJet id
  | NWord n bits => DWord (N.of_nat n) bits
  | NWitness _ => DWitness
  end.

Definition wit_bits_of (p : prog) (n : N) : list bool :=
  match nth (N.to_nat n) p NUnit with
  | NWitness (WCompact b) => b
  | NWitness (WTyped _ b) => b
  | _ => []
  end.

(* [0; |prog bytes|; prog bytes; |witness bytes|; witness bytes; a; b]
   a = the model's decoder returns exactly the node list the model's encoder wrote, and nothing is left
   b = the decoder's second pass accepts that list (both are 1 whenever the implementation decodes its own
   output without a type error)
   [7;7;7] if the two traversals disagree *)
Definition run_c01 (jt : jtable) (redeem : bool) (p : prog) (keys : list (option N)) : list N :=
  let ns := map (pdl_node redeem) p in
  let key := key_list keys in
  if negb (trav_agree ns key && trav_agree (redeem_view ns) key) then [7; 7; 7] else
  let lin := linearise ns key in
  let pbits := enc_prog N (jet_enc_tab jt) lin in
  let wbits := if redeem then witness_stream ns key (wit_bits_of p) else [] in
  let pbytes := pack pbits in
  let wbytes := pack wbits in
  let a := match dec_prog N (jet_dec_tab jt) (bits_of_bytes pbytes) with
           | Ok (ns', rest) =>
               list_beq N.eqb (flat_map dnode_nums ns') (flat_map dnode_nums lin) && forallb negb rest
           | _ => false
           end in
  let b := match dec_struct lin with Ok _ => true | _ => false end in
  [0; N.of_nat (length pbytes)] ++ pbytes ++ [N.of_nat (length wbytes)] ++ wbytes ++ [b2n a; b2n b].
