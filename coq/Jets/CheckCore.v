(* C14: finite checks over the complete core table (Generated/Jets_core.v), each by vm_compute,
   lifted to quantified statements with the lemmas of Jets/JetLemmas.v. *)
From RS Require Import Lib.Tac Lib.Outcome Lib.Bits Lib.Sweep Ty.Ty Jets.TypeName Jets.JetTable Jets.JetLemmas
  Generated.Jets_core.
From Coq Require Import String.
Import ListNotations.
Local Open Scope N_scope.

Lemma core_length : List.length (f_rows core_family) = 368%nat.
Proof. vm_compute. reflexivity. Qed.

Lemma core_idx_b : idx_ok core_family = true.
Proof. vm_compute. reflexivity. Qed.

Lemma core_table :
  List.length (f_rows core_family) = 368%nat /\
  map j_idx (f_rows core_family) = upto 368 /\ f_all core_family = upto 368 /\ f_all_len core_family = 368.
Proof.
  pose proof (idx_lift _ core_idx_b) as H. rewrite core_length in H. split; [exact core_length|exact H].
Qed.

Lemma core_roundtrip_b : forallb (roundtrip_ok core_family) (f_rows core_family) = true.
Proof. vm_compute. reflexivity. Qed.

Lemma core_roundtrip : forall j, In j (f_rows core_family) -> forall r,
  jet_encode j = Ok (jet_code j) /\
  decode (f_tree core_family) (jet_code j ++ r) = Ok (j_idx j, r).
Proof.
  intros j Hj r. pose proof core_roundtrip_b as H. rewrite forallb_forall in H.
  destruct (roundtrip_lift _ _ (H j Hj)) as [H1 H2]. split; [exact H1|apply H2].
Qed.

Lemma core_leaves_b : forallb (leaf_ok core_family) (tree_leaves (f_tree core_family)) = true.
Proof. vm_compute. reflexivity. Qed.

Lemma core_decode_complete : forall b i r, decode (f_tree core_family) b = Ok (i, r) ->
  exists j, row_at core_family i = Some j /\ j_idx j = i /\ b = jet_code j ++ r.
Proof. exact (decode_complete _ core_leaves_b). Qed.

Lemma core_prefix_b : forallb (prefix_free_ok core_family) (f_rows core_family) = true.
Proof. vm_compute. reflexivity. Qed.

Lemma core_prefix_free : forall j k, In j (f_rows core_family) -> In k (f_rows core_family) ->
  j_idx j <> j_idx k -> forall r, jet_code k <> jet_code j ++ r.
Proof. exact (prefix_free_lift _ core_prefix_b). Qed.

Lemma core_names_b : forallb (name_ok core_family) (f_rows core_family) = true.
Proof. vm_compute. reflexivity. Qed.

Lemma core_names :
  (forall j, In j (f_rows core_family) -> parse core_family (j_name j) = Ok (j_idx j)) /\
  (forall j k, In j (f_rows core_family) -> In k (f_rows core_family) -> j_name j = j_name k -> j_idx j = j_idx k).
Proof. exact (names_lift _ core_names_b). Qed.

Lemma core_fromstr_b : forallb (fromstr_ok core_family) (f_fromstr core_family) = true.
Proof. vm_compute. reflexivity. Qed.

Lemma core_parse_sound : forall s i, parse core_family s = Ok i ->
  exists j, row_at core_family i = Some j /\ j_idx j = i /\ j_name j = s.
Proof. exact (fromstr_lift _ core_fromstr_b). Qed.

Lemma core_types_b : forallb types_ok (f_rows core_family) = true.
Proof. vm_compute. reflexivity. Qed.

Lemma core_types : forall j, In j (f_rows core_family) -> tn_good (j_src j) /\ tn_good (j_tgt j).
Proof.
  intros j Hj. pose proof core_types_b as H. rewrite forallb_forall in H. apply types_lift, H, Hj.
Qed.
