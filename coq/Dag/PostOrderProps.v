(* C18 - what the recursive specification (hence, by po_refines, the iterator) guarantees:
   consecutive indices, every keyed class at most once, children first with true child
   indices, the root's class yielded. *)
From RS Require Import Lib.Tac Lib.Outcome Dag.DagModel Dag.PostOrderSpec.
Import ListNotations.
Local Open Scope N_scope.

Definition len {A} (l : list A) : N := N.of_nat (length l).
Definition item_at {A} (all : list A) (j : N) : option A := nth_error all (N.to_nat j).

Lemma len_app {A} (a b : list A) : len (a ++ b) = len a + len b.
Proof. unfold len. rewrite app_length. lia. Qed.

Lemma item_at_app1 {A} (a b : list A) j x : item_at a j = Some x -> item_at (a ++ b) j = Some x.
Proof.
  unfold item_at. intros H. rewrite nth_error_app1; [exact H|].
  apply nth_error_Some. rewrite H. discriminate.
Qed.

Lemma item_at_lt {A} (a : list A) j x : item_at a j = Some x -> j < len a.
Proof.
  unfold item_at, len. intros H.
  assert (N.to_nat j < length a)%nat by (apply nth_error_Some; rewrite H; discriminate). lia.
Qed.

Lemma item_at_last {A} (a : list A) x : item_at (a ++ [x]) (len a) = Some x.
Proof.
  unfold item_at, len. rewrite Nnat.Nat2N.id, nth_error_app2 by lia.
  rewrite Nat.sub_diag. reflexivity.
Qed.

Lemma item_at_In {A} (a : list A) j x : item_at a j = Some x -> In x a.
Proof. unfold item_at. apply nth_error_In. Qed.

Lemma tm_get_cons k i m k' :
  tm_get ((k, i) :: m) k' = if k =? k' then Some i else tm_get m k'.
Proof. reflexivity. Qed.

Section Props.
Variable children : nat -> dagnode.
Variable key : nat -> option N.
Hypothesis Hwf : wfc children.

(* the item stands for the class of node c: same sharing id, or - without id - that very node *)
Definition same_class (c x : nat) : Prop :=
  match key c with
  | Some k => key x = Some k
  | None => x = c
  end.

(* a reported child index: defined exactly when the child exists, an earlier item, of the child's class *)
Definition child_ok (all : list po_item) (bound : N) (oc : option nat) (oi : option N) : Prop :=
  match oc, oi with
  | None, None => True
  | Some c, Some j => j < bound /\ exists it', item_at all j = Some it' /\ same_class c (it_node it')
  | _, _ => False
  end.

Definition item_ok (all : list po_item) (it : po_item) : Prop :=
  child_ok all (it_index it) (left_child_of (children (it_node it))) (it_left it) /\
  child_ok all (it_index it) (right_child_of (children (it_node it))) (it_right it).

Lemma child_ok_app all ext b oc oi : child_ok all b oc oi -> child_ok (all ++ ext) b oc oi.
Proof.
  unfold child_ok. destruct oc, oi; auto. intros (Hb & it' & Hi & Hc).
  split; [exact Hb|]. exists it'. split; [apply item_at_app1; exact Hi|exact Hc].
Qed.

Lemma child_ok_bound all b b' oc oi : b <= b' -> child_ok all b oc oi -> child_ok all b' oc oi.
Proof.
  unfold child_ok. destruct oc, oi; auto. intros Hle (Hb & R). split; [lia|exact R].
Qed.

Lemma item_ok_app all ext it : item_ok all it -> item_ok (all ++ ext) it.
Proof. intros [H1 H2]. split; apply child_ok_app; assumption. Qed.

(* invariant tying the tracker to the items yielded so far *)
Record inv (m : tmap) (pre : list po_item) : Prop := mk_inv {
  inv_sound : forall k j, tm_get m k = Some j ->
      exists it, item_at pre j = Some it /\ key (it_node it) = Some k;
  inv_complete : forall it k, In it pre -> key (it_node it) = Some k -> exists j, tm_get m k = Some j;
  inv_index : forall i it, nth_error pre i = Some it -> it_index it = N.of_nat i;
  inv_once : forall i j it1 it2 k, nth_error pre i = Some it1 -> nth_error pre j = Some it2 ->
      key (it_node it1) = Some k -> key (it_node it2) = Some k -> i = j;
  inv_items : forall it, In it pre -> item_ok pre it }.

Lemma inv_nil : inv [] [].
Proof.
  constructor; cbn; try (intros; contradiction); try discriminate.
  - intros i it H. destruct i; discriminate.
  - intros i j it1 it2 k H. destruct i; discriminate.
Qed.

Lemma seen_before_sound m pre c i : inv m pre -> seen_before key m c = Some i ->
  child_ok pre (len pre) (Some c) (Some i).
Proof.
  intros I H. unfold seen_before in H. destruct (key c) as [k|] eqn:Hk; [|discriminate].
  destruct (inv_sound _ _ I _ _ H) as (it & Hi & Hkey).
  cbn. split; [apply (item_at_lt _ _ _ Hi)|]. exists it. split; [exact Hi|].
  unfold same_class. rewrite Hk. exact Hkey.
Qed.

(* the node itself *)
Lemma finish_inv n li ri m pre :
  inv m pre ->
  child_ok pre (len pre) (left_child_of (children n)) li ->
  child_ok pre (len pre) (right_child_of (children n)) ri ->
  let F := finish key n li ri (len pre) m in
  inv (r_trk F) (pre ++ r_out F) /\ r_index F = len (pre ++ r_out F) /\
  child_ok (pre ++ r_out F) (len (pre ++ r_out F)) (Some n) (Some (r_ci F)).
Proof.
  intros I Hl Hr. unfold finish, record.
  assert (Hnew : forall m', (forall k j, tm_get m' k = Some j ->
                   (tm_get m k = Some j \/ (j = len pre /\ key n = Some k))) ->
                 (forall k j, tm_get m k = Some j -> exists j', tm_get m' k = Some j') ->
                 (forall k, key n = Some k -> tm_get m k = None /\ tm_get m' k = Some (len pre)) ->
                 inv m' (pre ++ [mk_item n (len pre) li ri])).
  { intros m' Hs Hc Hk. constructor.
    - intros k j Hg. destruct (Hs _ _ Hg) as [Ho|[-> Hkn]].
      + destruct (inv_sound _ _ I _ _ Ho) as (it & Hi & Hkey). exists it. split; [apply item_at_app1; exact Hi|exact Hkey].
      + eexists. split; [apply item_at_last|]. exact Hkn.
    - intros it k Hin Hkey. apply in_app_or in Hin. destruct Hin as [Hin|[<-|[]]].
      + destruct (inv_complete _ _ I _ _ Hin Hkey) as (j & Hj). apply (Hc _ _ Hj).
      + cbn in Hkey. destruct (Hk _ Hkey) as [_ H2]. eauto.
    - intros i it Hn. destruct (Nat.lt_ge_cases i (length pre)) as [Hlt|Hge].
      + rewrite nth_error_app1 in Hn by exact Hlt. apply (inv_index _ _ I _ _ Hn).
      + rewrite nth_error_app2 in Hn by exact Hge.
        destruct (i - length pre)%nat as [|d] eqn:Hd; cbn in Hn; [|destruct d; discriminate].
        injection Hn as <-. cbn. unfold len. f_equal. lia.
    - intros i j it1 it2 k H1 H2 K1 K2.
      assert (Hold : forall i it, nth_error (pre ++ [mk_item n (len pre) li ri]) i = Some it ->
                (i < length pre)%nat -> key (it_node it) = Some k -> exists j, tm_get m k = Some j).
      { intros i0 it0 Hn0 Hlt0 K0. rewrite nth_error_app1 in Hn0 by exact Hlt0.
        apply (inv_complete _ _ I it0 k); [apply (nth_error_In _ _ Hn0)|exact K0]. }
      assert (Hlast : forall i it, nth_error (pre ++ [mk_item n (len pre) li ri]) i = Some it ->
                (length pre <= i)%nat -> i = length pre /\ it = mk_item n (len pre) li ri).
      { intros i0 it0 Hn0 Hge0. rewrite nth_error_app2 in Hn0 by exact Hge0.
        destruct (i0 - length pre)%nat as [|d] eqn:Hd; cbn in Hn0; [|destruct d; discriminate].
        injection Hn0 as <-. split; [lia|reflexivity]. }
      destruct (Nat.lt_ge_cases i (length pre)) as [Hi|Hi]; destruct (Nat.lt_ge_cases j (length pre)) as [Hj|Hj].
      + rewrite nth_error_app1 in H1, H2 by assumption. apply (inv_once _ _ I _ _ _ _ _ H1 H2 K1 K2).
      + destruct (Hlast _ _ H2 Hj) as [-> ->]. cbn in K2. destruct (Hk _ K2) as [Hnone _].
        destruct (Hold _ _ H1 Hi K1) as (j0 & Hj0). congruence.
      + destruct (Hlast _ _ H1 Hi) as [-> ->]. cbn in K1. destruct (Hk _ K1) as [Hnone _].
        destruct (Hold _ _ H2 Hj K2) as (j0 & Hj0). congruence.
      + destruct (Hlast _ _ H1 Hi) as [-> _]. destruct (Hlast _ _ H2 Hj) as [-> _]. reflexivity.
    - intros it Hin. apply in_app_or in Hin. destruct Hin as [Hin|[<-|[]]].
      + apply item_ok_app. apply (inv_items _ _ I _ Hin).
      + split; cbn [it_node it_index it_left it_right]; apply child_ok_app; assumption. }
  assert (Hci : child_ok ((pre ++ [mk_item n (len pre) li ri])) (len (pre ++ [mk_item n (len pre) li ri]))
                  (Some n) (Some (len pre))).
  { cbn. split; [rewrite len_app; cbn; lia|]. eexists. split; [apply item_at_last|].
    cbn. unfold same_class. destruct (key n); reflexivity. }
  destruct (key n) as [k|] eqn:Hkn.
  - destruct (tm_get m k) as [i|] eqn:Hg; cbn [r_trk r_out r_index r_ci].
    + rewrite app_nil_r. split; [exact I|]. split; [reflexivity|].
      destruct (inv_sound _ _ I _ _ Hg) as (it & Hi & Hkey).
      cbn. split; [apply (item_at_lt _ _ _ Hi)|]. exists it. split; [exact Hi|].
      unfold same_class. rewrite Hkn. exact Hkey.
    + split; [|split; [rewrite len_app; cbn; lia|exact Hci]].
      apply Hnew.
      * intros k' j. rewrite tm_get_cons. destruct (k =? k') eqn:E.
        -- apply N.eqb_eq in E. subst k'. intros [= <-]. right. split; reflexivity.
        -- intros H. left. exact H.
      * intros k' j Hj. rewrite tm_get_cons. destruct (k =? k'); eauto.
      * intros k' [= <-]. split; [exact Hg|]. rewrite tm_get_cons, N.eqb_refl. reflexivity.
  - cbn [r_trk r_out r_index r_ci].
    split; [|split; [rewrite len_app; cbn; lia|exact Hci]].
    apply Hnew.
    + intros k j H. left. exact H.
    + intros k j H. eauto.
    + intros k H. discriminate.
Qed.

(* the visit of a node keeps the invariant and returns the index of an item of the node's class *)
Lemma visit_inv : forall h n, (n < h)%nat -> forall pre m, inv m pre ->
  let R := visit children key h n (len pre) m in
  inv (r_trk R) (pre ++ r_out R) /\ r_index R = len (pre ++ r_out R) /\
  child_ok (pre ++ r_out R) (len (pre ++ r_out R)) (Some n) (Some (r_ci R)).
Proof.
  induction h as [|h IH]; intros n Hn pre m I; [lia|].
  (* one child slot, classified against an earlier state (m0, pre0) of which pre1 is an extension *)
  assert (Hslot : forall oc m0 pre0 ext m1,
            (match oc with Some c => (c < h)%nat | None => True end) ->
            inv m0 pre0 -> inv m1 (pre0 ++ ext) ->
            let C := vchild (visit children key h) (classify key m0 oc) (len (pre0 ++ ext)) m1 in
            inv (c_trk C) ((pre0 ++ ext) ++ c_out C) /\ c_index C = len ((pre0 ++ ext) ++ c_out C) /\
            child_ok ((pre0 ++ ext) ++ c_out C) (len ((pre0 ++ ext) ++ c_out C)) oc (c_i C)).
  { intros oc m0 pre0 ext m1 Hc I0 I1. destruct oc as [c|]; cbn [classify].
    - destruct (seen_before key m0 c) as [i|] eqn:Hs; cbn [vchild c_trk c_out c_index c_i].
      + rewrite app_nil_r. split; [exact I1|]. split; [reflexivity|].
        pose proof (seen_before_sound _ _ _ _ I0 Hs) as Hok.
        apply child_ok_app with (ext := ext) in Hok.
        eapply child_ok_bound; [|exact Hok]. rewrite len_app. lia.
      + apply (IH c Hc _ _ I1).
    - cbn [vchild c_trk c_out c_index c_i]. rewrite app_nil_r. split; [exact I1|]. split; [reflexivity|exact Logic.I]. }
  cbn [visit]. destruct (seen_before key m n) as [si|] eqn:Hs.
  { cbn [r_trk r_out r_index r_ci]. rewrite app_nil_r. split; [exact I|]. split; [reflexivity|].
    apply (seen_before_sound _ _ _ _ I Hs). }
  pose proof (Hwf n) as Hok.
  set (lc := left_child_of (children n)). set (rc := right_child_of (children n)).
  assert (Hlc : match lc with Some c => (c < h)%nat | None => True end).
  { subst lc. destruct (children n); cbn in *; try exact Logic.I; lia. }
  assert (Hrc : match rc with Some c => (c < h)%nat | None => True end).
  { subst rc. destruct (children n); cbn in *; try exact Logic.I; lia. }
  pose proof (Hslot lc m pre [] m Hlc) as HL. rewrite !app_nil_r in HL. specialize (HL I I).
  cbv zeta in HL. set (L := vchild (visit children key h) (classify key m lc) (len pre) m) in *.
  destruct HL as (IL & HLi & HLc).
  pose proof (Hslot rc m pre (c_out L) (c_trk L) Hrc I IL) as HR. cbv zeta in HR.
  rewrite <- HLi in HR.
  set (Rr := vchild (visit children key h) (classify key m rc) (c_index L) (c_trk L)) in *.
  destruct HR as (IR & HRi & HRc).
  pose proof (finish_inv n (c_i L) (c_i Rr) (c_trk Rr) ((pre ++ c_out L) ++ c_out Rr) IR) as HF.
  rewrite <- HRi in HF.
  assert (HLc' : child_ok ((pre ++ c_out L) ++ c_out Rr) (c_index Rr) lc (c_i L)).
  { apply child_ok_app with (ext := c_out Rr) in HLc.
    eapply child_ok_bound; [|exact HLc]. rewrite HRi, !len_app. lia. }
  rewrite HRi in HLc'. rewrite HRi in HF. specialize (HF HLc' HRc). cbv zeta in HF.
  rewrite <- HRi in HF.
  cbn [r_trk r_out r_index r_ci].
  replace (pre ++ c_out L ++ c_out Rr ++ r_out (finish key n (c_i L) (c_i Rr) (c_index Rr) (c_trk Rr)))
    with (((pre ++ c_out L) ++ c_out Rr) ++ r_out (finish key n (c_i L) (c_i Rr) (c_index Rr) (c_trk Rr)))
    by (rewrite <- !app_assoc; reflexivity).
  exact HF.
Qed.

(* ------------------------------------------------------------------ theorems about a whole run *)
Section Whole.
Variable root : nat.
Let out := po_spec children key root.

Lemma po_spec_inv : inv (r_trk (visit children key (S root) root 0 [])) out /\
  child_ok out (len out) (Some root) (Some (r_ci (visit children key (S root) root 0 []))).
Proof.
  pose proof (visit_inv (S root) root ltac:(lia) [] [] inv_nil) as H. cbv zeta in H.
  change (len []) with 0 in H. cbn [app] in H. destruct H as (I & _ & C). split; [exact I|exact C].
Qed.

(* numbering: the i-th item carries index i *)
Theorem po_indices : forall i it, nth_error out i = Some it -> it_index it = N.of_nat i.
Proof. intros i it H. apply (inv_index _ _ (proj1 po_spec_inv) _ _ H). Qed.

(* each sharing class (with an id) is yielded at most once *)
Theorem po_once : forall i j it1 it2 k,
  nth_error out i = Some it1 -> nth_error out j = Some it2 ->
  key (it_node it1) = Some k -> key (it_node it2) = Some k -> i = j.
Proof. intros i j it1 it2 k. apply (inv_once _ _ (proj1 po_spec_inv)). Qed.

(* children first, true child indices: left_index / right_index are defined exactly for the
   existing children, smaller than the item's own index, and point at the item of the child's
   class (same sharing id; for a child without id: that very node) *)
Theorem po_children : forall it, In it out -> item_ok out it.
Proof. apply (inv_items _ _ (proj1 po_spec_inv)). Qed.

(* the root's class is yielded *)
Theorem po_root : exists it, In it out /\ same_class root (it_node it).
Proof.
  destruct (proj2 po_spec_inv) as (_ & it & Hi & Hc). exists it. split; [apply (item_at_In _ _ _ Hi)|exact Hc].
Qed.

End Whole.
End Props.
