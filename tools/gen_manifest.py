#!/usr/bin/env python3
"""Writes /verif/MANIFEST.json from the table below (kept in one place so the manifest stays valid)."""
import json
import os

VERIF = os.path.dirname(os.path.dirname(os.path.abspath(__file__)))

CHECKS = {
    "C13": dict(engine="bits", category="proof", design_ref="DESIGN.md §5 C13",
                text="Coq theorems over hand-written models of read_natural/encode_natural, the cached-byte reader, the writer, "
                     "close and byte_slice_window (round trip, uniqueness/prefix-freeness, rejection, refinement of a bit queue, "
                     "for all inputs); models tied to the code by a correspondence check (vm_compute vs Rust harness) on "
                     "exhaustive-small and random cases; the property itself is also tested directly on the implementation.",
                note="Trusted: Coq kernel + vm_compute, hand-written models, harness, python generators. Window overrun is known finding F-C13.",
                technique="Coq proof (induction, finite byte sweeps) + model/implementation correspondence"),
    "C19": dict(engine="budget", category="proof", design_ref="DESIGN.md §5 C19",
                text="Coq theorems (lia) for every cost <= CONSENSUS_MAX and every stack: validity iff weight <= size+50, padding None iff "
                     "valid, sufficiency, minimality off the count boundary, rounding and monotonicity; constants and match arms are "
                     "regenerated from analysis.rs on every run, so an edited constant breaks a proof; correspondence on a boundary lattice.",
                note="Trusted: Coq kernel, translator xlate_consts.py, hand-written compact-size function (elements crate), harness.",
                technique="Coq proof (lia) over constants translated from the source + correspondence"),
}

CHECKS["C14"] = dict(engine="jets", category="proof", design_ref="DESIGN.md §5 C14",
    text="All jet tables (368 Core, 471 Elements, 428 Bitcoin), the C tables of libsimplicity and all 593 extern items are "
         "regenerated into Coq from the Rust and C sources on every run (translator); round trip, decode completeness, "
         "prefix-freeness, name parsing, Rust = C (cmr, types, cost, C decoder), Core inside Elements, FFI arity/parameter "
         "types are theorems proved by vm_compute over the complete finite tables (lifted with forallb_forall); the "
         "translator is validated against the compiled library jet by jet; every Core/Elements jet is executed once (a test).",
    note="Trusted: Coq kernel + vm_compute, translator tools/xlate_jets*.py (fails closed), harness. Bitcoin family: codes, "
         "names, type names only. Return-type/static width mismatches of three FFI items are tolerated by name and reported.",
    technique="Coq proof by computation over tables translated from the Rust and C sources")

NOT_YET = {}

ENGINES = [
    dict(name="bits", path="coq/Bits", serves_properties=["C13"], kind_free_text="Coq model + proofs of bit reader/writer/natural code"),
    dict(name="budget", path="coq/Budget", serves_properties=["C19"], kind_free_text="Coq model + proofs of budget/padding arithmetic over translated constants"),
    dict(name="jets", path="coq/Jets", serves_properties=["C14"], kind_free_text="translated jet/FFI tables + Coq proofs by computation"),
]


def main():
    props = [json.loads(l)["id"] for l in open(os.path.join(VERIF, "properties.jsonl"))]
    checks = []
    for pid in props:
        if pid in CHECKS:
            c = CHECKS[pid]
            checks.append({
                "property_id": pid,
                "quick_cmd": "python3 tools/vp.py check %s --tier quick" % pid,
                "thorough_cmd": "python3 tools/vp.py check %s --tier thorough" % pid,
                "evidence_file": "evidence/%s.json" % pid,
                "replay_cmd_template": "python3 tools/vp.py replay %s {path}" % pid,
                "engine": c["engine"],
                "level_claimed": {"category": c["category"], "text": c["text"], "design_ref": c["design_ref"]},
                "level_note": c["note"],
                "technique": c["technique"],
            })
    na = [{"property_id": p, "reason": NOT_YET.get(p, "check not built yet in this revision of /verif (planned in DESIGN.md); no claim is made")}
          for p in props if p not in CHECKS]
    hooks_commits = []
    hp = os.path.join(VERIF, "hooks_commits.txt")
    if os.path.exists(hp):
        hooks_commits = [l.strip() for l in open(hp) if l.strip()]
    man = {
        "version": 1,
        "setup_cmd": "python3 tools/vp.py setup",
        "hooks": {
            "guard": "verif-hooks",
            "enable": "cargo feature `verif-hooks` of simplicity-lang, switched on by the harness crate's dependency line (harness feature `hooks`)",
            "baseline_off_cmd": "cd /repo && cargo test --workspace --no-fail-fast --offline",
            "source_commits": hooks_commits,
            "add_only": True,
        },
        "engines": [e for e in ENGINES],
        "checks": checks,
        "not_applicable": na,
        "notes": "Technique: machine-checked proof in Coq 8.16 over hand-written models + translators; see DESIGN.md.",
    }
    json.dump(man, open(os.path.join(VERIF, "MANIFEST.json"), "w"), indent=1)


if __name__ == "__main__":
    main()
