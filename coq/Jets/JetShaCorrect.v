(* The SHA-256 context jets compute SHA-256: feeding a message to sha_256_ctx_8_init /
   add_n / finalize (as specified in Jets/JetSpecSha.v: [ctx_add], [ctx_finalize]) yields the digest
   [Sha256.sha256] of Merkle/Sha256.v (the hash validated against the FIPS vectors and, by the C09
   check, against the `hashes` crate), for every message below the counter limit of 2^61 bytes and
   for every way of cutting the message into pieces. *)
From RS Require Import Lib.Tac Lib.Outcome Lib.Bits Ty.Ty Jets.JetSpecSha.
From RS Require Merkle.Sha256.
Import ListNotations.
Local Open Scope N_scope.

Notation compress := Sha256.sha_compress.
Notation words := Sha256.words_of_bytes.

(* ------------------------------------------------------------------ absorb_blocks *)
Lemma absorb_fuel : forall f f' st l, (length l / 64 < f)%nat -> (length l / 64 < f')%nat ->
  absorb_blocks f st l = absorb_blocks f' st l.
Proof.
  induction f as [|f IH]; intros f' st l H1 H2; [lia|]. destruct f' as [|f']; [lia|].
  cbn [absorb_blocks]. destruct (Nat.leb_spec 64 (length l)) as [Hl|Hl]; [|reflexivity].
  apply IH; rewrite skipn_length.
  - assert ((length l - 64) / 64 = length l / 64 - 1)%nat by
      (replace (length l) with (length l - 64 + 1 * 64)%nat at 2 by lia; rewrite Nat.div_add by lia; lia).
    lia.
  - assert ((length l - 64) / 64 = length l / 64 - 1)%nat by
      (replace (length l) with (length l - 64 + 1 * 64)%nat at 2 by lia; rewrite Nat.div_add by lia; lia).
    lia.
Qed.

Lemma div64_pos n : (64 <= n)%nat -> (1 <= n / 64)%nat.
Proof. intros H. replace n with (n - 64 + 1 * 64)%nat by lia. rewrite Nat.div_add by lia. lia. Qed.

(* the rest is shorter than a block and accounts for the length modulo 64 *)
Lemma absorb_rest : forall f st l, (length l / 64 < f)%nat ->
  (length (snd (absorb_blocks f st l)) < 64)%nat /\
  (length (snd (absorb_blocks f st l)) + 64 * (length l / 64) = length l)%nat.
Proof.
  induction f as [|f IH]; intros st l H; [lia|].
  cbn [absorb_blocks]. destruct (Nat.leb_spec 64 (length l)) as [Hl|Hl].
  - assert (E : ((length l - 64) / 64 = length l / 64 - 1)%nat) by
      (replace (length l) with (length l - 64 + 1 * 64)%nat at 2 by lia; rewrite Nat.div_add by lia; lia).
    pose proof (div64_pos _ Hl).
    destruct (IH (compress st (words (firstn 64 l))) (skipn 64 l)) as [A B]; [rewrite skipn_length; lia|].
    rewrite skipn_length in B. split; [exact A|]. rewrite E in B. lia.
  - cbn [snd]. rewrite Nat.div_small by lia. lia.
Qed.

(* absorbing l and then more = absorbing l ++ more *)
Lemma absorb_app : forall f st l m f2 f3, (length l / 64 < f)%nat ->
  (length (l ++ m) / 64 < f2)%nat ->
  (length (snd (absorb_blocks f st l) ++ m) / 64 < f3)%nat ->
  absorb_blocks f2 st (l ++ m) =
  absorb_blocks f3 (fst (absorb_blocks f st l)) (snd (absorb_blocks f st l) ++ m).
Proof.
  induction f as [|f IH]; intros st l m f2 f3 H1 H2 H3; [lia|].
  cbn [absorb_blocks] in *. destruct (Nat.leb_spec 64 (length l)) as [Hl|Hl].
  - destruct f2 as [|f2]; [lia|]. cbn [absorb_blocks].
    assert (Hlm : (64 <= length (l ++ m))%nat) by (rewrite app_length; lia).
    destruct (Nat.leb_spec 64 (length (l ++ m))) as [_|]; [|lia].
    assert (E1 : firstn 64 (l ++ m) = firstn 64 l).
    { rewrite firstn_app. replace (64 - length l)%nat with 0%nat by lia. rewrite firstn_O, app_nil_r. reflexivity. }
    assert (E2 : skipn 64 (l ++ m) = skipn 64 l ++ m).
    { rewrite skipn_app. replace (64 - length l)%nat with 0%nat by lia. reflexivity. }
    rewrite E1, E2. apply IH.
    + rewrite skipn_length.
      assert (((length l - 64) / 64 = length l / 64 - 1)%nat) by
        (replace (length l) with (length l - 64 + 1 * 64)%nat at 2 by lia; rewrite Nat.div_add by lia; lia).
      pose proof (div64_pos _ Hl). lia.
    + rewrite <- E2, skipn_length.
      assert (((length (l ++ m) - 64) / 64 = length (l ++ m) / 64 - 1)%nat) by
        (replace (length (l ++ m)) with (length (l ++ m) - 64 + 1 * 64)%nat at 2 by lia; rewrite Nat.div_add by lia; lia).
      pose proof (div64_pos _ Hlm). lia.
    + exact H3.
  - cbn [fst snd] in *. apply absorb_fuel; assumption.
Qed.

(* on a whole number of blocks: the fold of Merkle/Sha256.v *)
Lemma absorb_whole : forall k st l, length l = (64 * k)%nat ->
  absorb_blocks (S k) st l = (fold_left compress (Sha256.blocks_of_bytes (S k) l) st, []).
Proof.
  induction k as [|k IH]; intros st l Hl.
  - destruct l; [reflexivity|discriminate].
  - cbn [absorb_blocks]. destruct (Nat.leb_spec 64 (length l)) as [_|]; [|lia].
    assert (Hne : l <> []) by (intros ->; discriminate).
    change (Sha256.blocks_of_bytes (S (S k)) l) with
      (match l with [] => [] | _ => words (firstn 64 l) :: Sha256.blocks_of_bytes (S k) (skipn 64 l) end).
    destruct l as [|x r]; [congruence|]. cbn [fold_left].
    apply IH. rewrite skipn_length. lia.
Qed.

(* ------------------------------------------------------------------ the padding *)
Lemma pad_tail_pad msg : Sha256.sha_pad msg = msg ++ pad_tail (N.of_nat (length msg)).
Proof. reflexivity. Qed.

Lemma be64_length n : length (Sha256.be64 n) = 8%nat.
Proof. reflexivity. Qed.

Lemma pad_length msg : exists k, length (Sha256.sha_pad msg) = (64 * k)%nat.
Proof.
  rewrite pad_tail_pad. unfold pad_tail. rewrite !app_length, repeat_length, be64_length. cbn [length].
  set (n := N.of_nat (length msg)).
  destruct (N.leb_spec ((n + 1) mod 64) 56) as [H|H].
  - exists (N.to_nat ((n + 1) / 64 + 1)). subst n. lia.
  - exists (N.to_nat ((n + 1) / 64 + 2)). subst n. lia.
Qed.

(* ------------------------------------------------------------------ the context jets *)
Definition ctx0 : sha_ctx := mkCtx [] 0 Sha256.sha_iv0.

(* the context after a message, in one piece *)
Lemma ctx_add_fresh msg : N.of_nat (length msg) < MAX_COUNTER ->
  ctx_add ctx0 msg =
  Some (mkCtx (snd (absorb_blocks (S (length msg / 64)) Sha256.sha_iv0 msg))
              (N.of_nat (length msg) / 64)
              (fst (absorb_blocks (S (length msg / 64)) Sha256.sha_iv0 msg))).
Proof.
  intros Hn. unfold ctx_add, ctx0. cbn [c_buf c_blocks c_mid length app].
  change (64 * 0 + N.of_nat 0) with 0. rewrite N.sub_0_r.
  destruct (N.leb_spec MAX_COUNTER (N.of_nat (length msg))) as [|_]; [lia|].
  rewrite N.add_0_l. destruct (absorb_blocks (S (length msg / 64)) Sha256.sha_iv0 msg) as [st rest]. reflexivity.
Qed.

Theorem sha_ctx_correct msg : N.of_nat (length msg) < MAX_COUNTER ->
  exists c, ctx_add ctx0 msg = Some c /\
            Sha256.bytes_of_state (ctx_finalize c) = Sha256.sha256 msg.
Proof.
  intros Hn. rewrite (ctx_add_fresh msg Hn). eexists. split; [reflexivity|].
  unfold Sha256.sha256. f_equal. unfold ctx_finalize. cbn [c_buf c_blocks c_mid].
  set (f := S (length msg / 64)).
  destruct (absorb_rest f Sha256.sha_iv0 msg ltac:(subst f; lia)) as [Hr1 Hr2].
  set (rest := snd (absorb_blocks f Sha256.sha_iv0 msg)) in *.
  set (st := fst (absorb_blocks f Sha256.sha_iv0 msg)) in *.
  assert (Hc : 64 * (N.of_nat (length msg) / 64) + N.of_nat (length rest) = N.of_nat (length msg)).
  { assert (N.of_nat (length msg) / 64 = N.of_nat (length msg / 64)) by
      (change 64 with (N.of_nat 64); rewrite <- Nat2N.inj_div; reflexivity).
    lia. }
  rewrite Hc.
  destruct (pad_length msg) as (k & Hk). rewrite pad_tail_pad in Hk.
  assert (HA := absorb_app f Sha256.sha_iv0 msg (pad_tail (N.of_nat (length msg))) (S k)
                         (S (length (rest ++ pad_tail (N.of_nat (length msg))) / 64))).
  fold rest st in HA. rewrite <- HA.
  - rewrite (absorb_whole k _ _ Hk). cbn [fst]. unfold Sha256.sha_absorb. rewrite pad_tail_pad, Hk.
    replace (64 * k / 64)%nat with k by (rewrite Nat.mul_comm, Nat.div_mul; lia). reflexivity.
  - subst f. lia.
  - rewrite Hk. replace (64 * k / 64)%nat with k by (rewrite Nat.mul_comm, Nat.div_mul; lia). lia.
  - lia.
Qed.

(* adding a message in two pieces gives the same context as adding it in one piece *)
Theorem ctx_add_app m1 m2 : N.of_nat (length (m1 ++ m2)) < MAX_COUNTER ->
  match ctx_add ctx0 m1 with
  | Some c1 => ctx_add c1 m2 = ctx_add ctx0 (m1 ++ m2)
  | None => False
  end.
Proof.
  intros Hn. rewrite app_length, Nat2N.inj_add in Hn.
  rewrite (ctx_add_fresh m1) by lia. rewrite (ctx_add_fresh (m1 ++ m2)) by (rewrite app_length; lia).
  unfold ctx_add. cbn [c_buf c_blocks c_mid].
  set (f := S (length m1 / 64)).
  destruct (absorb_rest f Sha256.sha_iv0 m1 ltac:(subst f; lia)) as [Hr1 Hr2].
  set (rest := snd (absorb_blocks f Sha256.sha_iv0 m1)) in *.
  set (st := fst (absorb_blocks f Sha256.sha_iv0 m1)) in *.
  assert (Hc : 64 * (N.of_nat (length m1) / 64) + N.of_nat (length rest) = N.of_nat (length m1)).
  { assert (N.of_nat (length m1) / 64 = N.of_nat (length m1 / 64)) by
      (change 64 with (N.of_nat 64); rewrite <- Nat2N.inj_div; reflexivity).
    lia. }
  rewrite Hc.
  destruct (N.leb_spec (MAX_COUNTER - N.of_nat (length m1)) (N.of_nat (length m2))) as [|_]; [lia|].
  assert (HA := absorb_app f Sha256.sha_iv0 m1 m2 (S (length (m1 ++ m2) / 64)) (S (length (rest ++ m2) / 64))).
  fold rest st in HA. rewrite <- HA by (subst f; lia).
  destruct (absorb_blocks (S (length (m1 ++ m2) / 64)) Sha256.sha_iv0 (m1 ++ m2)) as [st2 rest2].
  rewrite app_length, Nat2N.inj_add. reflexivity.
Qed.
