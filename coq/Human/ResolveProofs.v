(* C17 - the parser model applied to the output of the renderer model, part 1: step 1 of the
   parser (the map of definitions) and the roots, for lines with pairwise distinct names. *)
From RS Require Import Lib.Tac Lib.Outcome Human.Namer Human.Render Human.Resolve Human.RenderProofs.
Import ListNotations.
Local Open Scope N_scope.

(* ------------------------------------------------------------------ lookups in association lists *)
Lemma um_get_notin um n : ~ In n (map fst um) -> um_get um n = None.
Proof.
  induction um as [|[m e] r IH]; intros H; [reflexivity|]. cbn [um_get].
  destruct (name_eqb m n) eqn:E.
  - apply name_eqb_eq in E. subst. exfalso. apply H. left. reflexivity.
  - apply IH. intros Hin. apply H. right. exact Hin.
Qed.

Lemma um_get_in um n e : NoDup (map fst um) -> In (n, e) um -> um_get um n = Some e.
Proof.
  induction um as [|[m e0] r IH]; intros Hd Hin; [inversion Hin|]. cbn [um_get].
  cbn [map fst] in Hd. inversion Hd as [|? ? Hx Hr]; subst.
  destruct Hin as [Hin|Hin].
  - injection Hin as -> ->. rewrite name_eqb_refl. reflexivity.
  - destruct (name_eqb m n) eqn:E.
    + apply name_eqb_eq in E. subst. exfalso. apply Hx.
      change n with (fst (n, e)). apply in_map. exact Hin.
    + apply IH; assumption.
Qed.

(* ------------------------------------------------------------------ step 1 on distinct names *)
Definition entry_of (l : line) : name * option expr := (ln_name l, ln_expr l).

Lemma step1_distinct : forall ls um errs,
  NoDup (map fst um ++ map ln_name ls) ->
  fold_left step1_line ls (um, errs) = (um ++ map entry_of ls, errs).
Proof.
  induction ls as [|l r IH]; intros um errs Hd; cbn [fold_left map].
  - rewrite app_nil_r. reflexivity.
  - unfold step1_line at 2.
    assert (Hn : ~ In (ln_name l) (map fst um)).
    { intros Hin. apply NoDup_remove_2 in Hd. apply Hd. apply in_or_app. left. exact Hin. }
    rewrite (um_get_notin um _ Hn).
    rewrite IH.
    + rewrite <- app_assoc. reflexivity.
    + rewrite map_app. cbn [map fst]. rewrite <- app_assoc. exact Hd.
Qed.

Lemma step1_nodup ls : NoDup (map ln_name ls) -> step1 ls = (map entry_of ls, []).
Proof. intros H. unfold step1. rewrite step1_distinct; [reflexivity | exact H]. Qed.

(* ------------------------------------------------------------------ filters with one hit *)
Lemma filter_none {A} (p : A -> bool) l : (forall x, In x l -> p x = false) -> filter p l = [].
Proof.
  induction l as [|y r IH]; intros H; [reflexivity|]. cbn [filter].
  rewrite (H y (or_introl eq_refl)). apply IH. intros x Hx. apply H. right. exact Hx.
Qed.

Lemma filter_unique {A} (p : A -> bool) l x :
  NoDup l -> In x l -> p x = true -> (forall y, In y l -> y <> x -> p y = false) -> filter p l = [x].
Proof.
  induction l as [|y r IH]; intros Hd Hin Hp Ho; [inversion Hin|].
  inversion Hd as [|? ? Hy Hr]; subst. cbn [filter]. destruct Hin as [->|Hin].
  - rewrite Hp. f_equal. apply filter_none. intros z Hz. apply Ho; [right; exact Hz|].
    intros ->. contradiction.
  - rewrite (Ho y (or_introl eq_refl)).
    + apply IH; try assumption. intros z Hz. apply Ho. right. exact Hz.
    + intros ->. contradiction.
Qed.

(* ------------------------------------------------------------------ the references of a rendered line *)
Lemma arity_children d i : wf_ndag d = true -> (i < length d)%nat ->
  match arity (nn_kind (nget d i)) with
  | O => nn_l (nget d i) = None /\ nn_r (nget d i) = None
  | S O => (exists c, nn_l (nget d i) = Some c) /\ nn_r (nget d i) = None
  | _ => (exists c, nn_l (nget d i) = Some c) /\ (exists c, nn_r (nget d i) = Some c)
  end.
Proof.
  intros W Hi. pose proof (wf_node d i W Hi) as H. unfold node_wf in H.
  repeat (apply andb_true_iff in H; destruct H as [H ?]).
  destruct (arity (nn_kind (nget d i))) as [|[|k]];
    destruct (nn_l (nget d i)) as [a|], (nn_r (nget d i)) as [b|]; cbn in *; try discriminate;
    repeat split; eauto.
Qed.

Lemma hole_of_disc d i : wf_ndag d = true -> (i < length d)%nat ->
  match nn_kind (nget d i) with
  | KDisconnect => exists h, nn_hole (nget d i) = Some h
  | _ => nn_hole (nget d i) = None
  end.
Proof.
  intros W Hi. pose proof (wf_node d i W Hi) as H. unfold node_wf in H.
  repeat (apply andb_true_iff in H; destruct H as [H ?]).
  destruct (nn_kind (nget d i)); destruct (nn_hole (nget d i)) as [h|]; cbn in *; try discriminate; eauto.
Qed.

Lemma refs_rendered d i : wf_ndag d = true -> (i < length d)%nat ->
  refs (expr_of_defline (line_of d i)) = dl_refs (line_of d i).
Proof.
  intros W Hi. pose proof (arity_children d i W Hi) as A.
  unfold expr_of_defline, dl_refs, line_of. cbn [dl_kind dl_l dl_r dl_pay dl_hole].
  destruct (nn_kind (nget d i)); cbn [arity] in A; cbn [refs];
    try (destruct A as [-> ->]; reflexivity);
    try (destruct A as [[c ->] ->]; cbn; reflexivity);
    try (destruct A as [[c ->] [c' ->]]; cbn; reflexivity).
  destruct A as [[c ->] ->]. destruct (nn_hole (nget d i)); cbn; reflexivity.
Qed.
