(* RedeemNode::prune, executable end to end (C08, phase 2): the rounds of the fixed-point loop with the
   tracker keyed by REAL identity roots.
     src/node/redeem.rs          RedeemNode::prune (loop until the serialisation no longer changes),
                                 prune_with_tracker (run, prune structurally, re-infer, shrink witnesses)
     src/bit_machine/tracker.rs  SetTracker: keyed by Ihr
     src/merkle/ihr.rs           Imr / Ihr (model: Merkle/Ihr.v, SHA-256: Merkle/Sha256.v, constants
                                 regenerated from the sources: Generated/Ivs.v)
   PruneFix.v takes the identity classes of every round as DATA (read from the implementation).  Here they
   are COMPUTED: every round builds the typed table of the current program (arrows = reference inference of
   RetypeInfer.v, witnesses shrunk by Value::prune), computes the IHR of every retained node with the
   executable SHA-256 and prunes with the classes `equal IHR`.  The commitment roots (the hidden CMR that an
   assertion keeps) are the real ones too.  Definitions only; the theorems of PruneFix.v / RetypeEnd.v hold
   for any classes and any hash functions, hence for these. *)
From Coq Require Import Uint63.
From RS Require Import Lib.Tac Lib.Outcome Lib.Bits Lib.Sweep Ty.Ty Core.Prog
  Redeem.Finalize Redeem.PruneProg Redeem.PruneFix Redeem.Retype
  Infer.Constraints Infer.Infer Redeem.RetypeInfer Redeem.RetypeKeep Redeem.PruneLoop
  Merkle.Sha256 Merkle.Tagged Merkle.Cmr Merkle.Ihr Merkle.Real.
Import ListNotations.
Local Open Scope nat_scope.

(* ------------------------------------------------------------------ real commitment roots *)

Definition sb : list N -> rH := state_of_bytes.
Definition bs : rH -> list N := bytes_of_state.

Definition real_hashes : hashes :=
  Hashes
    (bs (Tagged.cmr_iden rH r_iv)) (bs (Tagged.cmr_unit rH r_iv)) (bs (Tagged.cmr_witness rH r_iv))
    (fun c => bs (Tagged.cmr_injl rH r_compress r_iv r_zero (sb c)))
    (fun c => bs (Tagged.cmr_injr rH r_compress r_iv r_zero (sb c)))
    (fun c => bs (Tagged.cmr_take rH r_compress r_iv r_zero (sb c)))
    (fun c => bs (Tagged.cmr_drop rH r_compress r_iv r_zero (sb c)))
    (fun c => bs (Tagged.cmr_disconnect rH r_compress r_iv r_zero (sb c)))
    (fun e => bs (Tagged.cmr_fail rH r_compress r_iv (fail_halves rH r_h_of_bytes e)))
    (fun l r => bs (Tagged.cmr_comp rH r_compress r_iv (sb l) (sb r)))
    (fun l r => bs (Tagged.cmr_case rH r_compress r_iv (sb l) (sb r)))
    (fun l r => bs (Tagged.cmr_pair rH r_compress r_iv (sb l) (sb r)))
    (fun f j => bs (r_jet_cmr f j))
    (fun n bits => match r_const_word n bits with Ok h => bs h | _ => []%list end).

(* ------------------------------------------------------------------ the typed table of a program *)

(* model jet ids -> (family, index) of the library's jet table *)
Definition jet_map := list (N * (N * N)).
Fixpoint jet_real (jm : jet_map) (j : N) : N * N :=
  match jm with
  | [] => (1%N, 0%N)
  | (k, fi) :: r => if N.eqb k j then fi else jet_real r j
  end.

Definition tr_node_w (jm : jet_map) (i : nat) (n : rnode) : node :=
  match n with
  | RWitness c => NWitness (WCompact (compact_enc (cv_val c)))
  | RJet _ j => let '(f, k) := jet_real jm j in NJet f k
  | _ => tr_node i n
  end.

(* the table RedeemData::new is computed over: node i at 2i+1, the hidden side of an assertion i at 2i,
   nodes that are not retained as (unused) hidden placeholders *)
Definition typed_tab (jm : jet_map) (q : rprog) (root : nat) (ar : arrows) : typed_prog :=
  interleave2 (fun i => (NHidden (hid_of (nth i q RIden)), None))
              (fun i => if keepb q root i then (tr_node_w jm i (nth i q RIden), ar i) else (NHidden []%list, None))
              0 (length q).

Definition r_redeem_table (tp : typed_prog) : outcome N (list (rdata rH + rH)) :=
  redeem_table rH r_compress r_iv r_ivi r_zero r_of_weight r_bit_cmr r_tmr_unit r_two_two_n
    r_jet_cmr r_h_of_bytes r_compact_value tp.

(* IHR of every retained node (32 bytes), None for the others *)
Definition ihrs (jm : jet_map) (q : rprog) (root : nat) (ar : arrows) : outcome N (list (option (list N))) :=
  omap (fun t => map (fun i => if keepb q root i
                               then match nth (S (2 * i)) t (inr r_zero) with
                                    | inl d => Some (bs (rd_ihr rH d))
                                    | inr _ => None
                                    end
                               else None) (seq 0 (length q)))
       (r_redeem_table (typed_tab jm q root ar)).

Definition bytes_eq (a b : list N) : bool := list_beq N.eqb a b.

(* class of node i: the smallest index whose IHR equals that of i; its own index when it has none *)
Definition class_of (hs : list (option (list N))) (i : nat) : nat :=
  match nth i hs None with
  | None => i
  | Some h =>
      match find (fun j => match nth j hs None with Some h' => bytes_eq h h' | None => false end) (seq 0 (S i)) with
      | Some j => j
      | None => i
      end
  end.

Definition classes (hs : list (option (list N))) : list nat := map (class_of hs) (seq 0 (length hs)).

(* ------------------------------------------------------------------ what is serialised *)

(* post-order of first visits from node i, children left to right, one visit per identity class
   (encode_with_witness iterates with MaxSharing: nodes with equal IHR are written once) *)
Fixpoint po_visit (fuel : nat) (q : rprog) (cls : nat -> nat) (i : nat) (so : list nat * list nat)
    : list nat * list nat :=
  match fuel with
  | O => so
  | S f =>
      if existsb (Nat.eqb (cls i)) (fst so) then so
      else
        let so1 := fold_left (fun acc c => po_visit f q cls c acc) (rchildren (nth i q RIden)) so in
        (cls i :: fst so1, snd so1 ++ [i])%list
  end.

Definition post_order (q : rprog) (cls : nat -> nat) (root : nat) : list nat :=
  snd (po_visit (S (length q)) q cls root ([], [])%list).

(* the witness stream before padding to bytes *)
Definition wstream (q : rprog) (cls : nat -> nat) (root : nat) : list bool :=
  flat_map (fun i => match nth i q RIden with RWitness c => compact_enc (cv_val c) | _ => []%list end)
           (post_order q cls root).

(* classes and witness stream of a typed program *)
Definition analyse (jm : jet_map) (p : rprog) (ar : arrows) : outcome N (list nat * list bool) :=
  let root := length p - 1 in
  omap (fun hs => let cls := classes hs in (cls, wstream p (ident_of_classes cls) root)) (ihrs jm p root ar).

(* RedeemNode::prune of a program with arrows [ar] whose run produced the events [E]: the generic loop of
   Redeem/PruneLoop.v (one pass = prune structurally by the classes, re-infer over the nodes the pass saw, shrink
   the witnesses; stop when the serialisation no longer changes) with real commitment roots and the classes and
   witness streams computed above.  PruneLoop.prune_full_sound applies to it. *)
Definition prune_full (jt : jet_table) (jm : jet_map) (p : rprog) (ar : arrows) (E : list event) : loop_state :=
  prune_full_gen real_hashes (analyse jm) jt p ar E.
