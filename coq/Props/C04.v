(* C04 - Type inference is sound, principal and order-independent.
   Only pinned statements (`Theorem .. exact lemma`) and `Print Assumptions`, plus Examples
   showing that the hypotheses are satisfiable.
   Models: Infer/Constraints.v (the constraints of every combinator, from types/arrow.rs),
   Infer/Unify.v (reference unification, occurs check deferred), Infer/Infer.v (infer and the
   typing rules check_typing), Infer/Display.v (printers).  Proofs: Infer/Unify.v,
   Infer/Principal.v, Infer/Gen.v, Infer/Theorems.v, Infer/Order.v.
   The Rust union-bound algorithm itself is tied to `infer` by the correspondence check. *)
From RS Require Import Lib.Tac Lib.Outcome Ty.Ty Core.Prog Generated.Consts
  Infer.Constraints Infer.Unify Infer.Infer Infer.Principal Infer.Gen Infer.Theorems Infer.Order
  Infer.Display Infer.DisplayBound.
Import ListNotations.

(* ------------------------------------------------------------------ inference *)

(* infer_sound: a finalised program satisfies the typing rule of every combinator (and a
   program root is 1 -> 1) *)
Theorem C04_infer_sound : forall (jt : jet_table) (root : option nat) (p : prog) tau,
  infer jt root p = Ok tau -> check_typing jt root p tau = true.
Proof. exact infer_sound. Qed.
Print Assumptions C04_infer_sound.

(* infer_complete: a program finalises EXACTLY when its typing rules have a finite (ground)
   solution ... *)
Theorem C04_infer_complete : forall (jt : jet_table) (root : option nat) (p : prog),
  (exists tau, check_typing jt root p tau = true) <-> (exists tau0, infer jt root p = Ok tau0).
Proof. exact infer_complete_iff. Qed.
Print Assumptions C04_infer_complete.

(* ... and otherwise returns an error: never a panic, never out of fuel (the fuel
   S (nroots s) of unify and S (length s) of the occurs check are sufficient) *)
Theorem C04_infer_total : forall (jt : jet_table) (root : option nat) (p : prog),
  match infer jt root p with Ok _ | Err _ => True | Panic _ | OutOfFuel => False end.
Proof. exact infer_total_outcome. Qed.
Print Assumptions C04_infer_total.

Theorem C04_infer_rejects : forall (jt : jet_table) (root : option nat) (p : prog),
  (forall tau, check_typing jt root p tau = false) -> exists e, infer jt root p = Err e.
Proof. exact infer_rejects. Qed.
Print Assumptions C04_infer_rejects.

(* infer_least (principal types): the result is the most general solution with all remaining
   variables set to unit: it is below EVERY typing of the program in the pointwise ty_le order
   (unit below everything, Ty.v) - hence the unique least typing *)
Theorem C04_infer_least : forall (jt : jet_table) (root : option nat) (p : prog) tau0 tau,
  infer jt root p = Ok tau0 -> check_typing jt root p tau = true -> typing_le tau0 tau = true.
Proof. exact infer_least. Qed.
Print Assumptions C04_infer_least.

(* infer_order: any two topological construction orders of the same DAG (p' = p renumbered
   by the bijection pi, children before parents in both) give node by node the same arrows,
   or both fail *)
Theorem C04_infer_order : forall (jt : jet_table) (root : option nat) (p p' : prog) (pi pinv : nat -> nat),
  perm_of (length p) pi pinv -> permuted pi p p' ->
  wf_from 0 p = true -> wf_from 0 p' = true ->
  (forall r, root = Some r -> (r < length p)%nat) ->
  match infer jt root p, infer jt (option_map pi root) p' with
  | Ok tau, Ok tau' => forall i, (i < length p)%nat -> nth (pi i) tau' None = nth i tau None
  | Err _, Err _ => True
  | _, _ => False
  end.
Proof. exact infer_order. Qed.
Print Assumptions C04_infer_order.

(* error classes: inference never reports CompleteTypeMismatch (the Rust code reports every
   unification failure as Error::Bind and cycles as Error::OccursCheck) *)
Theorem C04_infer_never_complete_mismatch : forall (jt : jet_table) (root : option nat) (p : prog),
  infer jt root p <> Err ECompleteMismatch.
Proof. exact infer_never_complete_mismatch. Qed.
Print Assumptions C04_infer_never_complete_mismatch.

(* ------------------------------------------------------------------ the pieces *)

(* unification computes exactly the models of the store that satisfy the equations (most
   general unifier, semantically), for cyclic stores as well *)
Theorem C04_solve_exact : forall (s s' : store) (eqs : list (nat * nat)),
  wf s -> eqs_in (length s) eqs -> solve s eqs = Ok s' ->
  forall al, sat al s' <-> (sat al s /\ eqs_hold al eqs).
Proof. exact solve_exact. Qed.
Print Assumptions C04_solve_exact.

Theorem C04_solve_fails_only_without_model : forall (s : store) (eqs : list (nat * nat)),
  wf s -> eqs_in (length s) eqs ->
  match solve s eqs with
  | Ok _ => True
  | Err _ => forall al, ~ (sat al s /\ eqs_hold al eqs)
  | _ => False
  end.
Proof. exact solve_fails_only_without_model. Qed.
Print Assumptions C04_solve_fails_only_without_model.

(* the occurs check at the end is exact: it passes iff the solved store has a finite model *)
Theorem C04_occurs_check_exact : forall s : store, wf s ->
  (occurs_ok s = true <-> exists al, sat al s).
Proof. exact occurs_check_exact. Qed.
Print Assumptions C04_occurs_check_exact.

(* the constraints generated for one node are exactly its typing rule *)
Theorem C04_constraints_sound : forall jt n ar nd nb ne a al,
  node_tmpl jt n ar nd = Some (nb, ne, a) -> sat_list al n nb -> eqs_hold al ne ->
  check_node jt (map (img al) ar) nd (img al a) = true.
Proof. exact node_tmpl_sound. Qed.
Print Assumptions C04_constraints_sound.

Theorem C04_constraints_complete : forall jt n ar nd al own,
  arr_in n ar -> check_node jt (map (img al) ar) nd own = true ->
  exists nb ne a al', node_tmpl jt n ar nd = Some (nb, ne, a) /\
    (forall v, (v < n)%nat -> al' v = al v) /\ sat_list al' n nb /\ eqs_hold al' ne /\ img al' a = own.
Proof. exact node_tmpl_complete. Qed.
Print Assumptions C04_constraints_complete.

(* ------------------------------------------------------------------ display *)

(* display_bounded: the printer of incomplete bounds (verbose pre-order walk with
   MAX_DISPLAY_DEPTH / MAX_DISPLAY_LENGTH) terminates and emits at most 3 (LENGTH + 1) + 1
   <= 3 (LENGTH + DEPTH) tokens on any bound graph, cyclic or not; a complete type embedded in
   the bound counts as one token here (see the refuted clause below) *)
Theorem C04_display_bounded : forall (g : igraph) (root : nat),
  exists out, print_inc g root (N.to_nat c_max_display_depth) (N.to_nat c_max_display_length) = Ok out /\
    (length out <= 3 * (N.to_nat c_max_display_length + N.to_nat c_max_display_depth))%nat.
Proof. exact display_bounded. Qed.
Print Assumptions C04_display_bounded.

(* space: the iterator's stack never holds more than DEPTH + 1 items *)
Theorem C04_display_space : forall (g : igraph) (root D L : nat) (st : pstate),
  reach g D L (mk_pstate [mk_item root 0 0 0] 0 false []) st -> (length (st_stack st) <= D + 1)%nat.
Proof. exact print_inc_space. Qed.
Print Assumptions C04_display_space.

(* display_final_size: Final's Display writes at least one token per node of the TREE
   expansion of a (product-only) complete type: no depth or length limit, no sharing *)
Theorem C04_display_final_size : forall t, prod_only t = true ->
  (ty_size t <= length (display_final t))%nat.
Proof. exact display_final_size. Qed.
Print Assumptions C04_display_final_size.

(* F-C04: the boundedness clause is refuted for errors that embed complete types: the
   complete type of n nested `pair x x` over `pair unit (word u8)` (a DAG of n + 7 nodes) is
   printed with at least 2^n tokens; no bound of the form c (LENGTH + DEPTH) holds *)
Theorem C04_display_final_unbounded_refuted : forall B : nat, exists t : ty,
  (B < length (display_final t))%nat.
Proof. exact display_final_unbounded_refuted. Qed.
Print Assumptions C04_display_final_unbounded_refuted.

Theorem C04_display_final_bomb : forall n, (2 ^ n <= length (display_final (bomb_ty n)))%nat.
Proof. exact display_final_bomb. Qed.
Print Assumptions C04_display_final_bomb.

(* ------------------------------------------------------------------ the hypotheses are satisfiable *)

(* pair iden unit, take of it; constructed in the order 0 1 2 3 and in the order 1 0 2 3 *)
Example C04_ex_infer :
  infer [] None [NIden; NUnit; NPair 0 1; NTake 2] =
  Ok [Some (One, One); Some (One, One); Some (One, Prod One One); Some (Prod One One, Prod One One)].
Proof. vm_compute. reflexivity. Qed.

Example C04_ex_order :
  let p := [NIden; NUnit; NPair 0 1; NTake 2] in
  let p' := [NUnit; NIden; NPair 1 0; NTake 2] in
  let pi := fun i => match i with 0 => 1 | 1 => 0 | k => k end%nat in
  perm_of (length p) pi pi /\ permuted pi p p' /\ wf_from 0 p = true /\ wf_from 0 p' = true /\
  infer [] None p' = Ok [Some (One, One); Some (One, One); Some (One, Prod One One); Some (Prod One One, Prod One One)].
Proof.
  cbn zeta. split; [|split; [|split; [reflexivity|split; [reflexivity|vm_compute; reflexivity]]]].
  - constructor; intros [|[|[|[|k]]]] H; cbn in *; lia.
  - split; [reflexivity|]. intros [|[|[|[|k]]]] H; cbn in *; try reflexivity; lia.
Qed.

(* an occurs-check cycle (disconnect iden iden), an ill-typed program, a program root *)
Example C04_ex_occurs : infer [] None [NIden; NDisconnect 0 (Some 0%nat)] = Err EOccurs.
Proof. vm_compute. reflexivity. Qed.

Example C04_ex_bind : infer [] None [NUnit; NCase 0 0; NDisconnect 1 (Some 0%nat)] = Err (EBind 0).
Proof. vm_compute. reflexivity. Qed.

Example C04_ex_root : infer [] (Some 2%nat) [NIden; NDrop 0; NCase 1 0] = Err (EBind 1).
Proof. vm_compute. reflexivity. Qed.

Example C04_ex_solve :
  let s := [BFree; BFree; BSum 0 1; BOne; BSum 3 3] in
  wf s /\ eqs_in (length s) [(2, 4)]%nat /\ exists s', solve s [(2, 4)]%nat = Ok s'.
Proof.
  cbn zeta. split; [|split].
  - intros [|[|[|[|[|v]]]]] H; cbn in *; lia.
  - intros x y [E|[]]. injection E as <- <-. cbn. lia.
  - eexists. vm_compute. reflexivity.
Qed.
