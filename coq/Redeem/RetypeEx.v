(* The witness of the finding "shared-retype" at the level of the definitions of Retype.v.
     main := comp (pair w0 w1) (case (drop (comp S unit)) (drop (comp S (comp jet_is_zero_8 unit))))
   with ONE node S = iden used in both branches, w0 = bit 0, w1 : 2^8.  The run takes the left branch.
   One pruning pass of the implementation before commit 5d14513 re-inferred the types in a context
   that still contained the dropped right branch: S kept the type 2^8 -> 2^8 forced by the jet, so
   w1 kept its 8 bits.  Both typings below type the pruned structure; the one the old code
   produced is not the least one, hence not the one a decoder infers from the serialisation. *)
From RS Require Import Lib.Tac Lib.Outcome Lib.Bits Ty.Ty Core.Prog
  Redeem.Finalize Redeem.PruneProg Redeem.Retype Redeem.Routes.
Import ListNotations.
Local Open Scope N_scope.

Definition ex_jet_ty (f j : N) : option arrow :=
  if j =? 4 then Some (word_ty 3, Sum One One) else None.     (* is_zero_8 *)

Definition w1_val : sval :=
  match of_compact (word_ty 3) [true;false;true;false;true;false;true;false] with Some (v, _) => v | None => SU end.

(* the unpruned program *)
Definition shared_prog : rprog :=
  [ RWitness (CV (Sum One One) (SL SU)); RWitness (CV (word_ty 3) w1_val); RPair 0 1;
    RIden; RUnit; RComp 3 4; RJet 1 4; RUnit; RComp 6 7; RComp 3 8; RDrop 5; RDrop 9; RCase 10 11; RComp 2 12 ].

(* arrows of the unpruned program = arrows that one pass of the old code left on the retained nodes *)
Definition shared_arrows_old : arrows := arrows_of_list
  [ Some (One, Sum One One); Some (One, word_ty 3); Some (One, Prod (Sum One One) (word_ty 3));
    Some (word_ty 3, word_ty 3); Some (word_ty 3, One); Some (word_ty 3, One);
    Some (word_ty 3, Sum One One); Some (Sum One One, One); Some (word_ty 3, One); Some (word_ty 3, One);
    Some (Prod One (word_ty 3), One); Some (Prod One (word_ty 3), One);
    Some (Prod (Sum One One) (word_ty 3), One); Some (One, One) ].

(* arrows that the structure of the pruned program alone infers (what a decoder and libsimplicity infer) *)
Definition shared_arrows_new : arrows := arrows_of_list
  [ Some (One, Sum One One); Some (One, One); Some (One, Prod (Sum One One) One);
    Some (One, One); Some (One, One); Some (One, One);
    None; None; None; None;
    Some (Prod One One, One); None;
    Some (Prod (Sum One One) One, One); Some (One, One) ].

Definition retained : list nat := [0; 1; 2; 3; 4; 5; 10; 12; 13]%nat.

Definition typed_on (p : rprog) (ar : arrows) (idx : list nat) : bool :=
  forallb (fun i => match nth_error p i with Some n => node_okb ex_jet_ty ar i n | None => false end) idx.

Theorem one_pass_types_not_principal :
  exists p ident o E q,
    sym_run p = Ok (o, E) /\ q = sym_prune ident p E /\
    nth_error q 12 = Some (RAssertL 10 []) /\
    (* the original arrows type the pruned structure with its original witnesses ... *)
    typed_on q shared_arrows_old retained = true /\
    (* ... and so do strictly smaller arrows, with the witnesses shrunk *)
    typed_on (shrink shared_arrows_new q) shared_arrows_new retained = true /\
    shared_arrows_new 3%nat = Some (One, One) /\ shared_arrows_old 3%nat = Some (word_ty 3, word_ty 3) /\
    (* the witness stream of the two typings differs in length: 1 + 8 bits against 1 bit *)
    nth_error q 1 = Some (RWitness (CV (word_ty 3) w1_val)) /\
    nth_error (shrink shared_arrows_new q) 1 = Some (RWitness (CV One SU)).
Proof.
  exists shared_prog, (fun i => i).
  destruct (sym_run shared_prog) as [[o E]| | |] eqn:R; try (vm_compute in R; discriminate).
  exists o, E, (sym_prune (fun i => i) shared_prog E).
  split; [reflexivity|]. split; [reflexivity|].
  vm_compute in R. injection R as <- <-. vm_compute. repeat split; reflexivity.
Qed.

(* ------------------------------------------------------------------ the hypotheses of Retype.v are satisfiable *)

Definition mem_nat (c : nat) (idx : list nat) : bool := existsb (Nat.eqb c) idx.

(* idx contains the root and is closed under children: it contains everything reachable *)
Definition closed_idx (p : rprog) (idx : list nat) : bool :=
  forallb (fun k => match nth_error p k with
                    | Some n => forallb (fun c => mem_nat c idx) (rchildren n)
                    | None => true
                    end) idx.

Lemma reach_in_idx p root idx : mem_nat root idx = true -> closed_idx p idx = true ->
  forall i, reach p root i -> mem_nat i idx = true.
Proof.
  intros Hr Hc i H. induction H as [|k n c Hk IH Hn Hin]; [exact Hr|].
  unfold closed_idx in Hc. rewrite forallb_forall in Hc.
  unfold mem_nat in IH. apply existsb_exists in IH. destruct IH as (k' & Hk' & E). apply Nat.eqb_eq in E. subst k'.
  specialize (Hc _ Hk'). rewrite Hn in Hc. rewrite forallb_forall in Hc. apply Hc. exact Hin.
Qed.

Lemma typed_on_from p ar root idx : typed_on p ar idx = true ->
  mem_nat root idx = true -> closed_idx p idx = true -> typed_from ex_jet_ty p ar root.
Proof.
  intros Ht Hr Hc i n Hreach Hn. pose proof (reach_in_idx _ _ _ Hr Hc _ Hreach) as Hi.
  unfold mem_nat in Hi. apply existsb_exists in Hi. destruct Hi as (i' & Hi' & E). apply Nat.eqb_eq in E. subst i'.
  unfold typed_on in Ht. rewrite forallb_forall in Ht. specialize (Ht _ Hi'). rewrite Hn in Ht. exact Ht.
Qed.

(* a jet semantics that respects the jet typing, and a hash value of the right type *)
Definition ex_jet_sem (f j : N) (v : sval) : option sval :=
  if j =? 4 then Some (if forallb negb (compact_enc v) then SR SU else SL SU) else None.
Definition ex_hash_val (h : list N) : sval := szero (word_ty 8).

Example ex_jet_typed : forall f j s t v o, ex_jet_ty f j = Some (s, t) ->
  has_ty v s = true -> ex_jet_sem f j v = Some o -> has_ty o t = true.
Proof.
  unfold ex_jet_ty, ex_jet_sem. intros f j s t v o H _ Ho. destruct (j =? 4); [|discriminate].
  injection H as <- <-. injection Ho as <-. destruct (forallb negb (compact_enc v)); reflexivity.
Qed.

Example ex_hash_typed : forall h, has_ty (ex_hash_val h) (word_ty 8) = true.
Proof. intros h. apply szero_has_ty. Qed.

(* the whole chain on the example: the unpruned program is typed by its arrows, runs, is pruned; the
   pruned structure is typed by the old arrows and - with shrunk witnesses - by the new ones; the
   re-typed program runs with the same events *)
Example shared_prog_end_to_end :
  let run_ex := run sym_hashes ex_jet_sem ex_hash_val in
  exists o E,
    typed_from ex_jet_ty shared_prog shared_arrows_old 13 /\
    run_ex shared_prog = Ok (o, E) /\
    let q := sym_prune (fun i => i) shared_prog E in
    typed_from ex_jet_ty q shared_arrows_old 13 /\
    typed_from ex_jet_ty (shrink shared_arrows_new q) shared_arrows_new 13 /\
    run_ex (shrink shared_arrows_new q) = Ok (SU, E).
Proof.
  intros run_ex.
  destruct (run_ex shared_prog) as [[o E]| | |] eqn:R; try (vm_compute in R; discriminate).
  exists o, E.
  assert (T0 : typed_from ex_jet_ty shared_prog shared_arrows_old 13).
  { apply typed_on_from with (idx := seq 0 14); vm_compute; reflexivity. }
  split; [exact T0|]. split; [reflexivity|]. intros q.
  assert (T1 : typed_from ex_jet_ty q shared_arrows_old 13) by (apply prune_typed; exact T0).
  assert (T2 : typed_from ex_jet_ty (shrink shared_arrows_new q) shared_arrows_new 13).
  { apply typed_on_from with (idx := retained); subst q; vm_compute in R; injection R as <- <-; vm_compute; reflexivity. }
  split; [exact T1|]. split; [exact T2|].
  assert (Rq : run_ex q = Ok (o, E)).
  { subst q. apply prune_eval; [vm_compute; reflexivity|exact R]. }
  apply (retype_run_prog sym_hashes ex_jet_sem ex_hash_val ex_jet_ty ex_jet_typed ex_hash_typed
           q shared_arrows_old shared_arrows_new o E); auto.
Qed.
