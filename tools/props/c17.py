"""C17 - the human-readable encoding round-trips (src/human_encoding, simpcli).

Three case families, all run through /verif/harness_human (command `human`):
  prog  committed programs (proggen; Core and Elements jets; witnesses, assertions, disconnect,
        fail, words of all sizes, equal sub-expressions as shared and as distinct objects)
        -> Forest::from_program -> string_serialize -> Forest::parse -> compare;
        model: Human/Run.v run_prog (Namer + render + resolve, identity-hash / cmr classes from
        the implementation)
  text  generated source texts (inline and named sub-expressions, reference chains, comments, type
        ascriptions, generated-looking names, unused definitions, repeated / missing / cyclic names,
        holes, shared witnesses) -> parse -> (single program) render -> parse -> compare;
        model: run_text (resolve + render + resolve)
  str   arbitrary and mutated strings, deep nesting, long identifiers: termination, no panic; every
        literal form after `const` / `fail` with the error code an independent reading predicts.
  typ   complete types (all small shapes, words up to 2^(2^16), option chains, sums of products of
        sums, the nesting budget at its boundary) -> Final's Display -> tokens -> parsed again in
        target position; model: Human/TypeRun.v run_typ (Display loop + parse_type, token level)
  tytext  type texts (generated from the grammar, with and without parentheses, mutated) in target
        position -> the type the parser reads or its error; model: run_tytext
  textcmr generated plain texts against the same program built through the construction API (root CMR)
  paths  texts in which named / inline witnesses and disconnects are shared 2, 3, .. times below one or
        several roots, also through shared intermediate definitions (path counts multiply), up to 2^63
        paths -> Forest::parse -> the reported (name, count) pairs, sorted; model: Human/PathRun.v run_paths
        (the loop of parse_inner as written, Human/PathCount.v); an independent python count of the paths
        to every user-named witness / disconnect is the direct test
  linetok committed programs -> the text of string_serialize, tokenised here by an independent reader (the lexer's token
        classes; literals as bytes + bit length), against the token list of the model (Human/LineText.v line_tokens:
        `name := expr operands : A -> B`; the arrows of the lines are read from the text and handed to the model as
        data); the model also runs its token parser on its own rendering (must give the rendered definitions back)
  fromok committed programs -> the facts behind theorem C17_from_program observed on the objects (identity
        hashes closed as CommitData::imr says, names distinct, one path per witness name); model: run_fromok
Scope decision (property text: "any successfully parsed single-program source text"): a text is in
scope of the round-trip clause iff its parse succeeds with exactly one root and that root is `main`.
Texts that parse to several roots (unused definitions, filled holes) or to none are only required to
terminate without panic; what happens when they are rendered and parsed again is recorded in the
evidence (`multi_root_reparse`) but is not a failure.
"""
import json
import os
import re
import sys

import proggen as pg
import vplib
from vplib import Case

PROP = "C17"
LEVEL = "proof"
IMPORTS = ["Core.Prog", "Human.Namer", "Human.Render", "Human.Resolve", "Human.Run", "Human.TypeText", "Human.TypeRun",
           "Human.PathCount", "Human.PathSat", "Human.FromProgram", "Human.PathRun", "Human.LineText", "Human.LineRun"]
CRATE = None  # merged into the main harness crate
CORPUS = os.path.join(vplib.VERIF, "corpus", "C17")

PREFIXES = ["id", "ut", "jl", "jr", "dp", "tk", "cp", "cs", "asstl", "asstr", "pr", "disc", "wit", "FAIL", "jt", "const"]
PREFIX_COQ = ["PId", "PUt", "PJl", "PJr", "PDp", "PTk", "PCp", "PCs", "PAsstl", "PAsstr", "PPr", "PDisc", "PWit",
              "PFail", "PJt", "PConst"]
KINDS = ["iden", "unit", "injl", "injr", "take", "drop", "comp", "case", "pair", "assertl", "assertr", "disconnect",
         "witness", "fail", "jet", "const"]
KIND_COQ = ["KIden", "KUnit", "KInjL", "KInjR", "KTake", "KDrop", "KComp", "KCase", "KPair", "KAssertL", "KAssertR",
            "KDisconnect", "KWitness", "KFail", "KJet", "KWord"]
LEXICAL = {1, 2, 3, 4, 12, 13, 14, 17}      # error codes raised below the level of the model
MODELLED = {5, 6, 8, 9, 10, 18}


# ------------------------------------------------------------------ reading harness results
class Bad(Exception):
    pass


def read_name(v, p):
    c = v[p]
    if c == 0:
        return ("main",), p + 1
    if c == 1:
        return ("gen", v[p + 1], v[p + 2]), p + 3
    if c == 2:
        return ("hole", v[p + 1]), p + 2
    if c == 3:
        return ("user", v[p + 1]), p + 2
    if c == 4:
        return ("other", v[p + 1]), p + 2
    if c == 5:
        return ("holesp", v[p + 1]), p + 2
    raise Bad("name code %s" % c)


def read_lines(v, p, with_af):
    """LINES groups starting at v[p]; returns (list of line dicts, position of the terminator)"""
    out = []
    while p < len(v) and v[p] in (7, 5):
        if v[p] == 5:
            out.append({"kind": -1})
            p += 1
            continue
        k = v[p + 1]
        nm, p = read_name(v, p + 2)
        ln = {"kind": k, "name": nm, "ops": [], "pay": [], "hole": None, "af": 0}
        if k in (2, 3, 4, 5):
            a, p = read_name(v, p)
            ln["ops"] = [a]
        elif k in (6, 7, 8):
            a, p = read_name(v, p)
            b, p = read_name(v, p)
            ln["ops"] = [a, b]
        elif k == 9:
            a, p = read_name(v, p)
            ln["ops"] = [a]
            ln["pay"] = v[p:p + 32]
            p += 32
        elif k == 10:
            ln["pay"] = v[p:p + 32]
            p += 32
            a, p = read_name(v, p)
            ln["ops"] = [a]
        elif k == 11:
            a, p = read_name(v, p)
            h, p = read_name(v, p)
            ln["ops"] = [a]
            ln["hole"] = h
        elif k == 13:
            ln["pay"] = v[p:p + 64]
            p += 64
        elif k == 14:
            ln["pay"] = v[p:p + 1]
            p += 1
        elif k == 15:
            n = v[p]
            nb = max(1, (2 ** n + 7) // 8)
            ln["pay"] = v[p:p + 1 + nb]
            p += 1 + nb
        elif k not in (0, 1, 12):
            raise Bad("kind %s" % k)
        if with_af:
            ln["af"] = v[p]
            p += 1
        out.append(ln)
    return out, p


def name_nums(nm):
    return {"main": [0], "gen": [1], "hole": [2], "user": [3], "other": [4], "holesp": [5]}[nm[0]] + list(nm[1:])


def line_nums(ln, zero_assert_pay=False):
    if ln["kind"] == -1:
        return [5]
    k = ln["kind"]
    o = [7, k] + name_nums(ln["name"])
    pay = ln["pay"]
    if zero_assert_pay and k in (9, 10):
        pay = [0] * 32      # `#{expr}`: the model has no hash function; compared as 32 zero bytes
    if k == 9:
        o += name_nums(ln["ops"][0]) + pay
    elif k == 10:
        o += pay + name_nums(ln["ops"][0])
    elif k == 11:
        o += name_nums(ln["ops"][0]) + name_nums(ln["hole"])
    elif k in (13, 14, 15):
        o += pay
    else:
        for a in ln["ops"]:
            o += name_nums(a)
    return o


def read_reparse(v, p):
    """REPARSE group -> dict"""
    c = v[p]
    if c == 0:
        keys = ["nroots", "has_main", "cmr_eq", "arrows_eq", "names_eq", "enc_eq", "text_eq"]
        return {"st": 0, **dict(zip(keys, v[p + 1:p + 8]))}, p + 8
    if c == 1:
        k = v[p + 2]
        return {"st": 1, "nerr": v[p + 1], "codes": list(v[p + 3:p + 3 + k])}, p + 3 + k
    if c == 9:
        return {"st": 9}, p + 1
    raise Bad("reparse code %s" % c)


def decode_result(kind, r):
    """structured form of a harness result of kind prog / text; None when malformed"""
    if not isinstance(r, list) or not r or not all(isinstance(x, int) for x in r):
        return None
    if kind in ("paths", "fromok", "linetok"):
        return None
    try:
        if kind == "prog":
            if r[0] == 1:
                return {"stage": "nocommit", "code": r[1] if len(r) > 1 else -1}
            if r[0] == 9:
                return {"stage": "panic"}
            lines, p = read_lines(r, 1, True)
            if r[p] != 8:
                raise Bad("no separator")
            rp, p = read_reparse(r, p + 1)
            return {"stage": "rendered", "lines": lines, "reparse": rp, "np": r[p]}
        # text
        if r[0] == 9:
            return {"stage": "panic", "slow": r[1] if len(r) > 1 else 0}
        if r[0] == 1:
            k = r[2]
            return {"stage": "error", "nerr": r[1], "codes": list(r[3:3 + k]), "slow": r[3 + k]}
        if r[1] == 6:
            return {"stage": "multi", "nroots": r[2], "has_main": r[3], "again": r[4], "slow": r[5]}
        lines, p = read_lines(r, 1, True)
        if r[p] != 8:
            raise Bad("no separator")
        rp, p = read_reparse(r, p + 1)
        return {"stage": "rendered", "lines": lines, "reparse": rp, "np": r[p], "slow": r[p + 1]}
    except (Bad, IndexError):
        return None


# ------------------------------------------------------------------ canonical forms compared with the model
def canon_impl(c, r, model):
    """what of the implementation result is compared with the model (see module documentation of Run.v):
    the definition lines exactly; of the second parse: ok/nroots/has_main/same-text, or the set of error
    codes of the level of the model.  Errors below that level (characters, types) are not predicted by the
    model: in that case the model's own group is substituted so that only the lines are compared."""
    d = decode_result(c.kind, r)
    if d is None:
        return r
    za = c.meta.get("zero_assert", False)

    def lines_part(ls):
        o = []
        for ln in ls:
            o += line_nums(ln, za)
        return o

    def model_tail():
        if isinstance(model, list) and 8 in model:
            # the model's REPARSE group is what follows the LAST separator 8 that precedes it; locate by parsing
            try:
                _ls, p = read_lines(model, 1, False)
                return model[p + 1:]
            except (Bad, IndexError):
                return None
        return None

    if d["stage"] == "rendered":
        out = [0] + lines_part(d["lines"]) + [8]
        rp = d["reparse"]
        if rp["st"] == 0:
            out += [0, rp["nroots"], rp["has_main"], rp["text_eq"]]
        elif rp["st"] == 9:
            out += [9]
        else:
            codes = set(rp["codes"])
            mt = model_tail()
            if codes & LEXICAL or 15 in codes:
                if mt is not None and mt[:1] == [1]:
                    out += mt           # both fail; the model for its own (definition level) reason
                elif mt is not None:
                    out += mt           # character / type level failure: outside the model
                else:
                    out += [1, len(codes)] + sorted(codes)
            else:
                out += [1, len(codes)] + sorted(codes)
        return out
    if d["stage"] == "error":
        codes = set(d["codes"])
        if codes <= {15}:
            # nothing but type errors: outside the model (e.g. a second root re-types ascribed nodes: under a
            # non-main root ascriptions are applied after the children were finalised); counted in the statistics
            return model
        codes.discard(15)               # type errors next to errors of the level of the model: not modelled
        return [1, len(codes)] + sorted(codes)
    if d["stage"] == "multi":
        return [0, 6, d["nroots"], d["has_main"]]
    if d["stage"] == "panic":
        return [9]
    return r


def canon_model(c, m):
    if not isinstance(m, list):
        return m
    if c.meta.get("zero_assert") and m[:1] == [0] and m[1:2] != [6]:
        try:
            ls, p = read_lines(m, 1, False)
            o = [0]
            for ln in ls:
                o += line_nums(ln, True)
            return o + m[p:]
        except (Bad, IndexError):
            return m
    return m


# ------------------------------------------------------------------ the property on the implementation
def defined_once(lines):
    """None, or (class, text) when an operand of a rendered line is not the name of exactly one line"""
    names = [tuple(ln["name"]) for ln in lines if ln["kind"] >= 0]
    for ln in lines:
        if ln["kind"] < 0:
            continue
        for a in ln["ops"]:
            n = names.count(tuple(a))
            if n == 0:
                return ("render-undefined-name", "the rendered text refers to `%s`, which it does not define" % show_name(a))
    for nm in names:
        if names.count(nm) > 1:
            return ("generated-name-collision", "the rendered text defines `%s` %d times" % (show_name(nm), names.count(nm)))
    return None


def show_name(nm):
    nm = tuple(nm)
    if nm[0] == "main":
        return "main"
    if nm[0] == "gen":
        return "%s%d" % (PREFIXES[nm[1]], nm[2])
    if nm[0] == "hole":
        return "hole_%d" % nm[1]
    if nm[0] == "holesp":
        return "hole %d" % nm[1]
    if nm[0] == "user":
        return "u%d" % nm[1]
    return "<name of %d bytes>" % nm[1]


def first_lexical_problem(lines):
    """The first thing in text order that the grammar of the parser cannot read (sections: the harness
    reports lines in text order).  Returns a class name or None."""
    for ln in lines:
        if ln["kind"] < 0:
            return "render-unreadable-line"
        if ln["name"][0] == "holesp":
            return "hole-name-space"
        if ln["af"] == 3:
            return "fail-entropy-no-prefix"
        if ln["kind"] == 11 and ln["hole"][0] == "holesp":
            return "hole-name-space"
        if ln["af"] == 1:
            return "type-option-suffix"
        if ln["af"] == 2:
            return "type-word-too-large"
    return None


def roundtrip_check(lines, rp, what, np=0):
    """the round-trip clause on one rendered program"""
    dd = defined_once(lines)
    if rp["st"] == 9:
        return ("parse-panic", "parsing the rendered text of %s panicked" % what)
    if rp["st"] == 1:
        codes = set(rp["codes"])
        if dd is not None and (codes & {9, 10}):
            return (dd[0], "%s; second parse fails (error codes %s) for %s" % (dd[1], sorted(codes), what))
        lx = first_lexical_problem(lines)
        if lx is not None and (codes & LEXICAL):
            return (lx, "rendered text of %s does not parse again: %s (error codes %s)" % (what, lx, sorted(codes)))
        if codes == {15} and np == 1:
            return ("non-principal-types",
                    "%s: its types are not the principal types of the rendered structure (the rendering parsed without ascriptions "
                    "infers other arrows); ascriptions under `main` are only checked after inference, so the second parse reports a "
                    "type error" % what)
        if 18 in codes:
            return ("witness-shared-paths", "rendered text of %s: a witness/disconnect name is reachable on two paths" % what)
        return ("reparse-error-" + "-".join(str(x) for x in sorted(codes)),
                "rendered text of %s does not parse again (error codes %s)" % (what, sorted(codes)))
    if not rp["has_main"] or rp["nroots"] != 1:
        if any(ln["kind"] in (9, 10) for ln in lines):
            return ("assert-literal-dropped",
                    "rendered text of %s parses to %d roots without `main`: the `#cmr` literal of an assertion is dropped by the parser"
                    % (what, rp["nroots"]))
        return ("reparse-roots", "rendered text of %s parses to %d roots, main present: %d" % (what, rp["nroots"], rp["has_main"]))
    if not rp["cmr_eq"]:
        return ("roundtrip-cmr", "reparsed %s has a different commitment root" % what)
    if not rp["arrows_eq"]:
        return ("roundtrip-types", "reparsed %s differs in node count, node cmr or a type" % what)
    if not rp["enc_eq"]:
        return ("roundtrip-encoding", "reparsed %s has a different bit encoding" % what)
    if not rp["names_eq"] or not rp["text_eq"]:
        return ("roundtrip-names", "reparsed %s carries different names / renders differently" % what)
    if dd is not None:
        return (dd[0], dd[1] + " (%s)" % what)
    return None


def prop_check(c, r):
    if c.kind == "linetok":
        if r in ("CRASH", "TIMEOUT") or r is None:
            return ("render-crash", "the process %s on %s %s" % ("aborted" if r == "CRASH" else "did not finish", c.kind, c.line[:200]))
        if isinstance(r, list) and r[:1] == [9]:
            return ("render-panic", "from_program / string_serialize panicked on %s" % c.line[:200])
        return None
    if c.kind in ("paths", "fromok"):
        return check_paths(c, r)
    if r == "CRASH" and c.kind in ("text", "tytext") and c.meta.get("type_chain"):
        return ("parse-type-chain-stack-overflow", "Forest::parse aborts the process (stack overflow in ast::Type::reify) on a type "
                "ascription built by chains of `?` / `+` / `*` (%s, %d bytes of source)" % (c.meta.get("tag"), len(c.meta.get("src", ""))))
    if c.kind in ("typ", "tytext", "textcmr"):
        if r in ("CRASH", "TIMEOUT") or r is None:
            return ("parse-crash" if r == "CRASH" else "parse-timeout",
                    "the process %s on %s %s" % ("aborted" if r == "CRASH" else "did not finish", c.kind, c.line[:200]))
        if c.kind == "typ":
            return check_typ(c, r)
        if c.kind == "tytext":
            if r[:1] == [9]:
                return ("parse-panic", "Forest::parse panicked on the type text %r" % c.meta.get("src", "")[:200])
            return None
        if r[:1] == [9]:
            return ("parse-panic", "Forest::parse panicked on the source text %r" % c.meta.get("src", "")[:200])
        if r[:2] == [0, 0]:
            return ("parse-cmr-vs-construction", "the program parsed from %r has another commitment root than the same program "
                    "built through the construction API (%s)" % (c.meta.get("src", "")[:300], c.line.split()[-1][:200]))
        return None
    if r == "CRASH" and c.kind == "text" and nesting(c.meta.get("src", "")) > 4000:
        return ("parse-stack-overflow", "Forest::parse aborts the process (stack overflow in the recursive descent parser) on a "
                "source text of %d bytes nested about %d deep" % (len(c.meta.get("src", "")), nesting(c.meta.get("src", ""))))
    if r in ("CRASH", "TIMEOUT") or r is None:
        return ("parse-crash" if r == "CRASH" else "parse-timeout",
                "the process %s on %s %s" % ("aborted" if r == "CRASH" else "did not finish", c.kind, c.line[:200]))
    d = decode_result(c.kind, r)
    if d is None:
        return ("harness-result", "unreadable harness result %s" % (r[:40] if isinstance(r, list) else r))
    if c.kind == "prog":
        if d["stage"] == "panic":
            if c.meta.get("long_line"):
                return ("render-width-panic", "string_serialize panics (`{:width$}` with a width above 65535) on a program with a "
                        "definition line of more than 65535 characters: %s" % c.line[:120])
            return ("render-panic", "from_program / string_serialize panicked on %s" % c.line[:200])
        if d["stage"] == "nocommit":
            return None
        return roundtrip_check(d["lines"], d["reparse"], "program `%s`" % c.line[:200], d["np"])
    # text
    if d["stage"] == "panic":
        if isinstance(r, list) and len(r) == 1:
            # not the parser: the harness as a whole panicked, i.e. string_serialize did
            if max([len(w) for w in c.meta.get("src", "").split()] + [0]) > 60000:
                return ("render-width-panic", "string_serialize panics (`{:width$}` with a width above 65535) on a parsed "
                        "text with a definition line of more than 65535 characters (%d bytes of source)" % len(c.meta.get("src", "")))
            return ("render-panic", "string_serialize panicked on the parsed source text %r" % c.meta.get("src", "")[:200])
        return ("parse-panic", "Forest::parse panicked on the source text %r" % c.meta.get("src", "")[:200])
    ex = check_expect(c, d)
    if ex is not None:
        return ex
    if d["stage"] == "rendered":
        return roundtrip_check(d["lines"], d["reparse"], "source text %r" % c.meta.get("src", "")[:300], d["np"])
    return None


def nesting(src):
    """rough nesting depth of a text: open parentheses / `#{` / prefix combinators not yet closed"""
    depth = best = 0
    for tok in re.findall(r"#\{|[(){}]|[a-z_0-9]+", src[:400000]):
        if tok in ("(", "#{"):
            depth += 1
        elif tok in (")", "}"):
            depth -= 1
        elif tok in ("injl", "injr", "take", "drop", "comp", "pair", "case", "assertl", "assertr", "disconnect"):
            depth += 1
        best = max(best, depth)
    return best


def finding_match(c, r, cls):
    """an open finding covers a failing case only if the class agrees AND its predicate holds of the case"""
    for f in vplib.open_findings(PROP):
        if f.get("match", {}).get("kind") != cls:
            continue
        if cls == "non-principal-types":
            # predicate: the arrows of the program differ from the arrows inferred for its rendered structure
            # alone (harness flag NP = 1: the rendering parsed without ascriptions has other arrows), and the
            # only errors of the second parse are type errors
            d = decode_result(c.kind, r) if r is not None else None
            if d and d.get("stage") == "rendered" and d.get("np") == 1 and d["reparse"]["st"] == 1 \
                    and set(d["reparse"]["codes"]) == {15}:
                return f["id"]
            continue
        return f["id"]
    return None


def nontrivial(c, r):
    if c.kind == "paths" and isinstance(r, list):
        return ("paths", c.meta.get("src"))
    if c.kind == "linetok" and isinstance(r, list) and c.meta.get("lines", 0) >= 3:
        return ("linetok", c.line)
    if c.kind == "fromok" and isinstance(r, list) and r[:1] == [0] and len(r) > 2 and r[2] >= 3:
        return ("fromok", c.line)
    if c.kind in ("typ", "tytext") and isinstance(r, list) and len(r) > 3:
        return (c.kind, tuple(r[:400]))
    d = decode_result(c.kind, r) if c.kind in ("prog", "text") else None
    if d is None:
        return None
    if d["stage"] == "rendered":
        if len(d["lines"]) < 3:
            return None
        key = []
        for ln in d["lines"]:
            key += line_nums(ln)
        return (c.kind, tuple(key))
    if d["stage"] in ("error", "multi") and c.kind == "text":
        return ("text", c.meta.get("src"))
    return None


# ------------------------------------------------------------------ Coq syntax of the model inputs
def coq_name(nm):
    if nm[0] == "main":
        return "NMain"
    if nm[0] == "gen":
        return "(NGen %s %d)" % (PREFIX_COQ[nm[1]], nm[2])
    if nm[0] == "hole":
        return "(NHole %d)" % nm[1]
    return "(NUser %d)" % nm[1]


def text_name(nm):
    return show_name(nm)


def coq_opt(e):
    return "None" if e is None else "(Some %s)" % e


def pack(bits):
    out = []
    for i in range(0, len(bits), 8):
        ch = bits[i:i + 8] + [0] * (8 - len(bits[i:i + 8]))
        v = 0
        for b in ch:
            v = 2 * v + b
        out.append(v)
    return out


class E:
    """expression of a generated text: text and model syntax are produced from the same tree"""

    def __init__(self, tag, **kw):
        self.tag = tag
        self.__dict__.update(kw)


def e_coq(e):
    t = e.tag
    if t == "ref":
        return "(ERef %s)" % coq_name(e.name)
    if t == "hole":
        return "(EHole %s)" % coq_name(e.name)
    if t == "node":
        return "(ENode %s %s %s %s)" % (KIND_COQ[e.kind], vplib.coq_list(e.pay),
                                       coq_opt(e_coq(e.l) if e.l else None), coq_opt(e_coq(e.r) if e.r else None))
    if t == "alit":
        return "(EAssertLit %s %s %s)" % (KIND_COQ[e.kind], e_coq(e.c),
                                          vplib.coq_list([int(e.hex[j:j + 2], 16) for j in range(0, 64, 2)]))
    if t == "aexpr":
        return "(EAssertExpr %s %s %s)" % (KIND_COQ[e.kind], e_coq(e.c), e_coq(e.h))
    raise ValueError(t)


def word_lit(rng, bits):
    if len(bits) % 4 == 0 and rng.chance(3, 4):
        return "0x" + "".join("%x" % int("".join(str(b) for b in bits[i:i + 4]), 2) for i in range(0, len(bits), 4))
    return "0b" + "".join(str(b) for b in bits)


def e_text(rng, e, top=False):
    """concrete syntax with random layout"""
    t = e.tag

    def sp():
        r = rng.below(12)
        return " " if r < 9 else ("  " if r < 10 else ("\n    " if r < 11 else " -- c\n  "))

    def sub(x):
        s = e_text(rng, x)
        simple = x.tag in ("ref",) or (x.tag == "node" and x.l is None and x.kind not in (13, 15))
        if x.tag == "hole":
            return s
        if simple and rng.chance(2, 3):
            return s
        if rng.chance(3, 4):
            return "(" + s + ")"
        return s

    if t == "ref":
        return text_name(e.name)
    if t == "hole":
        return "?" + text_name(e.name)
    if t == "node":
        k = e.kind
        if k == 13:
            return "fail" + sp() + e.lit
        if k == 14:
            return "jet_" + e.jet
        if k == 15:
            return "const" + sp() + e.lit
        s = KINDS[k]
        if e.l is not None:
            s += sp() + sub(e.l)
        if e.r is not None:
            s += sp() + sub(e.r)
        return s
    if t == "alit":
        lit = "#" + e.hex
        if e.kind == 9:
            return "assertl" + sp() + sub(e.c) + sp() + lit
        return "assertr" + sp() + lit + sp() + sub(e.c)
    if t == "aexpr":
        h = "#{" + e_text(rng, e.h) + "}"
        if e.kind == 9:
            return "assertl" + sp() + sub(e.c) + sp() + h
        return "assertr" + sp() + h + sp() + sub(e.c)
    raise ValueError(t)


def ty_text(t):
    n = pg.as_word(t)
    if n is not None and n <= 9:
        return "2" if n == 0 else "2^%d" % (2 ** n)
    if t[0] == "u":
        return "1"
    return "(%s %s %s)" % (ty_text(t[1]), "+" if t[0] == "s" else "*", ty_text(t[2]))


# ------------------------------------------------------------------ text generator
class TextGen:
    """turns a node table (proggen) into a source text and the model's line list"""

    def __init__(self, rng, prog, arrows, jet_ids, opts=None):
        self.rng = rng
        self.prog = prog
        self.arrows = arrows
        self.jet_ids = jet_ids
        self.o = dict(named=35, gen_names=6, ascribe=30, aexpr=50, chain=8, comments=20)
        if opts:
            self.o.update(opts)
        self.next_user = 1
        self.lines = []      # (name, E | None, ascription text | None)
        self.zero_assert = False
        self.has_lit = False
        self.node_name = {}

    def fresh(self, kind=None):
        rng = self.rng
        if kind is not None and rng.below(100) < self.o["gen_names"]:
            # a name of the form the Namer generates: may collide with a generated one
            return ("gen", rng.choice([PREFIXES.index("ut"), PREFIXES.index("cp"), PREFIXES.index("pr"),
                                       PREFIXES.index("id"), PREFIXES.index("wit"), PREFIXES.index("const"),
                                       PREFIXES.index(["id", "ut", "jl", "jr", "tk", "dp", "cp", "cs", "pr", "asstl", "asstr",
                                                       "disc", "wit", "FAIL", "jt", "const"][min(kind, 15)])]),
                    rng.range(1, 6))
        k = self.next_user
        self.next_user += 1
        return ("user", k)

    def uses(self):
        cnt = [0] * len(self.prog)
        for n in self.prog:
            for c in pg.children(n):
                cnt[c] += 1
        return cnt

    def build(self):
        rng = self.rng
        prog = self.prog
        cnt = self.uses()
        root = len(prog) - 1
        named = {}
        taken = set()
        for i, n in enumerate(prog):
            if n[0] == "hid":
                continue
            if i == root:
                named[i] = ("main",)
            elif (cnt[i] > 1 and rng.chance(4, 5)) or rng.below(100) < self.o["named"]:
                nm = self.fresh(self.kind_of(i))
                tries = 0
                while nm in taken and tries < 5:
                    nm = self.fresh(None)
                    tries += 1
                named[i] = nm
            if i in named:
                taken.add(named[i])
        self.node_name = named
        # Ascriptions under `main` are checked after inference, so they must be the types inference finds for
        # the TEXT: that is the case when the text keeps the sharing of the program (every node used twice is
        # named) and the program was not typed with a disconnect branch that commitment drops.
        self.ascribe_ok = (all(i in named for i in range(len(prog)) if cnt[i] > 1 and prog[i][0] != "hid")
                           and not any(n[0] == "disc" and n[2] is not None for n in prog)
                           and self.o["aexpr"] == 0)
        for i in sorted(named):
            e = self.expr(i, top=True)
            asc = None
            if self.ascribe_ok and self.arrows and self.arrows[i] and rng.below(100) < self.o["ascribe"]:
                a, b = self.arrows[i]
                sa = "_" if rng.chance(1, 6) else ty_text(a)
                sb = "_" if rng.chance(1, 6) else ty_text(b)
                asc = "%s -> %s" % (sa, sb)
            self.lines.append([named[i], e, asc])
        # reference chains: x := y, users of y may use x
        return self

    def kind_of(self, i):
        n = self.prog[i]
        return {"iden": 0, "unit": 1, "injl": 2, "injr": 3, "take": 4, "drop": 5, "comp": 6, "case": 7, "pair": 8,
                "disc": 11, "wit": 12, "fail": 13, "jet": 14, "word": 15}.get(n[0], 0)

    def ref_or_inline(self, c):
        if c in self.node_name:
            return E("ref", name=self.node_name[c])
        return self.expr(c)

    def expr(self, i, top=False):
        rng = self.rng
        n = self.prog[i]
        k = n[0]
        if k in ("iden", "unit"):
            return E("node", kind=self.kind_of(i), pay=[], l=None, r=None)
        if k in ("injl", "injr", "take", "drop"):
            return E("node", kind=self.kind_of(i), pay=[], l=self.ref_or_inline(n[1]), r=None)
        if k in ("comp", "pair"):
            return E("node", kind=self.kind_of(i), pay=[], l=self.ref_or_inline(n[1]), r=self.ref_or_inline(n[2]))
        if k == "case":
            lh = self.prog[n[1]][0] == "hid"
            rh = self.prog[n[2]][0] == "hid"
            if lh:
                self.has_lit = True
                return E("alit", kind=10, c=self.ref_or_inline(n[2]), hex=self.prog[n[1]][1])
            if rh:
                self.has_lit = True
                return E("alit", kind=9, c=self.ref_or_inline(n[1]), hex=self.prog[n[2]][1])
            return E("node", kind=7, pay=[], l=self.ref_or_inline(n[1]), r=self.ref_or_inline(n[2]))
        if k == "disc":
            hole = self.fresh(None)
            return E("node", kind=11, pay=[], l=self.ref_or_inline(n[1]), r=E("hole", name=hole))
        if k == "wit":
            return E("node", kind=12, pay=[], l=None, r=None)
        if k == "fail":
            ent = [int(n[1][j:j + 2], 16) for j in range(0, 128, 2)]
            nbytes = rng.choice([16, 16, 32, 64, 64, 20])
            ent = ent[:nbytes] + [0] * (64 - nbytes)
            lit = "0x" + "".join("%02x" % b for b in ent[:nbytes])
            return E("node", kind=13, pay=ent, l=None, r=None, lit=lit)
        if k == "jet":
            return E("node", kind=14, pay=[self.jet_ids[(n[1], n[2])]], l=None, r=None, jet=n[2])
        if k == "word":
            return E("node", kind=15, pay=[n[1]] + pack(n[2]), l=None, r=None, lit=word_lit(rng, n[2]))
        raise ValueError(k)

    def case_as_assert(self):
        """turn some `case l r` into `assertl l #{r}` / `assertr #{l} r` (same typing as the case)"""
        rng = self.rng

        def walk(e):
            if e is None:
                return e
            if e.tag == "node":
                e.l = walk(e.l)
                e.r = walk(e.r)
                if e.kind == 7 and rng.below(100) < self.o["aexpr"]:
                    self.zero_assert = True
                    if rng.chance(1, 2):
                        return E("aexpr", kind=9, c=e.l, h=e.r)
                    return E("aexpr", kind=10, c=e.r, h=e.l)
            elif e.tag == "alit":
                e.c = walk(e.c)
            elif e.tag == "aexpr":
                e.c = walk(e.c)
                e.h = walk(e.h)
            return e

        for ln in self.lines:
            if ln[1] is not None:
                ln[1] = walk(ln[1])

    def add_chains(self):
        """x := y for a few named y; later references to y may go through x"""
        rng = self.rng
        new = []
        for ln in list(self.lines):
            if ln[0] != ("main",) and rng.below(100) < self.o["chain"]:
                alias = self.fresh(None)
                new.append([alias, E("ref", name=ln[0]), None])
        self.lines += new
        return [a[0] for a in new]

    def text(self):
        rng = self.rng
        order = rng.shuffle(list(range(len(self.lines))))
        self.order = order          # the model gets the lines in the order of the text (first definition wins)
        out = []
        for j in order:
            nm, e, asc = self.lines[j]
            if rng.below(100) < self.o["comments"]:
                out.append("-- " + rng.choice(["note", "x := y", "main := unit", "(((", "CMR: 00ff"]))
            if e is None:
                out.append("%s : %s" % (text_name(nm), asc))
                continue
            s = "%s := %s" % (text_name(nm), e_text(rng, e, True))
            if asc:
                s += " : " + asc
            if rng.below(100) < self.o["comments"]:
                s += "  -- " + rng.choice(["4f3a", "ok", ":= unit"])
            out.append(s)
            if rng.chance(1, 8):
                out.append("")
        return "\n".join(out) + ("\n" if rng.chance(1, 2) else "")

    def coq(self):
        lines = [self.lines[j] for j in self.order]
        return "[" + "; ".join("mk_line %s %s" % (coq_name(nm), coq_opt(e_coq(e) if e is not None else None))
                               for nm, e, _ in lines) + "]"


def all_refs(e, acc):
    if e is None:
        return acc
    if e.tag == "ref":
        acc.append(e)
    elif e.tag == "node":
        all_refs(e.l, acc)
        all_refs(e.r, acc)
    elif e.tag == "alit":
        all_refs(e.c, acc)
    elif e.tag == "aexpr":
        all_refs(e.c, acc)
        all_refs(e.h, acc)
    return acc


def all_nodes(e, acc):
    if e is None:
        return acc
    acc.append(e)
    if e.tag == "node":
        all_nodes(e.l, acc)
        all_nodes(e.r, acc)
    elif e.tag == "alit":
        all_nodes(e.c, acc)
    elif e.tag == "aexpr":
        all_nodes(e.c, acc)
        all_nodes(e.h, acc)
    return acc


def mutate_text(rng, tg):
    """one structural mutation of a generated text, applied to text and model input alike; returns its tag"""
    lines = tg.lines
    m = rng.below(9)
    defined = [ln for ln in lines if ln[1] is not None]
    if m == 0 and defined:
        ln = rng.choice(defined)                       # a name defined twice
        lines.append([ln[0], E("node", kind=1, pay=[], l=None, r=None), None])
        return "repeated"
    if m == 1:
        refs = []
        for ln in defined:
            all_refs(ln[1], refs)
        if refs:
            rng.choice(refs).name = tg.fresh(None)     # a reference to nothing
            return "missing"
    if m == 2 and defined:
        a = tg.fresh(None)                             # a cycle hanging under main
        b = tg.fresh(None)
        lines.append([a, E("node", kind=2, pay=[], l=E("ref", name=b), r=None), None])
        lines.append([b, E("node", kind=3, pay=[], l=E("ref", name=a), r=None), None])
        nodes = []
        for ln in defined:
            all_nodes(ln[1], nodes)
        tgt = [x for x in nodes if x.tag == "node" and x.kind == 1]
        if tgt:
            t = rng.choice(tgt)
            t.__dict__.update(E("ref", name=a).__dict__)
            t.tag = "ref"
        return "cycle"
    if m == 3:
        a = tg.fresh(None)                             # a declaration without expression
        lines.append([a, None, "1 -> 1"])
        return "incomplete"
    if m == 4:
        a = tg.fresh(None)                             # an unused definition: one more root
        lines.append([a, E("node", kind=6, pay=[], l=E("node", kind=0, pay=[], l=None, r=None),
                           r=E("node", kind=1, pay=[], l=None, r=None)), None])
        return "unused"
    if m == 5:
        nodes = []
        for ln in defined:
            all_nodes(ln[1], nodes)
        tgt = [x for x in nodes if x.tag == "node" and x.kind == 1]
        if tgt:
            t = rng.choice(tgt)                        # a hole where no hole may be
            nm = tg.fresh(None)
            t.__dict__.clear()
            t.__dict__.update(E("hole", name=nm).__dict__)
            return "hole-misplaced"
    if m == 6:
        nodes = []
        for ln in defined:
            all_nodes(ln[1], nodes)
        tgt = [x for x in nodes if x.tag == "node" and x.kind == 11]
        if tgt:
            t = rng.choice(tgt)                        # a disconnect with a filled branch
            t.r = E("node", kind=1, pay=[], l=None, r=None)
            return "hole-filled"
    if m == 7 and defined:
        # a witness under a name, used twice (two paths)
        a = tg.fresh(None)
        lines.append([a, E("node", kind=12, pay=[], l=None, r=None), None])
        nodes = []
        for ln in defined:
            all_nodes(ln[1], nodes)
        tgt = [x for x in nodes if x.tag == "node" and x.kind == 1]
        if len(tgt) >= 2:
            for t in rng.shuffle(tgt)[:2]:
                t.__dict__.clear()
                t.__dict__.update(E("ref", name=a).__dict__)
            return "witness-twice"
        lines.pop()
    if m == 8 and defined:
        # the hole of a disconnect is filled by a further root
        nodes = []
        for ln in defined:
            all_nodes(ln[1], nodes)
        tgt = [x for x in nodes if x.tag == "hole"]
        if tgt:
            lines.append([rng.choice(tgt).name, E("node", kind=1, pay=[], l=None, r=None), None])
            return "hole-root"
    return None


# ------------------------------------------------------------------ generators
def unshare(rng, prog, prob):
    """copy sub-expressions so that equal sub-expressions also occur as distinct objects"""
    out = []
    memo = {}

    def go(i, fresh):
        if i in memo and not fresh:
            return memo[i]
        n = prog[i]
        k = n[0]
        cs = pg.children(n)
        new = [go(c, rng.below(100) < prob) for c in cs]
        if k in ("injl", "injr", "take", "drop"):
            n2 = (k, new[0])
        elif k in ("comp", "case", "pair"):
            n2 = (k, new[0], new[1])
        elif k == "disc":
            n2 = (k, new[0], new[1] if len(new) > 1 else None)
        else:
            n2 = n
        out.append(n2)
        memo[i] = len(out) - 1
        return memo[i]

    go(len(prog) - 1, False)
    if len(out) > 400:
        return prog
    return out


def shared_witness(prog):
    """a node with a witness or disconnect below it that has two parents (from_program copies it)"""
    has = [False] * len(prog)
    par = [0] * len(prog)
    for i, n in enumerate(prog):
        cs = pg.children(n)
        if n[0] == "disc":
            cs = cs[:1]
        has[i] = n[0] in ("wit", "disc") or any(has[c] for c in cs)
        for c in cs:
            par[c] += 1
    return any(has[i] and par[i] > 1 for i in range(len(prog)))


def nonprincipal(prog):
    """why the types of the committed program may differ from what inference finds for the rendered text"""
    why = []
    if shared_witness(prog):
        why.append("a sub-expression with a witness/disconnect is used twice and from_program copies it")
    if any(n[0] == "disc" and n[2] is not None for n in prog):
        why.append("a disconnect was typed with its branch, which commitment drops")
    return "; ".join(why)


def hand_programs():
    """fixed small programs: the sharing patterns of F-C17 and every special form"""
    H = "ab" * 32
    P = []
    P.append(("c", [("unit",), ("unit",), ("pair", 0, 1), ("unit",), ("comp", 2, 3)]))       # equal units, distinct objects
    P.append(("c", [("unit",), ("pair", 0, 0), ("unit",), ("comp", 1, 2)]))                  # shared object
    P.append(("c", [("unit",), ("unit",), ("comp", 0, 1)]))
    P.append(("c", [("wit", None), ("unit",), ("comp", 0, 1), ("pair", 2, 2), ("unit",), ("comp", 3, 4)]))
    P.append(("c", [("wit", None), ("pair", 0, 0), ("unit",), ("comp", 1, 2)]))
    P.append(("c", [("iden",), ("disc", 0, None), ("unit",), ("comp", 1, 2)]))
    P.append(("c", [("iden",), ("unit",), ("disc", 0, 1), ("unit",), ("comp", 2, 3)]))
    P.append(("c", [("fail", "cd" * 64)]))
    P.append(("c", [("unit",), ("injr", 0), ("unit",), ("pair", 1, 2), ("hid", H), ("unit",), ("drop", 5), ("case", 4, 6),
                    ("comp", 3, 7)]))
    P.append(("c", [("unit",), ("injl", 0), ("unit",), ("pair", 1, 2), ("unit",), ("take", 4), ("hid", H), ("case", 5, 6),
                    ("comp", 3, 7)]))
    P.append(("c", [("unit",), ("injl", 0), ("unit",), ("comp", 1, 2)]))                     # 1 + 1 = 2, no option type
    P.append(("c", [("word", 3, [1, 0, 1, 0, 1, 0, 1, 1]), ("injr", 0), ("unit",), ("comp", 1, 2)]))   # option type 2^8?
    # options of options in arrows: 2??, 2^8??, (2 * 2)?? and an option inside a product inside an option
    P.append(("c", [("unit",), ("injl", 0), ("injr", 1), ("injr", 2), ("unit",), ("comp", 3, 4)]))
    P.append(("c", [("word", 3, [1, 0, 1, 0, 1, 0, 1, 1]), ("injr", 0), ("injr", 1), ("injr", 2), ("unit",), ("comp", 3, 4)]))
    P.append(("c", [("unit",), ("injl", 0), ("pair", 1, 1), ("injr", 2), ("injr", 3), ("unit",), ("comp", 4, 5)]))
    P.append(("c", [("unit",), ("injr", 0), ("injr", 1), ("unit",), ("pair", 2, 3), ("injr", 4), ("unit",), ("comp", 5, 6)]))
    for n in range(0, 13):
        bits = [(i * 7 + n) % 3 % 2 for i in range(2 ** n)]
        P.append(("c", [("word", n, bits), ("unit",), ("comp", 0, 1)]))
    P.append(("c", [("jet", "c", "add_8"), ("unit",), ("comp", 0, 1), ("word", 4, [0] * 16), ("comp", 3, 2)]))
    P.append(("e", [("jet", "e", "version"), ("unit",), ("comp", 0, 1)]))
    P.append(("e", [("jet", "e", "lock_time"), ("jet", "e", "version"), ("pair", 0, 1), ("unit",), ("comp", 2, 3)]))
    # nested shared pairs: identity hashes coincide in many places
    P.append(("c", [("unit",), ("unit",), ("pair", 0, 1), ("pair", 0, 1), ("pair", 2, 3), ("unit",), ("comp", 4, 5)]))
    # a shared witness whose type is fixed by one of its two uses only
    P.append(("c", [("wit", None), ("unit",), ("comp", 0, 1), ("jet", "c", "verify"), ("comp", 0, 3), ("pair", 2, 4), ("unit",),
                    ("comp", 5, 6)]))
    return P


def gen_structures(rng, tier, binary, workdir):
    """list of (fam, prog) committed-program descriptions"""
    out = list(hand_programs())
    jets = {}
    for fam in ("c", "e"):
        jl = pg.jet_list(binary, fam, workdir)
        # jets usable by the type directed generator: small source and target types
        jets[fam] = [(fam, name, s, t) for (_i, name, s, t) in jl if pg.width(s) <= 64 and pg.width(t) <= 64]
    n = 230 if tier == "quick" else 1200
    for k in range(n):
        fam = "e" if k % 3 == 2 else "c"
        r = rng.fork("p%d" % k)
        jsel = [r.choice(jets[fam]) for _ in range(6)]
        opts = dict(share=r.choice([0, 15, 30, 50]), witness=r.choice([0, 8, 20]), fail=r.choice([0, 0, 4]),
                    hidden=r.choice([0, 10, 30]), disconnect=r.choice([0, 0, 10]), jets=jsel,
                    word=r.choice([0, 15, 40]), comp=30)
        depth = r.range(2, 6)
        # a program 1 -> 1 : comp (x : 1 -> T) (y : T -> 1) with an interesting T
        t = pg.rand_ty(r, 2)
        if jsel and r.chance(1, 2):
            j = r.choice(jsel)
            # make the jet applicable: build its input, drop its output
            bld = pg.Builder(r, opts)
            a = bld.gen(pg.U, j[2], depth)
            jn = bld.add(("jet", j[0], j[1]))
            c1 = bld.add(("comp", a, jn))
            u = bld.add(("unit",))
            bld.add(("comp", c1, u))
            prog = pg.compact_prog(bld.nodes)
        else:
            bld = pg.Builder(r, opts)
            a = bld.gen(pg.U, t, depth)
            b = bld.gen(t, pg.U, r.range(1, 3))
            bld.add(("comp", a, b))
            prog = pg.compact_prog(bld.nodes)
        # disconnect without branch (hole) for some
        if r.chance(1, 6):
            prog = [("disc", n_[1], None) if n_[0] == "disc" and r.chance(1, 2) else n_ for n_ in prog]
            prog = pg.compact_prog(prog)
        if r.chance(1, 3):
            prog = unshare(r, prog, r.choice([20, 50, 100]))
        if len(prog) <= 120:
            out.append((fam, prog))
    return out


def prog_coq(prog, jet_ids):
    """proggen's rendering; child positions inside `Some` need the nat scope (the case files open N_scope)"""
    return re.sub(r"\(Some (\d+)\)", r"(Some \1%nat)", pg.prog_coq(prog, jet_ids))


def jet_id_map(binary, workdir):
    m = {}
    for fam in ("c", "e"):
        for (i, name, _s, _t) in pg.jet_list(binary, fam, workdir):
            m[(fam, name)] = i
    return m


def prog_cases(rng, tier, binary, rep, add):
    workdir = rep.workdir()
    structs = gen_structures(rng.fork("structs"), tier, binary, workdir)
    jet_ids = jet_id_map(binary, workdir)
    # first pass: commit + identity-hash / cmr classes, and arrows (for the text generator)
    lines = []
    for k, (fam, prog) in enumerate(structs):
        lines.append("s%d classes %s 1 %s" % (k, fam, pg.prog_pdl(prog)))
        lines.append("a%d arrows 1 %s" % (k, pg.prog_pdl(prog)))
    res = vplib.run_harness(binary, "human", [l for l in lines if l.split()[1] == "classes"], workdir=workdir)
    res_a = vplib.run_harness(binary, "prog", [l for l in lines if l.split()[1] == "arrows"], workdir=workdir)
    good = []
    dropped = 0
    for k, (fam, prog) in enumerate(structs):
        r = res.get("s%d" % k)
        if not isinstance(r, list) or not r or r[0] != 0:
            dropped += 1
            continue
        n = r[1]
        ihr = r[2:2 + 2 * n:2]
        cmr = r[3:3 + 2 * n:2]
        arrows = pg.parse_arrows(res_a.get("a%d" % k))
        if isinstance(arrows, tuple):
            arrows = None
        good.append((fam, prog, ihr, cmr, arrows))
        add("prog", "%s 1 %s" % (fam, pg.prog_pdl(prog)),
            "run_prog %s %s %s" % (prog_coq(prog, jet_ids), vplib.coq_list(ihr), vplib.coq_list(cmr)),
            {"fam": fam, "nodes": len(prog), "nonprincipal": nonprincipal(prog)})
        if tier != "quick" or k % 2 == 0:
          add("fromok", "%s 1 %s" % (fam, pg.prog_pdl(prog)),
              "run_fromok %s %s %s" % (prog_coq(prog, jet_ids), vplib.coq_list(ihr), vplib.coq_list(cmr)),
              {"fam": fam, "nodes": len(prog)})
    # search only (too large for the model): a definition line above 65535 characters
    for n in (16, 18):
        add("prog", "c 1 word.%d.%s,unit,comp.0.1" % (n, "01" * 2 ** (n - 1)), None, {"fam": "c", "nodes": 3, "long_line": n >= 18})
    rep.coverage.setdefault("generator", {})["programs_not_committing"] = dropped
    return good, jet_ids


def text_cases(rng, tier, good, jet_ids, add):
    stats = {}
    n = 0
    for k, (fam, prog, _ihr, _cmr, arrows) in enumerate(good):
        reps = 1
        for rr in range(reps):
            r = rng.fork("t%d.%d" % (k, rr))
            if any(nd[0] == "word" and nd[1] > 9 for nd in prog):
                continue
            tg = TextGen(r, prog, arrows, jet_ids, dict(named=r.choice([0, 20, 50, 90]), gen_names=r.choice([0, 0, 6, 25]),
                                                        ascribe=r.choice([0, 30, 80]), aexpr=r.choice([0, 50]),
                                                        chain=r.choice([0, 0, 15]), comments=r.choice([0, 20])))
            tg.build()
            tg.case_as_assert()
            tg.add_chains()
            tag = "plain"
            if r.chance(1, 4):
                t2 = mutate_text(r, tg)
                if t2:
                    tag = t2
            src = tg.text()
            stats[tag] = stats.get(tag, 0) + 1
            add("text", "%s %s" % (fam, src.encode().hex() or "-"), "run_text %s" % tg.coq(),
                {"src": src, "zero_assert": tg.zero_assert, "mutated": tag != "plain", "tag": tag, "fam": fam})
            if tag == "plain" and not any(nd[0] == "fail" for nd in prog):
                # (the text generator shortens fail entropies, so programs with `fail` are not comparable)
                # the same program through the construction API: equal commitment roots (an assertion written
                # `#{expr}` / `#<cmr>` has the root of the case node it came from; a hole that of its disconnect)
                add("textcmr", "%s %s 1 %s" % (fam, src.encode().hex() or "-", pg.prog_pdl(prog)), None,
                    {"src": src, "tag": "textcmr", "fam": fam})
            n += 1
    return stats


VALID_SNIPPETS = [
    "main := comp (pair unit unit) unit",
    "a := unit\nb := unit\nmain := comp a b",
    "wit1 := witness : 1 -> 2^32\nwit2 := witness : 1 -> 2^32\nwits_are_equal := comp (pair wit1 wit2) jet_eq_32 : 1 -> 2\nmain := comp wits_are_equal jet_verify : 1 -> 1",
    "id1 := iden : 2^256 * 1 -> 2^256 * 1\nmain := comp (disconnect id1 ?hole) unit\nhole := unit",
    "main := comp (assertl (take unit) #abcd1234abcd1234abcd1234abcd1234abcd1234abcd1234abcd1234abcd1234) unit",
    "main := comp (const 0xdeadbeef) unit -- word",
    "main := fail 0x00112233445566778899aabbccddeeff",
    "x := y\ny := z\nz := unit\nmain := comp x (comp y z)",
    "U : T -> 1\nU := unit\nmain := comp iden U",
]


def string_cases(rng, tier, add):
    def addstr(s, tag, fam="c", expect=None, **kw):
        if isinstance(s, str):
            b = s.encode("utf-8", "replace")
        else:
            b = bytes(s)
        meta = {"src": b.decode("utf-8", "replace"), "tag": tag, "fam": fam}
        if expect:
            meta["expect"] = list(expect)
        meta.update(kw)
        add("text", "%s %s" % (fam, b.hex() or "-"), None, meta)

    addstr("", "empty")
    literal_cases(addstr)
    # chains of type operators (loops of the parser): moderate lengths; the long ones are corpus cases
    for k in (999, 1000, 5000):
        addstr("x : 1" + "?" * k + " -> 1", "option-chain-%d" % k, type_chain=True)
        addstr("main := iden : 1" + " * 1" * k + " -> _", "product-chain-%d" % k, type_chain=True)
        addstr("x : _ -> 2" + "+2^8" * k, "sum-chain-%d" % k, type_chain=True)
    for s in VALID_SNIPPETS:
        addstr(s, "snippet")
        addstr(s, "snippet", "e")
    n = 250 if tier == "quick" else 2500
    toks = ["main", ":=", "comp", "pair", "unit", "iden", "case", "injl", "injr", "take", "drop", "witness", "(", ")",
            "?", "#{", "}", ":", "->", "1", "2", "2^8", "2^3", "2^99999999999", "+", "*", "_", "const", "0b01", "0x", "0xabc",
            "fail", "assertl", "assertr", "disconnect", "jet_add_8", "jet_", "jet_nope", "a", "b", "prim1", "--", "\n",
            "#" + "0" * 64, "#12", "x.y-z'", "\t", "\r\n", "é", " ", "\x00"]
    for k in range(n):
        r = rng.fork("s%d" % k)
        m = r.below(6)
        if m == 0:
            addstr(bytes(r.bytes(r.below(60))), "random-bytes")
        elif m == 1:
            addstr(" ".join(r.choice(toks) for _ in range(r.below(40))), "token-soup")
        elif m == 2:
            s = r.choice(VALID_SNIPPETS)
            b = list(s.encode())
            for _ in range(r.range(1, 4)):
                if not b:
                    break
                j = r.below(len(b))
                q = r.below(3)
                if q == 0:
                    del b[j]
                elif q == 1:
                    b.insert(j, r.choice(list(b" ()#?:=-_01x\n") + [r.below(256)]))
                else:
                    b[j] = r.below(256)
            addstr(bytes(b), "mutated")
        elif m == 3:
            # lines built from tokens with the right shape, random names
            L = []
            for _ in range(r.range(1, 8)):
                L.append("%s := %s" % (r.choice(["main", "a", "b", "c", "ut1", "_", "prim"]),
                                        " ".join(r.choice(["comp", "pair", "unit", "iden", "a", "b", "c", "main", "injl", "witness", "(", ")"])
                                                 for _ in range(r.range(1, 7)))))
            addstr("\n".join(L), "line-soup")
        elif m == 4:
            addstr("main := " + "comp " * r.range(1, 30) + "unit " * r.range(0, 31), "arity")
        else:
            addstr(r.choice(VALID_SNIPPETS) + "\n" + r.choice(VALID_SNIPPETS), "two-programs")
    # resource shapes: deep nesting, long identifiers, many lines, wide sharing
    depths = [10, 100, 1000, 3000] if tier == "quick" else [10, 100, 1000, 3000, 5000, 8000]
    for d in depths:
        addstr("main := " + "(" * d + "unit" + ")" * d, "deep-parens-%d" % d)
        addstr("main := " + "(" * d, "deep-open-%d" % d)
        addstr("main := " + "injl " * d + "unit", "deep-injl-%d" % d)
        addstr("main := comp " + "(" * d + "iden" + ")" * d + " unit", "deep-parens-comp-%d" % d)
        addstr("main := unit : " + "(" * d + "1" + ")" * d + " -> 1", "deep-type-%d" % d)
        addstr("main := iden : " + "1 * " * d + "1 -> _", "wide-type-%d" % d)
        addstr("main := comp (assertl (take unit) " + "#{" * min(d, 3000) + "unit" + "}" * min(d, 3000) + ") unit", "deep-cmr-%d" % d)
    for ln in ([100, 10000, 200000] if tier == "quick" else [100, 10000, 200000, 2000000]):
        addstr("a" * ln + " := unit\nmain := comp " + "a" * ln + " unit", "long-identifier-%d" % ln)
        addstr("main := comp (const 0x" + "ab" * min(ln, 100000) + ") unit", "long-literal-%d" % ln)
    for nl in ([10, 1000] if tier == "quick" else [10, 1000, 20000]):
        # (the printed type of x_k has 2^k leaves: rendering is exponential in k, cf. F-C04; kept small)
        addstr("\n".join("x%d := pair x%d x%d" % (i + 1, i, i) for i in range(min(nl, 8))) + "\nx0 := unit\nmain := comp x%d unit" % min(nl, 8),
               "doubling-%d" % min(nl, 8))
        # (the lexer computes line/column of every token by a scan from the start of the input; the rendered
        # text of a chain of n nodes has O(n^2) characters of types: the second parse is ~n^4; kept small)
        cl = min(nl, 60 if tier == "quick" else 120)
        addstr("\n".join("x%d := injl x%d" % (i + 1, i) for i in range(cl)) + "\nx0 := unit\nmain := comp x%d unit" % cl,
               "chain-%d" % cl)
        addstr("\n".join("x%d := x%d" % (i + 1, i) for i in range(nl)) + "\nx0 := unit\nmain := comp x%d unit" % nl,
               "alias-chain-%d" % nl)


def corpus_cases(add):
    n = 0
    if not os.path.isdir(CORPUS):
        return 0
    for fn in sorted(os.listdir(CORPUS)):
        if not fn.endswith(".case"):
            continue
        o = json.load(open(os.path.join(CORPUS, fn)))
        meta = dict(o.get("meta", {}))
        meta["corpus"] = fn
        add(o["kind"], o["line"], o.get("expr"), meta)
        n += 1
    return n



# ------------------------------------------------------------------ types at token level (phase 2)
# compressed types: ("u",) | ("s", a, b) | ("p", a, b) | ("w", n)   (2^(2^n), one node)
sys.setrecursionlimit(max(sys.getrecursionlimit(), 20000))
TU = ("u",)
MAX_NESTING = 1000
U32_MAX = 4294967295


def tw(n):
    return ("w", n)


def t_word(t):
    """n if t denotes 2^(2^n), n <= 31 (the TMR table), else None"""
    if t[0] == "w":
        return t[1]
    if t[0] == "s":
        return 0 if t[1] == TU and t[2] == TU else None
    if t[0] == "p":
        a, b = t_word(t[1]), t_word(t[2])
        if a is not None and a == b and a < 31:
            return a + 1
    return None


def t_pdl(t):
    if t[0] == "w":
        return "w" + pg.DIG[t[1]]
    if t[0] == "u":
        return "u"
    return t[0] + t_pdl(t[1]) + t_pdl(t[2])


def t_coq(t):
    """iterative for the deep ones"""
    out = []
    stack = [t]
    while stack:
        x = stack.pop()
        if isinstance(x, str):
            out.append(x)
        elif x[0] == "u":
            out.append("AOne")
        elif x[0] == "w":
            out.append("ATwo" if x[1] == 0 else "(APow %d)" % x[1])
        else:
            out.append("(ASum " if x[0] == "s" else "(AProd ")
            stack.append(")")
            stack.append(x[2])
            stack.append(" ")
            stack.append(x[1])
    return "".join(out)


def t_nums(t):
    """harness ty_nums of the denoted type (independent of the model)"""
    n = t_word(t)
    if n is not None and n >= 1:
        return [3, n]
    if t[0] == "w":
        return [1, 0, 0]
    if t[0] == "u":
        return [0]
    return [1 if t[0] == "s" else 2] + t_nums(t[1]) + t_nums(t[2])


def t_tokens(t, top=True):
    """reference printer: what Final's Display is documented to print (token numbers of the harness)"""
    n = t_word(t)
    if n is not None:
        return [2] if n == 0 else [3, 2 ** n]
    if t[0] == "u":
        return [1]
    if t[0] == "s" and t[1] == TU:
        return t_tokens(t[2], False) + [4]
    inner = t_tokens(t[1], False) + [7 if t[0] == "s" else 8] + t_tokens(t[2], False)
    return inner if top else [5] + inner + [6]


def t_budget(t, top=True):
    """depth of the type with words as leaves, plus one: the printed form is read back iff this is
    <= MAX_NESTING (reference for TypeText.small: tdepth t < 1000); iterative"""
    memo = {}
    stack = [(t, False)]
    while stack:
        x, done = stack.pop()
        if id(x) in memo:
            continue
        if t_word(x) is not None or x[0] == "u":
            memo[id(x)] = 0
            continue
        if done:
            memo[id(x)] = 1 + max(memo[id(x[1])], memo[id(x[2])])
        else:
            stack.append((x, True))
            stack.append((x[1], False))
            stack.append((x[2], False))
    return memo[id(t)] + 1


def all_shapes(k):
    """all types with exactly k binary constructors over the leaf 1"""
    if k == 0:
        return [TU]
    out = []
    for i in range(k):
        for a in all_shapes(i):
            for b in all_shapes(k - 1 - i):
                out.append(("s", a, b))
                out.append(("p", a, b))
    return out


def rand_cty(rng, depth, leaves):
    r = rng.below(10)
    if depth <= 0 or r < 2:
        return rng.choice(leaves)
    if r < 4:
        return ("s", TU, rand_cty(rng, depth - 1, leaves))
    if r < 7:
        return ("s", rand_cty(rng, depth - 1, leaves), rand_cty(rng, depth - 1, leaves))
    return ("p", rand_cty(rng, depth - 1, leaves), rand_cty(rng, depth - 1, leaves))


def opt_chain(k, core):
    t = core
    for _ in range(k):
        t = ("s", TU, t)
    return t


def lprod(k):
    t = TU
    for _ in range(k):
        t = ("p", t, TU)
    return t


def type_cases(rng, tier, add):
    quick = tier == "quick"
    ts = []
    for k in range(0, 4):
        ts += all_shapes(k)
    for k in (4, 5):
        sh = all_shapes(k)
        ts += sh if not quick else [sh[i] for i in sorted(set(rng.below(len(sh)) for _ in range(70)))]
    ts += [tw(n) for n in range(0, 17 if quick else 21)]
    ts += [opt_chain(k, c) for k in (1, 2, 3, 7) for c in (TU, tw(0), tw(3), tw(12), ("p", tw(0), tw(0)), ("s", tw(0), TU))]
    ts += [("p", tw(n), tw(n)) for n in (0, 1, 5, 11, 12)] + [("p", tw(3), tw(4)), ("s", tw(5), tw(5))]
    leaves = [TU, TU, tw(0), tw(0), tw(1), tw(3), tw(5), tw(8), tw(12)]
    for i in range(90 if quick else 900):
        ts.append(rand_cty(rng.fork("ty%d" % i), rng.range(2, 6), leaves))
    # sums of products of sums
    for i in range(12 if quick else 100):
        r = rng.fork("spp%d" % i)
        f = lambda: ("s", r.choice(leaves), r.choice(leaves))
        g = lambda: ("p", f(), f())
        ts.append(("s", g(), ("s", g(), g())) if r.chance(1, 2) else ("s", ("s", g(), g()), g()))
    # the nesting budget at its boundary (option chains, left and right nested products, mixed)
    for k in ((40, 998, 999, 1000, 1001) if quick else (40, 500, 997, 998, 999, 1000, 1001, 1002, 1500)):
        ts.append(opt_chain(k, TU if k % 2 else tw(3)))
    for k in ((30, 998, 999, 1000) if quick else (30, 400, 998, 999, 1000, 1001)):
        ts.append(lprod(k))
    rp = tw(1)
    for _ in range(60):
        rp = ("s", tw(2), ("p", rp, TU))
    ts.append(rp)
    ts.append(opt_chain(990, lprod(8)))
    ts.append(opt_chain(990, lprod(9)))
    ts.append(opt_chain(991, lprod(9)))
    ts.append(opt_chain(997, ("p", TU, TU)))
    ts.append(opt_chain(998, ("p", TU, TU)))
    ts.append(opt_chain(999, ("p", TU, TU)))
    seen = set()
    n = 0
    for t in ts:
        key = t_pdl(t)
        if key in seen:
            continue
        seen.add(key)
        add("typ", "%s 0" % key, "run_typ %s" % t_coq(t), {"ty": key if len(key) < 200 else key[:200] + "...", "budget": t_budget(t),
                                                           "tokens": t_tokens(t) if len(key) < 4000 else None, "nums": t_nums(t) if len(key) < 4000 else None})
        n += 1
    return n


TOK_TEXT = {1: "1", 2: "2", 4: "?", 5: "(", 6: ")", 7: "+", 8: "*", 11: "_"}
SYMS = {1: "A", 2: "B", 3: "t'", 4: "x.y-z"}
POWS = [1, 2, 4, 8, 16, 32, 256, 512, 1024, 65536, 2 ** 30, 2 ** 31, 3, 5, 6, 12, 100, 2 ** 32, 2 ** 32 - 1, 2 ** 33, 10 ** 20]


def tok_text(k):
    if isinstance(k, tuple):
        return "2^%d" % k[1] if k[0] == 3 else SYMS[k[1]]
    return TOK_TEXT[k]


def tok_coq(k):
    if isinstance(k, tuple):
        return "TPow %d" % k[1] if k[0] == 3 else "TSym %d" % k[1]
    return {1: "TOne", 2: "TTwo", 4: "TQuestion", 5: "TLParen", 6: "TRParen", 7: "TPlus", 8: "TStar", 11: "TUnderscore"}[k]


def gen_type_tokens(rng, depth):
    """a token list from the grammar of parse_type (no parentheses unless drawn)"""
    def atom(d):
        r = rng.below(20)
        if r < 6:
            return [1]
        if r < 10:
            return [2]
        if r < 14:
            return [(3, rng.choice(POWS))]
        if r < 15:
            return [(10, rng.range(1, 4))]
        if r < 16 and rng.chance(1, 3):
            return [11]
        if d > 0:
            return [5] + expr(d - 1) + [6]
        return [1]

    def postfix(d):
        return atom(d) + [4] * rng.choice([0, 0, 0, 1, 1, 2, 3])

    def expr(d):
        out = postfix(d)
        for _ in range(rng.choice([0, 0, 1, 1, 2, 3])):
            out += [rng.choice([7, 8])] + postfix(d)
        return out

    return expr(depth)


def join_tokens(rng, toks):
    out = ""
    for k in toks:
        s = tok_text(k)
        if out and ((out[-1].isalnum() or out[-1] in "_'.-") and (s[0].isalnum() or s[0] in "_'.-")):
            out += " "
        elif out and rng.chance(1, 2):
            out += " " if rng.chance(4, 5) else "  \n  "
        out += s
    return out


def tytext_cases(rng, tier, add):
    n = 220 if tier == "quick" else 2500
    seen = set()
    fixed = [[1], [2], [(3, 8), 4], [1, 7, 2, 8, (3, 4), 7, 1], [5, 1, 6], [5, 5, 2, 6, 6, 4, 4], [1, 4, 7, 1, 4], [11], [11, 8, 2],
             [(10, 1), 8, (10, 1)], [(3, 3)], [(3, 2 ** 32)], [(3, 2 ** 31)], [1, 1], [], [5], [6], [5, 1], [1, 6], [7, 1], [1, 7], [4],
             [1] + [4] * 999, [1] + [4] * 1000, [1] + [8, 1] * 998, [1] + [8, 1] * 999, [1] + [7, 2] * 1000,
             [5] * 998 + [1] + [6] * 998, [5] * 999 + [1] + [6] * 999, [5] * 1000 + [1] + [6] * 1000,
             [5, 5, 1] + [4] * 997 + [6] + [4] * 998 + [6] + [4] * 999,
             [5, 5, 1] + [4] * 998 + [6] + [4] * 998 + [6] + [4] * 999,
             [5, 1] + [8, 1] * 997 + [6] + [4] * 999, [5, 1] + [8, 1] * 998 + [6]]
    for k in range(n):
        r = rng.fork("tt%d" % k)
        toks = fixed[k] if k < len(fixed) else gen_type_tokens(r, r.range(0, 4))
        if k >= len(fixed) and r.chance(1, 4) and toks:
            for _ in range(r.range(1, 2)):
                if not toks:
                    break
                j = r.below(len(toks))
                q = r.below(3)
                alt = r.choice([1, 2, 4, 4, 5, 6, 7, 8, (3, r.choice(POWS)), (10, 1)])
                if q == 0:
                    del toks[j]
                elif q == 1:
                    toks.insert(j, alt)
                else:
                    toks[j] = alt
        text = join_tokens(r, toks)
        if text in seen:
            continue
        seen.add(text)
        add("tytext", text.encode().hex() or "-", "run_tytext [%s]" % "; ".join(tok_coq(t) for t in toks),
            {"src": text[:300], "ntok": len(toks)})


def check_typ(c, r):
    """direct test on the implementation: parse(print(t)) == t, Display prints the documented form"""
    if not isinstance(r, list) or 8 not in r:
        return ("harness-result", "unreadable harness result %s" % (r[:40] if isinstance(r, list) else r))
    ntok = r[0]
    sep = None
    # tokens: ntok groups, then the separator 8
    p = 1
    toks = []
    for _ in range(ntok):
        if p >= len(r):
            break
        if r[p] == 3:
            toks += r[p:p + 2]
            p += 2
        else:
            toks.append(r[p])
            p += 1
    if p >= len(r) or r[p] != 8:
        return ("harness-result", "token group of %s" % r[:40])
    res = r[p + 1:-1]
    same = r[-1]
    what = "type `%s`" % c.meta.get("ty")
    if 9 in [t for i, t in enumerate(toks) if not (i > 0 and toks[i - 1] == 3)]:
        if c.meta.get("ty") == "wv":
            return ("type-word-2-31-display", "%s (2^(2^31)) is displayed as a text that is not a type token" % what)
        return ("type-display-unlexable", "the Display of %s contains something the lexer does not accept" % what)
    ref = c.meta.get("tokens")
    if ref is not None and toks != ref:
        return ("type-display-form", "the Display of %s gives tokens %s, documented form %s" % (what, toks[:60], ref[:60]))
    if c.meta.get("budget", 0) > MAX_NESTING:
        return None         # outside the nesting budget: refused by design (note in the evidence)
    if res[:1] == [9]:
        return ("parse-panic", "parsing the Display of %s panicked" % what)
    if res[:1] == [1]:
        if 4 in toks and res[1:2] == [12]:
            return ("type-option-suffix", "the Display of %s uses `?` in a way the type grammar does not read (error 12)" % what)
        return ("type-print-parse-error", "the Display of %s does not parse (error code %s)" % (what, res[1:2]))
    if not same or (c.meta.get("nums") is not None and res[1:] != c.meta["nums"]):
        return ("type-print-parse-differs", "the Display of %s parses to another type %s" % (what, res[1:40]))
    return None


# ------------------------------------------------------------------ literal forms (independent reading)
def literal_cases(add_str):
    """every literal form after `const` and `fail`, with the outcome an independent reading of the
    documentation predicts: const needs 2^n bits (n <= 31), fail needs 128..512 bits"""
    lits = ["_", "0b0", "0b1", "0b01", "0b011", "0b0101", "0b10101", "0b" + "10" * 4, "0b" + "1" * 7, "0b" + "1" * 9,
            "0b" + "01" * 8, "0b" + "0" * 64, "0b" + "1" * 128, "0b" + "1" * 127, "0b" + "1" * 129,
            "0x0", "0xa", "0xab", "0xabc", "0xabcd", "0xabcde", "0x" + "12" * 4, "0x" + "f" * 15, "0x" + "f" * 16, "0x" + "f" * 17,
            "0x" + "ab" * 15 + "c", "0x" + "ab" * 16, "0x" + "ab" * 16 + "c", "0x" + "ab" * 32, "0x" + "cd" * 63, "0x" + "cd" * 64,
            "0x" + "cd" * 64 + "e", "0x" + "cd" * 65, "0x" + "01" * 128, "0x" + "0" * 1024, "0x" + "0" * 1023]
    bad_lex = ["0x", "0b", "0xAB", "0b2", "0xg", "0", "00", "0b_", "0x_1"]
    other = ["unit", "const", "fail", "?x", "#" + "ab" * 32, "(0x00)", "main", "1", "2^8", ""]

    def bits_of(l):
        if l == "_":
            return 0
        return len(l) - 2 if l.startswith("0b") else 4 * (len(l) - 2)

    for kw in ("const", "fail"):
        for l in lits:
            n = bits_of(l)
            if kw == "const":
                exp = None if (n > 0 and n & (n - 1) == 0 and n <= 2 ** 31) else 2
                ctxs = ["main := comp (const %s) unit", "main := comp const %s unit", "x := const %s\nmain := comp x unit"]
            else:
                exp = 3 if n < 128 else (4 if n > 512 else None)
                ctxs = ["main := fail %s", "main := comp unit (fail %s)", "x := fail %s\nmain := x"]
            for ctx in ctxs:
                add_str(ctx % l, "literal-%s" % kw, expect=("err", exp) if exp else ("ok",))
        for l in bad_lex + other:
            add_str(("main := comp (%s %s) unit" if kw == "const" else "main := comp unit (%s %s)") % (kw, l), "literal-bad-%s" % kw,
                    expect=("noprog",))
    # literals where no literal may be
    for l in ["0xab", "0b1", "_"]:
        add_str("main := comp %s unit" % l, "literal-misplaced", expect=("noprog",) if l != "_" else None)
        add_str("main := %s" % l, "literal-misplaced")
        add_str("%s := unit" % l, "literal-misplaced")


def check_expect(c, d):
    """prediction of the independent reading against the implementation result"""
    e = c.meta.get("expect")
    if not e or d is None:
        return None
    src = c.meta.get("src", "")
    if e[0] == "err":
        if d["stage"] != "error" or set(d["codes"]) != {e[1]}:
            return ("literal-outcome", "source text %r: expected the error list {%d}, got %s" % (src[:120], e[1], {k: d[k] for k in d if k in ("stage", "codes")}))
    elif e[0] == "ok":
        if d["stage"] != "rendered":
            return ("literal-outcome", "source text %r: a well-formed literal is refused: %s" % (src[:120], {k: d[k] for k in d if k in ("stage", "codes")}))
    elif e[0] == "noprog":
        if d["stage"] not in ("error",):
            return ("literal-outcome", "source text %r: expected an error list, got %s" % (src[:120], d["stage"]))
    return None


# ------------------------------------------------------------------ run
# ------------------------------------------------------------------ path counts (kind paths) and from_program (kind fromok)
NAME_LEN = {0: 1, 1: 3, 2: 2, 3: 2, 4: 2, 5: 2}


def split_groups(v):
    """the `77 <name> <count>` groups of a paths result"""
    out = []
    p = 0
    while p < len(v):
        if v[p] != 77:
            raise Bad("group")
        n = NAME_LEN[v[p + 1]]
        out.append(tuple(v[p + 1:p + 1 + n + 1]))
        p += 1 + n + 1
    return out


def canon_paths(r):
    """error pairs as a sorted multiset (the order of the implementation's list is that of hash maps)"""
    if not isinstance(r, list) or r[:1] != [1] or len(r) < 2:
        return r
    k = r[1]
    try:
        gs = sorted(split_groups(r[2 + k:]))
    except (Bad, IndexError, KeyError):
        return r
    out = list(r[:2 + k])
    for g in gs:
        out += [77] + list(g)
    return out


def ref_names(e, acc):
    """names referred to by an expression (into the set acc)"""
    for x in all_refs(e, []):
        acc.add(tuple(x.name))
    return acc


def e_node(kind, l=None, r=None):
    return E("node", kind=kind, pay=[], l=l, r=r)


def e_ref(k):
    return E("ref", name=("user", k))


def gen_paths_text(rng, size, roots_extra):
    """definitions u<k> of type 1 -> 1 built from shared witnesses / disconnects; returns the (name, E) list"""
    defs = []
    counter = [0]

    def fresh():
        counter[0] += 1
        return counter[0]

    wits = []
    for _ in range(1 + rng.below(3)):
        k = fresh()
        defs.append((("user", k), e_node(12)))
        wits.append(k)
    discs = []
    for _ in range(rng.below(3)):
        k = fresh()
        h = ("hole", 100 + k) if rng.chance(1, 2) else ("user", 500 + k)
        defs.append((("user", k), E("node", kind=11, pay=[], l=e_node(8, e_node(1), e_node(1)), r=E("hole", name=h))))
        discs.append(k)
    xs = []

    def some_x():
        if xs and rng.chance(5, 6):
            return e_ref(rng.choice(xs))
        return e_node(1)

    def unit_of(a):
        return e_node(6, a, e_node(1))

    for _ in range(size):
        form = rng.below(8)
        if form == 0:
            body = unit_of(e_ref(rng.choice(wits)))
        elif form == 1:
            body = unit_of(e_node(8, e_ref(rng.choice(wits)), e_ref(rng.choice(wits))))
        elif form == 2 and discs:
            body = unit_of(e_ref(rng.choice(discs)))
        elif form == 3:
            body = unit_of(e_node(8, e_node(12), e_node(12)))          # inline witnesses: generated names
        elif form == 4 and xs:
            a = e_ref(rng.choice(xs))
            body = unit_of(e_node(8, a, E("ref", name=a.name)))            # the same definition twice: counts double
        elif form == 5:
            body = e_node(6, some_x(), some_x())
        elif form == 6 and discs:
            body = unit_of(e_node(8, unit_of(e_ref(rng.choice(discs))), some_x()))
        else:
            body = unit_of(e_node(8, some_x(), some_x()))
        k = fresh()
        defs.append((("user", k), body))
        xs.append(k)
    # main: one or two of the later definitions; what stays unreferenced is a further root
    a = e_ref(xs[-1])
    b = e_ref(rng.choice(xs)) if rng.chance(1, 2) else e_node(1)
    main = unit_of(e_node(8, a, b)) if rng.chance(2, 3) else a
    if not roots_extra:
        # refer to every definition so that main is the only root
        used = set()
        ref_names(main, used)
        for nm, e in defs:
            ref_names(e, used)
        for nm, e in defs:
            if nm not in used:
                main = unit_of(e_node(8, unit_of(E("ref", name=nm)) if e.kind in (11, 12) and e.l is None or e.kind == 11 else E("ref", name=nm), main))
    defs.append((("main",), main))
    return defs


USIZE_MAX = 2 ** 64 - 1


def expected_user_counts(defs):
    """independent count: for every root (a name nothing refers to) the number of paths to every witness /
    disconnect that is the right-hand side of a definition, by expansion of the references"""
    table = dict(defs)
    referred = set()
    for _nm, e in defs:
        ref_names(e, referred)
    memo = {}

    def of_expr(e):
        acc = {}

        def addto(d, mult=1):
            for k_, v in d.items():
                acc[k_] = acc.get(k_, 0) + v * mult

        if e.tag == "ref":
            addto(of_name(e.name))
        elif e.tag == "node":
            if e.l is not None:
                addto(of_expr(e.l))
            if e.r is not None and e.kind != 11:
                addto(of_expr(e.r))
        return acc

    def of_name(nm):
        if nm not in memo:
            e = table[nm]
            d = of_expr(e)
            if e.tag == "node" and e.kind in (11, 12):
                d = dict(d)
                d[nm] = d.get(nm, 0) + 1
            memo[nm] = d
        return memo[nm]

    out = []
    for nm, _e in defs:
        if nm not in referred:
            for k_, v in of_name(nm).items():
                if v > 1:
                    out.append((k_, min(v, USIZE_MAX)))      # the count saturates (commit c273481)
    return sorted(out)


def defs_text(rng, defs):
    order = rng.shuffle(list(range(len(defs))))
    lines = ["%s := %s" % (text_name(defs[j][0]), e_text(rng, defs[j][1], True)) for j in order]
    coq = "[" + "; ".join("mk_line %s (Some %s)" % (coq_name(defs[j][0]), e_coq(defs[j][1])) for j in order) + "]"
    return "\n".join(lines) + "\n", coq


def doubling_defs(levels):
    """w := witness  x0 := comp w unit  x_{k+1} := comp (pair x_k x_k) unit  main := x_levels : 2^levels paths"""
    defs = [(("user", 1), e_node(12)), (("user", 2), e_node(6, e_ref(1), e_node(1)))]
    for k in range(levels):
        defs.append((("user", 3 + k), e_node(6, e_node(8, e_ref(2 + k), e_ref(2 + k)), e_node(1))))
    defs.append((("main",), e_ref(2 + levels)))
    return defs


def paths_cases(rng, tier, add):
    n = 0
    stats = {"with_error": 0, "multi_root_texts": 0, "max_count_expected": 0}

    def emit(defs, r, tag, **kw):
        src, coq = defs_text(r, defs)
        exp = expected_user_counts(defs)
        meta = {"src": src, "tag": tag, "fam": "c", "expected_user": [[list(k_), v] for k_, v in exp],
                "defined": [name_nums(nm) for nm, _e in defs]}
        meta.update(kw)
        add("paths", "c %s" % src.encode().hex(), "run_paths %s" % coq, meta)
        if exp:
            stats["with_error"] += 1
            stats["max_count_expected"] = max(stats["max_count_expected"], max(v for _k, v in exp))

    # fixed: one witness shared 2, 3, 4, 5 times directly; 2 x 2, 2 x 3, 2 x 2 x 2 through shared definitions
    r0 = rng.fork("fixed")
    for m in (1, 2, 3, 4, 5):
        body = e_ref(1)
        for _ in range(m - 1):
            body = e_node(8, e_ref(1), body)
        emit([(("user", 1), e_node(12)), (("main",), e_node(6, body, e_node(1)))], r0, "direct%d" % m)
    for levels in (1, 2, 3, 5, 10, 31, 32, 62, 63):
        emit(doubling_defs(levels), r0, "double%d" % levels)
    # regression of F-C17m (fixed, c273481): 2^64 and 2^65 paths are reported with the count usize::MAX
    emit(doubling_defs(64), r0, "double64", overflow=True)
    emit(doubling_defs(65), r0, "double65", overflow=True)
    # the same witness below two roots; a disconnect shared; names that look generated
    emit([(("user", 1), e_node(12)),
          (("user", 2), e_node(6, e_node(8, e_ref(1), e_ref(1)), e_node(1))),
          (("user", 3), e_node(6, e_node(8, e_ref(1), e_node(8, e_ref(1), e_ref(1))), e_node(1))),
          (("main",), e_node(6, e_ref(1), e_node(1)))], r0, "three_roots")
    emit([(("gen", 12, 1), e_node(12)),
          (("gen", 12, 2), e_node(12)),
          (("main",), e_node(6, e_node(8, E("ref", name=("gen", 12, 1)), e_node(8, E("ref", name=("gen", 12, 1)), e_node(8, e_node(12), E("ref", name=("gen", 12, 2))))), e_node(1)))],
         r0, "generated_names")
    count = {"quick": 60, "thorough": 1500}.get(tier, 60)
    for k in range(count):
        r = rng.fork("p%d" % k)
        defs = gen_paths_text(r, 2 + r.below(7), roots_extra=r.chance(1, 2))
        referred = set()
        for _nm, e in defs:
            ref_names(e, referred)
        if sum(1 for nm, _e in defs if nm not in referred) > 1:
            stats["multi_root_texts"] += 1
        emit(defs, r, "random")
        n += 1
    return stats


def check_paths(c, r):
    if r in ("CRASH", "TIMEOUT") or r is None:
        return ("parse-crash" if r == "CRASH" else "parse-timeout",
                "the process %s on %s %s" % ("aborted" if r == "CRASH" else "did not finish", c.kind, c.line[:200]))
    if not isinstance(r, list) or not r:
        return ("harness-result", "unreadable harness result %s" % (r,))
    if c.kind == "fromok":
        if r[0] == 1:
            return None
        if r[0] == 9:
            return ("render-panic", "from_program panicked on %s" % c.line[:200])
        if len(r) != 5:
            return ("harness-result", "unreadable harness result %s" % r[:20])
        if r[1] != 1:
            return ("ihr-not-closed", "a CommitNode with an identity hash is a witness / disconnect or has an operand without one: %s" % c.line[:200])
        if r[3] != 1:
            return ("from-program-names", "Forest::from_program gives two node objects the same name: %s" % c.line[:200])
        if r[4] != 1:
            return ("from-program-paths", "Forest::from_program: a witness / disconnect name is reached by two paths: %s" % c.line[:200])
        return None
    src = c.meta.get("src", "")
    if r[0] == 9:
        if c.meta.get("overflow"):
            return ("path-count-overflow", "Forest::parse panics in the path count of parse_inner (F-C17m, fixed by c273481, is back) "
                    "on a text of %d lines in which a witness is reached by 2^64 or more paths" % len(src.splitlines()))
        return ("parse-panic", "Forest::parse panicked on the source text %r" % src[:200])
    # the statement executed directly: an error is reported for exactly the user-named witnesses / disconnects that
    # the independent count finds on more than one path, with that count
    exp = sorted((tuple(name_nums(tuple(k_))), v) for k_, v in c.meta.get("expected_user", []))
    try:
        got = []
        if r[0] == 1:
            k = r[1]
            codes = r[2:2 + k]
            if set(codes) - {18}:
                return None           # other errors (not generated here): nothing to say
            defined = set(tuple(x) for x in c.meta.get("defined", []))
            got = sorted((g[:-1], g[-1]) for g in split_groups(r[2 + k:]) if g[:-1] in defined)
        elif r[0] != 0:
            return ("harness-result", "unreadable harness result %s" % r[:20])
    except (Bad, IndexError, KeyError):
        return ("harness-result", "unreadable harness result %s" % r[:40])
    if got != exp:
        return ("path-count", "Forest::parse reports the repeated witness / disconnect names %s, an independent count of the "
                "paths gives %s, source %r" % (got, exp, src[:300]))
    return None


# ------------------------------------------------------------------ definition lines as tokens (kind linetok)
LEX = re.compile(r"""(?P<ws>[ \t\r\n]+)|(?P<comment>--[^\n]*)|(?P<assign>:=)|(?P<arrow>->)|(?P<hashbrace>\#\{)|
(?P<cmr>\#[a-fA-F0-9]{64})|(?P<bin>0b[01]+)|(?P<hex>0x[0-9a-f]+)|(?P<pow>2\^[1-9][0-9]*)|
(?P<sym>[a-zA-Z_\-.'][0-9a-zA-Z_\-.']*)|(?P<one>1)|(?P<two>2)|(?P<punct>[()+*:}?])""", re.X)
KEYWORDS = {"iden": 0, "unit": 1, "injl": 2, "injr": 3, "take": 4, "drop": 5, "comp": 6, "case": 7, "pair": 8, "assertl": 9,
            "assertr": 10, "disconnect": 11, "witness": 12, "fail": 13, "const": 15}
PUNCT = {"(": [30, 5], ")": [30, 6], "+": [30, 7], "*": [30, 8], "?": [30, 4], ":": [24], "}": [23]}


def name_of_text(s_):
    if s_ == "main":
        return ("main",)
    for k, pre in enumerate(PREFIXES):
        if s_.startswith(pre):
            rest = s_[len(pre):]
            if rest.isdigit() and (rest == "0" or rest[0] != "0") and rest.isascii():
                return ("gen", k, int(rest))
    for pre, tag in (("hole_", "hole"), ("u", "user")):
        if s_.startswith(pre):
            rest = s_[len(pre):]
            if rest.isdigit() and (rest == "0" or rest[0] != "0") and rest.isascii():
                return (tag, int(rest))
    return ("other", 0)


def lex_text(text, fam, jet_ids):
    """independent reader of the lexer's token classes -> list of number groups (None: a lexeme the lexer refuses)"""
    out = []
    pos = 0
    while pos < len(text):
        m = LEX.match(text, pos)
        if not m:
            return None
        pos = m.end()
        kind = m.lastgroup
        t = m.group(kind)
        if kind in ("ws", "comment"):
            continue
        if kind == "assign":
            out.append([20])
        elif kind == "arrow":
            out.append([21])
        elif kind == "hashbrace":
            out.append([22])
        elif kind == "cmr":
            out.append([28] + [int(t[1 + 2 * j:3 + 2 * j], 16) for j in range(32)])
        elif kind == "bin":
            bits = [int(ch) for ch in t[2:]]
            data = pack(bits)
            out.append([27, len(bits), len(data)] + data)
        elif kind == "hex":
            d = t[2:]
            data = [int(d[2 * j:2 * j + 2], 16) for j in range(len(d) // 2)]
            if len(d) % 2:
                data.append(int(d[-1], 16) << 4)
            out.append([27, 4 * len(d), len(data)] + data)
        elif kind == "pow":
            out.append([30, 3, int(t[2:])])
        elif kind == "one":
            out.append([30, 1])
        elif kind == "two":
            out.append([30, 2])
        elif kind == "punct":
            out.append(list(PUNCT[t]))
        elif kind == "sym":
            if t in KEYWORDS:
                out.append([25, KEYWORDS[t]])
            elif t == "_":
                out.append([30, 11])
            elif re.fullmatch(r"jet_[a-z0-9_]+", t):
                out.append([26, jet_ids.get((fam, t[4:]), 99999)])
            else:
                out.append([29] + name_nums(name_of_text(t)))
    return out


def type_of_groups(gs):
    """printed type (token groups `30 ..`) -> proggen-style type with words ("w", n); None when not of the printed form"""
    pos = [0]

    def peek():
        return gs[pos[0]] if pos[0] < len(gs) else None

    def atom():
        g = peek()
        if g is None:
            raise Bad("type")
        pos[0] += 1
        if g == [30, 1]:
            return TU
        if g == [30, 2]:
            return tw(0)
        if g[:2] == [30, 3]:
            y = g[2]
            if y & (y - 1) or y < 2:
                raise Bad("pow")
            return tw(y.bit_length() - 1)
        if g == [30, 5]:
            t = expr()
            if peek() != [30, 6]:
                raise Bad("paren")
            pos[0] += 1
            return t
        raise Bad("atom")

    def postfix():
        t = atom()
        while peek() == [30, 4]:
            pos[0] += 1
            t = ("s", TU, t)
        return t

    def expr():
        t = postfix()
        while peek() in ([30, 7], [30, 8]):
            op = peek()
            pos[0] += 1
            r = postfix()
            t = ("s" if op == [30, 7] else "p", t, r)
        return t

    t = expr()
    if pos[0] != len(gs):
        raise Bad("rest")
    return t


def line_arrows(text, fam, jet_ids):
    """the arrows of the definition lines of a rendered text, in text order"""
    out = []
    for ln in text.split("\n"):
        gs = lex_text(ln, fam, jet_ids)
        if not gs:
            continue
        if [24] not in gs or [21] not in gs:
            raise Bad("line without arrow")
        c = gs.index([24])
        a = gs.index([21], c)
        out.append((type_of_groups(gs[c + 1:a]), type_of_groups(gs[a + 1:])))
    return out


def linetok_cases(rng, tier, binary, rep, good, jet_ids, add):
    sel = [g for k, g in enumerate(good) if tier != "quick" or k % 3 == 0]
    lines = ["r%d rtext %s 1 %s" % (k, fam, pg.prog_pdl(prog)) for k, (fam, prog, _i, _c, _a) in enumerate(sel)]
    res = vplib.run_harness(binary, "human", lines, workdir=rep.workdir())
    n = 0
    for k, (fam, prog, ihr, cmr, _a) in enumerate(sel):
        r = res.get("r%d" % k)
        if not isinstance(r, list) or r[:1] != [0]:
            continue
        try:
            text = bytes(r[1:]).decode()
            arrows = line_arrows(text, fam, jet_ids)
        except (Bad, ValueError, UnicodeDecodeError):
            continue
        if sum(len(t_coq(a)) + len(t_coq(b)) for a, b in arrows) > 200000:
            continue
        coq_arrows = "[" + "; ".join("(%s, %s)" % (t_coq(a), t_coq(b)) for a, b in arrows) + "]"
        add("linetok", "%s 1 %s" % (fam, pg.prog_pdl(prog)),
            "run_linetok %s %s %s %s" % (prog_coq(prog, jet_ids), vplib.coq_list(ihr), vplib.coq_list(cmr), coq_arrows),
            {"fam": fam, "nodes": len(prog), "lines": len(arrows)})
        n += 1
    return n


def canon_linetok(c, r, jet_ids):
    """the implementation's text as the token numbers of the model; the two flags of the model (every line of the
    expected form, the token parser reads its own rendering back) are expected to be 1"""
    if not isinstance(r, list) or r[:1] != [0]:
        return r
    try:
        gs = lex_text(bytes(r[1:]).decode(), c.meta.get("fam", "c"), jet_ids)
    except (ValueError, UnicodeDecodeError):
        return r
    if gs is None:
        return [0, 1, 1, 8, -1]
    out = [0, 1, 1, 8]
    for g in gs:
        out += g
    return out


def run(rep, tier, rng):
    proof_ok = vplib.proof_stage(rep, "Props/C17.v", extra_targets=["Human/Run.vo"], translators=())
    rep.coverage["trusted_base"] = vplib.GENERIC_TRUSTED + [
        "models Human/Namer.v, Human/Render.v, Human/Resolve.v written by hand from src/human_encoding/{mod,named_node}.rs and parse/{mod,ast}.rs",
        "model Human/TypeText.v written by hand from types/final_data.rs (Display, at the level of iterator items) and parse/ast.rs "
        "(parse_type*, Parser::depth, check_nesting) at the level of lexer tokens; TMR equality = structural equality of types",
        "not modelled, covered by the direct test only: the logos lexer (the harness tokenises printed types with its own reader) and "
        "the line grammar, comment/column layout, number formats of words / fail entropy / cmr literals (an independent python reading "
        "predicts the outcome of every literal form), type inference of the reparsed program, jet name tables (C14)",
        "identity-hash and commitment-root classes of the nodes of a committed program are taken from the implementation (input of the model)",
        "the recursive post-order walks of the model stand for PostOrderIter::next (their equality is C18)",
        "harness /verif/harness_human: reduces the rendered text to numbers with a minimal line reader",
        "model Human/PathCount.v written by hand from the last loop of parse_inner (parse/mod.rs): HashMaps as association lists "
        "(all theorems are about the map as a function); Human/PathSat.v: the same loop with saturating usize additions (the code since "
        "c273481; PathCount.wd_check_old is the code before it, kept for the refutation lemma of F-C17m); Human/FromProgram.v: the "
        "hypothesis from_ok on the identity-hash classes mirrors CommitData::imr and is evaluated on the implementation's objects "
        "for every generated program (kind fromok)",
        "model Human/LineText.v written by hand from string_serialize pass 1 and parse/ast.rs at the level of lexer token classes "
        "(literal tokens stand for the bytes and bit length parse_literal computes; logos itself, comments and layout are not "
        "modelled: kind linetok tokenises the implementation's text with an independent python reader)",
    ]
    # the refuted renderer is the one before the fix F-C17 (fixed, 5461b0f); the model follows the code after
    # the fixes F-C17a..g; F-C17h (open) is about type ascriptions, below the level of the model
    rep.coverage["refuted_lemmas"] = ["C17_render_old_refuted", "C17_print_i32_refuted_w31", "C17_parse_nobudget_depth_refuted",
                                      "C17_parse_perloop_depth_refuted", "C17_parse_print_ty_refuted_deep",
                                      "C17_from_program_statement_refuted_weak_hyp", "C17_path_count_overflow_old_refuted"]
    binary, out = vplib.harness_build("debug", crate=CRATE)
    if binary is None:
        raise vplib.Infra("harness build failed:\n" + out[-3000:])
    cases = []
    k = [0]

    def add(kind, line, expr, meta):
        k[0] += 1
        cases.append(Case("c%d" % k[0], kind, line, expr, meta))

    ncorpus = corpus_cases(add)
    good, jet_ids = prog_cases(rng.fork("prog"), tier, binary, rep, add)
    tstats = text_cases(rng.fork("text"), tier, good, jet_ids, add)
    string_cases(rng.fork("str"), tier, add)
    ntyp = type_cases(rng.fork("typ"), tier, add)
    tytext_cases(rng.fork("tytext"), tier, add)
    pstats = paths_cases(rng.fork("paths"), tier, add)
    rep.coverage["generator"]["paths"] = pstats
    rep.coverage["generator"]["linetok_cases"] = linetok_cases(rng.fork("linetok"), tier, binary, rep, good, jet_ids, add)
    rep.coverage["generator"].update({"corpus_cases": ncorpus, "text_variants": tstats, "type_cases": ntyp})

    impl, model = vplib.eval_cases(rep, binary, "human", cases, IMPORTS, tag="c17", batch=60,
                                   harness_timeout=240 if tier == "quick" else 1200)
    # canonical forms (see canon_impl)
    impl_c = {}
    model_c = {}
    for c in cases:
        r = impl.get(c.cid)
        m = model.get(c.cid)
        if m is not None:
            model_c[c.cid] = m if c.kind == "linetok" else canon_paths(m) if c.kind in ("paths", "fromok") else (m if c.kind in ("typ", "tytext") else canon_model(c, m))
        impl_c[c.cid] = r
    impl_cmp = {}
    for c in cases:
        r = impl.get(c.cid)
        if c.kind == "linetok":
            impl_cmp[c.cid] = canon_linetok(c, r, jet_ids)
        elif c.kind in ("paths", "fromok"):
            impl_cmp[c.cid] = canon_paths(r)
        elif c.kind in ("typ", "tytext", "textcmr"):
            impl_cmp[c.cid] = r
        elif c.expr is not None and c.cid in model_c and isinstance(r, list):
            impl_cmp[c.cid] = canon_impl(c, r, model_c[c.cid])
        else:
            impl_cmp[c.cid] = r

    # Error code 18 (WitnessDisconnectRepeated) next to a type error: the path count of parse_inner runs over the roots
    # whose conversion and type finalisation succeeded (`roots.insert` under `Ok(root)`); a type error (code 15, below the
    # level of the definition-level model, which takes finalisation to succeed) keeps a root out of `roots`, so whether
    # its repeated witnesses are reported is not predicted by the model: code 18 is then left out of the comparison on
    # both sides (corpus case text_repeated_name_type_error_paths.case)
    def without_18(v):
        if isinstance(v, list) and v[:1] == [1] and len(v) >= 2 and len(v) == 2 + v[1]:
            codes = [x for x in v[2:] if x != 18]
            return [1, len(codes)] + codes
        return v

    ntype18 = 0
    for c in cases:
        if c.kind != "text" or c.cid not in model_c:
            continue
        d = decode_result("text", impl.get(c.cid))
        if d and d["stage"] == "error" and 15 in d["codes"] and set(d["codes"]) != {15}:
            if 18 in (model_c[c.cid][2:] if isinstance(model_c[c.cid], list) and model_c[c.cid][:1] == [1] else []) \
                    or 18 in d["codes"]:
                ntype18 += 1
            model_c[c.cid] = without_18(model_c[c.cid])
            impl_cmp[c.cid] = without_18(impl_cmp[c.cid])
    rep.coverage["generator"]["path_errors_not_comparable_next_to_type_errors"] = ntype18

    # the property is tested on the raw results, the correspondence on the canonical ones
    def pc(c, _r):
        return prop_check(c, impl.get(c.cid))

    def nt(c, _r):
        return nontrivial(c, impl.get(c.cid))

    def fm(c, _r, cls):
        return finding_match(c, impl.get(c.cid), cls)

    pfail, mism = vplib.decide(rep, cases, impl_cmp, model_c, pc, fm, nt,
                               what="correspondence Human/Run.v vs human_encoding")
    json.dump([{"id": c.cid, "kind": c.kind, "args": c.line[:2000], "src": c.meta.get("src"), "tag": c.meta.get("tag"),
                "impl": r, "impl_raw": impl.get(c.cid), "model": m} for (c, r, m) in mism],
              open(os.path.join(rep.workdir(), "mismatches.json"), "w"), indent=1)
    # one violation per failure class (decide reports the smallest failing case only)
    by_class = {}
    for (c, r, p) in pfail:
        by_class.setdefault(p[0], []).append((c, p))
    if pfail:
        first = min(pfail, key=lambda x: len(x[0].line))[2][0]
        for cls, lst in sorted(by_class.items()):
            if cls == first:
                continue
            c, p = min(lst, key=lambda x: len(x[0].line))
            rep.violation("property fails on the implementation: %s [%s] (%d failing cases)" % (p[1], cls, len(lst)),
                          {"case": {"id": c.cid, "kind": c.kind, "harness_args": c.line, "model_expr": c.expr, "meta": c.meta},
                           "implementation_result": impl.get(c.cid), "failure_class": cls, "failing_cases": len(lst)}, True)
    rep.coverage["failure_classes"] = {cls: len(lst) for cls, lst in sorted(by_class.items())}
    known = {}
    for c in cases:
        p = prop_check(c, impl.get(c.cid))
        if p is not None and finding_match(c, impl.get(c.cid), p[0]):
            known[p[0]] = known.get(p[0], 0) + 1
    rep.coverage["known_finding_classes"] = known

    # statistics
    st = {"prog_rendered": 0, "prog_roundtrip_ok": 0, "text_parsed_single": 0, "text_roundtrip_ok": 0, "text_errors": 0,
          "text_multi_root": 0, "multi_root_reparse": {"ok": 0, "error": 0, "panic": 0}, "crash": 0, "timeout": 0,
          "unmodelled_reparse_failures": 0, "lines_max": 0, "first_parse_over_3s": 0}
    for c in cases:
        r = impl.get(c.cid)
        if r == "CRASH":
            st["crash"] += 1
            continue
        if r == "TIMEOUT":
            st["timeout"] += 1
            continue
        d = decode_result(c.kind, r)
        if d is None:
            continue
        if d.get("slow"):
            st["first_parse_over_3s"] += 1
        if d["stage"] == "rendered":
            ok = prop_check(c, r) is None
            st["lines_max"] = max(st["lines_max"], len(d["lines"]))
            if c.kind == "prog":
                st["prog_rendered"] += 1
                st["prog_roundtrip_ok"] += ok
            else:
                st["text_parsed_single"] += 1
                st["text_roundtrip_ok"] += ok
            if d["reparse"]["st"] == 1 and (set(d["reparse"]["codes"]) & (LEXICAL | {15})):
                st["unmodelled_reparse_failures"] += 1
        elif d["stage"] == "error":
            st["text_errors"] += 1
            if set(d["codes"]) == {15} and c.expr is not None and not c.meta.get("mutated"):
                st["text_type_errors_outside_model"] = st.get("text_type_errors_outside_model", 0) + 1
        elif d["stage"] == "multi":
            st["text_multi_root"] += 1
            st["multi_root_reparse"][{0: "ok", 1: "error", 9: "panic"}.get(d["again"], "panic")] += 1
    rep.coverage["statistics"] = st
    rep.coverage["rule"] = ("programs: fixed sharing patterns + type-directed random programs 1 -> 1 (Core / Elements jets, witnesses, hidden "
                            "branches, disconnect with and without branch, fail, words 2^0..2^12 bits, sharing 0-50 %, copied sub-expressions); "
                            "texts: the same programs written with random inline/named split, reference chains, generated-looking names, "
                            "ascriptions, comments, `#{}` assertions, and one structural mutation in a quarter of them; strings: random bytes, "
                            "token soup, mutated valid texts, nesting up to several thousand, identifiers up to 2*10^5 characters.  Distinct = "
                            "distinct sequence of rendered definition lines (>= 3 lines) or distinct source text of an error / multi-root case")
    sample = [c for c in cases if c.kind in ("prog", "text") and c.expr is not None]
    rep.coverage["samples"] = [{"kind": c.kind, "args": c.line[:300], "impl": (impl.get(c.cid) or [])[:80] if isinstance(impl.get(c.cid), list) else impl.get(c.cid),
                                "model": (model.get(c.cid) or [])[:80]} for c in sample[::max(1, len(sample) // 4)][:5]]
    rep.notes += [
        "observation (not a finding; the limit is the design of the fixes F-C17i/j/l): a type nested MAX_NESTING = 1000 or more deep "
        "(words counting as leaves) is rendered but refused on reparse (`nested too deeply`); the exact bound is Human/TypeText.v "
        "`small` (tdepth t < 1000): theorem C17_parse_print_ty holds for every small type, C17_parse_print_ty_refuted_deep / "
        "parse_print_ty_deep_ok show that the left-nested product of 1001 factors (depth 1000) is refused and that of 1000 factors is "
        "read back; every type with at most 1000 constructors is small (C17_small_of_size); C17_parse_depth_bounded: every type the "
        "parser accepts is nested less than 1000 deep; such cases are generated (kind typ, meta budget > 1000), compared with the "
        "model and excluded from the round-trip clause",
        "observation (not a violation: the property asks for termination): the lexer computes line/column of every token by "
        "scanning the input from its start (parse/ast.rs offset_to_position), so parsing is quadratic in the text size; measured "
        "with the debug harness on the rendering of `x_{k+1} := injl x_k` chains: 50 lines (25 KB rendered) second parse 0.13 s, "
        "100 lines (79 KB) 1.3 s, 200 lines (278 KB) 18 s, 400 lines > 300 s; the first parse of the unascribed sources takes 2-7 ms",
        "observation (mechanism of F-C04): string_serialize prints every arrow with Final's Display, which expands shared types; "
        "`x_{k+1} := pair x_k x_k` has an arrow of 2^k leaves: 12 levels take 27 s through parse/render/parse in the debug harness, "
        "60 levels do not finish; the generator keeps such shapes at 8 levels",
    ]
    vplib.finish_proof_verdict(rep, pfail)
    rep.assumptions += ["scope of the round-trip clause for texts: parse succeeds with exactly one root, named main (see module doc)"]


def replay(obj):
    print(json.dumps(obj, indent=1)[:6000])
    c = obj.get("case")
    if not c:
        return 0
    binary, _ = vplib.harness_build("debug", crate=CRATE)
    case = Case(c["id"], c["kind"], c["harness_args"], c["model_expr"], c.get("meta"))
    rep = vplib.Report(PROP, "quick", 0)
    impl, model = vplib.eval_cases(rep, binary, "human", [case], IMPORTS, tag="replay")
    r = impl.get(case.cid)
    print("implementation:", r)
    print("model         :", model.get(case.cid))
    if case.kind == "text":
        print("source text   :\n" + (case.meta or {}).get("src", ""))
    print("property      :", prop_check(case, r))
    return 0
