(* Specifications of the two signature jets of Core, bip_0340_verify and check_sig_verify, over the
   point arithmetic of Jets/JetSpecSecp.v and the SHA-256 of Merkle/Sha256.v.
     simplicity-sys/depend/simplicity/jets-secp256k1.c               the jets
     simplicity-sys/depend/simplicity/secp256k1/extrakeys_impl.h     secp256k1_xonly_pubkey_parse
     simplicity-sys/depend/simplicity/secp256k1/secp256k1_impl.h     secp256k1_pubkey_load (refuses x = 0)
     simplicity-sys/depend/simplicity/secp256k1/schnorrsig_impl.h    secp256k1_schnorrsig_verify
   The C code starts the tagged hashes from precomputed midstates; here a tagged hash is
   SHA256(SHA256(tag) || SHA256(tag) || data), as BIP-340 defines it. *)
From Coq Require Import String.
From RS Require Import Lib.Tac Lib.Outcome Lib.Bits Ty.Ty Core.Prog Core.Term Core.Typing Core.Sem
  Jets.JetSpec Jets.JetSpecSha Jets.JetSpecSecp.
From RS Require Merkle.Sha256.
Import ListNotations.
Local Open Scope N_scope.

Definition CHALLENGE_TAG : string := "BIP0340/challenge".

Definition tagged_hash (tag : string) (data : list N) : list N :=
  let d := Sha256.sha256 (ascii tag) in Sha256.sha256 (d ++ d ++ data).

Definition bytes_num (l : list N) : N := val_be (bits_of_bytes l).

(* the public key, the message and the two halves of the signature as byte strings *)
Definition bip340_verify (pk msg r s : list N) : bool :=
  let px := bytes_num pk in
  let rx := bytes_num r in
  let sv := bytes_num s in
  if (px <? FE_P) && negb (px =? 0) && (rx <? FE_P) && (sv <? SC_N) then
    match lift_x px false with
    | None => false
    | Some pt =>
        let e := (bytes_num (tagged_hash CHALLENGE_TAG (r ++ pk ++ msg))) mod SC_N in
        let rj := ecmult (gej_of_ge pt) ((SC_N - e) mod SC_N) sv in
        if is_inf rj then false
        else let q := gej_affine rj in negb (N.odd (snd q)) && (fst q =? rx)
    end
  else false.

Definition SIGNATURE_TAG : string := String (Ascii.ascii_of_nat 83) "implicity" ++ String (Ascii.ascii_of_nat 31) "Signature".

Definition sig_table : list gspec :=
  [ mkG 13 "bip_0340_verify" (word_ty 10) One
        (fun v => match v with
                  | SP (SP pk msg) (SP r s) =>
                      must (bip340_verify (word_bytes 8 pk) (word_bytes 8 msg) (word_bytes 8 r) (word_bytes 8 s))
                  | _ => None
                  end);
    mkG 19 "check_sig_verify" (Prod (Prod (word_ty 8) (word_ty 9)) (word_ty 9)) One
        (fun v => match v with
                  | SP (SP pk msg) (SP r s) =>
                      must (bip340_verify (word_bytes 8 pk) (tagged_hash SIGNATURE_TAG (word_bytes 9 msg))
                                          (word_bytes 8 r) (word_bytes 8 s))
                  | _ => None
                  end) ].

(* the tags hash to the midstates the C code starts from (schnorrsig_impl.h, precomputed.h signatureIV) *)
Example tag_midstates :
  Sha256.sha_hash_tag (ascii CHALLENGE_TAG) =
    Sha256.state_of_bytes (bytes_of_bits 32 (bits_be 256 0x9cecba112392538111679112d1627e0f97c87550003cc76590f6116433e9b66a)) /\
  Sha256.sha_hash_tag (ascii SIGNATURE_TAG) =
    Sha256.state_of_bytes (bytes_of_bits 32 (bits_be 256 0xedebc74b774c1bb2cb6be27e38d63c826f0c6ee602399eb6483bde91270a1b9b)).
Proof. vm_compute. split; reflexivity. Qed.

(* test vector 0 of BIP-340 (secret key 3, the all-zero message), and the same with the first message bit set *)
Definition BIP340_PK0 : list N := [249; 48; 138; 1; 146; 88; 195; 16; 73; 52; 79; 133; 248; 157; 82; 41; 181; 49; 200; 69; 131; 111; 153; 176; 134; 1; 241; 19; 188; 224; 54; 249].
Definition BIP340_R0 : list N := [233; 7; 131; 31; 128; 132; 141; 16; 105; 165; 55; 27; 64; 36; 16; 54; 75; 223; 28; 95; 131; 7; 176; 8; 76; 85; 241; 206; 45; 202; 130; 21].
Definition BIP340_S0 : list N := [37; 246; 106; 74; 133; 234; 139; 113; 228; 130; 167; 79; 56; 45; 44; 229; 235; 238; 232; 253; 178; 23; 47; 71; 125; 244; 144; 13; 49; 5; 54; 192].
Example bip340_vector_0 :
  bip340_verify BIP340_PK0 (repeat 0 32) BIP340_R0 BIP340_S0 = true /\
  bip340_verify BIP340_PK0 (128 :: repeat 0 31) BIP340_R0 BIP340_S0 = false.
Proof. vm_compute. split; reflexivity. Qed.
