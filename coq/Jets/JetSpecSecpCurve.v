(* The doubling and addition formulas of Jets/JetSpecSecp.v (those of libsecp256k1's gej_double_var and
   gej_add_var) keep a point on the curve y^2 = x^3 + 7 z^6: proved over the integers modulo p by
   translating the field operations (Jets/JetSpecSecpProofs.v) and checking the polynomial identities
   with [ring]. *)
From Coq Require Import ZArith Setoid Morphisms.
From RS Require Import Lib.Tac Jets.JetSpecSha Jets.JetSpecSecp Jets.JetSpecSecpProofs.
Local Open Scope Z_scope.

Definition zp : Z := Z.of_N FE_P.
(* congruence modulo p (a one-constructor wrapper, so that [rewrite] treats it as a setoid relation) *)
Variant eqp (a b : Z) : Prop := eqp_intro : a mod zp = b mod zp -> eqp a b.
Lemma eqp_def a b : eqp a b <-> a mod zp = b mod zp.
Proof. split; [intros [H]; exact H|apply eqp_intro]. Qed.

Lemma zp_pos : 0 < zp. Proof. unfold zp. rewrite FE_P_num. reflexivity. Qed.
Lemma zp_nz : zp <> 0. Proof. pose proof zp_pos. lia. Qed.

#[global] Instance eqp_equiv : Equivalence eqp.
Proof. split; red; intros *; rewrite !eqp_def; congruence. Qed.
#[global] Instance eqp_add : Proper (eqp ==> eqp ==> eqp) Z.add.
Proof. intros a b H c d H'. rewrite eqp_def in *. rewrite (Z.add_mod a c), (Z.add_mod b d), H, H' by apply zp_nz. reflexivity. Qed.
#[global] Instance eqp_mul : Proper (eqp ==> eqp ==> eqp) Z.mul.
Proof. intros a b H c d H'. rewrite eqp_def in *. rewrite (Z.mul_mod a c), (Z.mul_mod b d), H, H' by apply zp_nz. reflexivity. Qed.
#[global] Instance eqp_opp : Proper (eqp ==> eqp) Z.opp.
Proof.
  intros a b H.
  replace (- a) with ((-1) * a) by ring. replace (- b) with ((-1) * b) by ring. rewrite H. reflexivity.
Qed.
#[global] Instance eqp_sub : Proper (eqp ==> eqp ==> eqp) Z.sub.
Proof. intros a b H c d H'. unfold Z.sub. rewrite H, H'. reflexivity. Qed.

Definition sq (a : Z) : Z := a * a.
Definition cu (a : Z) : Z := a * a * a.
#[global] Instance eqp_sq : Proper (eqp ==> eqp) sq.
Proof. intros a b H. unfold sq. rewrite H. reflexivity. Qed.
#[global] Instance eqp_cu : Proper (eqp ==> eqp) cu.
Proof. intros a b H. unfold cu. rewrite H. reflexivity. Qed.

Lemma eqp_eq a b : a = b -> eqp a b. Proof. intros ->. reflexivity. Qed.
Lemma eqp_mod a : eqp (a mod zp) a. Proof. apply eqp_def. apply Z.mod_mod, zp_nz. Qed.
Lemma eqp_zp_l a : eqp (zp + a) a.
Proof. apply eqp_def. replace (zp + a) with (a + 1 * zp) by ring. apply Z.mod_add, zp_nz. Qed.

(* 2 is invertible modulo p *)
Definition HALF : Z := (zp + 1) / 2.
Lemma half_2 : eqp (HALF * 2) 1.
Proof.
  apply eqp_def. unfold HALF, zp. rewrite FE_P_num. vm_compute. reflexivity.
Qed.
Lemma eqp_small a b : 0 <= a < zp -> 0 <= b < zp -> eqp a b -> a = b.
Proof. intros Ha Hb H. apply eqp_def in H. rewrite !Z.mod_small in H by assumption. exact H. Qed.
Lemma eqp_cancel2 a b : eqp (2 * a) (2 * b) -> eqp a b.
Proof.
  intros H. assert (eqp (HALF * (2 * a)) (HALF * (2 * b))) as H' by (rewrite H; reflexivity).
  rewrite !Z.mul_assoc, half_2, !Z.mul_1_l in H'. exact H'.
Qed.
Lemma eqp_cancel64 a b : eqp (64 * a) (64 * b) -> eqp a b.
Proof.
  intros H. do 6 apply eqp_cancel2. 
  replace (2 * (2 * (2 * (2 * (2 * (2 * a)))))) with (64 * a) by ring.
  replace (2 * (2 * (2 * (2 * (2 * (2 * b)))))) with (64 * b) by ring. exact H.
Qed.

(* ---- the field operations, translated *)
Notation "[ a ]" := (Z.of_N a) (at level 0).

Lemma z_mod (a : N) : [a mod FE_P] = [a] mod zp.
Proof. unfold zp. apply N2Z.inj_mod. Qed.

Lemma zfmul a b : (a < FE_P)%N -> (b < FE_P)%N -> eqp [fmul a b] ([a] * [b]).
Proof. intros. rewrite fmul_spec by assumption. rewrite z_mod, N2Z.inj_mul. apply eqp_mod. Qed.
Lemma zfsqr a : (a < FE_P)%N -> eqp [fsqr a] ([a] * [a]).
Proof. intros. rewrite fsqr_spec by assumption. rewrite z_mod, N2Z.inj_mul. apply eqp_mod. Qed.
Lemma zfadd a b : (a < FE_P)%N -> (b < FE_P)%N -> eqp [fadd a b] ([a] + [b]).
Proof. intros. rewrite fadd_spec by assumption. rewrite z_mod, N2Z.inj_add. apply eqp_mod. Qed.
Lemma zfneg a : (a < FE_P)%N -> eqp [fneg a] (- [a]).
Proof.
  intros. rewrite fneg_spec by assumption. rewrite z_mod, N2Z.inj_sub by lia. fold zp.
  rewrite eqp_mod. unfold Z.sub. apply eqp_zp_l.
Qed.
Lemma zfsub a b : (a < FE_P)%N -> (b < FE_P)%N -> eqp [fsub a b] ([a] - [b]).
Proof. intros. unfold fsub. rewrite zfadd by (try apply fneg_lt; assumption). rewrite zfneg by assumption. apply eqp_eq. ring. Qed.
Lemma zfhalf a : (a < FE_P)%N -> eqp (2 * [fhalf a]) [a].
Proof.
  intros H. destruct (fhalf_spec a H) as [_ E]. 
  rewrite <- E at 2. rewrite z_mod, N2Z.inj_mul. symmetry. apply eqp_mod.
Qed.
Lemma zfcube a : (a < FE_P)%N -> eqp [fcube a] ([a] * [a] * [a]).
Proof. intros. unfold fcube. rewrite zfmul by (try apply fsqr_lt; assumption). rewrite zfsqr by assumption. reflexivity. Qed.

(* canonical representatives: congruent means equal *)
Lemma eqp_inj a b : (a < FE_P)%N -> (b < FE_P)%N -> eqp [a] [b] -> a = b.
Proof.
  intros Ha Hb H. apply N2Z.inj. apply eqp_small; [unfold zp; lia..|exact H].
Qed.

(* ---- the curve equation *)
Definition curve (X Y Z : Z) : Prop := eqp (Y * Y) (X * X * X + 7 * (Z * Z * Z * (Z * Z * Z))).

Lemma on_curve_iff a : gej_ok a -> (gej_on_curve a = true <-> curve [gx a] [gy a] [gz a]).
Proof.
  intros (Hx & Hy & Hz). unfold gej_on_curve, curve.
  assert (eqp [fadd (fcube (gx a)) (fmul 7 (fsqr (fcube (gz a))))]
              ([gx a] * [gx a] * [gx a] + 7 * ([gz a] * [gz a] * [gz a] * ([gz a] * [gz a] * [gz a])))) as R.
  { rewrite zfadd by fe_lt. rewrite zfcube by fe_lt. rewrite zfmul by fe_lt. rewrite zfsqr by fe_lt.
    rewrite zfcube by fe_lt. reflexivity. }
  split.
  - intros E. apply N.eqb_eq in E. rewrite <- R, <- E. symmetry. apply zfsqr. assumption.
  - intros E. apply N.eqb_eq. apply eqp_inj; [fe_lt..|]. rewrite R, zfsqr by assumption. exact E.
Qed.

(* ---- doubling *)
Lemma dbl_curve_Z X Y Z L : eqp (2 * L) (3 * (X * X)) -> curve X Y Z ->
  let S := Y * Y in
  let T := - (S * X) in
  let X3 := L * L + (T + T) in
  let Y3 := - (L * (X3 + T) + S * S) in
  curve X3 Y3 (Z * Y).
Proof.
  intros H2 HS. cbv zeta. unfold curve in *. apply eqp_cancel64.
  set (W := Z * Z * Z * (Z * Z * Z)) in *.
  transitivity (sq ((2 * L) * ((2 * L) * (2 * L) + 12 * (- (Y * Y * X))) + 8 * ((Y * Y) * (Y * Y)))).
  { apply eqp_eq. unfold sq. ring. }
  transitivity (cu ((2 * L) * (2 * L) + 8 * (- (Y * Y * X))) + 448 * (W * ((Y * Y) * (Y * Y) * (Y * Y)))).
  2: { apply eqp_eq. unfold W, cu. ring. }
  rewrite H2, HS. apply eqp_eq. unfold sq, cu. ring.
Qed.

(* ---- addition, in the scaled coordinates U = X Z'^2, S = Y Z'^3, W = 7 (Z Z')^6 *)
Lemma add_identity U1 U2 S1 S2 W :
  let H := U2 - U1 in
  let I := S1 - S2 in
  let h2 := - (H * H) in
  let h3 := h2 * H in
  let t := U1 * h2 in
  let X3 := I * I + h3 + (t + t) in
  let Y3 := (t + X3) * I + h3 * S1 in
  Y3 * Y3 - (X3 * X3 * X3 + W * (H * H * H * (H * H * H))) =
  (- U2*U2*U2*W + 2*U2*U2*U2*S1*S2 - U2*U2*U2*S1*S1 + U2*U2*U2*U2*U2*U2 + 3*U1*U2*U2*W - 6*U1*U2*U2*S1*S2 + 3*U1*U2*U2*S1*S1 - 6*U1*U2*U2*U2*U2*U2 - 3*U1*U1*U2*W + 6*U1*U1*U2*S1*S2 - 3*U1*U1*U2*S1*S1 + 12*U1*U1*U2*U2*U2*U2 + U1*U1*U1*W - 2*U1*U1*U1*S1*S2 + U1*U1*U1*S1*S1 - 9*U1*U1*U1*U2*U2*U2 + 3*U1*U1*U1*U1*U1*U2 - U1*U1*U1*U1*U1*U1) * (S1 * S1 - (U1 * U1 * U1 + W)) +
  (U2*U2*U2*W + U2*U2*U2*S2*S2 - 2*U2*U2*U2*S1*S2 - U2*U2*U2*U2*U2*U2 - 3*U1*U2*U2*W - 3*U1*U2*U2*S2*S2 + 6*U1*U2*U2*S1*S2 + 3*U1*U2*U2*U2*U2*U2 + 3*U1*U1*U2*W + 3*U1*U1*U2*S2*S2 - 6*U1*U1*U2*S1*S2 - U1*U1*U1*W - U1*U1*U1*S2*S2 + 2*U1*U1*U1*S1*S2 - 9*U1*U1*U1*U2*U2*U2 + 12*U1*U1*U1*U1*U2*U2 - 6*U1*U1*U1*U1*U1*U2 + U1*U1*U1*U1*U1*U1) * (S2 * S2 - (U2 * U2 * U2 + W)).
Proof. cbv zeta. ring. Qed.

Lemma add_curve_Z X1 Y1 Z1 X2 Y2 Z2 : curve X1 Y1 Z1 -> curve X2 Y2 Z2 ->
  let U1 := X1 * (Z2 * Z2) in
  let U2 := X2 * (Z1 * Z1) in
  let S1 := Y1 * (Z2 * Z2) * Z2 in
  let S2 := Y2 * (Z1 * Z1) * Z1 in
  let H := U2 - U1 in
  let I := S1 - S2 in
  let h2 := - (H * H) in
  let h3 := h2 * H in
  let t := U1 * h2 in
  let X3 := I * I + h3 + (t + t) in
  let Y3 := (t + X3) * I + h3 * S1 in
  curve X3 Y3 (Z1 * (H * Z2)).
Proof.
  intros C1 C2. cbv zeta.
  set (U1 := X1 * (Z2 * Z2)). set (U2 := X2 * (Z1 * Z1)).
  set (S1 := Y1 * (Z2 * Z2) * Z2). set (S2 := Y2 * (Z1 * Z1) * Z1).
  set (W := 7 * ((Z1 * Z2) * (Z1 * Z2) * (Z1 * Z2) * ((Z1 * Z2) * (Z1 * Z2) * (Z1 * Z2)))).
  assert (eqp (S1 * S1 - (U1 * U1 * U1 + W)) 0) as E1.
  { unfold curve in C1.
    transitivity ((Y1 * Y1) * (Z2 * Z2 * Z2 * (Z2 * Z2 * Z2)) - (U1 * U1 * U1 + W)).
    { apply eqp_eq. unfold S1. ring. }
    rewrite C1. apply eqp_eq. unfold U1, W. ring. }
  assert (eqp (S2 * S2 - (U2 * U2 * U2 + W)) 0) as E2.
  { unfold curve in C2.
    transitivity ((Y2 * Y2) * (Z1 * Z1 * Z1 * (Z1 * Z1 * Z1)) - (U2 * U2 * U2 + W)).
    { apply eqp_eq. unfold S2. ring. }
    rewrite C2. apply eqp_eq. unfold U2, W. ring. }
  pose proof (add_identity U1 U2 S1 S2 W) as Id. cbv zeta in Id.
  unfold curve.
  set (H := U2 - U1) in *. set (I := S1 - S2) in *.
  set (X3 := I * I + - (H * H) * H + (U1 * - (H * H) + U1 * - (H * H))) in *.
  set (Y3 := (U1 * - (H * H) + X3) * I + - (H * H) * H * S1) in *.
  assert (eqp (Y3 * Y3 - (X3 * X3 * X3 + W * (H * H * H * (H * H * H)))) 0) as E.
  { rewrite Id, E1, E2. apply eqp_eq. ring. }
  assert (eqp (Y3 * Y3) (Y3 * Y3 - (X3 * X3 * X3 + W * (H * H * H * (H * H * H))) + (X3 * X3 * X3 + W * (H * H * H * (H * H * H))))) as E'
    by (apply eqp_eq; ring).
  rewrite E', E. apply eqp_eq. unfold W. ring.
Qed.

(* ------------------------------------------------------------------ the specifications stay on the curve *)
Lemma gej_inf_on_curve : gej_on_curve gej_inf = true.
Proof. vm_compute. reflexivity. Qed.

Lemma z3 : [3] = 3. Proof. reflexivity. Qed.

Theorem gej_dbl_on_curve a : gej_ok a -> gej_on_curve a = true -> gej_on_curve (fst (gej_dbl a)) = true.
Proof.
  intros Hok Hc. pose proof (proj1 (gej_dbl_ok a Hok)) as Hok'. revert Hok'.
  apply (on_curve_iff a Hok) in Hc. destruct Hok as (Hx & Hy & Hz).
  unfold gej_dbl. destruct (is_inf a); cbn [fst]; [intros _; apply gej_inf_on_curve|].
  set (l := fhalf (fmul 3 (fsqr (gx a)))).
  set (s := fsqr (gy a)).
  set (t := fneg (fmul s (gx a))).
  set (x3 := fadd (fsqr l) (fadd t t)).
  set (y3 := fneg (fadd (fmul l (fadd x3 t)) (fsqr s))).
  set (z3' := fmul (gz a) (gy a)).
  intros Hok'. apply (on_curve_iff _ Hok'). cbn [gx gy gz].
  assert (l < FE_P)%N as Ll by (unfold l; fe_lt).
  assert (s < FE_P)%N as Ls by (unfold s; fe_lt).
  assert (t < FE_P)%N as Lt by (unfold t; fe_lt).
  assert (x3 < FE_P)%N as Lx3 by (unfold x3; fe_lt).
  assert (eqp (2 * [l]) (3 * ([gx a] * [gx a]))) as HL.
  { unfold l. rewrite zfhalf by fe_lt. rewrite zfmul by fe_lt. rewrite zfsqr by fe_lt. rewrite z3. reflexivity. }
  assert (eqp [s] ([gy a] * [gy a])) as Hs by (unfold s; apply zfsqr; assumption).
  assert (eqp [t] (- ([gy a] * [gy a] * [gx a]))) as Ht.
  { unfold t. rewrite zfneg by fe_lt. rewrite zfmul by fe_lt. rewrite Hs. reflexivity. }
  assert (eqp [x3] ([l] * [l] + (- ([gy a] * [gy a] * [gx a]) + - ([gy a] * [gy a] * [gx a])))) as Hx3.
  { unfold x3. rewrite zfadd by fe_lt. rewrite zfsqr by fe_lt. rewrite zfadd by fe_lt. rewrite Ht. reflexivity. }
  assert (eqp [y3] (- ([l] * ([l] * [l] + (- ([gy a] * [gy a] * [gx a]) + - ([gy a] * [gy a] * [gx a])) + - ([gy a] * [gy a] * [gx a]))
                       + [gy a] * [gy a] * ([gy a] * [gy a])))) as Hy3.
  { unfold y3. rewrite zfneg by fe_lt. rewrite zfadd by fe_lt. rewrite zfmul by fe_lt. rewrite zfadd by fe_lt.
    rewrite zfsqr by fe_lt. rewrite Hx3, Ht, Hs. reflexivity. }
  assert (eqp [z3'] ([gz a] * [gy a])) as Hz3 by (unfold z3'; apply zfmul; assumption).
  unfold curve. rewrite Hx3, Hy3, Hz3.
  exact (dbl_curve_Z [gx a] [gy a] [gz a] [l] HL Hc).
Qed.

Theorem gej_add_on_curve a b : gej_ok a -> gej_ok b ->
  gej_on_curve a = true -> gej_on_curve b = true -> gej_on_curve (gej_add a b) = true.
Proof.
  intros Ha Hb Ca Cb. pose proof (gej_add_ok a b Ha Hb) as Hok'. revert Hok'.
  unfold gej_add. destruct (is_inf a); [intros _; exact Cb|]. destruct (is_inf b); [intros _; exact Ca|].
  pose proof (proj1 (on_curve_iff a Ha) Ca) as Ca'. pose proof (proj1 (on_curve_iff b Hb) Cb) as Cb'.
  pose proof Ha as Ha0. destruct Ha as (Hx & Hy & Hz), Hb as (Hx' & Hy' & Hz').
  set (z22 := fsqr (gz b)). set (z12 := fsqr (gz a)).
  set (u1 := fmul (gx a) z22). set (u2 := fmul (gx b) z12).
  set (s1 := fmul (fmul (gy a) z22) (gz b)). set (s2 := fmul (fmul (gy b) z12) (gz a)).
  set (h := fsub u2 u1). set (i := fsub s1 s2).
  destruct (N.eqb h 0).
  { destruct (N.eqb i 0); intros _; [apply gej_dbl_on_curve; assumption|apply gej_inf_on_curve]. }
  intros Hok'. apply (on_curve_iff _ Hok'). unfold add_tail; cbn [gx gy gz].
  assert (z22 < FE_P)%N as L1 by (unfold z22; fe_lt). assert (z12 < FE_P)%N as L2 by (unfold z12; fe_lt).
  assert (u1 < FE_P)%N as L3 by (unfold u1; fe_lt). assert (u2 < FE_P)%N as L4 by (unfold u2; fe_lt).
  assert (s1 < FE_P)%N as L5 by (unfold s1; fe_lt). assert (s2 < FE_P)%N as L6 by (unfold s2; fe_lt).
  assert (h < FE_P)%N as L7 by (unfold h; fe_lt). assert (i < FE_P)%N as L8 by (unfold i; fe_lt).
  set (h2 := fneg (fsqr h)). set (h3 := fmul h2 h). set (t := fmul u1 h2).
  set (x3 := fadd (fadd (fsqr i) h3) (fadd t t)).
  assert (h2 < FE_P)%N as L9 by (unfold h2; fe_lt). assert (h3 < FE_P)%N as L10 by (unfold h3; fe_lt).
  assert (t < FE_P)%N as L11 by (unfold t; fe_lt). assert (x3 < FE_P)%N as L12 by (unfold x3; fe_lt).
  set (U1 := [gx a] * ([gz b] * [gz b])). set (U2 := [gx b] * ([gz a] * [gz a])).
  set (S1 := [gy a] * ([gz b] * [gz b]) * [gz b]). set (S2 := [gy b] * ([gz a] * [gz a]) * [gz a]).
  assert (eqp [u1] U1) as E1 by (unfold u1, z22, U1; rewrite zfmul by fe_lt; rewrite zfsqr by fe_lt; reflexivity).
  assert (eqp [u2] U2) as E2 by (unfold u2, z12, U2; rewrite zfmul by fe_lt; rewrite zfsqr by fe_lt; reflexivity).
  assert (eqp [s1] S1) as E3.
  { unfold s1, z22, S1. rewrite zfmul by fe_lt. rewrite zfmul by fe_lt. rewrite zfsqr by fe_lt. reflexivity. }
  assert (eqp [s2] S2) as E4.
  { unfold s2, z12, S2. rewrite zfmul by fe_lt. rewrite zfmul by fe_lt. rewrite zfsqr by fe_lt. reflexivity. }
  assert (eqp [h] (U2 - U1)) as E5 by (unfold h; rewrite zfsub by fe_lt; rewrite E1, E2; reflexivity).
  assert (eqp [i] (S1 - S2)) as E6 by (unfold i; rewrite zfsub by fe_lt; rewrite E3, E4; reflexivity).
  set (H := U2 - U1) in *. set (I := S1 - S2) in *.
  assert (eqp [h2] (- (H * H))) as E7 by (unfold h2; rewrite zfneg by fe_lt; rewrite zfsqr by fe_lt; rewrite E5; reflexivity).
  assert (eqp [h3] (- (H * H) * H)) as E8 by (unfold h3; rewrite zfmul by fe_lt; rewrite E7, E5; reflexivity).
  assert (eqp [t] (U1 * - (H * H))) as E9 by (unfold t; rewrite zfmul by fe_lt; rewrite E1, E7; reflexivity).
  assert (eqp [x3] (I * I + - (H * H) * H + (U1 * - (H * H) + U1 * - (H * H)))) as E10.
  { unfold x3. rewrite zfadd by fe_lt. rewrite zfadd by fe_lt. rewrite zfsqr by fe_lt. rewrite zfadd by fe_lt.
    rewrite E6, E8, E9. reflexivity. }
  unfold curve.
  rewrite (zfadd (fmul (fadd t x3) i) (fmul h3 s1)) by fe_lt.
  rewrite (zfmul (fadd t x3) i) by fe_lt. rewrite (zfadd t x3) by fe_lt. rewrite (zfmul h3 s1) by fe_lt.
  rewrite (zfmul (gz a) (fmul h (gz b))) by fe_lt. rewrite (zfmul h (gz b)) by fe_lt.
  rewrite E10, E9, E8, E6, E5, E3.
  exact (add_curve_Z [gx a] [gy a] [gz a] [gx b] [gy b] [gz b] Ca' Cb').
Qed.

Lemma ge_on_curve_iff b : ge_ok b -> (ge_on_curve b = true <-> curve [fst b] [snd b] 1).
Proof.
  intros (Hx & Hy). unfold ge_on_curve, curve.
  assert (eqp [fadd (fcube (fst b)) 7] ([fst b] * [fst b] * [fst b] + 7 * (1 * 1 * 1 * (1 * 1 * 1)))) as R.
  { rewrite zfadd by fe_lt. rewrite zfcube by fe_lt. apply eqp_eq. change [7] with 7. ring. }
  split.
  - intros E. apply N.eqb_eq in E. rewrite <- R, <- E. symmetry. apply zfsqr. assumption.
  - intros E. apply N.eqb_eq. apply eqp_inj; [fe_lt..|]. rewrite R, zfsqr by assumption. exact E.
Qed.

Theorem gej_neg_on_curve a : gej_ok a -> gej_on_curve a = true -> gej_on_curve (gej_neg a) = true.
Proof.
  intros Hok Hc. apply (on_curve_iff a Hok) in Hc. destruct Hok as (Hx & Hy & Hz).
  assert (gej_ok (gej_neg a)) as Hok' by (unfold gej_neg, gej_ok; cbn [gx gy gz]; repeat split; fe_lt).
  apply (on_curve_iff _ Hok'). unfold gej_neg; cbn [gx gy gz]. unfold curve in *.
  rewrite zfneg by assumption. rewrite <- Hc. apply eqp_eq. ring.
Qed.

Theorem gej_rescale_on_curve a s : gej_ok a -> (s < FE_P)%N ->
  gej_on_curve a = true -> gej_on_curve (gej_rescale a s) = true.
Proof.
  intros Hok Hs Hc. pose proof (gej_rescale_ok a s Hok Hs) as Hok'.
  apply (on_curve_iff a Hok) in Hc. destruct Hok as (Hx & Hy & Hz).
  apply (on_curve_iff _ Hok'). unfold gej_rescale; cbn [gx gy gz]. unfold curve in *.
  rewrite (zfmul (gx a)) by fe_lt. rewrite (zfmul (fmul (gy a) (fsqr s)) s) by fe_lt.
  rewrite (zfmul (gy a)) by fe_lt. rewrite (zfmul (gz a)) by fe_lt. rewrite zfsqr by fe_lt.
  transitivity (([gy a] * [gy a]) * ([s] * [s] * [s] * ([s] * [s] * [s]))).
  { apply eqp_eq. ring. }
  rewrite Hc. apply eqp_eq. ring.
Qed.

(* mixed addition (gej_add_ge_var: zs = 1), the affine point being on the curve *)
Theorem gej_add_ge_on_curve a b : gej_ok a -> ge_ok b ->
  gej_on_curve a = true -> ge_on_curve b = true -> gej_on_curve (fst (gej_add_ge a b)) = true.
Proof.
  intros Ha Hb Ca Cb. pose proof (proj1 (gej_add_ge_z_ok 1 a b lt_1 Ha Hb)) as Hok'. revert Hok'.
  pose proof (proj1 (on_curve_iff a Ha) Ca) as Ca'. pose proof (proj1 (ge_on_curve_iff b Hb) Cb) as Cb'.
  unfold gej_add_ge, gej_add_ge_z. pose proof Ha as Ha0. destruct Ha as (Hx & Hy & Hz), Hb as (Hx' & Hy').
  destruct (is_inf a); cbn [fst].
  { intros Hok'. apply (on_curve_iff _ Hok'). cbn [gx gy gz]. unfold curve in *.
    rewrite (zfmul (fst b)) by fe_lt. rewrite (zfmul (snd b)) by fe_lt. rewrite (zfmul (fsqr 1) 1) by fe_lt.
    rewrite zfsqr by fe_lt. change [1] with 1.
    transitivity ([snd b] * [snd b]); [apply eqp_eq; ring|]. rewrite Cb'. apply eqp_eq. ring. }
  set (az := fmul (gz a) 1). set (z12 := fsqr az).
  set (u2 := fmul (fst b) z12). set (s2 := fmul (fmul (snd b) z12) az).
  set (h := fsub u2 (gx a)). set (i := fsub (gy a) s2).
  destruct (N.eqb h 0).
  { destruct (N.eqb i 0); cbn [fst]; intros _; [apply gej_dbl_on_curve; assumption|apply gej_inf_on_curve]. }
  cbn [fst]. intros Hok'. apply (on_curve_iff _ Hok'). unfold add_tail; cbn [gx gy gz].
  assert (az < FE_P)%N as L0 by (unfold az; fe_lt). assert (z12 < FE_P)%N as L2 by (unfold z12; fe_lt).
  assert (u2 < FE_P)%N as L4 by (unfold u2; fe_lt). assert (s2 < FE_P)%N as L6 by (unfold s2; fe_lt).
  assert (h < FE_P)%N as L7 by (unfold h; fe_lt). assert (i < FE_P)%N as L8 by (unfold i; fe_lt).
  set (h2 := fneg (fsqr h)). set (h3 := fmul h2 h). set (t := fmul (gx a) h2).
  set (x3 := fadd (fadd (fsqr i) h3) (fadd t t)).
  assert (h2 < FE_P)%N as L9 by (unfold h2; fe_lt). assert (h3 < FE_P)%N as L10 by (unfold h3; fe_lt).
  assert (t < FE_P)%N as L11 by (unfold t; fe_lt). assert (x3 < FE_P)%N as L12 by (unfold x3; fe_lt).
  set (U1 := [gx a] * (1 * 1)). set (U2 := [fst b] * ([gz a] * [gz a])).
  set (S1 := [gy a] * (1 * 1) * 1). set (S2 := [snd b] * ([gz a] * [gz a]) * [gz a]).
  assert (eqp [az] [gz a]) as E0 by (unfold az; rewrite zfmul by fe_lt; apply eqp_eq; change [1] with 1; ring).
  assert (eqp [gx a] U1) as E1 by (apply eqp_eq; unfold U1; ring).
  assert (eqp [u2] U2) as E2 by (unfold u2, z12, U2; rewrite zfmul by fe_lt; rewrite zfsqr by fe_lt; rewrite E0; reflexivity).
  assert (eqp [gy a] S1) as E3 by (apply eqp_eq; unfold S1; ring).
  assert (eqp [s2] S2) as E4.
  { unfold s2, z12, S2. rewrite zfmul by fe_lt. rewrite zfmul by fe_lt. rewrite zfsqr by fe_lt. rewrite E0. reflexivity. }
  assert (eqp [h] (U2 - U1)) as E5 by (unfold h; rewrite zfsub by fe_lt; rewrite E1, E2; reflexivity).
  assert (eqp [i] (S1 - S2)) as E6 by (unfold i; rewrite zfsub by fe_lt; rewrite E3, E4; reflexivity).
  set (H := U2 - U1) in *. set (I := S1 - S2) in *.
  assert (eqp [h2] (- (H * H))) as E7 by (unfold h2; rewrite zfneg by fe_lt; rewrite zfsqr by fe_lt; rewrite E5; reflexivity).
  assert (eqp [h3] (- (H * H) * H)) as E8 by (unfold h3; rewrite zfmul by fe_lt; rewrite E7, E5; reflexivity).
  assert (eqp [t] (U1 * - (H * H))) as E9 by (unfold t; rewrite zfmul by fe_lt; rewrite E7; rewrite E1 at 1; reflexivity).
  assert (eqp [x3] (I * I + - (H * H) * H + (U1 * - (H * H) + U1 * - (H * H)))) as E10.
  { unfold x3. rewrite zfadd by fe_lt. rewrite zfadd by fe_lt. rewrite zfsqr by fe_lt. rewrite zfadd by fe_lt.
    rewrite E6, E8, E9. reflexivity. }
  assert (eqp [fmul (gz a) h] ([gz a] * (H * 1))) as E11.
  { rewrite zfmul by fe_lt. rewrite E5. apply eqp_eq. ring. }
  unfold curve.
  rewrite (zfadd (fmul (fadd t x3) i) (fmul h3 (gy a))) by fe_lt.
  rewrite (zfmul (fadd t x3) i) by fe_lt. rewrite (zfadd t x3) by fe_lt. rewrite (zfmul h3 (gy a)) by fe_lt.
  rewrite E11, E10, E9, E8, E6. rewrite E3 at 1 2.
  exact (add_curve_Z [gx a] [gy a] [gz a] [fst b] [snd b] 1 Ca' Cb').
Qed.

(* decompression is sound: the point is on the curve, has the requested abscissa and, unless y = 0, the requested parity *)
Lemma fneg_odd y : (0 < y < FE_P)%N -> N.odd (fneg y) = negb (N.odd y).
Proof.
  intros [H0 H1]. unfold fneg. destruct (N.eqb_spec y 0) as [->|_]; [lia|].
  rewrite FE_P_num in *.
  replace 115792089237316195423570985008687907853269984665640564039457584007908834671663%N
    with (2 * 57896044618658097711785492504343953926634992332820282019728792003954417335831 + 1)%N in * by reflexivity.
  set (k := 57896044618658097711785492504343953926634992332820282019728792003954417335831%N) in *.
  destruct (N.odd y) eqn:E.
  - apply N.odd_spec in E. destruct E as [m ->]. cbn [negb].
    replace (2 * k + 1 - (2 * m + 1))%N with (2 * (k - m))%N by lia. rewrite N.odd_mul, N.odd_2. reflexivity.
  - assert (N.even y = true) as Ev by (rewrite <- N.negb_odd, E; reflexivity).
    apply N.even_spec in Ev. destruct Ev as [m ->]. cbn [negb].
    replace (2 * k + 1 - 2 * m)%N with (1 + 2 * (k - m))%N by lia. rewrite N.odd_add_mul_2. reflexivity.
Qed.

Theorem lift_x_sound x o q : (x < FE_P)%N -> lift_x x o = Some q ->
  ge_ok q /\ ge_on_curve q = true /\ fst q = x /\ (snd q <> 0%N -> N.odd (snd q) = o).
Proof.
  intros Hx. unfold lift_x.
  destruct (fsqrt (fadd (fcube x) 7)) as [y ok] eqn:E. destruct ok; [|discriminate].
  assert (fadd (fcube x) 7 < FE_P)%N as La by fe_lt.
  destruct (fsqrt_sound _ _ La E) as [Ly Hy].
  rewrite <- fsqr_spec in Hy by assumption.
  intros [= <-]. cbn [fst snd].
  assert (ge_on_curve (x, y) = true) as C1 by (unfold ge_on_curve; cbn [fst snd]; apply N.eqb_eq; exact Hy).
  destruct (Bool.eqb (N.odd y) o) eqn:Eo.
  - apply Bool.eqb_prop in Eo. repeat split; try assumption. intros _. exact Eo.
  - assert (ge_ok (x, fneg y)) as Ok2 by (split; cbn [fst snd]; fe_lt).
    repeat split; try (cbn [fst snd]; fe_lt).
    + apply (ge_on_curve_iff _ Ok2). cbn [fst snd].
      apply (ge_on_curve_iff (x, y)) in C1; [|split; assumption]. cbn [fst snd] in C1. unfold curve in *.
      rewrite zfneg by assumption. rewrite <- C1. apply eqp_eq. ring.
    + intros Hn. destruct (N.eqb_spec y 0) as [->|Hy0]; [exfalso; apply Hn; reflexivity|].
      rewrite fneg_odd by lia. destruct (N.odd y), o; cbn in *; congruence.
Qed.
