(* Model of the budget / padding logic of src/analysis.rs
   (Cost::{get_budget,is_budget_valid,get_padding}, U32Weight conversions).
   All constants and the five arms of the `match deficit` come from
   Generated/Consts.v, which the translator rewrites from the Rust source on every
   run.  The compact-size function is that of the `elements` crate (VarInt::size). *)
From RS Require Import Lib.Tac Lib.Outcome.
From RS Require Import Generated.Consts.
Import ListNotations.
Local Open Scope N_scope.

Definition u32_max : N := 4294967295.
Definition sat32 (x : N) : N := N.min x u32_max.

(* elements::encode::VarInt::size *)
Definition cs (n : N) : N :=
  if n <=? 252 then 1 else if n <=? 65535 then 3 else if n <=? 4294967295 then 5 else 9.

(* consensus_encode of Vec<Vec<u8>>: VarInt(count), then VarInt(len) + bytes per item.
   A stack is modelled by the list of its item lengths. *)
Definition items_len (ls : list N) : N := fold_right (fun l acc => cs l + l + acc) 0 ls.
Definition ser_len (ls : list N) : N := cs (N.of_nat (length ls)) + items_len ls.

(* get_budget: u32::try_from(len).expect(..).saturating_add(50); Panic 20 = the expect *)
Definition get_budget (ls : list N) : outcome unit N :=
  if u32_max <? ser_len ls then Panic 20 else Ok (sat32 (ser_len ls + c_free_budget)).

Definition do_cmp (op : cmp_op) (a b : N) : bool :=
  match op with CLe => a <=? b | CLt => a <? b | CGe => b <=? a | CGt => b <? a end.

(* From<Cost> for U32Weight *)
Definition weight_of_cost (c : N) : N := sat32 (c + c_cw_add) / c_cw_div.
(* From<U32Weight> for Cost *)
Definition cost_of_weight (w : N) : N := sat32 (w * c_wc_mul).

(* From<bitcoin::Weight> for Cost: u32::try_from(wu).unwrap_or(u32::MAX), then saturating_mul *)
Definition cost_of_weight64 (w : N) : N := sat32 (sat32 w * c_bwc_mul).

Definition is_budget_valid (c : N) (ls : list N) : outcome unit bool :=
  match get_budget ls with
  | Ok b => Ok (do_cmp c_valid_cmp c (sat32 (b * c_valid_mul)))
  | Err e => Err e | Panic p => Panic p | OutOfFuel => OutOfFuel
  end.

(* usize `-` panics on underflow in debug builds (Panic 21), wraps in release *)
Definition eval_rhs (r : arm_rhs) (d : N) : outcome unit N :=
  match r with
  | SatSub k => Ok (d - k)
  | Sub k => if d <? k then Panic 21 else Ok (d - k)
  | Const k => Ok k
  end.

Fixpoint eval_arms (arms : list (option (N * N) * arm_rhs)) (d : N) : outcome unit N :=
  match arms with
  | [] => Panic 22
  | (Some (lo, hi), r) :: rest => if (lo <=? d) && (d <=? hi) then eval_rhs r d else eval_arms rest d
  | (None, r) :: _ => eval_rhs r d
  end.

Definition padding_len (d : N) : outcome unit N := eval_arms c_padding_arms d.

(* get_padding: None, or Some (length of the annex = 1 + padding_len);
   the annex bytes are c_annex_tag followed by padding_len bytes c_annex_fill *)
Definition get_padding (c : N) (ls : list N) : outcome unit (option N) :=
  match get_budget ls with
  | Ok b =>
      let w := weight_of_cost c in
      if do_cmp c_pad_none_cmp w b then Ok None
      else match padding_len (w - b) with
           | Ok p => Ok (Some (1 + p))
           | Err e => Err e | Panic q => Panic q | OutOfFuel => OutOfFuel
           end
  | Err e => Err e | Panic p => Panic p | OutOfFuel => OutOfFuel
  end.

(* ----------------------------------------------------------------- lemmas *)

Lemma ser_len_app ls l :
  ser_len (ls ++ [l]) = cs (N.of_nat (length ls) + 1) + items_len ls + cs l + l.
Proof.
  unfold ser_len. rewrite app_length. cbn [length].
  replace (N.of_nat (length ls + 1)) with (N.of_nat (length ls) + 1) by lia.
  assert (H : items_len (ls ++ [l]) = items_len ls + cs l + l).
  { induction ls as [|x r IH]; cbn [items_len app fold_right] in *; [lia|].
    fold (items_len (r ++ [l])). fold (items_len r). rewrite IH. lia. }
  rewrite H. lia.
Qed.

Lemma cs_mono a b : a <= b -> cs a <= cs b.
Proof.
  unfold cs. intros H.
  destruct (a <=? 252) eqn:A1, (b <=? 252) eqn:B1, (a <=? 65535) eqn:A2, (b <=? 65535) eqn:B2,
           (a <=? 4294967295) eqn:A3, (b <=? 4294967295) eqn:B3; lia.
Qed.

Lemma cs_spec x :
  (x <= 252 /\ cs x = 1) \/ (252 < x <= 65535 /\ cs x = 3) \/
  (65535 < x <= 4294967295 /\ cs x = 5) \/ (4294967295 < x /\ cs x = 9).
Proof.
  unfold cs. destruct (x <=? 252) eqn:A; [lia|]. destruct (x <=? 65535) eqn:B; [lia|].
  destruct (x <=? 4294967295) eqn:C; lia.
Qed.

Lemma cs_pos a : 1 <= cs a.
Proof. unfold cs. destruct (a <=? 252), (a <=? 65535), (a <=? 4294967295); lia. Qed.

(* weight rounds up and is monotone, for every cost within the consensus maximum *)
Theorem weight_rounds_up c : c <= c_consensus_max ->
  1000 * weight_of_cost c < c + 1000 /\ c <= 1000 * weight_of_cost c.
Proof.
  unfold weight_of_cost, sat32, u32_max, c_consensus_max, c_cw_add, c_cw_div. intros H.
  rewrite N.min_l by lia. lia.
Qed.

Theorem weight_monotone c1 c2 : c1 <= c2 -> weight_of_cost c1 <= weight_of_cost c2.
Proof.
  unfold weight_of_cost, sat32, u32_max, c_cw_add, c_cw_div. intros H.
  apply N.div_le_mono; [lia|]. lia.
Qed.

Theorem cost_of_weight_monotone w1 w2 : w1 <= w2 -> cost_of_weight w1 <= cost_of_weight w2.
Proof. unfold cost_of_weight, sat32, c_wc_mul. intros H. lia. Qed.

Theorem cost_of_weight_saturates w : cost_of_weight w = N.min (1000 * w) u32_max.
Proof. unfold cost_of_weight, sat32, c_wc_mul. f_equal. lia. Qed.

Theorem cost_of_weight64_spec w : cost_of_weight64 w = N.min (1000 * w) u32_max.
Proof. unfold cost_of_weight64, sat32, c_bwc_mul, u32_max. lia. Qed.

Theorem cost_of_weight64_monotone w1 w2 : w1 <= w2 -> cost_of_weight64 w1 <= cost_of_weight64 w2.
Proof. rewrite !cost_of_weight64_spec. unfold u32_max. lia. Qed.

(* cost -> weight -> cost rounds up to the next multiple of 1000 *)
Theorem cost_weight_roundtrip c : c <= c_consensus_max ->
  c <= cost_of_weight (weight_of_cost c) /\ cost_of_weight (weight_of_cost c) < c + 1000 /\
  weight_of_cost (cost_of_weight (weight_of_cost c)) = weight_of_cost c.
Proof.
  intros H. destruct (weight_rounds_up c H) as [H1 H2].
  unfold cost_of_weight, sat32, c_wc_mul.
  assert (Hw : weight_of_cost c * 1000 <= u32_max).
  { unfold u32_max, c_consensus_max in *. lia. }
  rewrite N.min_l by exact Hw.
  split; [lia|]. split; [lia|].
  unfold weight_of_cost at 1. unfold sat32, c_cw_add, c_cw_div.
  rewrite N.min_l by (unfold u32_max, c_consensus_max in *; lia). lia.
Qed.

(* 1. validity is exactly `weight <= serialized size + 50` *)
Theorem valid_iff c ls : c <= c_consensus_max -> ser_len ls <= u32_max ->
  exists v, is_budget_valid c ls = Ok v /\
            (v = true <-> weight_of_cost c <= ser_len ls + 50).
Proof.
  intros Hc Hs. unfold is_budget_valid, get_budget.
  replace (u32_max <? ser_len ls) with false by lia.
  eexists. split; [reflexivity|].
  destruct (weight_rounds_up c Hc) as [H1 H2].
  unfold do_cmp, c_valid_cmp, c_valid_mul, c_free_budget, sat32, u32_max, c_consensus_max in *.
  lia.
Qed.

(* 2. no padding exactly when valid *)
Theorem padding_none_iff c ls : c <= c_consensus_max -> ser_len ls <= u32_max ->
  (get_padding c ls = Ok None <-> is_budget_valid c ls = Ok true).
Proof.
  intros Hc Hs. unfold get_padding, is_budget_valid, get_budget.
  replace (u32_max <? ser_len ls) with false by lia.
  destruct (weight_rounds_up c Hc) as [H1 H2].
  set (w := weight_of_cost c) in *. clearbody w.
  unfold do_cmp, c_pad_none_cmp, c_valid_cmp, c_valid_mul, c_free_budget, sat32, u32_max,
    c_consensus_max in *.
  destruct (w <=? N.min (ser_len ls + 50) 4294967295) eqn:E.
  - split; [intros _|reflexivity]. f_equal. lia.
  - split; intros H.
    + destruct (padding_len (w - N.min (ser_len ls + 50) 4294967295)); discriminate.
    + exfalso. injection H as H. lia.
Qed.

(* the annex length returned for a deficit *)
Lemma padding_len_cases d : 1 <= d ->
  exists p, padding_len d = Ok p /\
   ((d <= 253 /\ p = d - 2) \/ (254 <= d <= 255 /\ p = 252) \/ (256 <= d <= 65538 /\ p = d - 4) \/
    (65539 <= d <= 65540 /\ p = 65535) \/ (65541 <= d /\ p = d - 6)).
Proof.
  intros Hd. unfold padding_len, c_padding_arms. cbn [eval_arms eval_rhs].
  destruct ((0 <=? d) && (d <=? 253)) eqn:E1; [eexists; split; [reflexivity|lia]|].
  destruct ((254 <=? d) && (d <=? 255)) eqn:E2; [eexists; split; [reflexivity|lia]|].
  destruct ((256 <=? d) && (d <=? 65538)) eqn:E3.
  { replace (d <? 4) with false by lia. eexists; split; [reflexivity|lia]. }
  destruct ((65539 <=? d) && (d <=? 65540)) eqn:E4; [eexists; split; [reflexivity|lia]|].
  replace (d <? 6) with false by lia. eexists; split; [reflexivity|lia].
Qed.

(* 3. sufficiency: appending the returned annex brings the cost within budget *)
Theorem padding_sufficient c ls a :
  c <= c_consensus_max -> ser_len (ls ++ [a]) <= u32_max ->
  get_padding c ls = Ok (Some a) ->
  is_budget_valid c (ls ++ [a]) = Ok true /\ 1 <= a.
Proof.
  intros Hc Hs Hp.
  assert (Hs0 : ser_len ls <= u32_max).
  { rewrite ser_len_app in Hs. unfold ser_len.
    pose proof (cs_mono (N.of_nat (length ls)) (N.of_nat (length ls) + 1) ltac:(lia)). lia. }
  destruct (valid_iff c (ls ++ [a]) Hc Hs) as (v & Hv & Hiff).
  rewrite Hv. revert Hp. unfold get_padding, get_budget.
  replace (u32_max <? ser_len ls) with false by lia.
  destruct (weight_rounds_up c Hc) as [H1 H2].
  set (w := weight_of_cost c) in *. clearbody w.
  unfold do_cmp, c_pad_none_cmp, c_free_budget, sat32.
  destruct (w <=? N.min (ser_len ls + 50) u32_max) eqn:E; [discriminate|].
  assert (Hd : 1 <= w - N.min (ser_len ls + 50) u32_max) by lia.
  destruct (padding_len_cases _ Hd) as (p & Hpl & Hcases). rewrite Hpl. intros Hp.
  assert (Ha : a = 1 + p) by congruence. clear Hp. subst a.
  assert (Hb : N.min (ser_len ls + 50) u32_max = ser_len ls + 50).
  { unfold u32_max, c_consensus_max in *. lia. }
  rewrite Hb in *.
  split; [|lia]. f_equal. apply Hiff.
  rewrite ser_len_app.
  pose proof (cs_mono (N.of_nat (length ls)) (N.of_nat (length ls) + 1) ltac:(lia)) as Hm.
  pose proof (cs_spec (1 + p)) as Hcsp. unfold ser_len in *. lia.
Qed.

(* 4. minimality: unless the item count itself crosses a compact-size boundary, no
   shorter (non-empty) annex suffices *)
Theorem padding_minimal c ls a a' :
  c <= c_consensus_max -> ser_len (ls ++ [a]) <= u32_max ->
  get_padding c ls = Ok (Some a) ->
  cs (N.of_nat (length ls) + 1) = cs (N.of_nat (length ls)) ->
  1 <= a' -> a' < a ->
  is_budget_valid c (ls ++ [a']) = Ok false.
Proof.
  intros Hc Hs Hp Hcs Ha1 Ha2.
  assert (Hs' : ser_len (ls ++ [a']) <= u32_max).
  { rewrite ser_len_app in *. pose proof (cs_mono a' a ltac:(lia)). lia. }
  assert (Hs0 : ser_len ls <= u32_max).
  { rewrite ser_len_app in Hs. unfold ser_len. lia. }
  destruct (valid_iff c (ls ++ [a']) Hc Hs') as (v & Hv & Hiff).
  rewrite Hv. revert Hp. unfold get_padding, get_budget.
  replace (u32_max <? ser_len ls) with false by lia.
  destruct (weight_rounds_up c Hc) as [H1 H2].
  set (w := weight_of_cost c) in *. clearbody w.
  unfold do_cmp, c_pad_none_cmp, c_free_budget, sat32.
  destruct (w <=? N.min (ser_len ls + 50) u32_max) eqn:E; [discriminate|].
  assert (Hd : 1 <= w - N.min (ser_len ls + 50) u32_max) by lia.
  destruct (padding_len_cases _ Hd) as (p & Hpl & Hcases). rewrite Hpl. intros Hp.
  assert (Ha : a = 1 + p) by congruence. clear Hp. subst a.
  assert (Hb : N.min (ser_len ls + 50) u32_max = ser_len ls + 50).
  { unfold u32_max, c_consensus_max in *. lia. }
  rewrite Hb in *.
  f_equal. destruct v; [|reflexivity]. exfalso.
  assert (Hw : w <= ser_len (ls ++ [a']) + 50) by (apply Hiff; reflexivity).
  rewrite ser_len_app, Hcs in Hw. rewrite ser_len_app in Hs.
  pose proof (cs_spec a') as Hcsa. pose proof (cs_pos (1 + p)). unfold ser_len, u32_max in *. lia.
Qed.

(* the model functions do not panic in the stated range *)
Theorem get_padding_total c ls : c <= c_consensus_max -> ser_len ls <= u32_max ->
  exists r, get_padding c ls = Ok r.
Proof.
  intros Hc Hs. unfold get_padding, get_budget.
  replace (u32_max <? ser_len ls) with false by lia.
  destruct (do_cmp c_pad_none_cmp (weight_of_cost c) (sat32 (ser_len ls + c_free_budget))) eqn:E;
    [eexists; reflexivity|].
  unfold do_cmp, c_pad_none_cmp in E.
  destruct (padding_len_cases (weight_of_cost c - sat32 (ser_len ls + c_free_budget)) ltac:(lia))
    as (p & Hp & _).
  rewrite Hp. eexists; reflexivity.
Qed.

(* non-vacuity: one case in each of the five regions and at the maximum *)
Example pad_region1 : get_padding 54001 [] = Ok (Some 3).  Proof. reflexivity. Qed.
Example pad_region2 : get_padding (51000 + 254000) [] = Ok (Some 253).  Proof. reflexivity. Qed.
Example pad_region3 : get_padding (51000 + 7424000) [] = Ok (Some 7421).  Proof. reflexivity. Qed.
Example pad_region4 : get_padding (51000 + 65539000) [] = Ok (Some 65536).  Proof. reflexivity. Qed.
Example pad_region5 : get_padding c_consensus_max [] = Ok (Some 3999994).  Proof. reflexivity. Qed.
Example valid_empty : is_budget_valid 51000 [] = Ok true.  Proof. reflexivity. Qed.
Example valid_empty' : is_budget_valid 51001 [] = Ok false.  Proof. reflexivity. Qed.
