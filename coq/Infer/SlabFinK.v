(* C04, phase 3 - layer (d), continued.
     least_frees_one   the least finite model of a well-formed slab state gives One to every class whose bound is Free
                       (an acyclic definitional system has a model for every choice of its free classes: mval)
     r_finish_spec     hence, when the state after construction has a finite model, every finalisation order of the
                       harness (RunSlab.r_finish, all fmodes) succeeds and reads the values of the least model *)
From RS Require Import Lib.Tac Lib.Outcome Lib.Sweep Ty.Ty Core.Prog Infer.Constraints Infer.Unify Infer.Infer Infer.Gen Infer.Principal
  Infer.UnionFind Infer.Slab Infer.RunSlab Infer.SlabProofs Infer.SlabSim Infer.SlabSimInst Infer.SlabResult Infer.SlabRun Infer.SlabFin.
Import ListNotations.
Local Open Scope outcome_scope.

(* ---- a model of an acyclic state *)
Fixpoint mval (fuel : nat) (c : ctx) (e : nat) : ty :=
  match fuel with
  | O => One
  | S f =>
      match slab_get c (bref_of (c_uf c) (rep (c_uf c) e)) with
      | RFree => One
      | RComplete t => t
      | RSum a b => Sum (mval f c a) (mval f c b)
      | RProd a b => Prod (mval f c a) (mval f c b)
      end
  end.

Definition ranked (rk : nat -> nat) (c : ctx) : Prop :=
  forall e x1 x2, (e < length (c_uf c))%nat -> is_uroot (c_uf c) e ->
    (slab_get c (bref_of (c_uf c) e) = RSum x1 x2 \/ slab_get c (bref_of (c_uf c) e) = RProd x1 x2) ->
    (rk (rep (c_uf c) x1) < rk e)%nat /\ (rk (rep (c_uf c) x2) < rk e)%nat.

Lemma mval_stable rk c : cwf c -> ranked rk c -> forall fuel e, (e < length (c_uf c))%nat ->
  (rk (rep (c_uf c) e) < fuel)%nat -> mval fuel c e = mval (S (rk (rep (c_uf c) e))) c e.
Proof.
  intros CW Rk. pose proof CW as (W & Ch & _).
  assert (H : forall k fuel e, (e < length (c_uf c))%nat -> (rk (rep (c_uf c) e) < k)%nat -> (rk (rep (c_uf c) e) < fuel)%nat ->
                mval fuel c e = mval (S (rk (rep (c_uf c) e))) c e).
  { induction k as [|k IH]; intros fuel e He Hk Hf; [lia|].
    destruct fuel as [|f]; [lia|]. cbn [mval].
    destruct (rep_root _ e W He) as [Rr Lr].
    destruct (slab_get c (bref_of (c_uf c) (rep (c_uf c) e))) as [|t|a b|a b] eqn:Eb; try reflexivity.
    - destruct (Ch _ a b (or_introl Eb)) as [La Lb].
      destruct (Rk _ a b Lr Rr (or_introl Eb)) as [Ka Kb].
      rewrite (IH f a La ltac:(lia) ltac:(lia)), (IH f b Lb ltac:(lia) ltac:(lia)).
      rewrite (IH (rk (rep (c_uf c) e)) a La ltac:(lia) ltac:(lia)), (IH (rk (rep (c_uf c) e)) b Lb ltac:(lia) ltac:(lia)). reflexivity.
    - destruct (Ch _ a b (or_intror Eb)) as [La Lb].
      destruct (Rk _ a b Lr Rr (or_intror Eb)) as [Ka Kb].
      rewrite (IH f a La ltac:(lia) ltac:(lia)), (IH f b Lb ltac:(lia) ltac:(lia)).
      rewrite (IH (rk (rep (c_uf c) e)) a La ltac:(lia) ltac:(lia)), (IH (rk (rep (c_uf c) e)) b Lb ltac:(lia) ltac:(lia)). reflexivity. }
  intros fuel e He Hf. apply (H (S (rk (rep (c_uf c) e)))); auto.
Qed.

Lemma ranked_model rk c : cwf c -> ranked rk c -> rsat (fun e => mval (S (rk (rep (c_uf c) e))) c e) c.
Proof.
  intros CW Rk. pose proof CW as (W & Ch & _). split.
  - intros e He. rewrite (rep_idem _ e W He). cbn [mval]. rewrite (rep_idem _ e W He). reflexivity.
  - intros e He Hr.
    destruct (slab_get c (bref_of (c_uf c) e)) as [|t|a b|a b] eqn:Eb; cbn [holds_r]; cbv beta; auto.
    + rewrite (rep_of_root _ e Hr). cbn [mval]. rewrite (rep_of_root _ e Hr), Eb. reflexivity.
    + destruct (Ch _ a b (or_introl Eb)) as [La Lb]. destruct (Rk _ a b He Hr (or_introl Eb)) as [Ka Kb].
      rewrite (rep_of_root _ e Hr). cbn [mval]. rewrite (rep_of_root _ e Hr), Eb.
      rewrite (mval_stable rk c CW Rk (rk e) a La Ka), (mval_stable rk c CW Rk (rk e) b Lb Kb). reflexivity.
    + destruct (Ch _ a b (or_intror Eb)) as [La Lb]. destruct (Rk _ a b He Hr (or_intror Eb)) as [Ka Kb].
      rewrite (rep_of_root _ e Hr). cbn [mval]. rewrite (rep_of_root _ e Hr), Eb.
      rewrite (mval_stable rk c CW Rk (rk e) a La Ka), (mval_stable rk c CW Rk (rk e) b Lb Kb). reflexivity.
Qed.

Lemma ty_le_one t : ty_le t One = true -> t = One.
Proof. destruct t; cbn; congruence. Qed.

Theorem least_frees_one be c : cwf c -> least_model be c -> frees_one be c.
Proof.
  intros CW [Sa Least] r Lr Rr Eb. pose proof CW as (W & Ch & Un & Br).
  set (b := bref_of (c_uf c) r) in *.
  assert (HR : holds_ref c r b) by (repeat split; auto).
  (* the state in which r is bound to unit *)
  destruct (reassign_free_spec ty eq One Sum Prod c b (RComplete One) r CW HR Eb I) as [(CW' & _) Sem].
  set (c' := mk_ctx (lset (c_slab c) b (RComplete One)) (c_uf c)) in *.
  assert (Rk : ranked (fun e => ty_size (be e)) c').
  { intros e x1 x2 He Hr H. change (c_uf c') with (c_uf c) in *.
    assert (Ne : b <> bref_of (c_uf c) e).
    { intros E. rewrite <- E in H. unfold c' in H. rewrite slab_get_lset_eq in H by (apply Br; assumption). destruct H; discriminate. }
    unfold c' in H. rewrite slab_get_lset_neq in H by exact Ne.
    destruct Sa as [H1 H2]. specialize (H2 e He Hr).
    assert (Lx : (x1 < length (c_uf c))%nat /\ (x2 < length (c_uf c))%nat) by (apply (Ch (bref_of (c_uf c) e)); exact H).
    destruct Lx as [L1 L2]. rewrite <- (H1 x1 L1), <- (H1 x2 L2).
    pose proof (ty_size_pos (be x1)). pose proof (ty_size_pos (be x2)).
    destruct H as [H|H]; rewrite H in H2; cbn [holds_r] in H2; rewrite H2; cbn [ty_size]; lia. }
  pose proof (ranked_model _ c' CW' Rk) as M.
  set (be' := fun e => mval (S (ty_size (be (rep (c_uf c') e)))) c' e) in *.
  apply fsat_rsat in M. apply Sem in M. destruct M as [M E1]. apply fsat_rsat in M.
  cbn [dof] in E1. pose proof (Least be' M r Lr) as Le. rewrite E1 in Le. apply ty_le_one. exact Le.
Qed.

(* ---- threading Inv through the finalisation orders of the harness *)
Lemma fin_ty_spec be c e : Inv be c -> (e < length (c_uf c))%nat ->
  match fin_ty c e with
  | Ok (c', t) => Inv be c' /\ length (c_uf c') = length (c_uf c) /\ t = be e
  | Err _ => False
  | _ => True
  end.
Proof.
  intros I0 He. pose proof (finalize_spec be c e I0 He) as F. unfold fin_ty.
  destruct (finalize c e) as [[c1 [t|]]|er| |]; cbn [lift_fin obind]; try exact I; try exact F.
  destruct F as (I1 & K & ->). split; [exact I1|]. split; [apply K|reflexivity].
Qed.

Lemma fin_arrow_spec be sf c a : Inv be c ->
  (forall x y, a = Some (x, y) -> (x < length (c_uf c))%nat /\ (y < length (c_uf c))%nat) ->
  match fin_arrow sf c a with
  | Ok c' => Inv be c' /\ length (c_uf c') = length (c_uf c)
  | Err _ => False
  | _ => True
  end.
Proof.
  intros I0 Ha. unfold fin_arrow. destruct a as [[s t]|]; [|split; [exact I0|reflexivity]].
  destruct (Ha s t eq_refl) as [Ls Lt].
  assert (G : forall u v, (u < length (c_uf c))%nat -> (v < length (c_uf c))%nat ->
            match ('(c1, _) <- fin_ty c u ;; '(c2, _) <- fin_ty c1 v ;; Ok c2) with
            | Ok c' => Inv be c' /\ length (c_uf c') = length (c_uf c) | Err _ => False | _ => True end).
  { intros u v Lu Lv. pose proof (fin_ty_spec be c u I0 Lu) as F1.
    destruct (fin_ty c u) as [[c1 t1]|e1| |]; cbn [obind]; try exact I; try exact F1.
    destruct F1 as (I1 & L1 & _). pose proof (fin_ty_spec be c1 v I1 ltac:(lia)) as F2.
    destruct (fin_ty c1 v) as [[c2 t2]|e2| |]; cbn [obind]; try exact I; try exact F2.
    destruct F2 as (I2 & L2 & _). split; [exact I2|lia]. }
  destruct sf; [apply (G s t Ls Lt)|apply (G t s Lt Ls)].
Qed.

Lemma fin_list_spec be sf ar : forall l c, Inv be c -> arr_in (length (c_uf c)) ar ->
  match fin_list sf c ar l with
  | Ok c' => Inv be c' /\ length (c_uf c') = length (c_uf c)
  | Err _ => False
  | _ => True
  end.
Proof.
  induction l as [|i rest IH]; intros c I0 Ai; cbn [fin_list]; [split; [exact I0|reflexivity]|].
  pose proof (fin_arrow_spec be sf c (nth i ar None) I0) as F.
  specialize (F ltac:(intros x y E; apply (Ai i); rewrite SlabConstruct.arr_of_nth; exact E)).
  destruct (fin_arrow sf c (nth i ar None)) as [c1|e1| |]; cbn [obind]; try exact I; try exact F.
  destruct F as (I1 & L1). pose proof (IH c1 I1 ltac:(rewrite L1; exact Ai)) as R.
  destruct (fin_list sf c1 ar rest) as [c2|e2| |]; try exact I; try exact R.
  destruct R as (I2 & L2). split; [exact I2|lia].
Qed.

Lemma read_arrows_spec be ar : forall l c, Inv be c -> arr_in (length (c_uf c)) ar ->
  match read_arrows c ar l with
  | Ok r => r = map (fun i => img be (nth i ar None)) l
  | Err _ => False
  | _ => True
  end.
Proof.
  induction l as [|i rest IH]; intros c I0 Ai; cbn [read_arrows map]; [reflexivity|].
  destruct (nth i ar None) as [[s t]|] eqn:En.
  - destruct (Ai i s t ltac:(rewrite SlabConstruct.arr_of_nth; exact En)) as [Ls Lt].
    pose proof (fin_ty_spec be c s I0 Ls) as F1.
    destruct (fin_ty c s) as [[c1 t1]|e1| |]; cbn [obind]; try exact I; try exact F1.
    destruct F1 as (I1 & L1 & ->). pose proof (fin_ty_spec be c1 t I1 ltac:(lia)) as F2.
    destruct (fin_ty c1 t) as [[c2 t2]|e2| |]; cbn [obind]; try exact I; try exact F2.
    destruct F2 as (I2 & L2 & ->). pose proof (IH c2 I2 ltac:(rewrite L2, L1; exact Ai)) as R.
    destruct (read_arrows c2 ar rest) as [r|e3| |]; cbn [obind]; try exact I; try exact R.
    rewrite R. reflexivity.
  - pose proof (IH c I0 Ai) as R.
    destruct (read_arrows c ar rest) as [r|e3| |]; cbn [obind]; try exact I; try exact R.
    rewrite R. reflexivity.
Qed.

Theorem r_finish_spec be fmode p canon root c ar : Inv be c -> arr_in (length (c_uf c)) ar ->
  match r_finish fmode p canon root c ar with
  | Ok tau => tau = map (fun i => img be (nth i ar None)) canon
  | Err _ => False
  | _ => True
  end.
Proof.
  intros I0 Ai. unfold r_finish.
  assert (G : forall X : rres ctx,
            match X with Ok c' => Inv be c' /\ length (c_uf c') = length (c_uf c) | Err _ => False | _ => True end ->
            match (c1 <- X ;; read_arrows c1 ar canon) with
            | Ok tau => tau = map (fun i => img be (nth i ar None)) canon | Err _ => False | _ => True end).
  { intros X HX. destruct X as [c1|e1| |]; cbn [obind]; try exact I; try exact HX.
    destruct HX as (I1 & L1). apply (read_arrows_spec be ar canon c1 I1). rewrite L1. exact Ai. }
  apply G. destruct fmode as [|[|[|k]]]; try (apply fin_list_spec; assumption).
  destruct (nth root ar None); [apply fin_list_spec; assumption|split; [exact I0|reflexivity]].
Qed.
