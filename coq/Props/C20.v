(* C20 - Results are independent of threads and scheduling.
   Level "other": the theorems below are about the model Conc/Interleave.v - a global name counter,
   per-context inference states owned by one thread each, immutable shared data, and an arbitrary
   interleaving of the threads' operations.  The per-context semantics is a parameter with one
   hypothesis (it never looks inside variable names).  Data races, memory ordering, thread-local
   initialisation, the C code and its tables, the allocator shims and deadlock freedom are not
   modelled: they are exercised by the stress comparison of tools/props/c20.py (sequential vs
   concurrent runs of the real library), which is a test over the schedules the OS produced.
   Only pinned statements, `exact lemma` and `Print Assumptions`. *)
From RS Require Import Lib.Tac Conc.Interleave.
Import ListNotations.
Local Open Scope N_scope.

(* 1. two schedules that give thread k the same number of steps give it the same results up to a
   renaming of fresh names that is injective on the names handed to k *)
Theorem C20_schedule_independent :
  forall (D St R Op : Type) (shared : D) (needs_name : Op -> bool)
         (step : D -> Op -> option N -> St -> St * R)
         (ren_S : (N -> N) -> St -> St) (ren_R : (N -> N) -> R -> R),
    (forall rho op n s,
        step shared op (option_map rho n) (ren_S rho s) =
        (ren_S rho (fst (step shared op n s)), ren_R rho (snd (step shared op n s)))) ->
    forall owner (g : gstate St Op) sch sch' k,
      owned St Op owner g -> closed St ren_S (ctxs St Op g) ->
      count_occ Nat.eq_dec sch k = count_occ Nat.eq_dec sch' k ->
      exists rho : N -> N,
        results_for R k (run_schedule D St R Op shared needs_name step sch g) =
        map (ren_R rho) (results_for R k (run_schedule D St R Op shared needs_name step sch' g)) /\
        names_for R k (run_schedule D St R Op shared needs_name step sch g) =
        map rho (names_for R k (run_schedule D St R Op shared needs_name step sch' g)) /\
        (forall x y,
            In x (names_for R k (run_schedule D St R Op shared needs_name step sch' g)) ->
            In y (names_for R k (run_schedule D St R Op shared needs_name step sch' g)) ->
            rho x = rho y -> x = y).
Proof. exact schedule_independent. Qed.
Print Assumptions C20_schedule_independent.

(* 2. in particular: any interleaving vs the thread running alone *)
Theorem C20_schedule_independent_alone :
  forall (D St R Op : Type) (shared : D) (needs_name : Op -> bool)
         (step : D -> Op -> option N -> St -> St * R)
         (ren_S : (N -> N) -> St -> St) (ren_R : (N -> N) -> R -> R),
    (forall rho op n s,
        step shared op (option_map rho n) (ren_S rho s) =
        (ren_S rho (fst (step shared op n s)), ren_R rho (snd (step shared op n s)))) ->
    forall owner (g : gstate St Op) sch k,
      owned St Op owner g -> closed St ren_S (ctxs St Op g) ->
      exists rho : N -> N,
        results_for R k (run_schedule D St R Op shared needs_name step sch g) =
        map (ren_R rho) (results_for R k (run_schedule D St R Op shared needs_name step (alone k sch) g)) /\
        (forall x y,
            In x (names_for R k (run_schedule D St R Op shared needs_name step (alone k sch) g)) ->
            In y (names_for R k (run_schedule D St R Op shared needs_name step (alone k sch) g)) ->
            rho x = rho y -> x = y).
Proof. exact schedule_independent_alone. Qed.
Print Assumptions C20_schedule_independent_alone.

(* 3. with variable names erased (what the comparison of the real runs compares) the results are equal *)
Theorem C20_schedule_independent_erased :
  forall (D St R Op : Type) (shared : D) (needs_name : Op -> bool)
         (step : D -> Op -> option N -> St -> St * R)
         (ren_S : (N -> N) -> St -> St) (ren_R : (N -> N) -> R -> R),
    (forall rho op n s,
        step shared op (option_map rho n) (ren_S rho s) =
        (ren_S rho (fst (step shared op n s)), ren_R rho (snd (step shared op n s)))) ->
    forall (E : Type) (erase : R -> E) owner (g : gstate St Op) sch sch' k,
      (forall rho r, erase (ren_R rho r) = erase r) ->
      owned St Op owner g -> closed St ren_S (ctxs St Op g) ->
      count_occ Nat.eq_dec sch k = count_occ Nat.eq_dec sch' k ->
      map erase (results_for R k (run_schedule D St R Op shared needs_name step sch g)) =
      map erase (results_for R k (run_schedule D St R Op shared needs_name step sch' g)).
Proof. exact schedule_independent_erased. Qed.
Print Assumptions C20_schedule_independent_erased.

(* 4. the counter never hands out the same name twice, to whatever threads *)
Theorem C20_names_unique :
  forall (D St R Op : Type) (shared : D) (needs_name : Op -> bool)
         (step : D -> Op -> option N -> St -> St * R) sch (g : gstate St Op),
    NoDup (all_names R (run_schedule D St R Op shared needs_name step sch g)).
Proof. exact names_unique. Qed.
Print Assumptions C20_names_unique.

(* 5. the concrete instance compared with the library under forced schedules (case kind `names`):
   contexts as slabs of fresh variable names *)
Theorem C20_concrete_schedule_independent : forall owner c0 programs sch k,
  owned (list N) cop owner (cinit c0 programs) ->
  exists rho : N -> N,
    results_for cres k (crun sch (cinit c0 programs)) =
    map (cren_R rho) (results_for cres k (crun (alone k sch) (cinit c0 programs))) /\
    (forall x y, In x (names_for cres k (crun (alone k sch) (cinit c0 programs))) ->
                 In y (names_for cres k (crun (alone k sch) (cinit c0 programs))) -> rho x = rho y -> x = y).
Proof. exact concrete_schedule_independent. Qed.
Print Assumptions C20_concrete_schedule_independent.

(* 6. non-vacuity: two threads, a schedule that interleaves them, different names, same shape *)
Theorem C20_example_interleaved :
  results_for cres 0 (crun ex_schedule (cinit 1 ex_programs)) = [RName 1; RName 3; RSlot (Some 3); RCount 2] /\
  results_for cres 1 (crun ex_schedule (cinit 1 ex_programs)) = [RName 2; RSlot (Some 2); RName 4; RSlot (Some 4)] /\
  results_for cres 0 (crun (alone 0 ex_schedule) (cinit 1 ex_programs)) = [RName 1; RName 2; RSlot (Some 2); RCount 2] /\
  results_for cres 1 (crun (alone 1 ex_schedule) (cinit 1 ex_programs)) = [RName 1; RSlot (Some 1); RName 2; RSlot (Some 2)].
Proof. exact ex_interleaved. Qed.
Print Assumptions C20_example_interleaved.
