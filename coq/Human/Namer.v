(* C17 - names and named DAGs of the human-readable encoding (src/human_encoding/named_node.rs).

   Level of the model: definitions, not characters.  A name is one of the four textual
   forms that occur; two names are equal iff their texts are equal:
     NMain        "main"
     NGen p i     prefix p followed by the decimal index i   ("ut3", "const1", "FAIL7": what
                  `Namer::assign_name` produces - a user may also write such a name)
     NHole i      "hole_i"  (what `Namer::convert_disconnect` produces)
     NUser u      any other symbol, identified by a number
   A named DAG (`NamedCommitNode` reachable from one root of a `Forest`) is a node table
   in which children refer to smaller positions (pointer identity = position), the root
   is the last entry.  Every node carries its name; a disconnect node carries the name
   of its hole (`Inner::Disconnect(child, Arc<str>)`).  The table form of Core/Prog.v
   (`prog`) is translated by `shape_of`: a `case` with a hidden child is an assertion
   with the hidden commitment root as payload and one child.

   `name_program` mirrors `NamedCommitNode::from_node` (= `Forest::from_program`):
   `root.convert::<MaxSharing<Commit>, _, _>(&mut Namer::new_rooted(root.cmr()))`.
   The identity hash (sharing id of `Commit`, `None` below a witness or disconnect) and the
   commitment root of every node are inputs (class numbers taken from the implementation),
   as the arrows are in the other program-level models.  The post-order iterator is written
   as the recursive walk with a key table that C18 proves equal to `PostOrderIter::next`. *)
From RS Require Import Lib.Tac Lib.Outcome Lib.Bits Core.Prog.
Import ListNotations.
Local Open Scope N_scope.

(* ------------------------------------------------------------------ kinds and names *)
Inductive kind :=
| KIden | KUnit | KInjL | KInjR | KTake | KDrop | KComp | KCase | KPair
| KAssertL | KAssertR | KDisconnect | KWitness | KFail | KJet | KWord.

Definition kind_code (k : kind) : N :=
  match k with
  | KIden => 0 | KUnit => 1 | KInjL => 2 | KInjR => 3 | KTake => 4 | KDrop => 5
  | KComp => 6 | KCase => 7 | KPair => 8 | KAssertL => 9 | KAssertR => 10
  | KDisconnect => 11 | KWitness => 12 | KFail => 13 | KJet => 14 | KWord => 15
  end.

Definition kind_eqb (a b : kind) : bool := kind_code a =? kind_code b.

Lemma kind_code_inj a b : kind_code a = kind_code b -> a = b.
Proof. destruct a, b; cbn; intros H; try reflexivity; discriminate H. Qed.

Lemma kind_eqb_eq a b : kind_eqb a b = true <-> a = b.
Proof.
  unfold kind_eqb. rewrite N.eqb_eq. split; [apply kind_code_inj | intros ->; reflexivity].
Qed.

(* `Namer::assign_name`: the prefix table *)
Inductive prefix :=
| PId | PUt | PJl | PJr | PDp | PTk | PCp | PCs | PAsstl | PAsstr | PPr | PDisc | PWit | PFail | PJt | PConst.

Definition prefix_code (p : prefix) : N :=
  match p with
  | PId => 0 | PUt => 1 | PJl => 2 | PJr => 3 | PDp => 4 | PTk => 5 | PCp => 6 | PCs => 7
  | PAsstl => 8 | PAsstr => 9 | PPr => 10 | PDisc => 11 | PWit => 12 | PFail => 13 | PJt => 14
  | PConst => 15
  end.

Lemma prefix_code_inj a b : prefix_code a = prefix_code b -> a = b.
Proof. destruct a, b; cbn; intros H; try reflexivity; discriminate H. Qed.

Definition prefix_of (k : kind) : prefix :=
  match k with
  | KIden => PId | KUnit => PUt | KInjL => PJl | KInjR => PJr | KDrop => PDp | KTake => PTk
  | KComp => PCp | KCase => PCs | KAssertL => PAsstl | KAssertR => PAsstr | KPair => PPr
  | KDisconnect => PDisc | KWitness => PWit | KFail => PFail | KJet => PJt | KWord => PConst
  end.

Inductive name :=
| NMain
| NGen (p : prefix) (i : N)
| NHole (i : N)
| NUser (u : N).

Definition name_eqb (a b : name) : bool :=
  match a, b with
  | NMain, NMain => true
  | NGen p i, NGen q j => (prefix_code p =? prefix_code q) && (i =? j)
  | NHole i, NHole j => i =? j
  | NUser u, NUser v => u =? v
  | _, _ => false
  end.

Lemma name_eqb_eq a b : name_eqb a b = true <-> a = b.
Proof.
  destruct a as [|p i|i|u], b as [|q j|j|v]; cbn; try (split; [discriminate | discriminate]);
    try (split; reflexivity).
  - rewrite andb_true_iff, !N.eqb_eq. split.
    + intros [H1 H2]. apply prefix_code_inj in H1. subst. reflexivity.
    + intros H. injection H as -> ->. split; reflexivity.
  - rewrite N.eqb_eq. split; [intros ->; reflexivity | intros H; injection H as ->; reflexivity].
  - rewrite N.eqb_eq. split; [intros ->; reflexivity | intros H; injection H as ->; reflexivity].
Qed.

Lemma name_eqb_refl a : name_eqb a a = true.
Proof. apply name_eqb_eq. reflexivity. Qed.

Lemma name_eqb_neq a b : name_eqb a b = false <-> a <> b.
Proof.
  split.
  - intros H E. apply name_eqb_eq in E. congruence.
  - intros H. destruct (name_eqb a b) eqn:E; [apply name_eqb_eq in E; contradiction | reflexivity].
Qed.

Definition name_dec (a b : name) : {a = b} + {a <> b}.
Proof.
  destruct (name_eqb a b) eqn:E.
  - left. apply name_eqb_eq. exact E.
  - right. apply name_eqb_neq. exact E.
Defined.

(* canonical numbers of a name, as printed by the harness *)
Definition name_nums (n : name) : list N :=
  match n with
  | NMain => [0]
  | NGen p i => [1; prefix_code p; i]
  | NHole i => [2; i]
  | NUser u => [3; u]
  end.

Definition mem_name (n : name) (l : list name) : bool := existsb (name_eqb n) l.

Lemma mem_name_In n l : mem_name n l = true <-> In n l.
Proof.
  unfold mem_name. rewrite existsb_exists. split.
  - intros [x [Hx E]]. apply name_eqb_eq in E. subst. exact Hx.
  - intros H. exists n. split; [exact H | apply name_eqb_refl].
Qed.

(* ------------------------------------------------------------------ named nodes *)
Record nnode := mk_nn {
  nn_kind : kind;
  nn_pay : list N;          (* assertion: the 32 bytes of the hidden cmr; fail: 64 entropy bytes;
                               jet: [index in J::ALL]; word: n :: the 2^n bits packed into bytes *)
  nn_l : option nat;        (* DagLike::left_child  (the only child of a unary node) *)
  nn_r : option nat;        (* DagLike::right_child *)
  nn_name : name;
  nn_hole : option name }.  (* disconnect: the name of the hole *)

Definition ndag := list nnode.

Definition dummy_nn : nnode := mk_nn KUnit [] None None NMain None.
Definition nget (d : ndag) (i : nat) : nnode := nth i d dummy_nn.
Definition nname (d : ndag) (i : nat) : name := nn_name (nget d i).
Definition root_of (d : ndag) : nat := pred (length d).

(* number of children of each kind in a NamedCommitNode (Disconnect has the hole name, not a child) *)
Definition arity (k : kind) : nat :=
  match k with
  | KIden | KUnit | KWitness | KFail | KJet | KWord => 0
  | KInjL | KInjR | KTake | KDrop | KAssertL | KAssertR | KDisconnect => 1
  | KComp | KCase | KPair => 2
  end.

Definition opt_lt (o : option nat) (i : nat) : bool :=
  match o with Some c => Nat.ltb c i | None => true end.
Definition opt_some {A} (o : option A) : bool := match o with Some _ => true | None => false end.

Definition node_wf (i : nat) (n : nnode) : bool :=
  opt_lt (nn_l n) i && opt_lt (nn_r n) i &&
  match arity (nn_kind n) with
  | O => negb (opt_some (nn_l n)) && negb (opt_some (nn_r n))
  | S O => opt_some (nn_l n) && negb (opt_some (nn_r n))
  | _ => opt_some (nn_l n) && opt_some (nn_r n)
  end &&
  (match nn_kind n with KDisconnect => opt_some (nn_hole n) | _ => negb (opt_some (nn_hole n)) end).

Fixpoint wf_from (i : nat) (d : ndag) : bool :=
  match d with
  | [] => true
  | n :: r => node_wf i n && wf_from (S i) r
  end.
Definition wf_ndag (d : ndag) : bool := negb (Nat.eqb (length d) 0) && wf_from 0 d.

(* ------------------------------------------------------------------ Namer *)
Record namer := mk_namer { const_idx : N; wit_idx : N; other_idx : N }.
Definition namer_new : namer := mk_namer 0 0 0.

(* Namer::assign_name for every inner except Witness(TypedHole): prefix by kind; one counter for
   words, one for witnesses, one for everything else; `*index += 1` then `format!("{}{}")` *)
Definition assign_name (nm : namer) (k : kind) : name * namer :=
  match k with
  | KWord => let i := const_idx nm + 1 in (NGen PConst i, mk_namer i (wit_idx nm) (other_idx nm))
  | KWitness => let i := wit_idx nm + 1 in (NGen PWit i, mk_namer (const_idx nm) i (other_idx nm))
  | _ => let i := other_idx nm + 1 in
         (NGen (prefix_of k) i, mk_namer (const_idx nm) (wit_idx nm) i)
  end.

(* Converter<Commit, Named<Commit>>::convert_disconnect: `hole_{other_idx}`, then other_idx += 1 *)
Definition name_hole (nm : namer) : name * namer :=
  (NHole (other_idx nm), mk_namer (const_idx nm) (wit_idx nm) (other_idx nm + 1)).

(* ------------------------------------------------------------------ shapes of Core/Prog.v nodes *)
Definition is_hidden (p : prog) (i : nat) : option (list N) :=
  match nth_error p i with Some (NHidden h) => Some h | _ => None end.

(* kind, payload, left, right of the CommitNode built from table entry i (None: hidden node) *)
Definition shape_of (p : prog) (i : nat) : option (kind * list N * option nat * option nat) :=
  match nth_error p i with
  | None => None
  | Some n =>
      match n with
      | NIden => Some (KIden, [], None, None)
      | NUnit => Some (KUnit, [], None, None)
      | NInjL c => Some (KInjL, [], Some c, None)
      | NInjR c => Some (KInjR, [], Some c, None)
      | NTake c => Some (KTake, [], Some c, None)
      | NDrop c => Some (KDrop, [], Some c, None)
      | NComp l r => Some (KComp, [], Some l, Some r)
      | NPair l r => Some (KPair, [], Some l, Some r)
      | NCase l r =>
          match is_hidden p l, is_hidden p r with
          | Some h, _ => Some (KAssertR, h, Some r, None)
          | None, Some h => Some (KAssertL, h, Some l, None)
          | None, None => Some (KCase, [], Some l, Some r)
          end
      | NDisconnect l _ => Some (KDisconnect, [], Some l, None)   (* Commit: NoDisconnect *)
      | NHidden _ => None
      | NFail e => Some (KFail, e, None, None)
      | NJet _ j => Some (KJet, [j], None, None)
      | NWord n bits => Some (KWord, N.of_nat n :: pack bits, None, None)
      | NWitness _ => Some (KWitness, [], None, None)
      end
  end.

(* ------------------------------------------------------------------ from_node *)
Record cv_state := mk_cv {
  cv_tbl : ndag;                 (* `converted`, in creation order *)
  cv_seen : list (N * nat);      (* MaxSharing: sharing id -> index recorded for it *)
  cv_namer : namer }.

Fixpoint seen_get (m : list (N * nat)) (k : N) : option nat :=
  match m with
  | [] => None
  | (k', i) :: r => if k' =? k then Some i else seen_get r k
  end.

Section FromNode.
Variable p : prog.
Variable ihr : nat -> option N.     (* sharing id of the CommitNode at a table position *)
Variable cmr : nat -> N.            (* class of its commitment root *)
Variable root_cmr : N.

(* one node: children first (left, then right), then `convert_disconnect`, then `convert_data` *)
Fixpoint cv_visit (fuel : nat) (i : nat) (st : cv_state) : option nat * cv_state :=
  match fuel with
  | O => (None, st)
  | S f =>
      match (match ihr i with Some k => seen_get (cv_seen st) k | None => None end) with
      | Some j => (Some j, st)
      | None =>
          match shape_of p i with
          | None => (None, st)
          | Some (k, pay, l, r) =>
              let '(l', st1) := match l with
                                | Some c => cv_visit f c st
                                | None => (None, st)
                                end in
              let '(r', st2) := match r with
                                | Some c => cv_visit f c st1
                                | None => (None, st1)
                                end in
              (* a child visited meanwhile may carry the same sharing id: `record` finds it *)
              match (match ihr i with Some key => seen_get (cv_seen st2) key | None => None end) with
              | Some j => (Some j, st2)
              | None =>
                  let '(hole, nm1) := match k with
                                      | KDisconnect => let '(h, nm) := name_hole (cv_namer st2) in (Some h, nm)
                                      | _ => (None, cv_namer st2)
                                      end in
                  let '(nme, nm2) := if cmr i =? root_cmr then (NMain, nm1) else assign_name nm1 k in
                  let j := length (cv_tbl st2) in
                  (Some j,
                   mk_cv (cv_tbl st2 ++ [mk_nn k pay l' r' nme hole])
                         (match ihr i with Some key => (key, j) :: cv_seen st2 | None => cv_seen st2 end)
                         nm2)
              end
          end
      end
  end.
End FromNode.

(* Forest::from_program: the named DAG of the root `main` *)
Definition name_program (p : prog) (ihr : list (option N)) (cmr : list N) : ndag :=
  let root := pred (length p) in
  let ih := fun i => nth i ihr None in
  let cm := fun i => nth i cmr 0 in
  cv_tbl (snd (cv_visit p ih cm (cm root) (S (length p)) root (mk_cv [] [] namer_new))).

(* ------------------------------------------------------------------ generated names are fresh *)
(* All names a Namer has handed out so far are below its counters. *)
Definition name_below (nm : namer) (n : name) : Prop :=
  match n with
  | NMain => True
  | NGen PConst i => i <= const_idx nm
  | NGen PWit i => i <= wit_idx nm
  | NGen _ i => i <= other_idx nm
  | NHole i => i < other_idx nm
  | NUser _ => False
  end.

Lemma name_below_mono nm nm' n :
  const_idx nm <= const_idx nm' -> wit_idx nm <= wit_idx nm' -> other_idx nm <= other_idx nm' ->
  name_below nm n -> name_below nm' n.
Proof.
  intros H1 H2 H3. destruct n as [|p i|i|u]; cbn; try tauto; [destruct p; lia | lia].
Qed.

Lemma assign_name_fresh nm k n nm' :
  assign_name nm k = (n, nm') ->
  ~ name_below nm n /\ name_below nm' n /\ n <> NMain /\
  const_idx nm <= const_idx nm' /\ wit_idx nm <= wit_idx nm' /\ other_idx nm <= other_idx nm'.
Proof.
  unfold assign_name. intros H.
  destruct k; injection H as <- <-; cbn; repeat split; try lia; try discriminate.
Qed.

Lemma name_hole_fresh nm n nm' :
  name_hole nm = (n, nm') ->
  ~ name_below nm n /\ name_below nm' n /\
  const_idx nm <= const_idx nm' /\ wit_idx nm <= wit_idx nm' /\ other_idx nm <= other_idx nm'.
Proof.
  unfold name_hole. intros H. injection H as <- <-. cbn. repeat split; lia.
Qed.

(* ------------------------------------------------------------------ from_node hands out distinct names *)
Lemma wf_from_children : forall p k i n, Prog.wf_from k p = true -> nth_error p i = Some n ->
  forallb (fun c => Nat.ltb c (k + i)) (children n) = true.
Proof.
  induction p as [|x r IH]; intros k i n H Hn; [destruct i; discriminate Hn|].
  cbn [Prog.wf_from] in H. apply andb_true_iff in H. destruct H as [H1 H2].
  destruct i as [|i]; cbn [nth_error] in Hn.
  - injection Hn as <-. rewrite Nat.add_0_r. exact H1.
  - replace (k + S i)%nat with (S k + i)%nat by lia. apply (IH (S k) i n H2 Hn).
Qed.

Lemma shape_children p i k pay l r : wf_prog p = true -> shape_of p i = Some (k, pay, l, r) ->
  (forall c, l = Some c -> (c < i)%nat) /\ (forall c, r = Some c -> (c < i)%nat).
Proof.
  unfold wf_prog. intros W H. apply andb_true_iff in W. destruct W as [_ W].
  unfold shape_of in H. destruct (nth_error p i) as [n|] eqn:En; [|discriminate H].
  pose proof (wf_from_children p 0 i n W En) as C. cbn [Nat.add] in C.
  assert (L : forall c, In c (children n) -> (c < i)%nat).
  { intros c Hc. rewrite forallb_forall in C. apply Nat.ltb_lt. apply C. exact Hc. }
  destruct n; cbn [children] in L;
    try (injection H as <- <- <- <-; split; intros c0 Hc0; try discriminate Hc0;
         injection Hc0 as <-; apply L; cbn; tauto).
  - (* case: possibly an assertion *)
    destruct (is_hidden p l0); [|destruct (is_hidden p r0)];
      injection H as <- <- <- <-; split; intros c0 Hc0; try discriminate Hc0;
      injection Hc0 as <-; apply L; cbn; tauto.
  - (* disconnect *)
    injection H as <- <- <- <-. split; intros c0 Hc0; try discriminate Hc0.
    injection Hc0 as <-. apply L. destruct r0; cbn; tauto.
  - discriminate H.
Qed.

Lemma NoDup_app_one {A} (l : list A) x : NoDup l -> ~ In x l -> NoDup (l ++ [x]).
Proof.
  induction l as [|y r IH]; intros Hd Hn; cbn; [constructor; [intros []|constructor]|].
  inversion Hd as [|? ? Hy Hr]; subst. constructor.
  - intros Hin. apply in_app_or in Hin. destruct Hin as [Hin|[->|[]]]; [contradiction|].
    apply Hn. left. reflexivity.
  - apply IH; [exact Hr|]. intros Hin. apply Hn. right. exact Hin.
Qed.

Section FromNodeNames.
Variable p : prog.
Variable ihr : nat -> option N.
Variable cmr : nat -> N.
Variable root_cmr : N.
Hypothesis Wp : wf_prog p = true.

(* names handed out so far: pairwise distinct, generated, below the counters *)
Definition names_ok (st : cv_state) : Prop :=
  NoDup (map nn_name (cv_tbl st)) /\
  forall n, In n (map nn_name (cv_tbl st)) -> name_below (cv_namer st) n /\ n <> NMain.

Definition namer_le (a b : namer) : Prop :=
  const_idx a <= const_idx b /\ wit_idx a <= wit_idx b /\ other_idx a <= other_idx b.

Lemma cv_visit_names : forall fuel i st,
  (forall j, (j <= i)%nat -> cmr j <> root_cmr) -> names_ok st ->
  names_ok (snd (cv_visit p ihr cmr root_cmr fuel i st)) /\
  namer_le (cv_namer st) (cv_namer (snd (cv_visit p ihr cmr root_cmr fuel i st))).
Proof.
  assert (Refl : forall a, namer_le a a) by (intros a; repeat split; lia).
  induction fuel as [|f IH]; intros i st Hc Hok; cbn [cv_visit].
  - cbn [snd]. split; [exact Hok | apply Refl].
  - destruct (match ihr i with Some k => seen_get (cv_seen st) k | None => None end);
      [cbn [snd]; split; [exact Hok | apply Refl]|].
    destruct (shape_of p i) as [[[[k pay] l] r]|] eqn:Es; [|cbn [snd]; split; [exact Hok | apply Refl]].
    destruct (shape_children p i k pay l r Wp Es) as [Hl Hr].
    (* left child *)
    assert (L : exists l' st1, (match l with Some c => cv_visit p ihr cmr root_cmr f c st | None => (None, st) end) = (l', st1)
                               /\ names_ok st1 /\ namer_le (cv_namer st) (cv_namer st1)).
    { destruct l as [c|].
      - destruct (cv_visit p ihr cmr root_cmr f c st) as [l' st1] eqn:E. exists l', st1. split; [reflexivity|].
        specialize (IH c st). rewrite E in IH. apply IH; [|exact Hok].
        intros j Hj. apply Hc. specialize (Hl c eq_refl). lia.
      - exists None, st. split; [reflexivity|]. split; [exact Hok | apply Refl]. }
    destruct L as [l' [st1 [E1 [Ok1 Le1]]]]. rewrite E1.
    assert (R : exists r' st2, (match r with Some c => cv_visit p ihr cmr root_cmr f c st1 | None => (None, st1) end) = (r', st2)
                               /\ names_ok st2 /\ namer_le (cv_namer st1) (cv_namer st2)).
    { destruct r as [c|].
      - destruct (cv_visit p ihr cmr root_cmr f c st1) as [r' st2] eqn:E. exists r', st2. split; [reflexivity|].
        specialize (IH c st1). rewrite E in IH. apply IH; [|exact Ok1].
        intros j Hj. apply Hc. specialize (Hr c eq_refl). lia.
      - exists None, st1. split; [reflexivity|]. split; [exact Ok1 | apply Refl]. }
    destruct R as [r' [st2 [E2 [Ok2 Le2]]]]. rewrite E2.
    assert (Le02 : namer_le (cv_namer st) (cv_namer st2)).
    { destruct Le1 as [? [? ?]], Le2 as [? [? ?]]. repeat split; lia. }
    destruct (match ihr i with Some key => seen_get (cv_seen st2) key | None => None end);
      [cbn [snd]; split; [exact Ok2 | exact Le02]|].
    (* the hole name, then the node name *)
    set (hn := match k with KDisconnect => let '(h, nm) := name_hole (cv_namer st2) in (Some h, nm) | _ => (None, cv_namer st2) end).
    assert (Hh : namer_le (cv_namer st2) (snd hn)).
    { subst hn. unfold namer_le, name_hole.
      destruct k; cbn [snd const_idx wit_idx other_idx]; repeat split; lia. }
    destruct hn as [hole nm1] eqn:Ehn. cbn [snd] in Hh.
    assert (Ecm : (cmr i =? root_cmr) = false) by (apply N.eqb_neq; apply Hc; lia).
    rewrite Ecm.
    destruct (assign_name nm1 k) as [nme nm2] eqn:Ea.
    destruct (assign_name_fresh nm1 k nme nm2 Ea) as [Hfresh [Hbelow [Hnm [A1 [A2 A3]]]]].
    unfold names_ok. cbn [snd cv_tbl cv_namer].
    destruct Ok2 as [Nd Hb].
    assert (Le2' : namer_le (cv_namer st2) nm2).
    { destruct Hh as [? [? ?]]. repeat split; lia. }
    split.
    + split.
      * rewrite map_app. cbn [map nn_name]. apply NoDup_app_one; [exact Nd|].
        intros Hin. apply Hfresh. destruct (Hb nme Hin) as [Hbl _].
        destruct Hh as [? [? ?]]. eapply name_below_mono; [| | |exact Hbl]; assumption.
      * intros n Hn. rewrite map_app in Hn. apply in_app_or in Hn. destruct Hn as [Hn|Hn].
        -- destruct (Hb n Hn) as [Hbl Hne]. split; [|exact Hne].
           destruct Le2' as [? [? ?]]. eapply name_below_mono; [| | |exact Hbl]; assumption.
        -- cbn in Hn. destruct Hn as [<-|[]]. split; [exact Hbelow | exact Hnm].
    + destruct Le02 as [? [? ?]], Le2' as [? [? ?]]. repeat split; lia.
Qed.
End FromNodeNames.

(* Forest::from_program: distinct node objects get distinct names, provided no proper sub-expression
   has the commitment root of the whole program (the comment in named_node.rs: "The CMR of the
   root node, conveniently, is guaranteed to be unique") *)
Theorem name_program_names_distinct p ihr cmr :
  wf_prog p = true ->
  (forall j, (j < pred (length p))%nat -> nth j cmr 0 <> nth (pred (length p)) cmr 0) ->
  NoDup (map nn_name (name_program p ihr cmr)).
Proof.
  intros Wp Hc. unfold name_program.
  set (root := pred (length p)). set (ih := fun i => nth i ihr None). set (cm := fun i => nth i cmr 0).
  set (st0 := mk_cv [] [] namer_new).
  assert (Ok0 : names_ok st0) by (split; [constructor | intros n []]).
  cbn [cv_visit].
  destruct (match ih root with Some k => seen_get (cv_seen st0) k | None => None end) eqn:E0.
  { destruct (ih root); cbn in E0; discriminate E0. }
  destruct (shape_of p root) as [[[[k pay] l] r]|] eqn:Es; [|constructor].
  destruct (shape_children p root k pay l r Wp Es) as [Hl Hr].
  assert (Sub : forall o st, names_ok st -> (forall c, o = Some c -> (c < root)%nat) ->
            names_ok (snd (match o with Some c => cv_visit p ih cm (nth root cmr 0) (length p) c st | None => (None, st) end))).
  { intros [c|] st Ok Hlt; [|exact Ok].
    apply (cv_visit_names p ih cm (nth root cmr 0) Wp (length p) c st); [|exact Ok].
    intros j Hj. apply Hc. specialize (Hlt c eq_refl). fold root. lia. }
  pose proof (Sub l st0 Ok0 Hl) as Ok1.
  destruct (match l with Some c => cv_visit p ih cm (nth root cmr 0) (length p) c st0 | None => (None, st0) end) as [l' st1].
  cbn [snd] in Ok1.
  pose proof (Sub r st1 Ok1 Hr) as Ok2.
  destruct (match r with Some c => cv_visit p ih cm (nth root cmr 0) (length p) c st1 | None => (None, st1) end) as [r' st2].
  cbn [snd] in Ok2.
  destruct (match ih root with Some key => seen_get (cv_seen st2) key | None => None end);
    [cbn [snd]; exact (proj1 Ok2)|].
  change (cm root) with (nth root cmr 0). rewrite N.eqb_refl.
  destruct (match k with KDisconnect => let '(h, nm) := name_hole (cv_namer st2) in (Some h, nm) | _ => (None, cv_namer st2) end) as [hole nm1].
  cbn [snd cv_tbl]. rewrite map_app. cbn [map nn_name].
  destruct Ok2 as [Nd Hb]. apply NoDup_app_one; [exact Nd|].
  intros Hin. destruct (Hb NMain Hin) as [_ Hne]. apply Hne. reflexivity.
Qed.
