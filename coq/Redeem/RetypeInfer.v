(* Re-typing after pruning (C08), connected to the reference type inference of C04 (Infer/*.v).
     src/node/redeem.rs   prune_with_tracker: the pruned structure is rebuilt as a ConstructNode DAG in a
                          fresh inference context (only the RETAINED nodes exist there), types are
                          inferred again, every witness is pruned to the new target type
   Retype.v left as a statement that the re-inferred arrows lie below the original ones.  Here the
   re-inferred arrows are DEFINED as the result of the reference inference (Infer.infer) on the
   retained part of the pruned node table, and the statement is proved from infer_sound /
   infer_complete / infer_least (principal types).

   Translation of a redemption table to the program descriptions Infer works on ([tr]): node i of the
   table becomes the two nodes 2i (a hidden node: the hidden side of an assertion i) and 2i+1 (the
   node itself, children c renamed to 2c+1).  A node that is not reachable from the root becomes a
   hidden node, i.e. imposes no constraint: a node shared between a kept and a dropped branch is
   typed by its kept uses only. *)
From RS Require Import Lib.Tac Lib.Outcome Lib.Bits Ty.Ty Core.Prog
  Redeem.Finalize Redeem.PruneProg Redeem.PruneFix Redeem.Retype
  Infer.Constraints Infer.Unify Infer.Infer Infer.Principal Infer.Gen Infer.Theorems.
Import ListNotations.
Local Open Scope nat_scope.

(* ------------------------------------------------------------------ list helpers *)

Lemma nth_error_firstn_lt {A} : forall (l : list A) m k, k < m -> nth_error (firstn m l) k = nth_error l k.
Proof.
  induction l as [|x l IH]; intros m k H; [rewrite firstn_nil; reflexivity|].
  destruct m as [|m]; [lia|]. destruct k as [|k]; [reflexivity|]. cbn. apply IH. lia.
Qed.

Lemma arr_of_firstn {A} (l : list (option A)) m k : k < m -> arr_of (firstn m l) k = arr_of l k.
Proof. intros H. unfold arr_of. rewrite nth_error_firstn_lt by exact H. reflexivity. Qed.

Lemma hidden_at_firstn {A} (l : list (option A)) m k : k < m -> hidden_at (firstn m l) k = hidden_at l k.
Proof. intros H. unfold hidden_at. rewrite nth_error_firstn_lt by exact H. reflexivity. Qed.

Lemma arr_of_not_hidden {A} (l : list (option A)) k x : arr_of l k = Some x -> hidden_at l k = false.
Proof. unfold arr_of, hidden_at. destruct (nth_error l k) as [[a|]|]; congruence. Qed.

Lemma nth_error_SS {A} (a b : A) l k : nth_error (a :: b :: l) (S (S k)) = nth_error l k.
Proof. reflexivity. Qed.

(* two sequences interleaved: f i, g i, f (i+1), g (i+1), ... *)
Fixpoint interleave2 {A} (f g : nat -> A) (i n : nat) : list A :=
  match n with
  | O => []
  | S m => f i :: g i :: interleave2 f g (S i) m
  end.

Lemma interleave2_length {A} (f g : nat -> A) : forall n i, length (interleave2 f g i n) = 2 * n.
Proof. induction n as [|n IH]; intros i; cbn [interleave2 length]; [reflexivity|]. rewrite IH. lia. Qed.

Lemma interleave2_even {A} (f g : nat -> A) : forall n i c, c < n ->
  nth_error (interleave2 f g i n) (2 * c) = Some (f (i + c)).
Proof.
  induction n as [|n IH]; intros i c H; [lia|]. destruct c as [|c].
  - cbn. rewrite Nat.add_0_r. reflexivity.
  - replace (2 * S c) with (S (S (2 * c))) by lia. cbn [interleave2]. rewrite nth_error_SS.
    rewrite IH by lia. f_equal. f_equal. lia.
Qed.

Lemma interleave2_odd {A} (f g : nat -> A) : forall n i c, c < n ->
  nth_error (interleave2 f g i n) (S (2 * c)) = Some (g (i + c)).
Proof.
  induction n as [|n IH]; intros i c H; [lia|]. destruct c as [|c].
  - cbn. rewrite Nat.add_0_r. reflexivity.
  - replace (S (2 * S c)) with (S (S (S (2 * c)))) by lia. cbn [interleave2]. rewrite nth_error_SS.
    rewrite IH by lia. f_equal. f_equal. lia.
Qed.

Lemma interleave2_inv {A} (f g : nat -> A) : forall n i k x,
  nth_error (interleave2 f g i n) k = Some x ->
  exists c, c < n /\ ((k = 2 * c /\ x = f (i + c)) \/ (k = S (2 * c) /\ x = g (i + c))).
Proof.
  induction n as [|n IH]; intros i k x H; [destruct k; discriminate|].
  destruct k as [|[|k]]; cbn [interleave2 nth_error] in H.
  - injection H as <-. exists 0. rewrite Nat.add_0_r. split; [lia|left; auto].
  - injection H as <-. exists 0. rewrite Nat.add_0_r. split; [lia|right; auto].
  - destruct (IH _ _ _ H) as (c & Hc & [[-> ->]|[-> ->]]); exists (S c);
      (split; [lia|]); [left|right]; split; try lia; f_equal; lia.
Qed.

(* ------------------------------------------------------------------ the retained nodes, computed *)

Lemma rwf_from_children : forall p i k n, rwf_from i p = true -> nth_error p k = Some n ->
  forall c, In c (rchildren n) -> c < i + k.
Proof.
  induction p as [|a p IH]; intros i k n H Hn c Hc; [destruct k; discriminate|].
  cbn [rwf_from] in H. apply andb_true_iff in H. destruct H as [Ha Hp].
  destruct k as [|k]; cbn in Hn.
  - injection Hn as <-. rewrite forallb_forall in Ha. specialize (Ha _ Hc). apply Nat.ltb_lt in Ha. lia.
  - specialize (IH (S i) k n Hp Hn c Hc). lia.
Qed.

Lemma rwf_children p k n c : rwf p = true -> nth_error p k = Some n -> In c (rchildren n) -> c < k.
Proof. intros H Hn Hc. exact (rwf_from_children p 0 k n H Hn c Hc). Qed.

(* is some node above j (positions base, base+1, .. hold the marks [above]) marked and a parent of j? *)
Definition parent_marked (q : rprog) (j base : nat) (above : list bool) : bool :=
  existsb (fun p => nth p above false && existsb (Nat.eqb j) (rchildren (nth (base + p) q RIden)))
          (seq 0 (length above)).

(* children have smaller indices: one downward sweep decides reachability *)
Fixpoint marks_down (q : rprog) (root i : nat) (above : list bool) : list bool :=
  match i with
  | O => above
  | S j => marks_down q root j ((Nat.eqb j root || parent_marked q j (S j) above) :: above)
  end.

Definition reach_list (q : rprog) (root : nat) : list bool := marks_down q root (length q) [].
Definition keepb (q : rprog) (root i : nat) : bool := nth i (reach_list q root) false.

Lemma reach_lt q root : rwf q = true -> root < length q -> forall i, reach q root i -> i <= root.
Proof.
  intros W Hr i H. induction H as [|k n c Hk IH Hn Hc]; [lia|].
  pose proof (rwf_children _ _ _ _ W Hn Hc). lia.
Qed.

Lemma marks_down_spec q root : rwf q = true -> forall i above, i + length above = length q ->
  (forall k, i <= k < length q -> (nth (k - i) above false = true <-> reach q root k)) ->
  length (marks_down q root i above) = length q /\
  forall k, k < length q -> (nth k (marks_down q root i above) false = true <-> reach q root k).
Proof.
  intros W. induction i as [|j IH]; intros above L Inv; cbn [marks_down].
  - split; [lia|]. intros k Hk. specialize (Inv k ltac:(lia)). rewrite Nat.sub_0_r in Inv. exact Inv.
  - apply IH; [cbn [length]; lia|]. intros k Hk.
    destruct (Nat.eq_dec k j) as [->|Ne].
    + rewrite Nat.sub_diag. cbn [nth]. rewrite orb_true_iff. split.
      * intros [E|P]; [apply Nat.eqb_eq in E; subst; constructor|].
        unfold parent_marked in P. apply existsb_exists in P. destruct P as (p & Hp & P).
        apply in_seq in Hp. apply andb_true_iff in P. destruct P as [Pm Pc].
        apply existsb_exists in Pc. destruct Pc as (c & Hc & E). apply Nat.eqb_eq in E. subst c.
        assert (Lk : S j + p < length q) by lia.
        pose proof (proj1 (Inv (S j + p) ltac:(lia))) as R.
        replace (S j + p - S j) with p in R by lia. specialize (R Pm).
        eapply reach_step; [exact R| |exact Hc]. apply nth_error_nth'. exact Lk.
      * intros R. inversion R as [E|k n c Rk Hn Hc E]; [left; apply Nat.eqb_refl|]. subst c. right.
        pose proof (rwf_children _ _ _ _ W Hn Hc) as Lt.
        assert (Lk : k < length q) by (apply nth_error_Some; congruence).
        unfold parent_marked. apply existsb_exists. exists (k - S j). split; [apply in_seq; lia|].
        replace (S j + (k - S j)) with k by lia. apply andb_true_iff. split.
        -- apply (Inv k ltac:(lia)). exact Rk.
        -- rewrite (nth_error_nth _ _ _ Hn). apply existsb_exists. exists j. split; [exact Hc|apply Nat.eqb_refl].
    + replace (k - j) with (S (k - S j)) by lia. cbn [nth]. apply Inv. lia.
Qed.

Theorem keepb_reach q root i : rwf q = true -> i < length q -> (keepb q root i = true <-> reach q root i).
Proof.
  intros W Hi. unfold keepb, reach_list.
  destruct (marks_down_spec q root W (length q) []) as [_ S]; [cbn; lia|intros k Hk; lia|].
  apply S. exact Hi.
Qed.

(* ------------------------------------------------------------------ the translation *)

Definition hid_of (n : rnode) : list N :=
  match n with RAssertL _ h | RAssertR h _ | RHole h => h | _ => []%list end.

Definition tr_node (i : nat) (n : rnode) : node :=
  match n with
  | RIden => NIden
  | RUnit => NUnit
  | RInjL c => NInjL (S (2 * c))
  | RInjR c => NInjR (S (2 * c))
  | RTake c => NTake (S (2 * c))
  | RDrop c => NDrop (S (2 * c))
  | RComp l r => NComp (S (2 * l)) (S (2 * r))
  | RCase l r => NCase (S (2 * l)) (S (2 * r))
  | RAssertL l _ => NCase (S (2 * l)) (2 * i)
  | RAssertR _ r => NCase (2 * i) (S (2 * r))
  | RPair l r => NPair (S (2 * l)) (S (2 * r))
  | RDisconnect l r => NDisconnect (S (2 * l)) (Some (S (2 * r)))
  | RWitness _ => NWitness WNone
  | RFail e => NFail e
  | RJet f j => NJet f j
  | RWord n bits => NWord n bits
  | RHole h => NHidden h
  end.

(* [keep]: the nodes that are constructed in the inference context *)
Definition tr_keep (keep : nat -> bool) (q : rprog) : prog :=
  interleave2 (fun i => NHidden (hid_of (nth i q RIden)))
              (fun i => if keep i then tr_node i (nth i q RIden) else NHidden [])
              0 (length q).

(* the retained nodes only: the pruned program as it is rebuilt by the NEXT pass / a decoder *)
Definition tr (q : rprog) (root : nat) : prog := tr_keep (keepb q root) q.

(* a typing of the table as a typing of its translation, and back *)
Definition tau_of (q : rprog) (root : nat) (ar : arrows) : list (option tarrow) :=
  interleave2 (fun _ => None) (fun i => if keepb q root i then ar i else None) 0 (length q).

Definition arrows_of (tau : list (option tarrow)) : arrows := fun i => arr_of tau (S (2 * i)).

(* is the root a program root (source = target = 1, ConstructNode::set_arrow_to_program)? *)
Definition rootopt (ro : bool) (root : nat) : option nat := if ro then Some (S (2 * root)) else None.

(* the jet typing of Retype.v given by a jet table of Infer *)
Definition jet_ty_of (jt : jet_table) (f j : N) : option arrow :=
  match jet_lookup jt f j with
  | Some (gs, gt) => Some (gty_ty gs, gty_ty gt)
  | None => None
  end.

(* THE re-inferred arrows of a (pruned) table: reference inference on the retained nodes *)
Definition infer_arrows (jt : jet_table) (ro : bool) (q : rprog) (root : nat) : option arrows :=
  match infer jt (rootopt ro root) (tr q root) with
  | Ok tau => Some (arrows_of tau)
  | _ => None
  end.

(* ------------------------------------------------------------------ typing of the structure *)

(* the typing rule without the content of witnesses (what inference sees) *)
Definition struct_okb (jet_ty : N -> N -> option arrow) (ar : arrows) (i : nat) (n : rnode) : bool :=
  match n with
  | RWitness _ => is_some (ar i)
  | _ => node_okb jet_ty ar i n
  end.

Definition struct_typed (jet_ty : N -> N -> option arrow) (q : rprog) (ar : arrows) (root : nat) : Prop :=
  forall i n, reach q root i -> nth_error q i = Some n -> struct_okb jet_ty ar i n = true.

(* words of the library have at most 2^31 bits (node::Word) *)
Definition words_small (q : rprog) (root : nat) : Prop :=
  forall i n bits, reach q root i -> nth_error q i = Some (RWord n bits) -> n <= 31.

Lemma typed_struct jet_ty q ar root : typed_from jet_ty q ar root -> struct_typed jet_ty q ar root.
Proof.
  intros H i n Hr Hn. specialize (H i n Hr Hn). destruct n; try exact H.
  unfold struct_okb. unfold node_okb in H. destruct (ar i); [reflexivity|discriminate].
Qed.

Ltac tyeq :=
  repeat match goal with
         | H : _ && _ = true |- _ => apply andb_true_iff in H; destruct H
         | H : ty_eqb _ _ = true |- _ => apply ty_eqb_eq in H
         | H : Nat.eqb _ _ = true |- _ => apply Nat.eqb_eq in H
         | H : Nat.leb _ _ = true |- _ => apply Nat.leb_le in H
         end.

Lemma ty_eqb_rfl a : ty_eqb a a = true.
Proof. apply ty_eqb_eq. reflexivity. Qed.

(* the rule of node i in the table implies the rule of node 2i+1 of the translation *)
Lemma okb_check jt (T : list (option tarrow)) ar i n :
  struct_okb (jet_ty_of jt) ar i n = true ->
  (forall c, In c (rchildren n) -> arr_of T (S (2 * c)) = ar c) ->
  hidden_at T (2 * i) = true -> arr_of T (2 * i) = None ->
  (forall k bits, n = RWord k bits -> k <= 31) ->
  check_node jt T (tr_node i n) (ar i) = true.
Proof.
  intros H HA Hh Ha Hw. unfold struct_okb, node_okb in H.
  destruct (ar i) as [[s t]|] eqn:Ai; [|destruct n; discriminate].
  destruct n; cbn [tr_node check_node rchildren] in *.
  - exact H.
  - exact H.
  - rewrite (HA c (or_introl eq_refl)). destruct (ar c) as [[s1 b1]|]; [|discriminate].
    destruct t as [|b c'|]; try discriminate. tyeq. subst. rewrite !ty_eqb_rfl. reflexivity.
  - rewrite (HA c (or_introl eq_refl)). destruct (ar c) as [[s1 b1]|]; [|discriminate].
    destruct t as [|b c'|]; try discriminate. tyeq. subst. rewrite !ty_eqb_rfl. reflexivity.
  - rewrite (HA c (or_introl eq_refl)). destruct (ar c) as [[s1 b1]|]; [|discriminate].
    destruct s as [| |a b]; try discriminate. tyeq. subst. rewrite !ty_eqb_rfl. reflexivity.
  - rewrite (HA c (or_introl eq_refl)). destruct (ar c) as [[s1 b1]|]; [|discriminate].
    destruct s as [| |a b]; try discriminate. tyeq. subst. rewrite !ty_eqb_rfl. reflexivity.
  - rewrite (HA l (or_introl eq_refl)), (HA r (or_intror (or_introl eq_refl))).
    destruct (ar l) as [[s1 m1]|]; [|discriminate]. destruct (ar r) as [[m2 t2]|]; [|discriminate].
    tyeq. subst. rewrite !ty_eqb_rfl. reflexivity.
  - (* case *)
    pose proof (HA l (or_introl eq_refl)) as Al. pose proof (HA r (or_intror (or_introl eq_refl))) as Ar.
    destruct (ar l) as [[sl tl]|]; [|discriminate]. destruct (ar r) as [[sr tr0]|]; [|discriminate].
    destruct s as [| |[|a b|] c]; try discriminate. tyeq. subst.
    rewrite (arr_of_not_hidden _ _ _ Al), Al, Ar, !ty_eqb_rfl. reflexivity.
  - (* assertl *)
    pose proof (HA l (or_introl eq_refl)) as Al.
    destruct (ar l) as [[sl tl]|]; [|discriminate].
    destruct s as [| |[|a b|] c]; try discriminate. tyeq. subst.
    rewrite (arr_of_not_hidden _ _ _ Al), Al, Ha, Hh, !ty_eqb_rfl. reflexivity.
  - (* assertr *)
    pose proof (HA r (or_introl eq_refl)) as Ar.
    destruct (ar r) as [[sr tr0]|]; [|discriminate].
    destruct s as [| |[|a b|] c]; try discriminate. tyeq. subst.
    rewrite (arr_of_not_hidden _ _ _ Ar), Ar, Ha, Hh, !ty_eqb_rfl. reflexivity.
  - (* pair *)
    rewrite (HA l (or_introl eq_refl)), (HA r (or_intror (or_introl eq_refl))).
    destruct (ar l) as [[s1 t1]|]; [|discriminate]. destruct (ar r) as [[s2 t2]|]; [|discriminate].
    destruct t as [| |b c]; try discriminate. tyeq. subst. rewrite !ty_eqb_rfl. reflexivity.
  - (* disconnect *)
    rewrite (HA l (or_introl eq_refl)), (HA r (or_intror (or_introl eq_refl))).
    destruct (ar l) as [[sl [| |b c]]|]; try discriminate. destruct (ar r) as [[c2 d]|]; [|discriminate].
    destruct t as [| |b' d']; try discriminate. tyeq. subst. rewrite !ty_eqb_rfl. reflexivity.
  - reflexivity.
  - reflexivity.
  - unfold jet_ty_of in H. destruct (jet_lookup jt family id) as [[gs gt]|]; [|discriminate].
    tyeq. subst. rewrite !ty_eqb_rfl. reflexivity.
  - tyeq. subst. rewrite !ty_eqb_rfl.
    rewrite (proj2 (Nat.leb_le _ _) (Hw _ _ eq_refl)).
    match goal with E : length _ = _ |- _ => rewrite E end. rewrite Nat.eqb_refl. reflexivity.
  - discriminate.
Qed.

(* and conversely *)
Lemma check_okb jt (T : list (option tarrow)) ar i n :
  check_node jt T (tr_node i n) (ar i) = true ->
  (forall h, n <> RHole h) ->
  (forall c, In c (rchildren n) -> arr_of T (S (2 * c)) = ar c /\ ar c <> None) ->
  hidden_at T (2 * i) = true -> arr_of T (2 * i) = None ->
  struct_okb (jet_ty_of jt) ar i n = true.
Proof.
  intros H Hn HA Hh Ha. unfold struct_okb, node_okb.
  destruct (ar i) as [[s t]|] eqn:Ai; [|destruct n; try discriminate; exfalso; eapply Hn; reflexivity].
  destruct n; cbn [tr_node check_node rchildren] in *.
  - exact H.
  - exact H.
  - destruct (HA c (or_introl eq_refl)) as [E _]. rewrite E in H. destruct (ar c) as [[s1 b1]|]; [|discriminate].
    destruct t as [|b c'|]; try discriminate. tyeq. subst. rewrite !ty_eqb_rfl. reflexivity.
  - destruct (HA c (or_introl eq_refl)) as [E _]. rewrite E in H. destruct (ar c) as [[s1 b1]|]; [|discriminate].
    destruct t as [|b c'|]; try discriminate. tyeq. subst. rewrite !ty_eqb_rfl. reflexivity.
  - destruct (HA c (or_introl eq_refl)) as [E _]. rewrite E in H. destruct (ar c) as [[s1 b1]|]; [|discriminate].
    destruct s as [| |a b]; try discriminate. tyeq. subst. rewrite !ty_eqb_rfl. reflexivity.
  - destruct (HA c (or_introl eq_refl)) as [E _]. rewrite E in H. destruct (ar c) as [[s1 b1]|]; [|discriminate].
    destruct s as [| |a b]; try discriminate. tyeq. subst. rewrite !ty_eqb_rfl. reflexivity.
  - destruct (HA l (or_introl eq_refl)) as [El _]. destruct (HA r (or_intror (or_introl eq_refl))) as [Er _].
    rewrite El, Er in H.
    destruct (ar l) as [[s1 m1]|]; [|discriminate]. destruct (ar r) as [[m2 t2]|]; [|discriminate].
    tyeq. subst. rewrite !ty_eqb_rfl. reflexivity.
  - (* case *)
    destruct (HA l (or_introl eq_refl)) as [El Nl]. destruct (HA r (or_intror (or_introl eq_refl))) as [Er Nr].
    rewrite El, Er in H.
    destruct (ar l) as [[sl tl]|]; [|congruence]. destruct (ar r) as [[sr tr0]|]; [|congruence].
    destruct s as [| |[|a b|] c]; try discriminate. tyeq. subst. rewrite !ty_eqb_rfl. reflexivity.
  - (* assertl *)
    destruct (HA l (or_introl eq_refl)) as [El Nl]. rewrite El in H.
    destruct (ar l) as [[sl tl]|]; [|congruence].
    destruct s as [| |[|a b|] c]; try discriminate. tyeq. subst. rewrite !ty_eqb_rfl. reflexivity.
  - (* assertr *)
    destruct (HA r (or_introl eq_refl)) as [Er Nr]. rewrite Er in H.
    destruct (ar r) as [[sr tr0]|]; [|congruence].
    destruct s as [| |[|a b|] c]; try discriminate. tyeq. subst. rewrite !ty_eqb_rfl. reflexivity.
  - (* pair *)
    destruct (HA l (or_introl eq_refl)) as [El _]. destruct (HA r (or_intror (or_introl eq_refl))) as [Er _].
    rewrite El, Er in H.
    destruct (ar l) as [[s1 t1]|]; [|discriminate]. destruct (ar r) as [[s2 t2]|]; [|discriminate].
    destruct t as [| |b c]; try discriminate. tyeq. subst. rewrite !ty_eqb_rfl. reflexivity.
  - (* disconnect *)
    destruct (HA l (or_introl eq_refl)) as [El _]. destruct (HA r (or_intror (or_introl eq_refl))) as [Er _].
    rewrite El, Er in H.
    destruct (ar l) as [[sl [| |b c]]|]; try discriminate. destruct t as [| |b' d']; try discriminate.
    destruct (ar r) as [[c2 d]|]; [|tyeq; discriminate].
    tyeq. subst. rewrite !ty_eqb_rfl. reflexivity.
  - reflexivity.
  - reflexivity.
  - unfold jet_ty_of. destruct (jet_lookup jt family id) as [[gs gt]|]; [|discriminate].
    tyeq. subst. rewrite !ty_eqb_rfl. reflexivity.
  - tyeq. subst. rewrite !ty_eqb_rfl.
    match goal with E : length _ = _ |- _ => rewrite E end. rewrite Nat.eqb_refl. reflexivity.
  - exfalso. eapply Hn. reflexivity.
Qed.

(* ------------------------------------------------------------------ check_nodes, pointwise *)

Lemma check_nodes_iff jt tau : forall p i, check_nodes jt tau i p = true <->
  forall k nd, nth_error p k = Some nd -> check_node jt (firstn (i + k) tau) nd (nth (i + k) tau None) = true.
Proof.
  induction p as [|a p IH]; intros i; cbn [check_nodes].
  - split; [intros _ k nd H; destruct k; discriminate|reflexivity].
  - rewrite andb_true_iff, IH. split.
    + intros [Ha Hp] k nd H. destruct k as [|k]; cbn in H.
      * injection H as <-. rewrite Nat.add_0_r. exact Ha.
      * specialize (Hp k nd H). rewrite Nat.add_succ_r. exact Hp.
    + intros H. split.
      * specialize (H 0 a eq_refl). rewrite Nat.add_0_r in H. exact H.
      * intros k nd Hk. specialize (H (S k) nd Hk). rewrite Nat.add_succ_r in H. exact H.
Qed.

Lemma typing_le_nth : forall t1 t2, typing_le t1 t2 = true ->
  forall k, arrow_le (nth k t1 None) (nth k t2 None) = true.
Proof.
  induction t1 as [|a r1 IH]; intros [|b r2] H k; cbn in H; try discriminate.
  - destruct k; reflexivity.
  - apply andb_true_iff in H. destruct H as [Ha Hr]. destruct k as [|k]; [exact Ha|]. cbn. apply IH. exact Hr.
Qed.

Lemma arr_of_nth {A} (l : list (option A)) k : arr_of l k = nth k l None.
Proof.
  unfold arr_of. destruct (nth_error l k) as [x|] eqn:E.
  - rewrite (nth_error_nth _ _ _ E). destruct x; reflexivity.
  - apply nth_error_None in E. rewrite nth_overflow by exact E. reflexivity.
Qed.

(* ------------------------------------------------------------------ facts about tau_of / tr *)

Section Facts.
Variable q : rprog.
Variable root : nat.
Hypothesis W : rwf q = true.
Hypothesis Hroot : root < length q.

Lemma tr_length : length (tr q root) = 2 * length q.
Proof. unfold tr, tr_keep. apply interleave2_length. Qed.

Lemma tau_of_length ar : length (tau_of q root ar) = 2 * length q.
Proof. apply interleave2_length. Qed.

Lemma arrows_of_tau_of ar i : i < length q ->
  arrows_of (tau_of q root ar) i = if keepb q root i then ar i else None.
Proof.
  intros Hi. unfold arrows_of, arr_of, tau_of. rewrite interleave2_odd by exact Hi. cbn [Nat.add].
  destruct (keepb q root i); [destruct (ar i)|]; reflexivity.
Qed.

Lemma reach_in i : reach q root i -> i < length q.
Proof. intros H. pose proof (reach_lt q root W Hroot i H). lia. Qed.

Lemma reach_keep i : reach q root i -> keepb q root i = true.
Proof. intros H. apply keepb_reach; [exact W|apply reach_in; exact H|exact H]. Qed.

(* a typing of the retained structure gives a typing of the translation *)
Lemma struct_typed_check jt ar ro :
  struct_typed (jet_ty_of jt) q ar root -> words_small q root ->
  (ro = true -> ar root = Some (One, One)) ->
  check_typing jt (rootopt ro root) (tr q root) (tau_of q root ar) = true.
Proof.
  intros Ht Hw Hro. unfold check_typing. rewrite tr_length, tau_of_length, Nat.eqb_refl. cbn [andb].
  apply andb_true_iff. split.
  - apply check_nodes_iff. intros k nd Hk. cbn [Nat.add].
    unfold tr, tr_keep in Hk. destruct (interleave2_inv _ _ _ _ _ _ Hk) as (c & Hc & [[-> ->]|[-> ->]]); cbn [Nat.add].
    + (* the hidden slot *)
      assert (E : nth_error (tau_of q root ar) (2 * c) = Some None)
        by (unfold tau_of; rewrite interleave2_even by exact Hc; reflexivity).
      rewrite (nth_error_nth _ _ _ E). reflexivity.
    + assert (E : nth_error (tau_of q root ar) (S (2 * c)) = Some (if keepb q root c then ar c else None))
        by (unfold tau_of; rewrite interleave2_odd by exact Hc; reflexivity).
      rewrite (nth_error_nth _ _ _ E).
      destruct (keepb q root c) eqn:K; [|reflexivity].
      assert (R : reach q root c) by (apply keepb_reach; assumption).
      assert (En : nth_error q c = Some (nth c q RIden)) by (apply nth_error_nth'; exact Hc).
      apply okb_check.
      * apply Ht; assumption.
      * intros ch Hch. pose proof (rwf_children _ _ _ _ W En Hch) as Lt.
        rewrite arr_of_firstn by lia. fold (arrows_of (tau_of q root ar) ch).
        rewrite arrows_of_tau_of by lia.
        rewrite reach_keep by (eapply reach_step; eauto). reflexivity.
      * rewrite hidden_at_firstn by lia. unfold hidden_at, tau_of.
        rewrite interleave2_even by exact Hc. reflexivity.
      * rewrite arr_of_firstn by lia. unfold arr_of, tau_of.
        rewrite interleave2_even by exact Hc. reflexivity.
      * intros k bits Ek. eapply Hw; [exact R|]. rewrite En, Ek. reflexivity.
  - unfold check_root, rootopt. destruct ro; [|reflexivity].
    fold (arrows_of (tau_of q root ar) root). rewrite arrows_of_tau_of by exact Hroot.
    rewrite reach_keep by constructor. rewrite (Hro eq_refl), !ty_eqb_rfl. reflexivity.
Qed.

(* a typing of the translation gives a typing of the retained structure *)
Lemma check_struct_typed jt tau ro :
  (forall i h, reach q root i -> nth_error q i <> Some (RHole h)) ->
  check_typing jt (rootopt ro root) (tr q root) tau = true ->
  struct_typed (jet_ty_of jt) q (arrows_of tau) root /\
  (ro = true -> arrows_of tau root = Some (One, One)).
Proof.
  intros Hh C. unfold check_typing in C. apply andb_true_iff in C. destruct C as [C Cr].
  apply andb_true_iff in C. destruct C as [Cl Cn]. apply Nat.eqb_eq in Cl. rewrite tr_length in Cl.
  pose proof (proj1 (check_nodes_iff jt tau (tr q root) 0) Cn) as P. cbn [Nat.add] in P.
  (* hidden slots carry no arrow *)
  assert (Slot : forall c, c < length q -> nth_error tau (2 * c) = Some None).
  { intros c Hc. assert (Hk : nth_error (tr q root) (2 * c) = Some (NHidden (hid_of (nth c q RIden))))
      by (unfold tr, tr_keep; rewrite interleave2_even by exact Hc; reflexivity).
    specialize (P _ _ Hk). cbn [check_node] in P.
    rewrite (nth_error_nth' tau None) by lia. destruct (nth (2 * c) tau None); [discriminate|reflexivity]. }
  assert (Node : forall c, reach q root c ->
            check_node jt (firstn (S (2 * c)) tau) (tr_node c (nth c q RIden)) (arrows_of tau c) = true).
  { intros c R. pose proof (reach_in c R) as Hc.
    assert (Hk : nth_error (tr q root) (S (2 * c)) = Some (tr_node c (nth c q RIden))).
    { unfold tr, tr_keep. rewrite interleave2_odd by exact Hc. cbn [Nat.add]. rewrite reach_keep by exact R. reflexivity. }
    specialize (P _ _ Hk). unfold arrows_of. rewrite arr_of_nth. exact P. }
  assert (Some_ : forall c, reach q root c -> arrows_of tau c <> None).
  { intros c R E. pose proof (Node c R) as N. rewrite E in N.
    pose proof (reach_in c R) as Hc.
    assert (En : nth_error q c = Some (nth c q RIden)) by (apply nth_error_nth'; exact Hc).
    destruct (nth c q RIden) eqn:Nd; cbn [tr_node check_node] in N; try discriminate.
    eapply Hh; [exact R|exact En]. }
  split.
  - intros i n R En. pose proof (reach_in i R) as Hi.
    assert (Nd : nth i q RIden = n) by (apply nth_error_nth; exact En).
    pose proof (Node i R) as N. rewrite Nd in N.
    eapply check_okb; [exact N| | | |].
    + intros h E. apply (Hh i h R). rewrite En, E. reflexivity.
    + intros c Hc. pose proof (rwf_children _ _ _ _ W En Hc) as Lt.
      rewrite arr_of_firstn by lia. split; [reflexivity|]. apply Some_. eapply reach_step; eauto.
    + rewrite hidden_at_firstn by lia. unfold hidden_at. rewrite Slot by exact Hi. reflexivity.
    + rewrite arr_of_firstn by lia. unfold arr_of. rewrite Slot by exact Hi. reflexivity.
  - intros ->. unfold check_root, rootopt in Cr. fold (arrows_of tau root) in Cr.
    destruct (arrows_of tau root) as [[A B]|]; [|discriminate]. tyeq. subst. reflexivity.
Qed.

End Facts.

(* ------------------------------------------------------------------ the theorems *)

Lemma struct_no_hole jet_ty q ar root : struct_typed jet_ty q ar root ->
  forall i h, reach q root i -> nth_error q i <> Some (RHole h).
Proof.
  intros H i h R E. specialize (H _ _ R E). cbn in H. unfold node_okb in H. destruct (ar i) as [[s t]|]; discriminate.
Qed.

(* 1. inference succeeds on every (pruned) table whose retained structure has a typing at all *)
Theorem infer_retype_complete jt q ar root ro :
  rwf q = true -> root < length q ->
  struct_typed (jet_ty_of jt) q ar root -> words_small q root ->
  (ro = true -> ar root = Some (One, One)) ->
  exists tau0, infer jt (rootopt ro root) (tr q root) = Ok tau0.
Proof.
  intros W Hr Ht Hw Hro. eapply infer_complete. apply struct_typed_check; eassumption.
Qed.

(* 2. what it returns types the retained structure *)
Theorem infer_retype_sound jt q root ro tau0 :
  rwf q = true -> root < length q ->
  (forall i h, reach q root i -> nth_error q i <> Some (RHole h)) ->
  infer jt (rootopt ro root) (tr q root) = Ok tau0 ->
  struct_typed (jet_ty_of jt) q (arrows_of tau0) root /\
  (ro = true -> arrows_of tau0 root = Some (One, One)).
Proof.
  intros W Hr Hh H. apply check_struct_typed; auto. apply infer_sound. exact H.
Qed.

(* 3. ... and lies pointwise below every typing of the retained structure (principal types) *)
Theorem infer_retype_least jt q ar root ro tau0 :
  rwf q = true -> root < length q ->
  infer jt (rootopt ro root) (tr q root) = Ok tau0 ->
  struct_typed (jet_ty_of jt) q ar root -> words_small q root ->
  (ro = true -> ar root = Some (One, One)) ->
  arrows_le q root (arrows_of tau0) ar.
Proof.
  intros W Hr H Ht Hw Hro i s t s' t' R Ea Ea'.
  pose proof (infer_least _ _ _ _ _ H (struct_typed_check q root W Hr jt ar ro Ht Hw Hro)) as L.
  pose proof (typing_le_nth _ _ L (S (2 * i))) as Li.
  rewrite <- !arr_of_nth in Li. fold (arrows_of tau0 i) in Li. fold (arrows_of (tau_of q root ar) i) in Li.
  rewrite arrows_of_tau_of in Li by (eapply reach_in; eauto).
  rewrite (reach_keep q root W Hr i R), Ea, Ea' in Li. cbn [arrow_le] in Li.
  apply andb_true_iff in Li. exact Li.
Qed.

(* ------------------------------------------------------------------ witnesses shrunk to the new types *)

Lemma reach_unshrink ar' p root j : reach (shrink ar' p) root j -> reach p root j.
Proof.
  induction 1 as [|k n c Hr IH Hn Hc]; [constructor|].
  rewrite shrink_nth in Hn. destruct (nth_error p k) as [n0|] eqn:En; [|discriminate].
  cbn in Hn. injection Hn as <-. rewrite shrink_children in Hc. eapply reach_step; eauto.
Qed.

Lemma shrink_typed jet_ty q ar ar' root :
  typed_from jet_ty q ar root -> struct_typed jet_ty q ar' root -> arrows_le q root ar' ar ->
  typed_from jet_ty (shrink ar' q) ar' root.
Proof.
  intros Ht Hs Hle i n R Hn. apply reach_unshrink in R.
  rewrite shrink_nth in Hn. destruct (nth_error q i) as [n0|] eqn:En; [|discriminate].
  cbn in Hn. injection Hn as <-. pose proof (Hs _ _ R En) as S'. pose proof (Ht _ _ R En) as S0.
  destruct n0; try exact S'.
  cbn [struct_okb] in S'. unfold node_okb in S0.
  destruct (ar i) as [[s t]|] eqn:A; [|discriminate]. destruct (ar' i) as [[s' t']|] eqn:A'; [|discriminate].
  destruct (Hle _ _ _ _ _ R A A') as [_ Lt].
  unfold wit_ok in S0. apply andb_true_iff in S0. destruct S0 as [_ Hv].
  destruct (sprune_typed _ _ _ Hv Lt) as (v' & Sv & Tv).
  cbn [shrink_node]. rewrite A'. unfold value_prune. rewrite Sv. cbn [option_map].
  unfold node_okb. rewrite A'. unfold wit_ok, is_of_type. cbn [cv_ty cv_val]. rewrite ty_eqb_rfl, Tv. reflexivity.
Qed.

(* THE STATEMENT OF Retype.v (retype_le_statement), for the reference inference: the re-inferred arrows
   exist, type the program with its witnesses shrunk, and lie below the original arrows *)
Theorem retype_le jt q ar root ro :
  rwf q = true -> root < length q ->
  typed_from (jet_ty_of jt) q ar root -> words_small q root ->
  (ro = true -> ar root = Some (One, One)) ->
  exists ar', infer_arrows jt ro q root = Some ar' /\
    typed_from (jet_ty_of jt) (shrink ar' q) ar' root /\
    arrows_le q root ar' ar /\
    (ro = true -> ar' root = Some (One, One)) /\
    (* least among all typings of the structure *)
    (forall ar2, struct_typed (jet_ty_of jt) q ar2 root -> (ro = true -> ar2 root = Some (One, One)) ->
       arrows_le q root ar' ar2).
Proof.
  intros W Hr Ht Hw Hro. pose proof (typed_struct _ _ _ _ Ht) as Hs.
  destruct (infer_retype_complete jt q ar root ro W Hr Hs Hw Hro) as (tau0 & I).
  destruct (infer_retype_sound jt q root ro tau0 W Hr (struct_no_hole _ _ _ _ Hs) I) as [S0 R0].
  pose proof (infer_retype_least jt q ar root ro tau0 W Hr I Hs Hw Hro) as L.
  exists (arrows_of tau0). unfold infer_arrows. rewrite I. split; [reflexivity|]. split.
  - eapply shrink_typed; eauto.
  - split; [exact L|]. split; [exact R0|].
    intros ar2 H2 Hro2. eapply infer_retype_least; eauto.
Qed.
