(* C04, phase 3 - what is left for layer (d), stated on the slab alone.

   After a successful construction stage (SlabConstruct.construct_sim) the slab state c has exactly the models
   of all generated constraints.  Hence (construct_result_spec):

     infer = Ok tau       <->  c has a finite model; and then tau is the image of the LEAST finite model of c
                               (pointwise ty_le) on the node arrows ar
     infer = Err EOccurs  <->  c has no finite model

   so that the remaining obligation of the refinement is a statement about Slab.finalize only: "finalising every
   arrow of (c, ar), in any of the harness orders, returns the values of the least finite model of c if there is
   one, and Error::OccursCheck otherwise" (not proved here; compared case by case by RunSlab.run_both). *)
From RS Require Import Lib.Tac Lib.Outcome Ty.Ty Core.Prog Infer.Constraints Infer.Unify Infer.Infer Infer.Gen Infer.Theorems
  Infer.Principal Infer.Order Infer.Run Infer.UnionFind Infer.Slab Infer.SlabProofs Infer.Rational Infer.ErrClass Infer.SlabSim Infer.SlabSimInst
  Infer.SlabPrims Infer.SlabNodes Infer.SlabNodes2 Infer.SlabNodes3 Infer.SlabNodes4 Infer.SlabNodes5 Infer.SlabConstruct.
Import ListNotations.
Local Open Scope outcome_scope.

Lemma dsat_ty_sat al s : dsat ty eq One Sum Prod al s <-> sat al s.
Proof. unfold dsat, sat. split; intros H v Hv; specialize (H v Hv); destruct (sget s v); exact H. Qed.

Lemma deqs_ty_eqs al eqs : deqs_hold ty eq al eqs <-> eqs_hold al eqs.
Proof. unfold deqs_hold, eqs_hold. tauto. Qed.

Lemma drsat_ty_rsat al c : drsat ty eq One Sum Prod al c <-> rsat al c.
Proof. apply fsat_rsat. Qed.

(* the finite models of the solved store are those of all constraints *)
Lemma pipeline_models jt root p g rb re s1 s2 : gen jt p = Some g -> root_tmpl g root = Some (rb, re) ->
  solve (g_store g) (g_eqs g) = Ok s1 -> solve (s1 ++ rb) re = Ok s2 ->
  wf s2 /\ length s2 = length (g_store g ++ rb) /\
  forall al, sat al s2 <-> sat al (g_store g ++ rb) /\ eqs_hold al (g_eqs g ++ re).
Proof.
  intros G R S1 S2.
  destruct (gen_nodes_inv jt p empty_g g ginv_empty G) as (Ig & _).
  pose proof (gi_wf _ Ig) as W0. pose proof (gi_eqs _ Ig) as E0.
  destruct (pipeline_wf _ _ _ _ _ _ _ G R S1) as (_ & W1 & L1 & W1r & E1r & _).
  destruct (solve_sound _ _ _ W1r E1r S2) as (W2 & L2 & _).
  split; [exact W2|]. split; [rewrite L2, !app_length, L1; reflexivity|].
  intros al. rewrite (solve_exact _ _ _ W1r E1r S2 al). rewrite !sat_app, eqs_app, L1.
  rewrite (solve_exact _ _ _ W0 E0 S1 al). tauto.
Qed.

Definition least_model (be : nat -> ty) (c : ctx) : Prop :=
  rsat be c /\ forall be', rsat be' c -> forall e, (e < length (c_uf c))%nat -> ty_le (be e) (be' e) = true.

Theorem construct_result_spec (fuel : nat) (jt : jet_table) (program : bool) (p : prog) (root : nat) (g : gstate) rb re c ar :
  gen jt p = Some g -> root_tmpl g (if program then Some root else None) = Some (rb, re) ->
  r_construct fuel jt program p root = Ok (c, ar) ->
  let r := infer jt (if program then Some root else None) p in
  cwf c /\
  (forall tau, r = Ok tau -> exists be, least_model be c /\ tau = map (img be) ar) /\
  ((exists tau, r = Ok tau) <-> exists be, rsat be c) /\
  (r = Err EOccurs <-> ~ exists be, rsat be c).
Proof.
  intros G R C r.
  pose proof (construct_sim fuel jt program p root g rb re G R) as CS. rewrite C in CS.
  destruct CS as [(em & S0 & Ea & Ai) Cls]. fold r in Cls.
  destruct S0 as [(CW & Ws & Ei & Rg) [M1 M2] _].
  destruct (infer_class_char jt (if program then Some root else None) p g rb re G R) as (_ & _ & C2 & C3). fold r in C2, C3.
  assert (FM : finite_model (g_store g ++ rb) (g_eqs g ++ re) <-> exists be, rsat be c).
  { unfold finite_model. split.
    - intros (al & Sa & Ea'). exists (fun e => al (em e)). apply drsat_ty_rsat. apply M1. split; [apply dsat_ty_sat; exact Sa|apply deqs_ty_eqs; exact Ea'].
    - intros (be & Sb). apply drsat_ty_rsat in Sb. destruct (M2 be Sb) as (al & [Sa Ea'] & _).
      exists al. split; [apply dsat_ty_sat; exact Sa|apply deqs_ty_eqs; exact Ea']. }
  split; [exact CW|]. split; [|split].
  - intros tau Hr. unfold r in Hr.
    destruct (infer_ok_inv _ _ _ _ Hr) as (g0 & rb0 & re0 & s1 & s2 & G0 & R0 & S1 & S2 & O & ->).
    rewrite G in G0. injection G0 as <-. rewrite R in R0. injection R0 as <- <-.
    destruct (pipeline_models _ _ _ _ _ _ _ _ G R S1 S2) as (W2 & L2 & PM).
    pose proof (assign_sat s2 W2 O) as Sa. pose proof (proj1 (PM _) Sa) as [Sa0 Ea0].
    exists (fun e => assign s2 (em e)). split; [split|].
    + apply drsat_ty_rsat. apply M1. split; [apply dsat_ty_sat; exact Sa0|apply deqs_ty_eqs; exact Ea0].
    + intros be' Sb' e He. apply drsat_ty_rsat in Sb'. destruct (M2 be' Sb') as (al & [Sal Eal] & Ag).
      rewrite <- (Ag e He).
      assert (Sal2 : sat al s2) by (apply PM; split; [apply dsat_ty_sat; exact Sal|apply deqs_ty_eqs; exact Eal]).
      assert (Lv : (em e < length s2)%nat) by (rewrite L2; apply Rg; exact He).
      destruct (occurs_ok_spec s2 O (em e) Lv) as (t & Rt). unfold assign. rewrite Rt.
      apply (resolve_least s2 al W2 Sal2 _ (em e) t Lv Rt).
    + assert (Ain : arr_in (length s2) (g_arr g)).
      { rewrite L2. destruct (gen_nodes_inv jt p empty_g g ginv_empty G) as (Ig & _).
        eapply arr_in_mono; [|apply (gi_arr _ Ig)]. rewrite app_length. lia. }
      rewrite (res_arrow_img s2 _ O Ain), Ea, map_map. apply map_ext. intros [[x y]|]; reflexivity.
  - rewrite <- FM. exact C3.
  - rewrite <- FM. split.
    + intros H. apply C2. exact H.
    + intros NF. apply C2. split; [|exact NF].
      destruct Cls as [(tau & Ht)|Ht]; [|apply (proj1 C2 Ht)].
      exfalso. apply NF. apply C3. eauto.
Qed.
