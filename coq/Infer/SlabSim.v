(* C04, phase 3 - the slab model (Infer/Slab.v) against the reference semantics, layers (a) and (b) of
   the refinement C04_slab_refines_reference_statement.

   (a) Abstraction.  A slab state `c` (slab of bounds + union-bound heap) denotes a set of constraints on the
       UbElements: every element equals its representative `rep`, and the bound stored for the representative's
       BoundRef holds of it.  `drsat al c` says that the valuation `al` of the elements satisfies them.  The
       development is generic in the domain of values (Section SlabDom, the same interface as Rational.v's
       Section Dom): instantiated with finite types (`ty`, Leibniz equality) it is the semantics of
       Unify.sat / Infer.res, instantiated with possibly infinite trees (`itree`, `teq`) it is the semantics
       of Rational.consistent, which decides between Error::Bind and Error::OccursCheck.  Invariant: `cwf`.

   (b) bind / unify.  For every fuel and every well-formed state,
         ctx_unify fuel c x y = Ok c'   ->  c' is well formed and its models are EXACTLY the models of c
                                            in which x and y have equal values
         ctx_unify fuel c x y = Err _   ->  c has NO model in which x and y have equal values
       (unify_spec_all), and the same for bind (bind_spec_all) and for bind against a complete type, which
       moreover never changes the partition (bc_spec_all).  This is exactly what Unify.unify_sound /
       unify_complete / Rational.d_unify_sound / d_unify_complete say of the reference `unify` on its store:
       the two algorithms compute the same set of models, in finite types and in infinite trees, hence fail on
       the same inputs.  Covered: rank comparison and swap, rank increment, the link BEFORE the callback,
       path halving in every `root` call, the six arms of `bind` in their order, the recursion of the
       Complete-vs-incomplete arms on the roots of both children, eager completion after Sum/Sum and
       Product/Product (also when the bound being completed has meanwhile been orphaned by a nested unify on
       a cyclic state).
       NOT covered here: that Panic / OutOfFuel do not occur (the statements are about Ok and Err results). *)
From RS Require Import Lib.Tac Lib.Outcome Ty.Ty Core.Prog Infer.Constraints Infer.Infer Infer.UnionFind Infer.Slab Infer.SlabProofs.
Import ListNotations.
Local Open Scope outcome_scope.

(* ------------------------------------------------------------------ syntactic frame conditions *)

Definition bound_in (n : nat) (b : rbound) : Prop :=
  match b with
  | RSum x y | RProd x y => (x < n)%nat /\ (y < n)%nat
  | _ => True
  end.

(* bind only ever replaces a Free bound, or an incomplete bound by a complete one *)
Definition slab_mono (c c' : ctx) : Prop :=
  forall b, match slab_get c b with
            | RFree => True
            | RComplete t => slab_get c' b = RComplete t
            | RSum x y => slab_get c' b = RSum x y \/ exists t, slab_get c' b = RComplete t
            | RProd x y => slab_get c' b = RProd x y \/ exists t, slab_get c' b = RComplete t
            end.

Lemma slab_mono_refl c : slab_mono c c.
Proof. intros b. destruct (slab_get c b); auto. Qed.

Lemma slab_mono_trans c1 c2 c3 : slab_mono c1 c2 -> slab_mono c2 c3 -> slab_mono c1 c3.
Proof.
  intros H1 H2 b. specialize (H1 b). destruct (slab_get c1 b) as [|t|x y|x y]; auto.
  - specialize (H2 b). rewrite H1 in H2. exact H2.
  - destruct H1 as [H1|(t & H1)]; specialize (H2 b); rewrite H1 in H2; eauto.
  - destruct H1 as [H1|(t & H1)]; specialize (H2 b); rewrite H1 in H2; eauto.
Qed.

Lemma slab_mono_same_slab c c' : c_slab c' = c_slab c -> slab_mono c c'.
Proof.
  intros E b. assert (G : slab_get c' b = slab_get c b) by (unfold slab_get; rewrite E; reflexivity).
  rewrite G. destruct (slab_get c b); auto.
Qed.

(* the partition only gets coarser *)
Definition coarser (u u' : uf) : Prop :=
  forall e e', (e < length u)%nat -> (e' < length u)%nat -> rep u e = rep u e' -> rep u' e = rep u' e'.

Lemma coarser_refl u : coarser u u.
Proof. intros e e' _ _ H. exact H. Qed.

Lemma same_part_coarser u u' : same_part u u' -> coarser u u'.
Proof. intros (_ & _ & R & _) e e' He He' H. rewrite !R by assumption. exact H. Qed.

Definition post (c c' : ctx) : Prop :=
  cwf c' /\ length (c_uf c') = length (c_uf c) /\ length (c_slab c') = length (c_slab c) /\
  slab_mono c c' /\ coarser (c_uf c) (c_uf c').

Lemma post_refl c : cwf c -> post c c.
Proof.
  intros W. split; [exact W|]. split; [reflexivity|]. split; [reflexivity|].
  split; [apply slab_mono_refl|apply coarser_refl].
Qed.

Lemma post_trans c1 c2 c3 : post c1 c2 -> post c2 c3 -> post c1 c3.
Proof.
  intros (W2 & L2 & S2 & M2 & C2) (W3 & L3 & S3 & M3 & C3).
  split; [exact W3|]. split; [congruence|]. split; [congruence|]. split; [eapply slab_mono_trans; eauto|].
  intros e e' He He' H. apply C3; try lia. apply C2; auto.
Qed.

Lemma post_same_part c u' : cwf c -> same_part (c_uf c) u' -> post c (put_uf c u').
Proof.
  intros W P. split; [apply cwf_same_part; assumption|]. cbn [put_uf c_uf c_slab].
  split; [apply P|]. split; [reflexivity|]. split; [apply slab_mono_same_slab; reflexivity|].
  apply same_part_coarser. exact P.
Qed.

Lemma same_part_post c c' : cwf c -> cwf c' -> c_slab c' = c_slab c -> same_part (c_uf c) (c_uf c') -> post c c'.
Proof.
  intros W W' E P. split; [exact W'|]. split; [apply P|]. split; [rewrite E; reflexivity|].
  split; [apply slab_mono_same_slab; exact E|]. apply same_part_coarser. exact P.
Qed.

Lemma unwrap_root_root u e : is_uroot u e -> unwrap_root u e = Ok (bref_of u e).
Proof. unfold is_uroot, unwrap_root, bref_of. destruct (ub_data (ufget u e)); tauto. Qed.

Lemma slab_get_put_uf c u b : slab_get (put_uf c u) b = slab_get c b.
Proof. reflexivity. Qed.

(* the chains of the Complete-vs-incomplete arms and of the Sum/Sum, Product/Product arms of `bind` *)
Definition comp_chain (f : nat) (c : ctx) (t1 t2 : nat) (c1 c2 : ty) : bres :=
  '(ca, b1) <- c_root c t1 ;;
  '(cb, b2) <- c_root ca t2 ;;
  cc <- bind f cb b1 (RComplete c1) ;;
  bind f cc b2 (RComplete c2).

Definition struct_chain (f : nat) (c : ctx) (existing : nat) (is_sum : bool) (x1 x2 y1 y2 : nat) : bres :=
  c1 <- ctx_unify f c x1 y1 ;;
  c2 <- ctx_unify f c1 x2 y2 ;;
  '(c3, d) <- complete_pair_data c2 y1 y2 ;;
  match d with
  | Some (d1, d2) => reassign_non_complete c3 existing (RComplete (if is_sum then Sum d1 d2 else Prod d1 d2))
  | None => Ok c3
  end.

Lemma bind_S f c existing new : bind (S f) c existing new =
  match slab_get c existing, new with
  | _, RFree => Ok c
  | RFree, _ => reassign_non_complete c existing new
  | RComplete ef, RComplete nf => if ty_eqb ef nf then Ok c else Err ((existing, new), c)
  | RComplete (Sum c1 c2), RSum t1 t2 => comp_chain f c t1 t2 c1 c2
  | RComplete (Prod c1 c2), RProd t1 t2 => comp_chain f c t1 t2 c1 c2
  | RComplete _, _ => Err ((existing, new), c)
  | RSum t1 t2, RComplete (Sum c1 c2) => comp_chain f c t1 t2 c1 c2
  | RProd t1 t2, RComplete (Prod c1 c2) => comp_chain f c t1 t2 c1 c2
  | _, RComplete _ => Err ((existing, new), c)
  | RSum x1 x2, RSum y1 y2 => struct_chain f c existing true x1 x2 y1 y2
  | RProd x1 x2, RProd y1 y2 => struct_chain f c existing false x1 x2 y1 y2
  | _, _ => Err ((existing, new), c)
  end.
Proof. reflexivity. Qed.


Lemma ub_link_data_other u x y e : (x < length u)%nat -> e <> y ->
  ub_data (ufget (ub_link u x y) e) = ub_data (ufget u e).
Proof.
  intros Hx Ne. unfold ub_link, set_data. rewrite ufget_ufset_neq by congruence.
  destruct (N.eqb _ _); [|reflexivity]. unfold set_rank. destruct (Nat.eq_dec x e) as [<-|N].
  - rewrite ufget_ufset_eq by exact Hx. reflexivity.
  - rewrite ufget_ufset_neq by exact N. reflexivity.
Qed.

Lemma ub_link_data_y u x y : (y < length u)%nat -> ub_data (ufget (ub_link u x y) y) = UEq x.
Proof.
  intros Hy. unfold ub_link, set_data. rewrite ufget_ufset_eq; [reflexivity|].
  destruct (N.eqb _ _); [rewrite set_rank_length|]; exact Hy.
Qed.


Lemma set_rank_data u x r e : (x < length u)%nat -> ub_data (ufget (set_rank u x r) e) = ub_data (ufget u e).
Proof.
  intros Hx. unfold set_rank. destruct (Nat.eq_dec x e) as [<-|N].
  - rewrite ufget_ufset_eq by exact Hx. reflexivity.
  - rewrite ufget_ufset_neq by exact N. reflexivity.
Qed.

Lemma cwf_bound_in c b : cwf c -> bound_in (length (c_uf c)) (slab_get c b).
Proof.
  intros (_ & Ch & _). destruct (slab_get c b) as [|t|x y|x y] eqn:E; cbn [bound_in]; auto.
  - apply (Ch b x y). auto.
  - apply (Ch b x y). auto.
Qed.

Section SlabDom.
  Variable D : Type.
  Variable deq : D -> D -> Prop.
  Variable done : D.
  Variable dsum dprod : D -> D -> D.
  Hypothesis deq_refl : forall a, deq a a.
  Hypothesis deq_sym : forall a b, deq a b -> deq b a.
  Hypothesis deq_trans : forall a b c, deq a b -> deq b c -> deq a c.
  Hypothesis dsum_cong : forall a b c d, deq a c -> deq b d -> deq (dsum a b) (dsum c d).
  Hypothesis dprod_cong : forall a b c d, deq a c -> deq b d -> deq (dprod a b) (dprod c d).
  Hypothesis dsum_inj : forall a b c d, deq (dsum a b) (dsum c d) -> deq a c /\ deq b d.
  Hypothesis dprod_inj : forall a b c d, deq (dprod a b) (dprod c d) -> deq a c /\ deq b d.
  Hypothesis one_sum : forall a b, ~ deq done (dsum a b).
  Hypothesis one_prod : forall a b, ~ deq done (dprod a b).
  Hypothesis sum_prod : forall a b c d, ~ deq (dsum a b) (dprod c d).

  (* complete types in the domain *)
  Fixpoint dof (t : ty) : D :=
    match t with
    | One => done
    | Sum a b => dsum (dof a) (dof b)
    | Prod a b => dprod (dof a) (dof b)
    end.

  Lemma dof_inj : forall a b, deq (dof a) (dof b) -> a = b.
  Proof.
    induction a as [|a1 IH1 a2 IH2|a1 IH1 a2 IH2]; intros [|b1 b2|b1 b2] H; cbn [dof] in H; try reflexivity.
    - exfalso. exact (one_sum _ _ H).
    - exfalso. exact (one_prod _ _ H).
    - exfalso. exact (one_sum _ _ (deq_sym _ _ H)).
    - destruct (dsum_inj _ _ _ _ H) as [H1 H2]. rewrite (IH1 _ H1), (IH2 _ H2). reflexivity.
    - exfalso. exact (sum_prod _ _ _ _ H).
    - exfalso. exact (one_prod _ _ (deq_sym _ _ H)).
    - exfalso. exact (sum_prod _ _ _ _ (deq_sym _ _ H)).
    - destruct (dprod_inj _ _ _ _ H) as [H1 H2]. rewrite (IH1 _ H1), (IH2 _ H2). reflexivity.
  Qed.

  Definition dval := nat -> D.

  Definition dholds_r (al : dval) (e : nat) (b : rbound) : Prop :=
    match b with
    | RFree => True
    | RComplete t => deq (al e) (dof t)
    | RSum x y => deq (al e) (dsum (al x) (al y))
    | RProd x y => deq (al e) (dprod (al x) (al y))
    end.

  Definition drsat (al : dval) (c : ctx) : Prop :=
    let u := c_uf c in
    (forall e, (e < length u)%nat -> deq (al e) (al (rep u e))) /\
    (forall e, (e < length u)%nat -> is_uroot u e -> dholds_r al e (slab_get c (bref_of u e))).

  Lemma dholds_r_transfer al e e' b : deq (al e) (al e') -> dholds_r al e' b -> dholds_r al e b.
  Proof. destruct b; cbn; intros E H; auto; eapply deq_trans; eauto. Qed.

  Lemma drsat_same_part al c u' : same_part (c_uf c) u' -> (drsat al (put_uf c u') <-> drsat al c).
  Proof.
    intros P. pose proof P as (W' & L & R & Dd & I). unfold drsat. cbn [put_uf c_uf c_slab].
    split; intros [H1 H2]; split.
    - intros e He. rewrite <- R by exact He. apply H1. lia.
    - intros e He Hr. pose proof (proj1 (same_part_root _ _ e P) Hr) as Hr'.
      specialize (H2 e ltac:(lia) Hr'). rewrite (same_part_bref _ _ e P Hr) in H2. exact H2.
    - intros e He. rewrite R by lia. apply H1. lia.
    - intros e He Hr. pose proof (I e Hr) as Hr0.
      specialize (H2 e ltac:(lia) Hr0). rewrite (same_part_bref _ _ e P Hr0). exact H2.
  Qed.

  Lemma drsat_same_part' al c c' : c_slab c' = c_slab c -> same_part (c_uf c) (c_uf c') -> (drsat al c' <-> drsat al c).
  Proof.
    intros E P. rewrite <- (drsat_same_part al c (c_uf c') P).
    destruct c' as [s' u']. cbn [c_slab c_uf] in *. subst s'. reflexivity.
  Qed.

  (* in a model, an element has the value of its representative, which satisfies its bound *)
  Lemma drsat_rep al c e : drsat al c -> (e < length (c_uf c))%nat -> deq (al e) (al (rep (c_uf c) e)).
  Proof. intros [H _] He. apply H. exact He. Qed.

  Lemma drsat_bound al c e : cwf c -> drsat al c -> (e < length (c_uf c))%nat ->
    dholds_r al e (slab_get c (bref_of (c_uf c) (rep (c_uf c) e))).
  Proof.
    intros (W & _) [H1 H2] He. destruct (rep_root _ e W He) as [Rr Lr].
    eapply dholds_r_transfer; [apply H1; exact He|]. apply H2; assumption.
  Qed.

  (* ---- replacing the bound of a representative by one that holds of it / that is equivalent *)

  (* b is the BoundRef of the representative eb; its bound Free is replaced by `new` *)
  Lemma reassign_free_spec c b new eb : cwf c -> holds_ref c eb b -> slab_get c b = RFree ->
    bound_in (length (c_uf c)) new ->
    let c' := mk_ctx (lset (c_slab c) b new) (c_uf c) in
    post c c' /\ (forall al, drsat al c' <-> drsat al c /\ dholds_r al eb new).
  Proof.
    intros CW (Le & Re & Be) Eb Bn c'. pose proof CW as (W & Ch & Un & Br).
    assert (Lb : (b < length (c_slab c))%nat) by (rewrite <- Be; apply Br; assumption).
    assert (SGb : slab_get c' b = new) by (apply slab_get_lset_eq; exact Lb).
    assert (SGn : forall b', b <> b' -> slab_get c' b' = slab_get c b') by (intros; apply slab_get_lset_neq; assumption).
    assert (CW' : cwf c').
    { unfold cwf, c'. cbn [c_uf c_slab]. split; [exact W|]. split; [|split; [exact Un|]].
      - intros b' x y H. destruct (Nat.eq_dec b b') as [<-|N].
        + fold c' in H. rewrite SGb in H. destruct H as [H|H]; rewrite H in Bn; exact Bn.
        + fold c' in H. rewrite SGn in H by exact N. apply (Ch b' x y H).
      - intros e He Hr. rewrite lset_length. apply Br; assumption. }
    split.
    - split; [exact CW'|]. unfold c'. cbn [c_uf c_slab]. split; [reflexivity|]. split; [apply lset_length|].
      split; [|apply coarser_refl].
      intros b'. destruct (Nat.eq_dec b b') as [<-|N]; [rewrite Eb; exact I|].
      fold c'. rewrite (SGn b' N). destruct (slab_get c b'); auto.
    - intros al. unfold drsat. change (c_uf c') with (c_uf c). split.
      + intros [H1 H2]. split; [split; [exact H1|]|].
        * intros e He Hr. destruct (Nat.eq_dec b (bref_of (c_uf c) e)) as [E|N].
          -- rewrite <- E, Eb. exact I.
          -- specialize (H2 e He Hr). rewrite SGn in H2 by exact N. exact H2.
        * specialize (H2 eb Le Re). rewrite Be, SGb in H2. exact H2.
      + intros [[H1 H2] Hn]. split; [exact H1|].
        intros e He Hr. destruct (Nat.eq_dec b (bref_of (c_uf c) e)) as [E|N].
        * assert (e = eb) by (apply Un; auto; congruence). subst e. rewrite <- E, SGb. exact Hn.
        * rewrite SGn by exact N. apply H2; assumption.
  Qed.

  Definition rpair (is_sum : bool) (x y : nat) : rbound := if is_sum then RSum x y else RProd x y.
  Definition tpair (is_sum : bool) (x y : ty) : ty := if is_sum then Sum x y else Prod x y.
  Definition dpair (is_sum : bool) (x y : D) : D := if is_sum then dsum x y else dprod x y.

  Lemma dpair_cong s a b c d : deq a c -> deq b d -> deq (dpair s a b) (dpair s c d).
  Proof. destruct s; cbn; auto. Qed.
  Lemma dpair_inj s a b c d : deq (dpair s a b) (dpair s c d) -> deq a c /\ deq b d.
  Proof. destruct s; cbn; auto. Qed.
  Lemma dof_tpair s a b : dof (tpair s a b) = dpair s (dof a) (dof b).
  Proof. destruct s; reflexivity. Qed.
  Lemma dholds_rpair al e s x y : dholds_r al e (rpair s x y) = deq (al e) (dpair s (al x) (al y)).
  Proof. destruct s; reflexivity. Qed.

  (* eager completion: the bound (Sum | Product) x1 x2 stored at b - held by a representative or orphaned -
     is replaced by the complete type built from the complete bounds of the classes of x1 and x2 *)
  Lemma reassign_complete_equiv c b s x1 x2 d1 d2 : cwf c -> slab_get c b = rpair s x1 x2 ->
    slab_get c (bref_of (c_uf c) (rep (c_uf c) x1)) = RComplete d1 ->
    slab_get c (bref_of (c_uf c) (rep (c_uf c) x2)) = RComplete d2 ->
    let c' := mk_ctx (lset (c_slab c) b (RComplete (tpair s d1 d2))) (c_uf c) in
    post c c' /\ (forall al, drsat al c' <-> drsat al c).
  Proof.
    intros CW Eb E1 E2 c'. pose proof CW as (W & Ch & Un & Br).
    assert (Lb : (b < length (c_slab c))%nat) by (apply slab_get_in; rewrite Eb; destruct s; discriminate).
    assert (SGb : slab_get c' b = RComplete (tpair s d1 d2)) by (apply slab_get_lset_eq; exact Lb).
    assert (SGn : forall b', b <> b' -> slab_get c' b' = slab_get c b') by (intros; apply slab_get_lset_neq; assumption).
    assert (Lx : (x1 < length (c_uf c))%nat /\ (x2 < length (c_uf c))%nat).
    { apply (Ch b x1 x2). rewrite Eb. destruct s; auto. }
    destruct Lx as [Lx1 Lx2].
    destruct (rep_root _ x1 W Lx1) as [Rr1 Lr1]. destruct (rep_root _ x2 W Lx2) as [Rr2 Lr2].
    set (r1 := rep (c_uf c) x1) in *. set (r2 := rep (c_uf c) x2) in *.
    assert (N1 : b <> bref_of (c_uf c) r1) by (intros ->; rewrite E1 in Eb; destruct s; discriminate).
    assert (N2 : b <> bref_of (c_uf c) r2) by (intros ->; rewrite E2 in Eb; destruct s; discriminate).
    assert (CW' : cwf c').
    { unfold cwf, c'. cbn [c_uf c_slab]. split; [exact W|]. split; [|split; [exact Un|]].
      - intros b' x y H. destruct (Nat.eq_dec b b') as [<-|N].
        + fold c' in H. rewrite SGb in H. destruct H; discriminate.
        + fold c' in H. rewrite SGn in H by exact N. apply (Ch b' x y H).
      - intros e He Hr. rewrite lset_length. apply Br; assumption. }
    split.
    - split; [exact CW'|]. unfold c'. cbn [c_uf c_slab]. split; [reflexivity|]. split; [apply lset_length|].
      split; [|apply coarser_refl].
      intros b'. destruct (Nat.eq_dec b b') as [<-|N].
      + rewrite Eb. fold c'. rewrite SGb. destruct s; cbn [rpair]; right; eauto.
      + fold c'. rewrite (SGn b' N). destruct (slab_get c b'); auto.
    - (* the two children have their complete values in models of either state *)
      assert (K : forall al (cx : ctx), c_uf cx = c_uf c ->
                 slab_get cx (bref_of (c_uf c) r1) = RComplete d1 -> slab_get cx (bref_of (c_uf c) r2) = RComplete d2 ->
                 drsat al cx -> deq (al x1) (dof d1) /\ deq (al x2) (dof d2)).
      { intros al cx Eu G1 G2 [H1 H2]. rewrite Eu in H1, H2. split.
        - eapply deq_trans; [apply (H1 x1 Lx1)|]. fold r1. specialize (H2 r1 Lr1 Rr1). rewrite G1 in H2. exact H2.
        - eapply deq_trans; [apply (H1 x2 Lx2)|]. fold r2. specialize (H2 r2 Lr2 Rr2). rewrite G2 in H2. exact H2. }
      intros al. split; intros Sa.
      + destruct (K al c' eq_refl ltac:(rewrite SGn by exact N1; exact E1) ltac:(rewrite SGn by exact N2; exact E2) Sa) as [V1 V2].
        destruct Sa as [H1 H2]. change (c_uf c') with (c_uf c) in H1, H2. split; [exact H1|].
        intros e He Hr. specialize (H2 e He Hr). destruct (Nat.eq_dec b (bref_of (c_uf c) e)) as [E|N].
        * rewrite <- E in *. rewrite SGb in H2. rewrite Eb, dholds_rpair. cbn [dholds_r] in H2. rewrite dof_tpair in H2.
          eapply deq_trans; [exact H2|]. apply dpair_cong; apply deq_sym; assumption.
        * rewrite SGn in H2 by exact N. exact H2.
      + destruct (K al c eq_refl E1 E2 Sa) as [V1 V2].
        destruct Sa as [H1 H2]. split; [exact H1|]. change (c_uf c') with (c_uf c).
        intros e He Hr. specialize (H2 e He Hr). destruct (Nat.eq_dec b (bref_of (c_uf c) e)) as [E|N].
        * rewrite <- E in *. rewrite SGb. rewrite Eb, dholds_rpair in H2. cbn [dholds_r]. rewrite dof_tpair.
          eapply deq_trans; [exact H2|]. apply dpair_cong; assumption.
        * rewrite SGn by exact N. exact H2.
  Qed.

  (* ================================================================== bind against a complete type *)

  Definition bc_spec (f : nat) : Prop := forall c b t eb, cwf c -> holds_ref c eb b ->
    match bind f c b (RComplete t) with
    | Ok c' => post c c' /\ keeps_part c c' /\ (forall al, drsat al c' <-> drsat al c /\ deq (al eb) (dof t))
    | Err _ => forall al, ~ (drsat al c /\ deq (al eb) (dof t))
    | _ => True
    end.

  Definition cc_spec (f : nat) : Prop := forall c t1 t2 c1 c2, cwf c ->
    (t1 < length (c_uf c))%nat -> (t2 < length (c_uf c))%nat ->
    match comp_chain f c t1 t2 c1 c2 with
    | Ok c' => post c c' /\ keeps_part c c' /\
               (forall al, drsat al c' <-> drsat al c /\ deq (al t1) (dof c1) /\ deq (al t2) (dof c2))
    | Err _ => forall al, ~ (drsat al c /\ deq (al t1) (dof c1) /\ deq (al t2) (dof c2))
    | _ => True
    end.

  Lemma cc_of_bc f : bc_spec f -> cc_spec f.
  Proof.
    intros IH c x1 x2 c1 c2 CW Lx1 Lx2. pose proof CW as (W & Ch & Un & Br). unfold comp_chain.
    destruct (c_root_spec c x1 CW Lx1) as (ua & Ea & Pa). rewrite Ea. cbn [obind].
    pose proof (cwf_same_part c ua CW Pa) as CWa.
    assert (La : length ua = length (c_uf c)) by (destruct Pa as (_ & L & _); exact L).
    destruct (c_root_spec (put_uf c ua) x2 CWa ltac:(cbn [put_uf c_uf]; lia)) as (ub & Eb2 & Pb). rewrite Eb2. cbn [obind].
    cbn [put_uf c_uf c_slab] in *.
    set (cb := mk_ctx (c_slab c) ub) in *.
    change (put_uf (put_uf c ua) ub) with cb in *.
    pose proof (same_part_trans _ _ _ Pa Pb) as Pab.
    assert (CWb : cwf cb) by (apply (cwf_same_part c ub CW Pab)).
    assert (Lab : length ub = length (c_uf c)) by (destruct Pab as (_ & L & _); exact L).
    set (r1 := rep (c_uf c) x1) in *. set (r2 := rep ua x2) in *.
    destruct (rep_root (c_uf c) x1 W Lx1) as [Rr1 Lr1]. fold r1 in Rr1, Lr1.
    assert (Wa : uf_wf ua) by (destruct Pa; assumption).
    destruct (rep_root ua x2 Wa ltac:(lia)) as [Rr2 Lr2]. fold r2 in Rr2, Lr2.
    assert (Er2 : r2 = rep (c_uf c) x2) by (destruct Pa as (_ & _ & R & _); apply R; exact Lx2).
    assert (Sb : forall al, drsat al cb <-> drsat al c) by (intros al; apply (drsat_same_part al c ub Pab)).
    assert (H1 : holds_ref cb r1 (bref_of (c_uf c) r1)).
    { unfold holds_ref, cb. cbn [c_uf]. split; [lia|]. split; [apply (proj1 (same_part_root _ _ r1 Pab)); exact Rr1|].
      apply same_part_bref; [exact Pab|exact Rr1]. }
    pose proof (IH cb _ c1 r1 CWb H1) as B1.
    destruct (bind f cb (bref_of (c_uf c) r1) (RComplete c1)) as [cc|e1| |]; cbn [obind]; try exact I.
    2:{ intros al (Sa & V1 & V2). apply (B1 al). split; [apply Sb; exact Sa|].
        eapply deq_trans; [apply deq_sym; apply (drsat_rep al c x1 Sa Lx1)|exact V1]. }
    destruct B1 as (Pc & Kc & S1).
    unfold keeps_part in Kc. change (c_uf cb) with ub in Kc.
    assert (Lcc : length (c_uf cc) = length (c_uf c)) by (destruct Kc as (_ & L & _); lia).
    assert (H2 : holds_ref cc r2 (bref_of ua r2)).
    { unfold holds_ref. split; [lia|].
      pose proof (proj1 (same_part_root _ _ r2 Pb) Rr2) as Rb2.
      split; [apply (proj1 (same_part_root _ _ r2 Kc)); exact Rb2|].
      rewrite (same_part_bref _ _ r2 Kc Rb2). apply same_part_bref; [exact Pb|exact Rr2]. }
    pose proof (IH cc _ c2 r2 (proj1 Pc) H2) as B2.
    assert (V : forall al, drsat al c -> (deq (al r1) (dof c1) <-> deq (al x1) (dof c1)) /\ (deq (al r2) (dof c2) <-> deq (al x2) (dof c2))).
    { intros al Sa. pose proof (drsat_rep al c x1 Sa Lx1) as G1. pose proof (drsat_rep al c x2 Sa Lx2) as G2.
      fold r1 in G1. rewrite <- Er2 in G2.
      split; split; intros G; eapply deq_trans; eauto. }
    destruct (bind f cc (bref_of ua r2) (RComplete c2)) as [c'|e2| |]; try exact I.
    2:{ intros al (Sa & V1 & V2). destruct (V al Sa) as [Va Vb]. apply (B2 al). split; [|apply Vb; exact V2].
        apply S1. split; [apply Sb; exact Sa|apply Va; exact V1]. }
    destruct B2 as (P' & K' & S2).
    split; [|split].
    - eapply post_trans; [|exact P']. eapply post_trans; [|exact Pc]. apply (post_same_part c ub CW Pab).
    - unfold keeps_part in *. eapply same_part_trans; [exact Pab|]. eapply same_part_trans; [exact Kc|exact K'].
    - intros al. rewrite S2, S1, Sb. split.
      + intros ((Sa & G1) & G2). destruct (V al Sa) as [Va Vb]. split; [exact Sa|]. split; [apply Va|apply Vb]; assumption.
      + intros (Sa & G1 & G2). destruct (V al Sa) as [Va Vb]. split; [split; [exact Sa|]|]; [apply Va|apply Vb]; assumption.
  Qed.

  Ltac dclash H1 H2 :=
    let E := fresh "E" in let E' := fresh "E" in
    pose proof (deq_trans _ _ _ (deq_sym _ _ H1) H2) as E; pose proof (deq_sym _ _ E) as E';
    cbn [dof] in E, E';
    first [ exact (one_sum _ _ E) | exact (one_sum _ _ E') | exact (one_prod _ _ E) | exact (one_prod _ _ E')
          | exact (sum_prod _ _ _ _ E) | exact (sum_prod _ _ _ _ E') ].

  (* in a model of c the representative eb satisfies the bound it holds *)
  Lemma drsat_holds al c eb b : drsat al c -> holds_ref c eb b -> dholds_r al eb (slab_get c b).
  Proof. intros [_ H2] (Le & Re & Be). specialize (H2 eb Le Re). rewrite Be in H2. exact H2. Qed.

  Theorem bc_spec_all : forall f, bc_spec f.
  Proof.
    induction f as [|f IH]; [intros c b t eb _ _; exact I|].
    pose proof (cc_of_bc f IH) as CC.
    intros c b t eb CW HR. pose proof CW as (W & Ch & Un & Br). pose proof HR as (Le & Re & Be).
    rewrite bind_S.
    destruct (slab_get c b) as [|ef|x1 x2|x1 x2] eqn:Eb.
    - (* Free: the bound is replaced *)
      unfold reassign_non_complete. rewrite Eb.
      destruct (reassign_free_spec c b (RComplete t) eb CW HR Eb I) as [P S].
      split; [exact P|]. split; [apply same_part_refl; exact W|exact S].
    - (* Complete / Complete *)
      assert (G : forall (A : Type) (x : A), match ef with One | _ => x end = x) by (intros; destruct ef; reflexivity).
      rewrite G. clear G.
      destruct (ty_eqb ef t) eqn:Et.
      + apply ty_eqb_eq in Et. subst t. split; [apply post_refl; exact CW|]. split; [apply same_part_refl; exact W|].
        intros al. split; [|tauto]. intros Sa. split; [exact Sa|]. pose proof (drsat_holds al c eb b Sa HR) as Hh. rewrite Eb in Hh. exact Hh.
      + intros al (Sa & V). pose proof (drsat_holds al c eb b Sa HR) as Hh. rewrite Eb in Hh. cbn [dholds_r] in Hh.
        assert (ef = t) by (apply dof_inj; eapply deq_trans; [apply deq_sym; exact Hh|exact V]).
        subst t. rewrite (proj2 (ty_eqb_eq ef ef) eq_refl) in Et. discriminate.
    - (* existing Sum *)
      destruct (Ch b x1 x2 (or_introl Eb)) as [Lx1 Lx2].
      destruct t as [|c1 c2|c1 c2].
      + intros al (Sa & V). pose proof (drsat_holds al c eb b Sa HR) as Hh. rewrite Eb in Hh. cbn [dholds_r] in Hh. dclash Hh V.
      + pose proof (CC c x1 x2 c1 c2 CW Lx1 Lx2) as B.
        destruct (comp_chain f c x1 x2 c1 c2) as [c'|e| |]; try exact I.
        * destruct B as (P & K & S). split; [exact P|]. split; [exact K|]. intros al. rewrite S. cbn [dof].
          split; intros (Sa & G); (split; [exact Sa|]); pose proof (drsat_holds al c eb b Sa HR) as Hh; rewrite Eb in Hh; cbn [dholds_r] in Hh.
          -- eapply deq_trans; [exact Hh|]. apply dsum_cong; tauto.
          -- apply dsum_inj. eapply deq_trans; [apply deq_sym; exact Hh|exact G].
        * intros al (Sa & G). apply (B al). split; [exact Sa|]. pose proof (drsat_holds al c eb b Sa HR) as Hh; rewrite Eb in Hh; cbn [dholds_r dof] in Hh, G.
          apply dsum_inj. eapply deq_trans; [apply deq_sym; exact Hh|exact G].
      + intros al (Sa & V). pose proof (drsat_holds al c eb b Sa HR) as Hh. rewrite Eb in Hh. cbn [dholds_r] in Hh. dclash Hh V.
    - (* existing Product *)
      destruct (Ch b x1 x2 (or_intror Eb)) as [Lx1 Lx2].
      destruct t as [|c1 c2|c1 c2].
      + intros al (Sa & V). pose proof (drsat_holds al c eb b Sa HR) as Hh. rewrite Eb in Hh. cbn [dholds_r] in Hh. dclash Hh V.
      + intros al (Sa & V). pose proof (drsat_holds al c eb b Sa HR) as Hh. rewrite Eb in Hh. cbn [dholds_r] in Hh. dclash Hh V.
      + pose proof (CC c x1 x2 c1 c2 CW Lx1 Lx2) as B.
        destruct (comp_chain f c x1 x2 c1 c2) as [c'|e| |]; try exact I.
        * destruct B as (P & K & S). split; [exact P|]. split; [exact K|]. intros al. rewrite S. cbn [dof].
          split; intros (Sa & G); (split; [exact Sa|]); pose proof (drsat_holds al c eb b Sa HR) as Hh; rewrite Eb in Hh; cbn [dholds_r] in Hh.
          -- eapply deq_trans; [exact Hh|]. apply dprod_cong; tauto.
          -- apply dprod_inj. eapply deq_trans; [apply deq_sym; exact Hh|exact G].
        * intros al (Sa & G). apply (B al). split; [exact Sa|]. pose proof (drsat_holds al c eb b Sa HR) as Hh; rewrite Eb in Hh; cbn [dholds_r dof] in Hh, G.
          apply dprod_inj. eapply deq_trans; [apply deq_sym; exact Hh|exact G].
  Qed.

  (* ================================================================== the linking step of unify *)

  Lemma link_state c xr yr : cwf c ->
    let u := c_uf c in
    (xr < length u)%nat -> (yr < length u)%nat -> is_uroot u xr -> is_uroot u yr -> xr <> yr ->
    (ub_rank (ufget u yr) <= ub_rank (ufget u xr))%N ->
    let c4 := put_uf c (ub_link u xr yr) in
    cwf c4 /\ holds_ref c4 xr (bref_of u xr) /\ post c c4 /\
    (forall e, (e < length u)%nat -> rep (c_uf c4) e = if Nat.eqb (rep u e) yr then xr else rep u e) /\
    (forall al, (drsat al c4 /\ dholds_r al xr (slab_get c (bref_of u yr))) <-> (drsat al c /\ deq (al xr) (al yr))).
  Proof.
    intros CW u Lx Ly Rx Ry Nxy Rk c4. pose proof CW as (W & Ch & Un & Br). fold u in W, Ch, Un, Br.
    destruct (ub_link_spec u xr yr W Lx Ly Rx Ry Nxy Rk) as (W4 & L4 & R4).
    set (u4 := ub_link u xr yr) in *.
    assert (Dn : forall e, e <> yr -> ub_data (ufget u4 e) = ub_data (ufget u e)) by (intros e Ne; apply ub_link_data_other; auto).
    assert (Dy : ub_data (ufget u4 yr) = UEq xr) by (apply ub_link_data_y; exact Ly).
    assert (Rt : forall e, is_uroot u4 e <-> (is_uroot u e /\ e <> yr)).
    { intros e. unfold is_uroot. destruct (Nat.eq_dec e yr) as [->|Ne].
      - rewrite Dy. split; [tauto|]. intros [_ N]. congruence.
      - rewrite (Dn e Ne). tauto. }
    assert (Bf : forall e, e <> yr -> bref_of u4 e = bref_of u e) by (intros e Ne; unfold bref_of; rewrite (Dn e Ne); reflexivity).
    assert (CW4 : cwf c4).
    { unfold cwf, c4. cbn [put_uf c_uf c_slab]. fold u4. split; [exact W4|]. split; [|split].
      - intros b x y H. rewrite L4. apply (Ch b x y). exact H.
      - intros e e' He He' Hr Hr' Eb. apply Rt in Hr, Hr'. rewrite (Bf e), (Bf e') in Eb by tauto.
        apply Un; try tauto; lia.
      - intros e He Hr. apply Rt in Hr. rewrite (Bf e) by tauto. apply Br; [lia|tauto]. }
    split; [exact CW4|]. split; [|split; [|split]].
    - unfold holds_ref, c4. cbn [put_uf c_uf]. fold u4. split; [lia|]. split; [apply Rt; auto|apply Bf; exact Nxy].
    - split; [exact CW4|]. unfold c4. cbn [put_uf c_uf c_slab]. fold u4. split; [exact L4|]. split; [reflexivity|].
      split; [apply slab_mono_same_slab; reflexivity|].
      intros e e' He He' H. fold u in He, He', H. rewrite (R4 e He), (R4 e' He'), H. reflexivity.
    - intros e He. unfold c4. cbn [put_uf c_uf]. apply R4. exact He.
    - intros al. unfold drsat, c4. cbn [put_uf c_uf c_slab]. fold u u4. rewrite L4.
      change (slab_get (mk_ctx (c_slab c) u4)) with (slab_get c).
      assert (Ryr : rep u yr = yr) by (apply rep_of_root; exact Ry).
      split.
      + intros [[H1 H2] Hy].
        assert (Ey : deq (al yr) (al xr)).
        { specialize (H1 yr Ly). rewrite (R4 yr Ly), Ryr, Nat.eqb_refl in H1. exact H1. }
        split; [split|apply deq_sym; exact Ey].
        * intros e He. specialize (H1 e He). rewrite (R4 e He) in H1.
          destruct (Nat.eqb_spec (rep u e) yr) as [->|Ne]; [|exact H1].
          eapply deq_trans; [exact H1|apply deq_sym; exact Ey].
        * intros e He Hr. destruct (Nat.eq_dec e yr) as [->|Ne].
          -- eapply dholds_r_transfer; [exact Ey|exact Hy].
          -- rewrite <- (Bf e Ne). apply H2; [exact He|]. apply Rt. auto.
      + intros [[H1 H2] E]. split; [split|].
        * intros e He. rewrite (R4 e He). specialize (H1 e He).
          destruct (Nat.eqb_spec (rep u e) yr) as [Eq|Ne]; [|exact H1].
          rewrite Eq in H1. eapply deq_trans; [exact H1|apply deq_sym; exact E].
        * intros e He Hr. apply Rt in Hr. rewrite (Bf e) by tauto. apply H2; tauto.
        * eapply dholds_r_transfer; [exact E|]. apply H2; assumption.
  Qed.

  (* ================================================================== unify, given the callback's specification *)

  Definition bind_spec (f : nat) : Prop := forall c b new eb, cwf c -> holds_ref c eb b ->
    bound_in (length (c_uf c)) new ->
    match bind f c b new with
    | Ok c' => post c c' /\ (forall al, drsat al c' <-> drsat al c /\ dholds_r al eb new)
    | Err _ => forall al, ~ (drsat al c /\ dholds_r al eb new)
    | _ => True
    end.

  Definition unify_spec (f : nat) : Prop := forall c x y, cwf c ->
    (x < length (c_uf c))%nat -> (y < length (c_uf c))%nat ->
    match ctx_unify f c x y with
    | Ok c' => post c c' /\ rep (c_uf c') x = rep (c_uf c') y /\
               (forall al, drsat al c' <-> drsat al c /\ deq (al x) (al y))
    | Err _ => forall al, ~ (drsat al c /\ deq (al x) (al y))
    | _ => True
    end.

  Lemma unify_of_bind f : bind_spec f -> unify_spec f.
  Proof.
    intros BS c x y CW Lx Ly. pose proof CW as (W & Ch & Un & Br).
    unfold ctx_unify, ub_unify. cbv zeta.
    destruct (root_element_ok (c_uf c) x W Lx) as (u1 & E1 & W1 & L1 & M1 & K1 & R1 & D1 & I1).
    rewrite E1. cbn [lift_unit obind].
    destruct (root_element_ok u1 y W1 ltac:(lia)) as (u2 & E2 & W2 & L2 & M2 & K2 & R2 & D2 & I2).
    rewrite E2. cbn [lift_unit obind].
    assert (P1 : same_part (c_uf c) u1) by (repeat split; auto).
    assert (P2 : same_part u1 u2) by (repeat split; auto).
    pose proof (same_part_trans _ _ _ P1 P2) as P12.
    assert (Ey : rep u1 y = rep (c_uf c) y) by (apply R1; exact Ly).
    rewrite Ey.
    set (xr := rep (c_uf c) x). set (yr := rep (c_uf c) y).
    destruct (rep_root _ x W Lx) as [Rx0 Lxr]. destruct (rep_root _ y W Ly) as [Ry0 Lyr]. fold xr in Rx0, Lxr. fold yr in Ry0, Lyr.
    pose proof (proj1 (same_part_root _ _ xr P12) Rx0) as Rx2. pose proof (proj1 (same_part_root _ _ yr P12) Ry0) as Ry2.
    rewrite (unwrap_root_root u2 xr Rx2), (unwrap_root_root u2 yr Ry2). cbn [lift_unit obind].
    set (c2 := put_uf c u2).
    pose proof (cwf_same_part c u2 CW P12) as CW2. fold c2 in CW2.
    pose proof (post_same_part c u2 CW P12) as Po2. fold c2 in Po2.
    assert (S2 : forall al, drsat al c2 <-> drsat al c) by (intros al; apply drsat_same_part; exact P12).
    assert (Len2 : length u2 = length (c_uf c)) by lia.
    assert (Rp2 : forall e, (e < length (c_uf c))%nat -> rep u2 e = rep (c_uf c) e) by (destruct P12 as (_ & _ & R & _); exact R).
    assert (Vxy : forall al, drsat al c -> deq (al x) (al xr) /\ deq (al y) (al yr)).
    { intros al Sa. split; [apply (drsat_rep al c x Sa Lx)|apply (drsat_rep al c y Sa Ly)]. }
    destruct (Nat.eqb (bref_of u2 xr) (bref_of u2 yr)) eqn:Eqb.
    { (* same representative *)
      apply Nat.eqb_eq in Eqb.
      assert (Exy : xr = yr) by (destruct CW2 as (_ & _ & Un2 & _); apply Un2; cbn [c2 put_uf c_uf]; auto; lia).
      split; [exact Po2|]. split; [cbn [c2 put_uf c_uf]; rewrite (Rp2 x Lx), (Rp2 y Ly); exact Exy|].
      intros al. rewrite S2. split; [|tauto]. intros Sa. split; [exact Sa|].
      destruct (Vxy al Sa) as [Vx Vy]. rewrite <- Exy in Vy. eapply deq_trans; [exact Vx|apply deq_sym; exact Vy]. }
    assert (Nxy : xr <> yr) by (intros Exy; rewrite Exy, Nat.eqb_refl in Eqb; discriminate).
    assert (Tail : forall xr' yr' (eqr : bool) (rx0 : N),
      (xr' < length u2)%nat -> (yr' < length u2)%nat -> is_uroot u2 xr' -> is_uroot u2 yr' -> xr' <> yr' ->
      (ub_rank (ufget u2 yr') <= ub_rank (ufget u2 xr'))%N ->
      eqr = N.eqb (ub_rank (ufget u2 xr')) (ub_rank (ufget u2 yr')) -> (eqr = true -> rx0 = ub_rank (ufget u2 xr')) ->
      ((xr' = xr /\ yr' = yr) \/ (xr' = yr /\ yr' = xr)) ->
      match
        (if (eqr && (rx0 =? usize_max)%N)%bool then Panic 3 else
          ' x_data <- @lift_unit ctx berr nat (unwrap_root (if eqr then set_rank u2 xr' (rx0 + 1) else u2) xr') ;;
          match ub_data (ufget (if eqr then set_rank u2 xr' (rx0 + 1) else u2) yr') with
          | URoot y_data =>
              match bind f (put_uf c (set_data (if eqr then set_rank u2 xr' (rx0 + 1) else u2) yr' (UEq xr'))) x_data
                      (slab_get (put_uf c (set_data (if eqr then set_rank u2 xr' (rx0 + 1) else u2) yr' (UEq xr'))) y_data)
              with
              | Ok st' => Ok st'
              | Err (e, st') => Err (e, put_uf st' (set_data (c_uf st') yr'
                                  (ub_data (ufget (if eqr then set_rank u2 xr' (rx0 + 1) else u2) yr'))))
              | Panic c0 => Panic c0
              | OutOfFuel => OutOfFuel
              end
          | UEq _ => Panic 4
          end)
      with
      | Ok c' => post c c' /\ rep (c_uf c') x = rep (c_uf c') y /\
                 (forall al : dval, drsat al c' <-> drsat al c /\ deq (al x) (al y))
      | Err _ => forall al : dval, ~ (drsat al c /\ deq (al x) (al y))
      | _ => True
      end).
    { intros xr' yr' eqr rx0 Lx' Ly' Rx' Ry' Nxy' Rk' Heq Hrx Cases.
      destruct (eqr && (rx0 =? usize_max)%N)%bool; [exact I|].
      assert (U4 : set_data (if eqr then set_rank u2 xr' (rx0 + 1) else u2) yr' (UEq xr') = ub_link u2 xr' yr').
      { unfold ub_link. rewrite <- Heq. destruct eqr; [rewrite (Hrx eq_refl)|]; reflexivity. }
      set (u3 := if eqr then set_rank u2 xr' (rx0 + 1) else u2) in *.
      assert (D3 : forall e, ub_data (ufget u3 e) = ub_data (ufget u2 e)).
      { intros e. unfold u3. destruct eqr; [|reflexivity]. apply set_rank_data. exact Lx'. }
      assert (Rx3 : is_uroot u3 xr') by (unfold is_uroot; rewrite D3; exact Rx').
      rewrite (unwrap_root_root u3 xr' Rx3). cbn [lift_unit obind].
      assert (B3 : bref_of u3 xr' = bref_of u2 xr') by (unfold bref_of; rewrite D3; reflexivity).
      rewrite B3, D3.
      assert (Dy : ub_data (ufget u2 yr') = URoot (bref_of u2 yr')).
      { unfold is_uroot in Ry'. unfold bref_of. destruct (ub_data (ufget u2 yr')); [reflexivity|tauto]. }
      rewrite Dy, U4.
      set (c4 := put_uf c (ub_link u2 xr' yr')).
      assert (LS : cwf c4 /\ holds_ref c4 xr' (bref_of u2 xr') /\ post c2 c4 /\
                   (forall e, (e < length u2)%nat -> rep (ub_link u2 xr' yr') e = if Nat.eqb (rep u2 e) yr' then xr' else rep u2 e) /\
                   (forall al, (drsat al c4 /\ dholds_r al xr' (slab_get c4 (bref_of u2 yr'))) <-> (drsat al c2 /\ deq (al xr') (al yr'))))
        by exact (link_state c2 xr' yr' CW2 Lx' Ly' Rx' Ry' Nxy' Rk').
      destruct LS as (CW4 & HR4 & Po4 & R4 & M4).
      assert (L4 : length (ub_link u2 xr' yr') = length u2) by (destruct Po4 as (_ & L4 & _); exact L4).
      pose proof (BS c4 (bref_of u2 xr') (slab_get c4 (bref_of u2 yr')) xr' CW4 HR4 (cwf_bound_in c4 _ CW4)) as B.
      assert (Mxy : forall al, drsat al c -> (deq (al xr') (al yr') <-> deq (al x) (al y))).
      { intros al Sa. destruct (Vxy al Sa) as [Vx Vy].
        destruct Cases as [[-> ->]|[-> ->]]; split; intros G.
        - eapply deq_trans; [exact Vx|]. eapply deq_trans; [exact G|apply deq_sym; exact Vy].
        - eapply deq_trans; [apply deq_sym; exact Vx|]. eapply deq_trans; [exact G|exact Vy].
        - eapply deq_trans; [exact Vx|]. eapply deq_trans; [apply deq_sym; exact G|apply deq_sym; exact Vy].
        - eapply deq_trans; [apply deq_sym; exact Vy|]. eapply deq_trans; [apply deq_sym; exact G|exact Vx]. }
      destruct (bind f c4 (bref_of u2 xr') (slab_get c4 (bref_of u2 yr'))) as [c'|[e st']| |]; try exact I.
      - destruct B as (Pc & Sc). split; [eapply post_trans; [exact Po2|]; eapply post_trans; [exact Po4|exact Pc]|].
        split.
        + destruct Pc as (_ & _ & _ & _ & Co). apply Co.
          * change (c_uf c4) with (ub_link u2 xr' yr'). lia.
          * change (c_uf c4) with (ub_link u2 xr' yr'). lia.
          * change (c_uf c4) with (ub_link u2 xr' yr'). rewrite (R4 x ltac:(lia)), (R4 y ltac:(lia)), (Rp2 x Lx), (Rp2 y Ly). fold xr yr.
            destruct Cases as [[-> ->]|[-> ->]].
            -- rewrite Nat.eqb_refl. destruct (Nat.eqb_spec xr yr); [contradiction|reflexivity].
            -- rewrite Nat.eqb_refl. destruct (Nat.eqb_spec yr xr); [reflexivity|reflexivity].
        + intros al. rewrite Sc, M4, S2. split; intros [Sa G]; (split; [exact Sa|]); apply (Mxy al Sa); exact G.
      - intros al [Sa G]. apply (B al). apply M4. split; [apply S2; exact Sa|]. apply (Mxy al Sa). exact G. }
    set (rx := ub_rank (ufget u2 xr)) in *. set (ry := ub_rank (ufget u2 yr)) in *.
    destruct (N.ltb rx ry) eqn:Lt.
    - apply N.ltb_lt in Lt.
      assert (Ne : N.eqb rx ry = false) by (apply N.eqb_neq; lia). rewrite Ne.
      apply (Tail yr xr false rx); auto; try lia; try discriminate.
      all: try (fold rx ry; lia).
      all: try (fold rx ry; symmetry; apply N.eqb_neq; lia).
    - apply N.ltb_ge in Lt.
      apply (Tail xr yr (N.eqb rx ry) rx); auto; try lia.
      all: try (fold rx ry; lia).
  Qed.

  (* ================================================================== the Sum/Sum and Product/Product arms *)

  Lemma struct_chain_spec f : unify_spec f -> forall c b eb s x1 x2 y1 y2, cwf c -> holds_ref c eb b ->
    slab_get c b = rpair s x1 x2 -> (y1 < length (c_uf c))%nat -> (y2 < length (c_uf c))%nat ->
    match struct_chain f c b s x1 x2 y1 y2 with
    | Ok c' => post c c' /\ (forall al, drsat al c' <-> drsat al c /\ dholds_r al eb (rpair s y1 y2))
    | Err _ => forall al, ~ (drsat al c /\ dholds_r al eb (rpair s y1 y2))
    | _ => True
    end.
  Proof.
    intros US c b eb s x1 x2 y1 y2 CW HR Eb Ly1 Ly2. pose proof CW as (W & Ch & Un & Br).
    assert (Lx : (x1 < length (c_uf c))%nat /\ (x2 < length (c_uf c))%nat).
    { apply (Ch b x1 x2). rewrite Eb. destruct s; auto. }
    destruct Lx as [Lx1 Lx2].
    (* the meaning of the new bound in models of c *)
    assert (Msem : forall al, drsat al c -> (dholds_r al eb (rpair s y1 y2) <-> deq (al x1) (al y1) /\ deq (al x2) (al y2))).
    { intros al Sa. pose proof (drsat_holds al c eb b Sa HR) as Hh. rewrite Eb, dholds_rpair in Hh. rewrite dholds_rpair.
      split.
      - intros G. apply (dpair_inj s). eapply deq_trans; [apply deq_sym; exact Hh|exact G].
      - intros [G1 G2]. eapply deq_trans; [exact Hh|]. apply dpair_cong; assumption. }
    unfold struct_chain.
    pose proof (US c x1 y1 CW Lx1 Ly1) as U1.
    destruct (ctx_unify f c x1 y1) as [c1|e1| |]; cbn [obind]; try exact I.
    2:{ intros al [Sa G]. apply (U1 al). split; [exact Sa|]. apply (Msem al Sa) in G. tauto. }
    destruct U1 as (P1 & Rq1 & S1). pose proof P1 as (CW1 & L1 & _ & _ & _).
    pose proof (US c1 x2 y2 CW1 ltac:(lia) ltac:(lia)) as U2.
    destruct (ctx_unify f c1 x2 y2) as [c2|e2| |]; cbn [obind]; try exact I.
    2:{ intros al [Sa G]. apply (Msem al Sa) in G. apply (U2 al). split; [|tauto]. apply S1. tauto. }
    destruct U2 as (P2 & Rq2 & S2). pose proof P2 as (CW2 & L2 & _ & _ & Co2).
    assert (Rq1' : rep (c_uf c2) x1 = rep (c_uf c2) y1) by (apply Co2; try lia; exact Rq1).
    pose proof CW2 as (W2 & _).
    unfold complete_pair_data.
    destruct (c_root_spec c2 y1 CW2 ltac:(lia)) as (ua & Ea & Pa). rewrite Ea. cbn [obind].
    pose proof (cwf_same_part c2 ua CW2 Pa) as CWa.
    assert (La : length ua = length (c_uf c2)) by (destruct Pa as (_ & L & _); exact L).
    destruct (c_root_spec (put_uf c2 ua) y2 CWa ltac:(cbn [put_uf c_uf]; lia)) as (ub & Eb2 & Pb). rewrite Eb2. cbn [obind].
    cbn [put_uf c_uf c_slab] in *.
    set (c3 := mk_ctx (c_slab c2) ub) in *.
    change (put_uf (put_uf c2 ua) ub) with c3 in *.
    pose proof (same_part_trans _ _ _ Pa Pb) as Pab.
    pose proof (post_same_part c2 ub CW2 Pab) as P3. change (put_uf c2 ub) with c3 in P3.
    assert (S3 : forall al, drsat al c3 <-> drsat al c2) by (intros al; apply (drsat_same_part al c2 ub Pab)).
    assert (P03 : post c c3) by (eapply post_trans; [exact P1|]; eapply post_trans; [exact P2|exact P3]).
    assert (Sem3 : forall al, drsat al c3 <-> drsat al c /\ dholds_r al eb (rpair s y1 y2)).
    { intros al. rewrite S3, S2, S1. split.
      - intros [[Sa G1] G2]. split; [exact Sa|]. apply (Msem al Sa). tauto.
      - intros [Sa G]. apply (Msem al Sa) in G. tauto. }
    assert (NoneCase : post c c3 /\ (forall al, drsat al c3 <-> drsat al c /\ dholds_r al eb (rpair s y1 y2))) by (split; assumption).
    set (r1 := rep (c_uf c2) y1) in *. set (r2 := rep ua y2) in *.
    destruct (rep_root (c_uf c2) y1 W2 ltac:(lia)) as [Rr1 Lr1]. fold r1 in Rr1, Lr1.
    assert (Er2 : r2 = rep (c_uf c2) y2) by (destruct Pa as (_ & _ & R & _); apply R; lia).
    destruct (rep_root (c_uf c2) y2 W2 ltac:(lia)) as [Rr2 Lr2]. rewrite <- Er2 in Rr2, Lr2.
    destruct (slab_get c3 (bref_of (c_uf c2) r1)) as [|d1|? ?|? ?] eqn:G1; try exact NoneCase.
    destruct (slab_get c3 (bref_of ua r2)) as [|d2|? ?|? ?] eqn:G2; try exact NoneCase.
    (* both children complete: the bound at b is completed *)
    cbn [obind]. unfold reassign_non_complete.
    pose proof P03 as (CW3 & L3 & Ls3 & Mo3 & Co3).
    pose proof (Mo3 b) as Mb. rewrite Eb in Mb.
    assert (Mb' : slab_get c3 b = rpair s x1 x2 \/ exists t, slab_get c3 b = RComplete t) by (destruct s; exact Mb).
    destruct Mb' as [Eb3|(t & Eb3)].
    2:{ rewrite Eb3. exact I. }
    assert (Eb3' : slab_get c3 b = rpair s x1 x2) by exact Eb3.
    destruct s; cbn [rpair] in Eb3; rewrite Eb3.
    all: change (c_slab c3) with (c_slab c3); change ub with (c_uf c3).
    all: assert (Rx1 : rep (c_uf c3) x1 = r1) by
      (change (c_uf c3) with ub; destruct Pab as (_ & _ & R & _); rewrite (R x1 ltac:(lia)); exact Rq1').
    all: assert (Rx2 : rep (c_uf c3) x2 = r2) by
      (change (c_uf c3) with ub; destruct Pab as (_ & _ & R & _); rewrite (R x2 ltac:(lia)), Er2; exact Rq2).
    all: assert (B1 : bref_of (c_uf c3) r1 = bref_of (c_uf c2) r1) by (apply (same_part_bref _ _ r1 Pab Rr1)).
    all: assert (B2 : bref_of (c_uf c3) r2 = bref_of ua r2) by
      (change (c_uf c3) with ub; apply (same_part_bref _ _ r2 Pb); apply (proj1 (same_part_root _ _ r2 Pa)); exact Rr2).
    - destruct (reassign_complete_equiv c3 b true x1 x2 d1 d2 CW3 Eb3') as [Pr Sr].
      + rewrite Rx1, B1. exact G1.
      + rewrite Rx2, B2. exact G2.
      + split; [eapply post_trans; [exact P03|exact Pr]|].
        intros al. rewrite Sr. apply Sem3.
    - destruct (reassign_complete_equiv c3 b false x1 x2 d1 d2 CW3 Eb3') as [Pr Sr].
      + rewrite Rx1, B1. exact G1.
      + rewrite Rx2, B2. exact G2.
      + split; [eapply post_trans; [exact P03|exact Pr]|].
        intros al. rewrite Sr. apply Sem3.
  Qed.

  (* existing complete, new incomplete of the same kind: the children of the new bound are bound *)
  Lemma comp_case_sem c b eb s y1 y2 c1 c2 (r : bres) : cwf c -> holds_ref c eb b ->
    slab_get c b = RComplete (tpair s c1 c2) ->
    match r with
    | Ok c' => post c c' /\ keeps_part c c' /\
               (forall al, drsat al c' <-> drsat al c /\ deq (al y1) (dof c1) /\ deq (al y2) (dof c2))
    | Err _ => forall al, ~ (drsat al c /\ deq (al y1) (dof c1) /\ deq (al y2) (dof c2))
    | _ => True
    end ->
    match r with
    | Ok c' => post c c' /\ (forall al, drsat al c' <-> drsat al c /\ dholds_r al eb (rpair s y1 y2))
    | Err _ => forall al, ~ (drsat al c /\ dholds_r al eb (rpair s y1 y2))
    | _ => True
    end.
  Proof.
    intros CW HR Eb H.
    assert (Msem : forall al, drsat al c -> (dholds_r al eb (rpair s y1 y2) <-> deq (al y1) (dof c1) /\ deq (al y2) (dof c2))).
    { intros al Sa. pose proof (drsat_holds al c eb b Sa HR) as Hh. rewrite Eb in Hh. cbn [dholds_r] in Hh.
      rewrite dof_tpair in Hh. rewrite dholds_rpair. split.
      - intros G. apply (dpair_inj s). eapply deq_trans; [apply deq_sym; exact G|exact Hh].
      - intros [G1 G2]. eapply deq_trans; [exact Hh|]. apply dpair_cong; apply deq_sym; assumption. }
    destruct r as [c'|e| |]; try exact I.
    - destruct H as (P & _ & S). split; [exact P|]. intros al. rewrite S. split; intros [Sa G]; (split; [exact Sa|]); apply (Msem al Sa); exact G.
    - intros al [Sa G]. apply (H al). split; [exact Sa|]. apply (Msem al Sa). exact G.
  Qed.

  Theorem bind_spec_all : forall f, bind_spec f.
  Proof.
    induction f as [|f IH]; [intros c b new eb _ _ _; exact I|].
    pose proof (unify_of_bind f IH) as US.
    pose proof (cc_of_bc f (bc_spec_all f)) as CC.
    intros c b new eb CW HR BI. pose proof CW as (W & Ch & Un & Br).
    destruct new as [|t|y1 y2|y1 y2].
    - assert (E : bind (S f) c b RFree = Ok c) by (rewrite bind_S; destruct (slab_get c b) as [|[|? ?|? ?]|? ?|? ?]; reflexivity).
      rewrite E. split; [apply post_refl; exact CW|]. intros al. cbn [dholds_r]. tauto.
    - pose proof (bc_spec_all (S f) c b t eb CW HR) as B.
      destruct (bind (S f) c b (RComplete t)) as [c'|e| |]; try exact I.
      + destruct B as (P & _ & S). split; [exact P|exact S].
      + exact B.
    - destruct BI as [Ly1 Ly2]. rewrite bind_S.
      destruct (slab_get c b) as [|ef|x1 x2|x1 x2] eqn:Eb.
      + unfold reassign_non_complete. rewrite Eb. apply (reassign_free_spec c b (RSum y1 y2) eb CW HR Eb). split; assumption.
      + destruct ef as [|c1 c2|c1 c2].
        * intros al [Sa G]. pose proof (drsat_holds al c eb b Sa HR) as Hh. rewrite Eb in Hh. cbn [dholds_r] in Hh, G. dclash Hh G.
        * exact (comp_case_sem c b eb true y1 y2 c1 c2 _ CW HR Eb (CC c y1 y2 c1 c2 CW Ly1 Ly2)).
        * intros al [Sa G]. pose proof (drsat_holds al c eb b Sa HR) as Hh. rewrite Eb in Hh. cbn [dholds_r] in Hh, G. dclash Hh G.
      + exact (struct_chain_spec f US c b eb true x1 x2 y1 y2 CW HR Eb Ly1 Ly2).
      + intros al [Sa G]. pose proof (drsat_holds al c eb b Sa HR) as Hh. rewrite Eb in Hh. cbn [dholds_r] in Hh, G. dclash Hh G.
    - destruct BI as [Ly1 Ly2]. rewrite bind_S.
      destruct (slab_get c b) as [|ef|x1 x2|x1 x2] eqn:Eb.
      + unfold reassign_non_complete. rewrite Eb. apply (reassign_free_spec c b (RProd y1 y2) eb CW HR Eb). split; assumption.
      + destruct ef as [|c1 c2|c1 c2].
        * intros al [Sa G]. pose proof (drsat_holds al c eb b Sa HR) as Hh. rewrite Eb in Hh. cbn [dholds_r] in Hh, G. dclash Hh G.
        * intros al [Sa G]. pose proof (drsat_holds al c eb b Sa HR) as Hh. rewrite Eb in Hh. cbn [dholds_r] in Hh, G. dclash Hh G.
        * exact (comp_case_sem c b eb false y1 y2 c1 c2 _ CW HR Eb (CC c y1 y2 c1 c2 CW Ly1 Ly2)).
      + intros al [Sa G]. pose proof (drsat_holds al c eb b Sa HR) as Hh. rewrite Eb in Hh. cbn [dholds_r] in Hh, G. dclash Hh G.
      + exact (struct_chain_spec f US c b eb false x1 x2 y1 y2 CW HR Eb Ly1 Ly2).
  Qed.

  Theorem unify_spec_all : forall f, unify_spec f.
  Proof. intros f. apply unify_of_bind. apply bind_spec_all. Qed.
End SlabDom.
