(* C04, phase 3 - construction orders given as lists (Run.valid_order / Run.permute / Run.pos_of, the form used by the
   harness and by ErrClass.class_order_statement) are renumberings in the sense of Order.v, so that Order.infer_order
   applies to them:
     valid_order_perm       a valid order is a permutation: perm_of n (pos_of order) (fun k => nth k order 0)
     permute_permuted       permute p order is p renumbered by pos_of order
     class_order_ok         for EVERY table and EVERY valid construction order: the reference accepts one iff it accepts
                            the other (class 0 on both sides or an error class on both sides), and then every node gets
                            the same arrow.  (Which error class is reported is class_order_statement, still open in
                            general.) *)
From RS Require Import Lib.Tac Lib.Outcome Ty.Ty Core.Prog Infer.Constraints Infer.Unify Infer.Infer
  Infer.Principal Infer.Gen Infer.Theorems Infer.Order Infer.Run Infer.Rational Infer.ErrClass Infer.SlabRun.
Import ListNotations.

Lemma valid_order_facts n order : valid_order n order = true ->
  length order = n /\ forall i, (i < n)%nat -> (pos_of order i < n)%nat /\ nth (pos_of order i) order 0%nat = i.
Proof.
  intros V. split.
  - unfold valid_order in V. apply andb_true_iff in V. destruct V as [VL _]. apply Nat.eqb_eq in VL. exact VL.
  - intros i Hi. apply (pos_of_valid n order i V Hi).
Qed.

Lemma NoDup_map_in {A B} (f : A -> B) l : (forall x y, In x l -> In y l -> f x = f y -> x = y) -> NoDup l -> NoDup (map f l).
Proof.
  intros Inj ND. induction ND as [|x l Hx ND IH]; cbn [map]; [constructor|].
  constructor.
  - intros Hin. apply in_map_iff in Hin. destruct Hin as (y & E & Hy).
    assert (y = x) by (apply Inj; [right; exact Hy|left; reflexivity|exact E]). subst y. contradiction.
  - apply IH. intros a b Ha Hb. apply Inj; right; assumption.
Qed.

(* an injective map of [0, n) into itself is onto *)
Lemma inj_onto n (f : nat -> nat) : (forall i, (i < n)%nat -> (f i < n)%nat) ->
  (forall i j, (i < n)%nat -> (j < n)%nat -> f i = f j -> i = j) ->
  forall k, (k < n)%nat -> exists i, (i < n)%nat /\ f i = k.
Proof.
  intros R Inj k Hk.
  assert (ND : NoDup (map f (seq 0 n))).
  { apply NoDup_map_in; [|apply seq_NoDup].
    intros x y Hx Hy E. apply in_seq in Hx, Hy. apply Inj; auto; lia. }
  assert (Inc : incl (map f (seq 0 n)) (seq 0 n)).
  { intros y Hy. apply in_map_iff in Hy. destruct Hy as (x & <- & Hx). apply in_seq in Hx. apply in_seq. pose proof (R x ltac:(lia)). lia. }
  assert (Inc' : incl (seq 0 n) (map f (seq 0 n))).
  { apply NoDup_length_incl; [exact ND|rewrite map_length; lia|exact Inc]. }
  specialize (Inc' k ltac:(apply in_seq; lia)). apply in_map_iff in Inc'. destruct Inc' as (i & E & Hi). apply in_seq in Hi.
  exists i. split; [lia|exact E].
Qed.

Theorem valid_order_perm n order : valid_order n order = true ->
  perm_of n (pos_of order) (fun k => nth k order 0%nat).
Proof.
  intros V. destruct (valid_order_facts n order V) as [L F].
  assert (Onto : forall k, (k < n)%nat -> exists i, (i < n)%nat /\ pos_of order i = k).
  { apply inj_onto; [intros i Hi; apply F; exact Hi|].
    intros i j Hi Hj E. destruct (F i Hi) as [_ E1]. destruct (F j Hj) as [_ E2]. rewrite E in E1. congruence. }
  constructor.
  - intros i Hi. apply F. exact Hi.
  - intros j Hj. destruct (Onto j Hj) as (i & Hi & <-). destruct (F i Hi) as [_ ->]. exact Hi.
  - intros i Hi. apply F. exact Hi.
  - intros j Hj. destruct (Onto j Hj) as (i & Hi & <-). destruct (F i Hi) as [_ ->]. reflexivity.
Qed.

Theorem permute_permuted p order : valid_order (length p) order = true -> permuted (pos_of order) p (permute p order).
Proof.
  intros V. destruct (valid_order_facts _ _ V) as [L _]. split.
  - unfold permute. rewrite map_length. exact L.
  - intros i Hi. apply (permute_nth p order (length p) i V Hi).
Qed.

Theorem class_order_ok : forall (jt : jet_table) (program : bool) (p : prog) (order : list nat),
  valid_order (length p) order = true -> wf_from 0 p = true -> wf_from 0 (permute p order) = true ->
  match infer jt (root_of program p (fun i => i)) p, infer jt (root_of program p (pos_of order)) (permute p order) with
  | Ok tau, Ok tau' => forall i, (i < length p)%nat -> nth (pos_of order i) tau' None = nth i tau None
  | Err _, Err _ => True
  | _, _ => False
  end.
Proof.
  intros jt program p order V W W'.
  destruct (Nat.eq_dec (length p) 0) as [N0|N0].
  - (* the empty table *)
    assert (Ep : p = []) by (destruct p; [reflexivity|cbn in N0; lia]).
    destruct (valid_order_facts _ _ V) as [L _]. rewrite N0 in L.
    assert (Eo : order = []) by (destruct order; [reflexivity|cbn in L; lia]).
    subst p order. destruct program; vm_compute; auto. intros i Hi. lia.
  - pose proof (infer_order jt (root_of program p (fun i => i)) p (permute p order) (pos_of order) (fun k => nth k order 0%nat)
                  (valid_order_perm _ _ V) (permute_permuted p order V) W W') as IO.
    assert (Er : option_map (pos_of order) (root_of program p (fun i => i)) = root_of program p (pos_of order))
      by (unfold root_of; destruct program; reflexivity).
    rewrite Er in IO. apply IO. intros r E. unfold root_of in E. destruct program; [|discriminate]. injection E as <-. lia.
Qed.

Corollary class_order_zero : forall (jt : jet_table) (program : bool) (p : prog) (order : list nat),
  valid_order (length p) order = true -> wf_from 0 p = true -> wf_from 0 (permute p order) = true ->
  (class_of (infer jt (root_of program p (pos_of order)) (permute p order)) = 0%N <->
   class_of (infer jt (root_of program p (fun i => i)) p) = 0%N).
Proof.
  intros jt program p order V W W'. pose proof (class_order_ok jt program p order V W W') as H.
  destruct (infer jt (root_of program p (fun i => i)) p) as [tau|e| |];
    destruct (infer jt (root_of program p (pos_of order)) (permute p order)) as [tau'|e'| |]; try contradiction;
    cbn [class_of]; try tauto.
  destruct e as [| | |]; destruct e' as [| | |]; cbn; split; intros E; try discriminate; try (destruct stage; discriminate); try (destruct stage0; discriminate).
Qed.
