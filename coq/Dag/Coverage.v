(* C18 - every reachable node's class is yielded, for congruent keys: nodes with the same
   sharing id have the same arity and pairwise children that are the same node or carry the
   same id (what a structural hash guarantees; trivially true of NoSharing and of pointer
   sharing).  Without congruence only the classes reachable through the yielded
   representatives are yielded (by design, see Acyclic.v: no unreferenced items). *)
From RS Require Import Lib.Tac Lib.Outcome Dag.DagModel Dag.PostOrderSpec Dag.PostOrderProps Dag.VisitFacts.
Import ListNotations.
Local Open Scope N_scope.

Section Coverage.
Variable children : nat -> dagnode.
Variable key : nat -> option N.
Hypothesis Hwf : wfc children.

Notation is_child := (is_child children).
Notation reach := (reach children).
Notation visit := (visit children key).
Notation ochild := (ochild children key).

Definition ceq (x y : nat) : Prop := x = y \/ exists k, key x = Some k /\ key y = Some k.

Definition shape_cong (a b : nat) : Prop :=
  match children a, children b with
  | Nul, Nul => True
  | Un x, Un y => ceq x y
  | Bin x1 x2, Bin y1 y2 => ceq x1 y1 /\ ceq x2 y2
  | _, _ => False
  end.

Definition key_congruent : Prop :=
  forall a b k, key a = Some k -> key b = Some k -> shape_cong a b.

Hypothesis Hcong : key_congruent.

Lemma cong_child a b y : shape_cong a b -> is_child b y -> exists y', is_child a y' /\ ceq y' y.
Proof.
  unfold shape_cong, VisitFacts.is_child.
  destruct (children a) as [|x|x1 x2], (children b) as [|z|z1 z2]; cbn; try contradiction.
  - intros _ [H|H]; discriminate.
  - intros Hc [[= <-]|H]; [|discriminate]. exists x. split; [left; reflexivity|exact Hc].
  - intros [H1 H2] [[= <-]|[= <-]]; [exists x1|exists x2]; split; auto.
Qed.

Lemma reach_inv b x : reach b x -> x = b \/ exists y, is_child b y /\ reach y x.
Proof. intros H. inversion H; subst; [left; reflexivity|right; eauto]. Qed.

(* the class of x has been yielded *)
Definition covered (m : tmap) (nodes : list nat) (x : nat) : Prop :=
  match key x with
  | Some k => tm_get m k <> None
  | None => In x nodes
  end.

(* everything below a node whose id is recorded is covered *)
Definition closed (m : tmap) (nodes : list nat) : Prop :=
  forall b k, key b = Some k -> tm_get m k <> None -> forall x, reach b x -> covered m nodes x.

Lemma tm_le_ne m m' k : tm_le m m' -> tm_get m k <> None -> tm_get m' k <> None.
Proof. intros Hle H. destruct (tm_get m k) as [j|] eqn:E; [|congruence]. rewrite (Hle _ _ E). discriminate. Qed.

Lemma covered_mono m m' nodes nodes' x :
  tm_le m m' -> incl nodes nodes' -> covered m nodes x -> covered m' nodes' x.
Proof.
  unfold covered. intros Hle Hi. destruct (key x); [apply tm_le_ne; exact Hle|apply Hi].
Qed.

Lemma visit_covers : forall h n, (n < h)%nat -> forall idx m nodes, closed m nodes ->
  let R := visit h n idx m in
  closed (r_trk R) (nodes ++ map it_node (r_out R)) /\
  forall x, reach n x -> covered (r_trk R) (nodes ++ map it_node (r_out R)) x.
Proof.
  induction h as [|h IH]; intros n Hn idx m nodes Hcl; [lia|].
  cbv zeta. rewrite (visit_unfold children key Hwf) by exact Hn.
  destruct (seen_before key m n) as [si|] eqn:Hs.
  { cbn [r_trk r_out map]. rewrite app_nil_r. split; [exact Hcl|].
    unfold seen_before in Hs. destruct (key n) as [k|] eqn:Hk; [|discriminate].
    intros x Hx. apply (Hcl n k Hk); [congruence|exact Hx]. }
  cbv zeta.
  assert (Hoc : forall oc i m0 nodes0, (match oc with Some c => is_child n c | None => True end) ->
            closed m0 nodes0 ->
            closed (c_trk (ochild h oc i m0)) (nodes0 ++ map it_node (c_out (ochild h oc i m0))) /\
            forall c x, oc = Some c -> reach c x ->
              covered (c_trk (ochild h oc i m0)) (nodes0 ++ map it_node (c_out (ochild h oc i m0))) x).
  { intros [c|] i m0 nodes0 Hc Hcl0; cbn [VisitFacts.ochild c_trk c_out].
    - pose proof (is_child_lt children Hwf _ _ Hc) as Hlt.
      destruct (IH c ltac:(lia) i m0 nodes0 Hcl0) as [H1 H2]. split; [exact H1|].
      intros c' x [= <-]. apply H2.
    - cbn [map]. rewrite app_nil_r. split; [exact Hcl0|]. intros c x H. discriminate. }
  assert (Hcl_ : match left_child_of (children n) with Some c => is_child n c | None => True end)
    by (destruct (left_child_of (children n)) eqn:E; [left; exact E|exact I]).
  assert (Hcr_ : match right_child_of (children n) with Some c => is_child n c | None => True end)
    by (destruct (right_child_of (children n)) eqn:E; [right; exact E|exact I]).
  set (l := ochild h (left_child_of (children n)) idx m).
  destruct (Hoc _ idx m nodes Hcl_ Hcl) as [Cl1 Cv1]. fold l in Cl1, Cv1.
  set (r := ochild h (right_child_of (children n)) (c_index l) (c_trk l)).
  destruct (Hoc _ (c_index l) (c_trk l) _ Hcr_ Cl1) as [Cl2 Cv2]. fold r in Cl2, Cv2.
  set (nodes2 := (nodes ++ map it_node (c_out l)) ++ map it_node (c_out r)) in *.
  assert (Hle12 : tm_le (c_trk l) (c_trk r)) by apply ochild_trk_le.
  (* every proper descendant of n is covered after the children *)
  assert (Hdesc : forall y x, is_child n y -> reach y x -> covered (c_trk r) nodes2 x).
  { intros y x [Hy|Hy] Hx.
    - eapply covered_mono; [exact Hle12| |apply (Cv1 y x Hy Hx)].
      subst nodes2. apply incl_appl, incl_refl.
    - apply (Cv2 y x Hy Hx). }
  set (F := finish key n (c_i l) (c_i r) (c_index r) (c_trk r)).
  cbn [r_trk r_out].
  replace (nodes ++ map it_node (c_out l ++ c_out r ++ r_out F)) with (nodes2 ++ map it_node (r_out F))
    by (subst nodes2; rewrite !map_app, <- !app_assoc; reflexivity).
  assert (HleF : tm_le (c_trk r) (r_trk F)) by apply finish_trk_le.
  assert (Hinc : incl nodes2 (nodes2 ++ map it_node (r_out F))) by (apply incl_appl, incl_refl).
  (* n itself is covered at the end *)
  assert (Hself : covered (r_trk F) (nodes2 ++ map it_node (r_out F)) n).
  { unfold covered. subst F. unfold finish, record. destruct (key n) as [k|] eqn:Hk.
    - destruct (tm_get (c_trk r) k) eqn:E; cbn [r_trk]; [congruence|].
      cbn [tm_get]. rewrite N.eqb_refl. discriminate.
    - cbn [r_out map it_node]. apply in_or_app. right. left. reflexivity. }
  assert (Hall : forall x, reach n x -> covered (r_trk F) (nodes2 ++ map it_node (r_out F)) x).
  { intros x Hx. apply reach_inv in Hx. destruct Hx as [->|(y & Hy & Hx)]; [exact Hself|].
    eapply covered_mono; [exact HleF|exact Hinc|apply (Hdesc y x Hy Hx)]. }
  split; [|exact Hall].
  intros b k Hkb Hg x Hx.
  destruct (finish_trk_new key n _ _ _ _ _ Hg) as [Hold|Hkn].
  - eapply covered_mono; [exact HleF|exact Hinc|apply (Cl2 b k Hkb Hold x Hx)].
  - (* b carries the id of n, which has just been recorded (or was): congruence *)
    apply reach_inv in Hx. destruct Hx as [->|(y & Hy & Hx)].
    + unfold covered. rewrite Hkb. exact Hg.
    + destruct (cong_child n b y (Hcong n b k Hkn Hkb) Hy) as (y' & Hy' & [->|(k' & Hk1 & Hk2)]).
      * apply Hall. eapply reach_step; eassumption.
      * pose proof (Hdesc y' y' Hy' (reach_refl children y')) as Hc. unfold covered in Hc. rewrite Hk1 in Hc.
        eapply covered_mono; [exact HleF|exact Hinc|apply (Cl2 y k' Hk2 Hc x Hx)].
Qed.

(* THEOREM: for congruent keys the class of every node reachable from the root is yielded:
   an item with the same sharing id, or - for a node without id - the node itself *)
Theorem po_covers_reachable : forall root x, reach root x ->
  exists it, In it (po_spec children key root) /\ same_class key x (it_node it).
Proof.
  intros root x Hx. unfold po_spec.
  assert (Hcl0 : closed [] []) by (intros b k _ H; cbn in H; congruence).
  destruct (visit_covers (S root) root ltac:(lia) 0 [] [] Hcl0) as [_ Hc]. specialize (Hc x Hx).
  cbn [app] in Hc. unfold covered, same_class in *.
  destruct (key x) as [k|] eqn:Hk.
  - destruct (proj1 (po_spec_inv children key Hwf root)) as [Hsound _ _ _ _].
    destruct (tm_get (r_trk (visit (S root) root 0 [])) k) as [j|] eqn:E; [|congruence].
    destruct (Hsound _ _ E) as (it & Hi & Hkey). exists it. split; [apply (item_at_In _ _ _ Hi)|exact Hkey].
  - apply in_map_iff in Hc. destruct Hc as (it & Hn & Hin). exists it. split; [exact Hin|exact Hn].
Qed.

End Coverage.

Lemma key_none_congruent children : key_congruent children key_none.
Proof. intros a b k H. discriminate. Qed.

Lemma key_ptr_congruent children : key_congruent children key_ptr.
Proof.
  intros a b k Ha Hb. unfold key_ptr in *. assert (a = b) by (apply Nnat.Nat2N.inj; congruence). subst b.
  unfold shape_cong. destruct (children a); cbn; repeat split; left; reflexivity.
Qed.
