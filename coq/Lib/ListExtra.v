(* Small list lemmas missing from the Coq 8.16 standard library. *)
From Coq Require Import List Arith Lia.
Import ListNotations.

Lemma skipn_add {A} (b : nat) : forall (a : nat) (l : list A), skipn a (skipn b l) = skipn (b + a) l.
Proof.
  induction b as [|b IH]; intros a l; [reflexivity|].
  destruct l as [|x r]; [rewrite !skipn_nil; reflexivity|].
  cbn [skipn Nat.add]. apply IH.
Qed.

Lemma firstn_In {A} (n : nat) : forall (l : list A) x, In x (firstn n l) -> In x l.
Proof.
  induction n as [|n IH]; intros l x H; [destruct H|].
  destruct l as [|a r]; [destruct H|]. cbn in H. destruct H as [H|H]; [left; exact H|right; apply IH; exact H].
Qed.

Lemma skipn_In {A} (n : nat) : forall (l : list A) x, In x (skipn n l) -> In x l.
Proof.
  induction n as [|n IH]; intros l x H; [exact H|].
  destruct l as [|a r]; [destruct H|]. right. apply IH. exact H.
Qed.
