(* Program descriptions shared by all program-level models (C01-C09, C12): a program is
   a node table in which every node refers only to nodes with smaller index and the
   root is the last node.  This is the same "PDL" the harness parses (harness/src/prog.rs)
   and tools/proggen.py generates; sharing = two references to the same index. *)
From RS Require Import Lib.Tac Lib.Outcome Lib.Bits Ty.Ty.
Import ListNotations.
Local Open Scope N_scope.

Inductive wit_spec :=
| WNone                                   (* witness node without value *)
| WCompact (bits : list bool)             (* compact bits, decoded at the inferred target type *)
| WTyped (t : ty) (bits : list bool).     (* explicitly typed value *)

Inductive node :=
| NIden
| NUnit
| NInjL (c : nat)
| NInjR (c : nat)
| NTake (c : nat)
| NDrop (c : nat)
| NComp (l r : nat)
| NCase (l r : nat)            (* a child may be an NHidden node: assertl / assertr *)
| NPair (l r : nat)
| NDisconnect (l : nat) (r : option nat)
| NHidden (cmr : list N)       (* 32 bytes *)
| NFail (entropy : list N)     (* 64 bytes *)
| NJet (family : N) (name_id : N)   (* family 0 = Core, 1 = Elements; index into the jet table *)
| NWord (n : nat) (bits : list bool)  (* 2^n bits *)
| NWitness (w : wit_spec).

Definition prog := list node.

Definition children (n : node) : list nat :=
  match n with
  | NInjL c | NInjR c | NTake c | NDrop c => [c]
  | NComp l r | NCase l r | NPair l r => [l; r]
  | NDisconnect l (Some r) => [l; r]
  | NDisconnect l None => [l]
  | _ => []
  end.

(* index well-formedness: children point backwards *)
Fixpoint wf_from (i : nat) (p : prog) : bool :=
  match p with
  | [] => true
  | n :: rest => forallb (fun c => Nat.ltb c i) (children n) && wf_from (S i) rest
  end.
Definition wf_prog (p : prog) : bool := negb (Nat.eqb (length p) 0) && wf_from 0 p.

(* types as flat numbers, prefix order: 0 = unit, 1 a b = sum, 2 a b = product,
   3 d = 2^(2^d).  Fuelled parser; returns the type and the unread numbers. *)
Fixpoint ty_of_nums (fuel : nat) (l : list N) : option (ty * list N) :=
  match fuel with
  | O => None
  | S f =>
      match l with
      | 0 :: r => Some (One, r)
      | 1 :: r => match ty_of_nums f r with
                  | Some (a, r1) => match ty_of_nums f r1 with
                                    | Some (b, r2) => Some (Sum a b, r2)
                                    | None => None
                                    end
                  | None => None
                  end
      | 2 :: r => match ty_of_nums f r with
                  | Some (a, r1) => match ty_of_nums f r1 with
                                    | Some (b, r2) => Some (Prod a b, r2)
                                    | None => None
                                    end
                  | None => None
                  end
      | 3 :: d :: r => Some (word_ty (N.to_nat d), r)
      | _ => None
      end
  end.

Fixpoint nums_of_ty (t : ty) : list N :=
  match t with
  | One => [0]
  | Sum a b => 1 :: nums_of_ty a ++ nums_of_ty b
  | Prod a b => 2 :: nums_of_ty a ++ nums_of_ty b
  end.

Fixpoint ty_size (t : ty) : nat :=
  match t with One => 1 | Sum a b | Prod a b => S (ty_size a + ty_size b) end.

Lemma ty_of_nums_of_ty t : forall fuel r, (ty_size t <= fuel)%nat ->
  ty_of_nums fuel (nums_of_ty t ++ r) = Some (t, r).
Proof.
  induction t as [|a IHa b IHb|a IHa b IHb]; intros fuel r H; destruct fuel as [|f]; cbn in H; try lia.
  - reflexivity.
  - cbn [nums_of_ty app ty_of_nums]. rewrite <- app_assoc, IHa by lia. rewrite IHb by lia. reflexivity.
  - cbn [nums_of_ty app ty_of_nums]. rewrite <- app_assoc, IHa by lia. rewrite IHb by lia. reflexivity.
Qed.

(* arrows reported by the implementation for every node: None for hidden nodes *)
Definition arrow := (ty * ty)%type.
Definition typed_prog := list (node * option arrow).
