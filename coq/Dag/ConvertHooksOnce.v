(* C18 - visit_node and convert_data are called exactly once per yielded item, in iteration order *)
From RS Require Import Lib.Tac Lib.Outcome Dag.DagModel Dag.PostOrderSpec Dag.PostOrderProps
  Dag.VisitFacts Dag.Convert Dag.ConvertProps Dag.ConvertOrder.
Import ListNotations.
Local Open Scope N_scope.

Definition is_hook (h : hook) (k : hook * po_item) : bool :=
  match h, fst k with
  | HVisit, HVisit | HWitness, HWitness | HDisconnect, HDisconnect | HPrune, HPrune | HData, HData => true
  | _, _ => false
  end.

Section Once.
Context {X W D : Type}.
Variable t : list (@snode X W D).

Lemma hooks_at_visit it sn : nth_error t (it_node it) = Some sn ->
  filter (is_hook HVisit) (hooks_at t it) = [(HVisit, it)] /\
  filter (is_hook HData) (hooks_at t it) = [(HData, it)].
Proof.
  intros Hn. unfold hooks_at. rewrite Hn. destruct (sn_inner sn); split; reflexivity.
Qed.

Lemma hooks_filter : forall items : list po_item,
  (forall it, In it items -> exists sn, nth_error t (it_node it) = Some sn) ->
  map snd (filter (is_hook HVisit) (flat_map (hooks_at t) items)) = items /\
  map snd (filter (is_hook HData) (flat_map (hooks_at t) items)) = items.
Proof.
  induction items as [|it r IH]; intros Hall; [split; reflexivity|].
  destruct (Hall it (or_introl eq_refl)) as (sn & Hn).
  destruct (hooks_at_visit it sn Hn) as [Hv Hd].
  destruct (IH (fun y Hy => Hall y (or_intror Hy))) as [IHv IHd].
  cbn [flat_map]. rewrite !filter_app, !map_app, Hv, Hd, IHv, IHd. split; reflexivity.
Qed.
End Once.

(* THEOREM: in a successful conversion the visit_node calls, taken in order, are exactly the
   yielded items, each once; the same for the convert_data calls *)
Theorem convert_hooks_once {X W D X' W' D' St Er : Type} (dis : X -> option nat)
    (cv : @converter X W X' W' D' St Er) key (t : list (@snode X W D)) :
  swf dis t -> forall root, (root < length t)%nat -> forall fuel s s' lg tbl,
  (po_fuel (src_children dis t) root <= fuel)%nat ->
  convert dis (logging cv) key t fuel root (s, []) = Ok ((s', lg), tbl) ->
  map snd (filter (is_hook HVisit) (map ev_key lg)) = po_spec (src_children dis t) key root /\
  map snd (filter (is_hook HData) (map ev_key lg)) = po_spec (src_children dis t) key root.
Proof.
  intros Hwf root Hroot fuel s s' lg tbl Hf H.
  rewrite (convert_order dis cv key t Hwf root Hroot fuel s s' lg tbl Hf H).
  apply hooks_filter. intros it Hin. apply (item_node_in dis key t Hwf root Hroot it Hin).
Qed.
