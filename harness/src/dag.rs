//! C18: the DAG iterators of src/dag.rs on table-backed DAGs.
//! Output format mirrors coq/Dag/Run.v (`run_dag`).
//!
//! case kinds
//!   dag  <root> <table> <mode> <keys> <max_depth>
//!        table     : nodes separated by ',' : `0` | `1:c` | `2:l:r` (children = smaller positions)
//!        mode      : 0 = dag::NoSharing, 1 = dag::InternalSharing (both from the library),
//!                    2 = KeyedSharing (harness tracker keyed by <keys>, the shape of MaxSharing)
//!        keys      : per node `x` (no sharing id) or a number, separated by ','  (`-` = none given)
//!        max_depth : `-` or a number (VerbosePreOrderIter)
//!   prog <root> <table>
//!        the same table built as a real CommitNode program (unit / injl / pair) with `Arc`
//!        sharing equal to the table, iterated with MaxSharing<Commit> (sharing id = IHR),
//!        InternalSharing and NoSharing; nodes are reported as table positions.
//!   progs <root> <table> <max_depth>
//!        as prog, but only MaxSharing and InternalSharing (for tables whose tree expansion is
//!        astronomically large: an iterator that expands shared nodes does not terminate there).
//!
//!   conv <root> <table> <mode> <keys> <hides> <failat>
//!        Node::convert on a DAG of a harness-defined marker built with Node::from_parts (no typing,
//!        all sixteen combinators).  table: nodes `k:a:b:pay` (k = combinator 0..15 in the order of
//!        `Inner`; a, b child positions, for disconnect b = right+1 | 0; pay = position whose CMR is
//!        the hidden CMR of an assertion / fail entropy byte / jet number / word byte / witness);
//!        mode 0 NoSharing, 1 InternalSharing, 2 MaxSharing<Src> with sharing ids <keys>;
//!        hides: one digit per node (0 neither, 1 left, 2 right) or `-`; failat: the k-th fallible
//!        hook call returns Err (0 = never).  The converter is instrumented: every hook call is
//!        logged with the item and the child pointers it is given.  Format: coq/Dag/RunConvert.v
//!        (`run_conv`), followed - on success - by one flag: 1 iff `Arc::ptr_eq` on all child
//!        pointers seen agrees with equality of the conversion index stored in the nodes.
//!   arc <root> <table> <mode> <keys> <max_depth> <marker>
//!        the combinator table of `conv` built with Node::from_parts for a marker whose disconnect data is
//!        o = Option<Arc<Node>> (b = right+1 | 0), a = Arc<Node> (right child required), n = NoDisconnect,
//!        s = Arc<str> (both: no right child): every Disconnectable impl.  The five observations of `dag`
//!        are taken twice: iterating by `&Node` (impl DagLike for &Node, disconnect_dag_ref) and by cloned
//!        `Arc<Node>` by value (impl DagLike for Arc<Node>, disconnect_dag_arc); mode 2 = MaxSharing<marker>.
//!   proga <root> <table> <max_depth>
//!        the program of `prog` iterated by value: Arc<CommitNode> under MaxSharing<Commit>, InternalSharing,
//!        NoSharing, then the ConstructNode DAG (before finalisation) by `&ConstructNode` and by
//!        Arc<ConstructNode> under InternalSharing.
//!   convp <root> <table>
//!        the unit/injl/pair CommitNode program of `prog`, converted with MaxSharing<Commit>,
//!        InternalSharing and NoSharing through the same instrumented converter.
//!
//! result: five sections  post, rtl, pre, verbose-pre, is_shared_as; a section is
//!   `0 <len> <items..>` or `9` (panic); post/rtl item = node index left+1|0 right+1|0;
//!   pre item = node; verbose item = node parent+1|0 index depth n_children_yielded complete;
//!   is_shared_as = `0 <bool>`.
use crate::util::*;
use simplicity::dag::{
    Dag, DagLike, InternalSharing, MaxSharing, NoSharing, PostOrderIterItem, PreOrderIterItem,
    SharingTracker,
};
use simplicity::jet::{Core, Jet};
use simplicity::node::{
    Commit, CommitNode, ConstructNode, Converter, CoreConstructible, Hide, Inner, Marker, Node,
};
use simplicity::{Cmr, FailEntropy, Word};
use simplicity::types;
use std::cell::RefCell;
use std::collections::hash_map::Entry;
use std::collections::HashMap;
use std::sync::Arc;

#[derive(Debug, Clone, Copy)]
pub enum Kind {
    Nul,
    Un(usize),
    Bin(usize, usize),
}

/// One entry of the node table; it knows its own position so that a tracker (which only
/// gets `&D`, possibly wrapped in `SwapChildren`) can find the node's key.
#[derive(Debug)]
pub struct Shape {
    id: usize,
    kind: Kind,
}

/// Table-backed DAG reference: (position, table) - the pattern decode.rs uses for
/// `(usize, &[DecodeNode])`.
#[derive(Clone, Copy, Debug)]
pub struct TD<'a>(usize, &'a [Shape]);

impl<'a> DagLike for TD<'a> {
    type Node = Shape;

    fn data(&self) -> &Shape {
        &self.1[self.0]
    }

    fn as_dag_node(&self) -> Dag<Self> {
        match self.1[self.0].kind {
            Kind::Nul => Dag::Nullary,
            Kind::Un(i) => Dag::Unary(TD(i, self.1)),
            Kind::Bin(i, j) => Dag::Binary(TD(i, self.1), TD(j, self.1)),
        }
    }
}

thread_local! {
    static KEYS: RefCell<Vec<Option<u64>>> = RefCell::new(Vec::new());
}

/// Sharing by a harness-supplied identity key per node (the shape of `MaxSharing`:
/// nodes without a key are never shared).
pub struct KeyedSharing {
    keys: Vec<Option<u64>>,
    map: HashMap<u64, usize>,
}

impl Default for KeyedSharing {
    fn default() -> Self {
        KeyedSharing {
            keys: KEYS.with(|k| k.borrow().clone()),
            map: HashMap::new(),
        }
    }
}

impl<D: DagLike<Node = Shape>> SharingTracker<D> for KeyedSharing {
    fn record(&mut self, d: &D, index: usize) -> Option<usize> {
        let id = self.keys[d.data().id]?;
        match self.map.entry(id) {
            Entry::Occupied(occ) => Some(*occ.get()),
            Entry::Vacant(vac) => {
                vac.insert(index);
                None
            }
        }
    }
    fn seen_before(&self, d: &D) -> Option<usize> {
        self.keys[d.data().id].and_then(|id| self.map.get(&id)).copied()
    }
}

fn parse_table(s: &str) -> Vec<Shape> {
    s.split(',')
        .enumerate()
        .map(|(id, t)| {
            let p: Vec<usize> = t.split(':').map(|x| x.parse().expect("number")).collect();
            let kind = match p[0] {
                0 => Kind::Nul,
                1 => Kind::Un(p[1]),
                2 => Kind::Bin(p[1], p[2]),
                _ => panic!("arity"),
            };
            Shape { id, kind }
        })
        .collect()
}

fn opt(o: Option<usize>) -> u64 {
    match o {
        Some(i) => i as u64 + 1,
        None => 0,
    }
}

fn section(v: Option<Vec<u64>>, width: usize) -> String {
    match v {
        Some(v) => {
            let mut out = vec![0u64, (v.len() / width) as u64];
            out.extend(v);
            join(&out)
        }
        None => "9".to_string(),
    }
}

/// The five observations for one DAG reference type `D`, tracker `S` (and the matching
/// tracker type `R` for the SwapChildren-wrapped iterator); `id` maps a node to its position.
fn observe<D, S, F>(root: D, max_depth: Option<usize>, id: F) -> String
where
    D: DagLike + Clone,
    S: SharingTracker<D> + SharingTracker<simplicity::dag::SwapChildren<D>> + Default,
    F: Fn(&D) -> usize + Copy,
{
    let item = |it: &PostOrderIterItem<D>, out: &mut Vec<u64>| {
        out.push(id(&it.node) as u64);
        out.push(it.index as u64);
        out.push(opt(it.left_index));
        out.push(opt(it.right_index));
    };
    let r1 = root.clone();
    let post = guarded(move || {
        let mut out = vec![];
        for it in r1.post_order_iter::<S>() {
            item(&it, &mut out);
        }
        out
    });
    let r2 = root.clone();
    let rtl = guarded(move || {
        let mut out = vec![];
        for it in r2.rtl_post_order_iter::<S>() {
            item(&it, &mut out);
        }
        out
    });
    let r3 = root.clone();
    let pre = guarded(move || {
        let mut out = vec![];
        for n in r3.pre_order_iter::<S>() {
            out.push(id(&n) as u64);
        }
        out
    });
    let r4 = root.clone();
    let vpre = guarded(move || {
        let mut out = vec![];
        for it in r4.verbose_pre_order_iter::<S>(max_depth) {
            let it: PreOrderIterItem<D> = it;
            out.push(id(&it.node) as u64);
            out.push(opt(it.parent.as_ref().map(id)));
            out.push(it.index as u64);
            out.push(it.depth as u64);
            out.push(it.n_children_yielded as u64);
            out.push(it.is_complete as u64);
        }
        out
    });
    let r5 = root;
    let isa = guarded(move || r5.is_shared_as::<S>());
    format!(
        "{} {} {} {} {}",
        section(post, 4),
        section(rtl, 4),
        section(pre, 1),
        section(vpre, 6),
        match isa {
            Some(b) => format!("0 {}", b as u64),
            None => "9".to_string(),
        }
    )
}

fn run_dag(t: &[&str]) -> String {
    let root: usize = t[0].parse().expect("root");
    let table = parse_table(t[1]);
    let mode: u32 = t[2].parse().expect("mode");
    let keys: Vec<Option<u64>> = if t[3] == "-" {
        vec![None; table.len()]
    } else {
        t[3].split(',')
            .map(|x| if x == "x" { None } else { Some(x.parse().expect("key")) })
            .collect()
    };
    let max_depth: Option<usize> = if t[4] == "-" {
        None
    } else {
        Some(t[4].parse().expect("depth"))
    };
    KEYS.with(|k| *k.borrow_mut() = keys);
    let d = TD(root, &table);
    let id = |n: &TD| n.0;
    match mode {
        0 => observe::<TD, NoSharing, _>(d, max_depth, id),
        1 => observe::<TD, InternalSharing, _>(d, max_depth, id),
        2 => observe::<TD, KeyedSharing, _>(d, max_depth, id),
        _ => panic!("mode"),
    }
}

/// Build the table as a real program: Nul -> unit, Un -> injl, Bin -> pair; every node has the
/// same source type, so any table is well-typed; `Arc` sharing = the table's sharing.
fn run_prog(t: &[&str], with_nosharing: bool) -> String {
    let root: usize = t[0].parse().expect("root");
    let table = parse_table(t[1]);
    let max_depth: Option<usize> = if t[2] == "-" {
        None
    } else {
        Some(t[2].parse().expect("depth"))
    };
    let res = guarded(|| {
        types::Context::with_context(|ctx| {
            let mut nodes: Vec<Arc<ConstructNode>> = Vec::with_capacity(table.len());
            for s in &table {
                let n = match s.kind {
                    Kind::Nul => Arc::<ConstructNode>::unit(&ctx),
                    Kind::Un(i) => Arc::<ConstructNode>::injl(&nodes[i]),
                    Kind::Bin(i, j) => {
                        Arc::<ConstructNode>::pair(&nodes[i], &nodes[j]).expect("pair")
                    }
                };
                nodes.push(n);
            }
            nodes[root].finalize_types_non_program().expect("finalize")
        })
    });
    let commit: Arc<CommitNode> = match res {
        Some(c) => c,
        None => return "9".to_string(),
    };
    // positions of the commit nodes: finalisation preserves the pointer structure of the part
    // reachable from the root; walk both structures in lock step (pointer sharing) to name them
    let mut names: HashMap<usize, usize> = HashMap::new();
    {
        let d = TD(root, &table);
        let a: Vec<usize> = d.post_order_iter::<InternalSharing>().map(|it| it.node.0).collect();
        let b: Vec<usize> = commit
            .as_ref()
            .post_order_iter::<InternalSharing>()
            .map(|it| it.node as *const _ as usize)
            .collect();
        if a.len() != b.len() {
            return format!("6 {} {}", a.len(), b.len());
        }
        for (x, y) in a.iter().zip(b.iter()) {
            names.insert(*y, *x);
        }
    }
    let names = &names;
    let id = move |n: &&CommitNode| names[&(*n as *const _ as usize)];
    let c: &CommitNode = commit.as_ref();
    if !with_nosharing {
        return format!(
            "{} {}",
            observe::<&CommitNode, MaxSharing<Commit>, _>(c, max_depth, id),
            observe::<&CommitNode, InternalSharing, _>(c, max_depth, id)
        );
    }
    format!(
        "{} {} {}",
        observe::<&CommitNode, MaxSharing<Commit>, _>(c, max_depth, id),
        observe::<&CommitNode, InternalSharing, _>(c, max_depth, id),
        observe::<&CommitNode, NoSharing, _>(c, max_depth, id)
    )
}

// ------------------------------------------------------------------ Node::convert
#[derive(Copy, Clone, PartialEq, Eq, PartialOrd, Ord, Debug, Hash)]
pub enum Src {}
impl Marker for Src {
    type CachedData = usize; // table position
    type Witness = u64;
    type Disconnect = Option<Arc<Node<Src>>>;
    type SharingId = u64;
    fn compute_sharing_id(_: Cmr, pos: &usize) -> Option<u64> {
        KEYS.with(|k| k.borrow()[*pos])
    }
}

#[derive(Copy, Clone, PartialEq, Eq, PartialOrd, Ord, Debug, Hash)]
pub enum Dst {}
impl Marker for Dst {
    type CachedData = usize; // index of the item the node was converted from
    type Witness = u64;
    type Disconnect = Option<Arc<Node<Dst>>>;
    type SharingId = u64;
    fn compute_sharing_id(_: Cmr, _: &usize) -> Option<u64> {
        None
    }
}

macro_rules! table_marker {
    ($name:ident, $disc:ty) => {
        #[derive(Copy, Clone, PartialEq, Eq, PartialOrd, Ord, Debug, Hash)]
        pub enum $name {}
        impl Marker for $name {
            type CachedData = usize;
            type Witness = u64;
            type Disconnect = $disc;
            type SharingId = u64;
            fn compute_sharing_id(_: Cmr, pos: &usize) -> Option<u64> {
                KEYS.with(|k| k.borrow()[*pos])
            }
        }
    };
}
table_marker!(SrcA, Arc<Node<SrcA>>);
table_marker!(SrcN, simplicity::node::NoDisconnect);
table_marker!(SrcS, Arc<str>);

const JETS: [Core; 4] = [Core::Add8, Core::Add16, Core::Verify, Core::Eq8];

/// Instrumented converter from any marker N to Dst.
struct Instr<'a, N: Marker> {
    pos: &'a dyn Fn(&Node<N>) -> usize,
    wit: &'a dyn Fn(&N::Witness) -> u64,
    cmr_id: &'a dyn Fn(Cmr) -> u64,
    pay: &'a dyn Fn(usize) -> u64,
    hides: &'a [u8],
    failat: u64,
    calls: u64,
    log: Vec<[u64; 7]>,
    rows: Vec<[u64; 8]>,
    seen: Vec<Arc<Node<Dst>>>,
    ptr_ok: bool,
}

impl<N: Marker> Instr<'_, N> {
    /// index of a converted node handed to a hook; checks pointer identity against it
    fn idx(&mut self, a: &Arc<Node<Dst>>) -> u64 {
        let i = *a.cached_data();
        let mut known = false;
        for s in &self.seen {
            let same_ptr = Arc::ptr_eq(s, a);
            if same_ptr != (*s.cached_data() == i) {
                self.ptr_ok = false;
            }
            known |= same_ptr;
        }
        if !known {
            self.seen.push(Arc::clone(a));
        }
        i as u64
    }
    fn ev(&mut self, hook: u64, d: &PostOrderIterItem<&Node<N>>, a: u64, b: u64) {
        let p = (self.pos)(d.node) as u64;
        self.log.push([hook, d.index as u64, p, opt(d.left_index), opt(d.right_index), a, b]);
    }
    fn fallible(&mut self, code: u64) -> Result<(), u64> {
        self.calls += 1;
        if self.calls == self.failat {
            Err(code)
        } else {
            Ok(())
        }
    }
}

impl<N: Marker> Converter<N, Dst> for Instr<'_, N> {
    type Error = u64;

    fn visit_node(&mut self, d: &PostOrderIterItem<&Node<N>>) {
        self.ev(0, d, 0, 0);
    }

    fn convert_witness(&mut self, d: &PostOrderIterItem<&Node<N>>, w: &N::Witness) -> Result<u64, u64> {
        self.ev(1, d, 0, 0);
        self.fallible(1)?;
        Ok((self.wit)(w) + 7)
    }

    fn convert_disconnect(
        &mut self,
        d: &PostOrderIterItem<&Node<N>>,
        mc: Option<&Arc<Node<Dst>>>,
        _: &N::Disconnect,
    ) -> Result<Option<Arc<Node<Dst>>>, u64> {
        let a = match mc {
            Some(x) => self.idx(x) + 1,
            None => 0,
        };
        self.ev(2, d, a, 0);
        self.fallible(2)?;
        Ok(mc.cloned())
    }

    fn prune_case(
        &mut self,
        d: &PostOrderIterItem<&Node<N>>,
        l: &Arc<Node<Dst>>,
        r: &Arc<Node<Dst>>,
    ) -> Result<Hide, u64> {
        let (a, b) = (self.idx(l) + 1, self.idx(r) + 1);
        self.ev(3, d, a, b);
        self.fallible(3)?;
        Ok(match self.hides.get((self.pos)(d.node)).copied().unwrap_or(0) {
            1 => Hide::Left,
            2 => Hide::Right,
            _ => Hide::Neither,
        })
    }

    fn convert_data(
        &mut self,
        d: &PostOrderIterItem<&Node<N>>,
        inner: Inner<&Arc<Node<Dst>>, &Option<Arc<Node<Dst>>>, &u64>,
    ) -> Result<usize, u64> {
        let p = (self.pos)(d.node);
        let k1 = |s: &mut Self, c: &Arc<Node<Dst>>| s.idx(c) + 1;
        // kind, kid1, kid2, pay, (cmr), xd, wd
        let row: [u64; 7] = match inner {
            Inner::Iden => [0, 0, 0, 0, 0, 0, 0],
            Inner::Unit => [1, 0, 0, 0, 0, 0, 0],
            Inner::InjL(c) => [2, k1(self, c), 0, 0, 0, 0, 0],
            Inner::InjR(c) => [3, k1(self, c), 0, 0, 0, 0, 0],
            Inner::Take(c) => [4, k1(self, c), 0, 0, 0, 0, 0],
            Inner::Drop(c) => [5, k1(self, c), 0, 0, 0, 0, 0],
            Inner::Comp(l, r) => [6, k1(self, l), k1(self, r), 0, 0, 0, 0],
            Inner::Case(l, r) => [7, k1(self, l), k1(self, r), 0, 0, 0, 0],
            Inner::AssertL(c, h) => [8, k1(self, c), 0, (self.cmr_id)(h) + 1, 0, 0, 0],
            Inner::AssertR(h, c) => [9, k1(self, c), 0, (self.cmr_id)(h) + 1, 0, 0, 0],
            Inner::Pair(l, r) => [10, k1(self, l), k1(self, r), 0, 0, 0, 0],
            Inner::Disconnect(c, x) => {
                let xd = match x {
                    Some(x) => self.idx(x) + 2,
                    None => 1,
                };
                [11, k1(self, c), 0, 0, 0, xd, 0]
            }
            Inner::Witness(w) => [12, 0, 0, 0, 0, 0, *w + 1],
            Inner::Fail(e) => [13, 0, 0, e.to_byte_array()[0] as u64 + 1, 0, 0, 0],
            Inner::Jet(_) => [14, 0, 0, (self.pay)(p) + 1, 0, 0, 0],
            Inner::Word(_) => [15, 0, 0, (self.pay)(p) + 1, 0, 0, 0],
        };
        self.ev(4, d, row[1], row[2]);
        self.fallible(4)?;
        // the node's own cmr is set by convert (checked on the result below); stand-in: the source's
        let cmr = (self.cmr_id)(d.node.cmr());
        self.rows.push([row[0], row[1], row[2], row[3], cmr, row[5], row[6], d.index as u64]);
        Ok(d.index)
    }
}

/// After a successful conversion: the cmr column from the result nodes themselves, pointer checks
/// over the whole result, then the canonical output.
fn conv_output<N: Marker>(ins: &mut Instr<'_, N>, res: Result<Arc<Node<Dst>>, u64>) -> String {
    let mut out: Vec<u64> = vec![];
    match res {
        Ok(root) => {
            let mut idxs = std::collections::HashSet::new();
            let nodes: Vec<&Node<Dst>> =
                root.as_ref().post_order_iter::<InternalSharing>().map(|it| it.node).collect();
            for n in nodes {
                let i = *n.cached_data();
                if !idxs.insert(i) {
                    ins.ptr_ok = false; // two result nodes (distinct pointers) for one item
                }
                if i < ins.rows.len() {
                    ins.rows[i][4] = (ins.cmr_id)(n.cmr());
                } else {
                    ins.ptr_ok = false;
                }
                match n.inner() {
                    Inner::InjL(c) | Inner::InjR(c) | Inner::Take(c) | Inner::Drop(c)
                    | Inner::AssertL(c, _) | Inner::AssertR(_, c) => {
                        ins.idx(c);
                    }
                    Inner::Comp(l, r) | Inner::Case(l, r) | Inner::Pair(l, r) => {
                        ins.idx(l);
                        ins.idx(r);
                    }
                    Inner::Disconnect(c, x) => {
                        ins.idx(c);
                        if let Some(x) = x {
                            ins.idx(x);
                        }
                    }
                    _ => {}
                }
            }
            if *root.cached_data() + 1 != ins.rows.len() {
                ins.ptr_ok = false; // the result is not the last converted node
            }
            out.push(0);
            out.push(ins.log.len() as u64);
            for e in &ins.log {
                out.extend_from_slice(e);
            }
            out.push(ins.rows.len() as u64);
            for r in &ins.rows {
                out.extend_from_slice(r);
            }
            out.push(ins.calls);
            out.push(ins.ptr_ok as u64);
        }
        Err(e) => {
            out.push(1);
            out.push(e);
            out.push(ins.log.len() as u64);
            for e in &ins.log {
                out.extend_from_slice(e);
            }
            out.push(ins.calls);
        }
    }
    join(&out)
}

struct CEntry {
    k: u64,
    a: usize,
    b: usize,
    pay: u64,
}

fn parse_ctable(s: &str) -> Vec<CEntry> {
    s.split(',')
        .map(|e| {
            let p: Vec<u64> = e.split(':').map(|x| x.parse().expect("number")).collect();
            CEntry { k: p[0], a: p[1] as usize, b: p[2] as usize, pay: p[3] }
        })
        .collect()
}

/// the combinator table as a DAG of marker M; `disc` makes the disconnect data from the right child
fn build_table<M>(
    table: &[CEntry],
    disc: &dyn Fn(Option<Arc<Node<M>>>) -> M::Disconnect,
) -> Vec<Arc<Node<M>>>
where
    M: Marker<CachedData = usize, Witness = u64>,
{
    let mut nodes: Vec<Arc<Node<M>>> = Vec::with_capacity(table.len());
    for (pos, e) in table.iter().enumerate() {
        let c = |i: usize| Arc::clone(&nodes[i]);
        let inner: Inner<Arc<Node<M>>, M::Disconnect, u64> = match e.k {
            0 => Inner::Iden,
            1 => Inner::Unit,
            2 => Inner::InjL(c(e.a)),
            3 => Inner::InjR(c(e.a)),
            4 => Inner::Take(c(e.a)),
            5 => Inner::Drop(c(e.a)),
            6 => Inner::Comp(c(e.a), c(e.b)),
            7 => Inner::Case(c(e.a), c(e.b)),
            8 => Inner::AssertL(c(e.a), nodes[e.pay as usize].cmr()),
            9 => Inner::AssertR(nodes[e.pay as usize].cmr(), c(e.a)),
            10 => Inner::Pair(c(e.a), c(e.b)),
            11 => Inner::Disconnect(c(e.a), disc(if e.b == 0 { None } else { Some(c(e.b - 1)) })),
            12 => Inner::Witness(e.pay),
            13 => Inner::Fail(FailEntropy::from_byte_array([e.pay as u8; 64])),
            14 => Inner::Jet(Box::new(JETS[e.pay as usize % 4]) as Box<dyn Jet>),
            _ => Inner::Word(Word::u8(e.pay as u8)),
        };
        nodes.push(Arc::new(Node::from_parts(inner, pos)));
    }
    nodes
}

/// by reference and by cloned Arc, under the tracker selected by `mode`
fn observe_both<M>(root: &Arc<Node<M>>, mode: u32, md: Option<usize>) -> String
where
    M: Marker<CachedData = usize, Witness = u64>,
{
    let idr = |n: &&Node<M>| *n.cached_data();
    let ida = |n: &Arc<Node<M>>| *n.cached_data();
    let r: &Node<M> = root.as_ref();
    let a: Arc<Node<M>> = Arc::clone(root);
    match mode {
        0 => format!(
            "{} {}",
            observe::<&Node<M>, NoSharing, _>(r, md, idr),
            observe::<Arc<Node<M>>, NoSharing, _>(a, md, ida)
        ),
        1 => format!(
            "{} {}",
            observe::<&Node<M>, InternalSharing, _>(r, md, idr),
            observe::<Arc<Node<M>>, InternalSharing, _>(a, md, ida)
        ),
        2 => format!(
            "{} {}",
            observe::<&Node<M>, MaxSharing<M>, _>(r, md, idr),
            observe::<Arc<Node<M>>, MaxSharing<M>, _>(a, md, ida)
        ),
        _ => panic!("mode"),
    }
}

fn run_arc(t: &[&str]) -> String {
    let root: usize = t[0].parse().expect("root");
    let table = parse_ctable(t[1]);
    let mode: u32 = t[2].parse().expect("mode");
    let keys: Vec<Option<u64>> = if t[3] == "-" {
        vec![None; table.len()]
    } else {
        t[3].split(',')
            .map(|x| if x == "x" { None } else { Some(x.parse().expect("key")) })
            .collect()
    };
    let md: Option<usize> = if t[4] == "-" { None } else { Some(t[4].parse().expect("depth")) };
    KEYS.with(|k| *k.borrow_mut() = keys);
    let r = guarded(|| match t[5] {
        "o" => observe_both::<Src>(&build_table::<Src>(&table, &|x| x)[root], mode, md),
        "a" => observe_both::<SrcA>(&build_table::<SrcA>(&table, &|x| x.expect("right child"))[root], mode, md),
        "n" => observe_both::<SrcN>(&build_table::<SrcN>(&table, &|_| simplicity::node::NoDisconnect)[root], mode, md),
        "s" => observe_both::<SrcS>(&build_table::<SrcS>(&table, &|_| Arc::from("hole"))[root], mode, md),
        _ => panic!("marker"),
    });
    r.unwrap_or_else(|| "9".to_string())
}

fn run_conv(t: &[&str]) -> String {
    let root: usize = t[0].parse().expect("root");
    let table: Vec<CEntry> = t[1]
        .split(',')
        .map(|e| {
            let p: Vec<u64> = e.split(':').map(|x| x.parse().expect("number")).collect();
            CEntry { k: p[0], a: p[1] as usize, b: p[2] as usize, pay: p[3] }
        })
        .collect();
    let mode: u32 = t[2].parse().expect("mode");
    let keys: Vec<Option<u64>> = if t[3] == "-" {
        vec![None; table.len()]
    } else {
        t[3].split(',')
            .map(|x| if x == "x" { None } else { Some(x.parse().expect("key")) })
            .collect()
    };
    let hides: Vec<u8> = if t[4] == "-" {
        vec![0; table.len()]
    } else {
        t[4].bytes().map(|c| c - b'0').collect()
    };
    let failat: u64 = t[5].parse().expect("failat");
    KEYS.with(|k| *k.borrow_mut() = keys);
    let r = guarded(|| {
        let mut nodes: Vec<Arc<Node<Src>>> = Vec::with_capacity(table.len());
        for (pos, e) in table.iter().enumerate() {
            let c = |i: usize| Arc::clone(&nodes[i]);
            let inner: Inner<Arc<Node<Src>>, Option<Arc<Node<Src>>>, u64> = match e.k {
                0 => Inner::Iden,
                1 => Inner::Unit,
                2 => Inner::InjL(c(e.a)),
                3 => Inner::InjR(c(e.a)),
                4 => Inner::Take(c(e.a)),
                5 => Inner::Drop(c(e.a)),
                6 => Inner::Comp(c(e.a), c(e.b)),
                7 => Inner::Case(c(e.a), c(e.b)),
                8 => Inner::AssertL(c(e.a), nodes[e.pay as usize].cmr()),
                9 => Inner::AssertR(nodes[e.pay as usize].cmr(), c(e.a)),
                10 => Inner::Pair(c(e.a), c(e.b)),
                11 => Inner::Disconnect(c(e.a), if e.b == 0 { None } else { Some(c(e.b - 1)) }),
                12 => Inner::Witness(e.pay),
                13 => Inner::Fail(FailEntropy::from_byte_array([e.pay as u8; 64])),
                14 => Inner::Jet(Box::new(JETS[e.pay as usize % 4]) as Box<dyn Jet>),
                _ => Inner::Word(Word::u8(e.pay as u8)),
            };
            nodes.push(Arc::new(Node::from_parts(inner, pos)));
        }
        let mut ids: HashMap<Cmr, u64> = HashMap::new();
        for (pos, n) in nodes.iter().enumerate() {
            ids.entry(n.cmr()).or_insert(pos as u64);
        }
        let cmr_id = |c: Cmr| ids.get(&c).copied().unwrap_or(999_999);
        let pos = |n: &Node<Src>| *n.cached_data();
        let wit = |w: &u64| *w;
        let pay = |p: usize| table[p].pay;
        let mut ins: Instr<Src> = Instr {
            pos: &pos,
            wit: &wit,
            cmr_id: &cmr_id,
            pay: &pay,
            hides: &hides,
            failat,
            calls: 0,
            log: vec![],
            rows: vec![],
            seen: vec![],
            ptr_ok: true,
        };
        let res = match mode {
            0 => nodes[root].convert::<NoSharing, Dst, _>(&mut ins),
            1 => nodes[root].convert::<InternalSharing, Dst, _>(&mut ins),
            2 => nodes[root].convert::<MaxSharing<Src>, Dst, _>(&mut ins),
            _ => panic!("mode"),
        };
        conv_output(&mut ins, res)
    });
    r.unwrap_or_else(|| "9".to_string())
}

/// the unit / injl / pair program iterated through `impl DagLike for Arc<Node<N>>`
fn run_proga(t: &[&str]) -> String {
    let root: usize = t[0].parse().expect("root");
    let table = parse_table(t[1]);
    let max_depth: Option<usize> = if t[2] == "-" { None } else { Some(t[2].parse().expect("depth")) };
    let res = guarded(|| {
        types::Context::with_context(|ctx| {
            let mut nodes: Vec<Arc<ConstructNode>> = Vec::with_capacity(table.len());
            for s in &table {
                let n = match s.kind {
                    Kind::Nul => Arc::<ConstructNode>::unit(&ctx),
                    Kind::Un(i) => Arc::<ConstructNode>::injl(&nodes[i]),
                    Kind::Bin(i, j) => {
                        Arc::<ConstructNode>::pair(&nodes[i], &nodes[j]).expect("pair")
                    }
                };
                nodes.push(n);
            }
            let mut cn: HashMap<usize, usize> = HashMap::new();
            for (i, n) in nodes.iter().enumerate() {
                cn.insert(Arc::as_ptr(n) as usize, i);
            }
            let cn = &cn;
            let idr = move |n: &&ConstructNode| cn[&(*n as *const _ as usize)];
            let ida = move |n: &Arc<ConstructNode>| cn[&(Arc::as_ptr(n) as usize)];
            let construct = format!(
                "{} {}",
                observe::<&ConstructNode, InternalSharing, _>(nodes[root].as_ref(), max_depth, idr),
                observe::<Arc<ConstructNode>, InternalSharing, _>(Arc::clone(&nodes[root]), max_depth, ida)
            );
            (nodes[root].finalize_types_non_program().expect("finalize"), construct)
        })
    });
    let (commit, construct): (Arc<CommitNode>, String) = match res {
        Some(c) => c,
        None => return "9".to_string(),
    };
    let mut names: HashMap<usize, usize> = HashMap::new();
    {
        let d = TD(root, &table);
        let a: Vec<usize> = d.post_order_iter::<InternalSharing>().map(|it| it.node.0).collect();
        let b: Vec<usize> = commit
            .as_ref()
            .post_order_iter::<InternalSharing>()
            .map(|it| it.node as *const _ as usize)
            .collect();
        if a.len() != b.len() {
            return format!("6 {} {}", a.len(), b.len());
        }
        for (x, y) in a.iter().zip(b.iter()) {
            names.insert(*y, *x);
        }
    }
    let names = &names;
    let id = move |n: &Arc<CommitNode>| names[&(Arc::as_ptr(n) as usize)];
    format!(
        "{} {} {} {}",
        observe::<Arc<CommitNode>, MaxSharing<Commit>, _>(Arc::clone(&commit), max_depth, id),
        observe::<Arc<CommitNode>, InternalSharing, _>(Arc::clone(&commit), max_depth, id),
        observe::<Arc<CommitNode>, NoSharing, _>(Arc::clone(&commit), max_depth, id),
        construct
    )
}

/// unit / injl / pair CommitNode program converted under the three library trackers
fn run_convp(t: &[&str]) -> String {
    let root: usize = t[0].parse().expect("root");
    let table = parse_table(t[1]);
    let res = guarded(|| {
        types::Context::with_context(|ctx| {
            let mut nodes: Vec<Arc<ConstructNode>> = Vec::with_capacity(table.len());
            for s in &table {
                let n = match s.kind {
                    Kind::Nul => Arc::<ConstructNode>::unit(&ctx),
                    Kind::Un(i) => Arc::<ConstructNode>::injl(&nodes[i]),
                    Kind::Bin(i, j) => {
                        Arc::<ConstructNode>::pair(&nodes[i], &nodes[j]).expect("pair")
                    }
                };
                nodes.push(n);
            }
            nodes[root].finalize_types_non_program().expect("finalize")
        })
    });
    let commit: Arc<CommitNode> = match res {
        Some(c) => c,
        None => return "9".to_string(),
    };
    let mut names: HashMap<usize, usize> = HashMap::new();
    let mut ids: HashMap<Cmr, u64> = HashMap::new();
    {
        let d = TD(root, &table);
        let a: Vec<usize> = d.post_order_iter::<InternalSharing>().map(|it| it.node.0).collect();
        let b: Vec<&CommitNode> =
            commit.as_ref().post_order_iter::<InternalSharing>().map(|it| it.node).collect();
        if a.len() != b.len() {
            return format!("6 {} {}", a.len(), b.len());
        }
        let mut pairs: Vec<(usize, &CommitNode)> = a.iter().copied().zip(b.iter().copied()).collect();
        pairs.sort_by_key(|p| p.0);
        for (x, y) in pairs {
            names.insert(y as *const _ as usize, x);
            ids.entry(y.cmr()).or_insert(x as u64);
        }
    }
    let mut out = vec![];
    for mode in 0..3 {
        let r = guarded(|| {
            let cmr_id = |c: Cmr| ids.get(&c).copied().unwrap_or(999_999);
            let pos = |n: &CommitNode| names[&(n as *const _ as usize)];
            let wit = |_: &simplicity::node::NoWitness| 0u64;
            let pay = |_: usize| 0u64;
            let mut ins: Instr<Commit> = Instr {
                pos: &pos,
                wit: &wit,
                cmr_id: &cmr_id,
                pay: &pay,
                hides: &[],
                failat: 0,
                calls: 0,
                log: vec![],
                rows: vec![],
                seen: vec![],
                ptr_ok: true,
            };
            let res = match mode {
                0 => commit.convert::<MaxSharing<Commit>, Dst, _>(&mut ins),
                1 => commit.convert::<InternalSharing, Dst, _>(&mut ins),
                _ => commit.convert::<NoSharing, Dst, _>(&mut ins),
            };
            conv_output(&mut ins, res)
        });
        out.push(r.unwrap_or_else(|| "9".to_string()));
    }
    out.join(" ")
}

pub fn run(t: &[&str]) -> String {
    match t[0] {
        "conv" => run_conv(&t[1..]),
        "arc" => run_arc(&t[1..]),
        "proga" => run_proga(&t[1..]),
        "convp" => run_convp(&t[1..]),
        "dag" => run_dag(&t[1..]),
        "prog" => run_prog(&t[1..], true),
        "progs" => run_prog(&t[1..], false),
        _ => panic!("unknown case kind"),
    }
}
