(* C16 - the hypotheses of the Bit Machine link (Policy/Bridge*.v) are satisfiable.

   A concrete instance: signatures, preimages and the sighash are laid out as big-endian numbers,
   the "hash" of one 32-byte block is the block itself (so h is its own preimage), a CTX8 value
   keeps the number of absorbed blocks (capped at 2) and the hash so far; the environment oracle
   [bx_env] is defined through these encodings and the machine-level jets [bx_cj] are functions on
   typed values.  For this instance [jets_agree] and [jets_typed] are proved, a truthful satisfier
   exists, Policy::satisfy returns a program for the example policy of Policy/Examples.v (a
   threshold over a key, an or of a hash and a timelock, an and of a relative timelock and a key),
   and the conclusion of C16_satisfy_runs_on_machine holds for it with the limit check
   discharged by computation. *)
From Coq Require Import Permutation Sorted.
From RS Require Import Lib.Tac Lib.Outcome Lib.Bits Ty.Ty.
From RS Require Core.Prog Core.Term Core.Typing Core.Sem Core.Bounds Core.Limits Core.Machine.
From RS Require Import Policy.PolicyAst Policy.Sort Policy.Compile Policy.Satisfy Policy.Sem Policy.Cost
  Policy.Run Policy.Examples Policy.Bridge Policy.BridgeSat Policy.BridgeMachine.
Import ListNotations.
Local Open Scope N_scope.

(* ------------------------------------------------------------------ words *)
Definition word_num (k : nat) (a : sval) : N := val_be (padded_enc (word_ty k) a).

Lemma padded_enc_of_padded_word k : forall l, length l = N.to_nat (width (word_ty k)) ->
  padded_enc (word_ty k) (of_padded (word_ty k) l) = l.
Proof.
  induction k as [|k IH]; intros l Hl.
  - cbn in Hl. destruct l as [|b [|? ?]]; try discriminate. destruct b; reflexivity.
  - change (word_ty (S k)) with (Prod (word_ty k) (word_ty k)) in *. cbn [width] in Hl.
    cbn [of_padded padded_enc]. rewrite !IH.
    + apply firstn_skipn.
    + rewrite skipn_length. lia.
    + rewrite firstn_length. lia.
Qed.

Lemma word_num_sval bits x : is_pow2 bits = true -> x < 2 ^ bits ->
  word_num (lg bits) (word_sval bits x) = x.
Proof.
  intros Hp Hx. unfold word_num, word_sval.
  rewrite padded_enc_of_padded_word by (rewrite bits_be_length, (is_pow2_width _ Hp); reflexivity).
  rewrite val_be_bits_be, N2Nat.id. apply N.mod_small. exact Hx.
Qed.

Lemma word_num_lt k a : has_ty a (word_ty k) = true -> word_num k a < 2 ^ (2 ^ N.of_nat k).
Proof.
  intros Ha. unfold word_num, val_be.
  pose proof (val_be_acc_bound (padded_enc (word_ty k) a) 0) as Hb.
  rewrite (padded_enc_length _ _ Ha), width_word, N2Nat.id in Hb. lia.
Qed.

(* ------------------------------------------------------------------ the instance *)
Definition bx_sig_bits (k : N) : list bool := bits_be 512 k.
Definition bx_pre_bits (h : N) : list bool := bits_be 256 h.
Definition bx_msg : N := 1311768467463790320.
Definition bx_msg_bits : list bool := bits_be 256 bx_msg.

(* encodings of values that contain no context (everything of a word type) *)
Definition enc0 : val -> sval := enc bx_sig_bits bx_pre_bits bx_msg_bits (fun _ => SU).

(* the "hash": one block hashes to itself *)
Definition bx_sha (l : list val) : N :=
  match l with [x] => word_num 8 (enc0 x) | _ => 0 end.

Definition bx_ctx (count h : N) : sval :=
  SP (szero (buf_ty 5)) (SP (word_sval 64 count) (word_sval 256 h)).
Definition bx_ctx_sval (l : list val) : sval := bx_ctx (N.min (N.of_nat (length l)) 2) (bx_sha l).

Definition bx_enc : val -> sval := enc bx_sig_bits bx_pre_bits bx_msg_bits bx_ctx_sval.

Definition bx_env (height distance : N) : envo :=
  {| e_verify := fun k m sg => (word_num 9 (enc0 sg) =? k) && (word_num 8 (enc0 m) =? bx_msg);
     e_lock_height := height;
     e_lock_distance := distance;
     e_sha := bx_sha |}.

Definition bit_sval (b : bool) : sval := if b then SR SU else SL SU.

(* the machine-level jets, indexed by [jet_code] *)
Definition bx_cj (height distance : N) (j : N) (a : sval) : option sval :=
  match j with
  | 0 => Some (of_padded W256 bx_msg_bits)
  | 1 => match a with
         | SP (SP k m) sg =>
             if (word_num 9 sg =? word_num 8 k) && (word_num 8 m =? bx_msg) then Some SU else None
         | _ => None
         end
  | 2 => if word_num 5 a <=? height then Some SU else None
  | 3 => if word_num 4 a <=? distance then Some SU else None
  | 4 => Some (bx_ctx 0 0)
  | 5 => match a with
         | SP (SP _ (SP c _)) x =>
             if word_num 6 c =? 0 then Some (bx_ctx 1 (word_num 8 x)) else Some (bx_ctx 2 0)
         | _ => None
         end
  | 6 => match a with SP _ (SP _ m) => Some m | _ => None end
  | 7 => match a with SR SU => Some SU | _ => None end
  | 8 => match a with SP x y => Some (bit_sval (word_num 8 x =? word_num 8 y)) | _ => None end
  | 9 => match a with SP x y => Some (bit_sval (word_num 5 x =? word_num 5 y)) | _ => None end
  | 10 => match a with
          | SP x y => let s := word_num 5 x + word_num 5 y in
                      Some (SP (bit_sval (2 ^ 32 <=? s)) (word_sval 32 (s mod 2 ^ 32)))
          | _ => None
          end
  | _ => None
  end.

Definition all_jets : list jet :=
  [SigAllHash; Bip0340Verify; CheckLockHeight; CheckLockDistance; Sha256Ctx8Init; Sha256Ctx8Add32;
   Sha256Ctx8Finalize; Verify; Eq256; Eq32; Add32].

Definition bx_cj_ty (j : N) : option Prog.arrow :=
  match find (fun x => jet_code x =? j) all_jets with
  | Some x => Some (jsrc x, jtgt x)
  | None => None
  end.

Lemma bx_jets_ty j : bx_cj_ty (jet_code j) = Some (jsrc j, jtgt j).
Proof. destruct j; reflexivity. Qed.

Lemma bx_sig_len k : length (bx_sig_bits k) = 512%nat.
Proof. apply bits_be_length. Qed.
Lemma bx_pre_len h : length (bx_pre_bits h) = 256%nat.
Proof. apply bits_be_length. Qed.

(* ------------------------------------------------------------------ facts about the encodings *)
(* a value of a word type contains no context: both encodings agree on it *)
Lemma ty_eqb_One_word n : ty_eqb One (word_ty n) = false.
Proof. destruct n; reflexivity. Qed.

Lemma vwt_One x : vwt x One = true -> x = VUnit.
Proof.
  destruct x; cbn [vwt]; intros Hv; try discriminate Hv; try reflexivity.
  rewrite ty_eqb_One_word, andb_false_r in Hv. discriminate Hv.
Qed.

Lemma enc0_word x : forall n, vwt x (word_ty n) = true -> enc0 x = bx_enc x.
Proof.
  induction x; intros n Hv; try reflexivity.
  - destruct n as [|n]; [|change (word_ty (S n)) with (Prod (word_ty n) (word_ty n)) in Hv; discriminate Hv].
    change (word_ty 0) with (Sum One One) in Hv. cbn [vwt] in Hv. rewrite (vwt_One _ Hv). reflexivity.
  - destruct n as [|n]; [|change (word_ty (S n)) with (Prod (word_ty n) (word_ty n)) in Hv; discriminate Hv].
    change (word_ty 0) with (Sum One One) in Hv. cbn [vwt] in Hv. rewrite (vwt_One _ Hv). reflexivity.
  - destruct n as [|n]; [discriminate Hv|]. change (word_ty (S n)) with (Prod (word_ty n) (word_ty n)) in Hv.
    cbn [vwt] in Hv. apply andb_true_iff in Hv. destruct Hv as [H1 H2].
    unfold enc0, bx_enc in *. cbn [enc]. rewrite (IHx1 _ H1), (IHx2 _ H2). reflexivity.
  - exfalso. cbn [vwt] in Hv. apply ty_eqb_eq in Hv. destruct n as [|n]; [discriminate Hv|].
    change (word_ty (S n)) with (Prod (word_ty n) (word_ty n)) in Hv. unfold Ctx8 in Hv.
    injection Hv as H1 H2. rewrite H1 in H2. cbn [buf_ty] in H2. injection H2 as H3 _.
    unfold option_ty, W64 in H3. discriminate H3.
Qed.

Lemma vwt_VW t bits x : vwt (VW bits x) t = true ->
  is_pow2 bits = true /\ x < 2 ^ bits /\ t = word_ty (lg bits).
Proof.
  cbn [vwt]. intros Hv. apply andb_true_iff in Hv. destruct Hv as [Hv Ht].
  apply andb_true_iff in Hv. destruct Hv as [Hp Hx]. apply N.ltb_lt in Hx. apply ty_eqb_eq in Ht. auto.
Qed.

Lemma bx_ctx_has_ty c h : has_ty (bx_ctx c h) Ctx8 = true.
Proof.
  unfold bx_ctx, Ctx8. cbn [has_ty]. rewrite szero_has_ty. unfold word_sval.
  rewrite !of_padded_has_ty; auto; rewrite bits_be_length; reflexivity.
Qed.

Lemma bx_enc_has_ty v t : vwt v t = true -> has_ty (bx_enc v) t = true.
Proof.
  apply (@vwt_has_ty bx_sig_bits bx_pre_bits bx_msg_bits bx_ctx_sval bx_sig_len bx_pre_len).
  - apply bits_be_length.
  - intros l. apply bx_ctx_has_ty.
Qed.

Lemma bit_sval_enc b : bit_sval b = bx_enc (vbit b).
Proof. destruct b; reflexivity. Qed.

Lemma bx_sha_lt l : (forall x, l = [x] -> vwt x W256 = true) -> bx_sha l < 2 ^ 256.
Proof.
  intros Hl. unfold bx_sha. destruct l as [|x [|y r]]; try (cbn; lia).
  specialize (Hl x eq_refl). rewrite (enc0_word x 8 Hl).
  apply (word_num_lt 8). apply bx_enc_has_ty. exact Hl.
Qed.

(* 32- and 256-bit words in the abstract values are below their bound *)
Ltac vw H := apply vwt_VW in H; destruct H as (? & ? & ?).

(* ------------------------------------------------------------------ inversion of the policy-level jets *)
Ltac pos_inv H :=
  repeat match goal with p : positive |- _ => destruct p as [p|p|]; try discriminate H end.

Lemma bip_inv e v u : jet_sem e Bip0340Verify v = Some u ->
  exists k m sg, v = VP (VP (VW 256 k) m) sg /\ e_verify e k m sg = true /\ u = VUnit.
Proof.
  intros Hj. destruct v as [| | |[| | |[| | | |bits k| | | |] m| | | | |] sg| | | | |]; try discriminate Hj.
  destruct bits as [|p]; try discriminate Hj. pos_inv Hj. cbn [jet_sem] in Hj.
  destruct (e_verify e k m sg) eqn:E; [|discriminate Hj]. injection Hj as <-. eauto 6.
Qed.

Lemma lock_height_inv e v u : jet_sem e CheckLockHeight v = Some u ->
  exists n, v = VW 32 n /\ (n <=? e_lock_height e) = true /\ u = VUnit.
Proof.
  intros Hj. destruct v as [| | | |bits n| | | |]; try discriminate Hj.
  destruct bits as [|p]; try discriminate Hj. pos_inv Hj. cbn [jet_sem] in Hj.
  destruct (n <=? e_lock_height e) eqn:E; [|discriminate Hj]. injection Hj as <-. eauto.
Qed.

Lemma lock_distance_inv e v u : jet_sem e CheckLockDistance v = Some u ->
  exists n, v = VW 16 n /\ (n <=? e_lock_distance e) = true /\ u = VUnit.
Proof.
  intros Hj. destruct v as [| | | |bits n| | | |]; try discriminate Hj.
  destruct bits as [|p]; try discriminate Hj. pos_inv Hj. cbn [jet_sem] in Hj.
  destruct (n <=? e_lock_distance e) eqn:E; [|discriminate Hj]. injection Hj as <-. eauto.
Qed.

Lemma eq256_inv e v u : jet_sem e Eq256 v = Some u -> exists x y, v = VP (VW 256 x) (VW 256 y).
Proof.
  intros Hj. destruct v as [| | |[| | | |b1 x| | | |] v2| | | | |]; try discriminate Hj.
  destruct b1 as [|p]; [discriminate Hj|]. pos_inv Hj.
  destruct v2 as [| | | |b2 y| | | |]; try discriminate Hj.
  destruct b2 as [|p]; [discriminate Hj|]. pos_inv Hj. eauto.
Qed.

Lemma eq32_inv e v u : jet_sem e Eq32 v = Some u -> exists x y, v = VP (VW 32 x) (VW 32 y).
Proof.
  intros Hj. destruct v as [| | |[| | | |b1 x| | | |] v2| | | | |]; try discriminate Hj.
  destruct b1 as [|p]; [discriminate Hj|]. pos_inv Hj.
  destruct v2 as [| | | |b2 y| | | |]; try discriminate Hj.
  destruct b2 as [|p]; [discriminate Hj|]. pos_inv Hj. eauto.
Qed.

Lemma add32_inv e v u : jet_sem e Add32 v = Some u -> exists x y, v = VP (VW 32 x) (VW 32 y).
Proof.
  intros Hj. destruct v as [| | |[| | | |b1 x| | | |] v2| | | | |]; try discriminate Hj.
  destruct b1 as [|p]; [discriminate Hj|]. pos_inv Hj.
  destruct v2 as [| | | |b2 y| | | |]; try discriminate Hj.
  destruct b2 as [|p]; [discriminate Hj|]. pos_inv Hj. eauto.
Qed.

(* ------------------------------------------------------------------ the same oracle on both sides *)
Theorem bx_jets_agree height distance :
  jets_agree bx_sig_bits bx_pre_bits bx_msg_bits bx_ctx_sval jet_code (bx_env height distance) (bx_cj height distance).
Proof.
  intros j v u Hv Hj. fold bx_enc. destruct j; cbn [jsrc jtgt jet_code bx_cj] in *.
  - (* sig_all_hash *) destruct v; try discriminate. injection Hj as <-. split; reflexivity.
  - (* bip_0340_verify *)
    destruct (@bip_inv _ _ _ Hj) as (k & m & sg & -> & Ev & ->).
    cbn [vwt] in Hv. apply andb_true_iff in Hv. destruct Hv as [Hv Hsg].
    apply andb_true_iff in Hv. destruct Hv as [Hk Hm]. vw Hk.
    cbn [e_verify bx_env] in Ev. cbn [bx_enc enc]. fold bx_enc.
    rewrite (enc0_word sg 9 Hsg), (enc0_word m 8 Hm) in Ev.
    change (word_num 8 (word_sval 256 k)) with (word_num (lg 256) (word_sval 256 k)).
    rewrite word_num_sval by assumption. rewrite Ev. split; reflexivity.
  - (* check_lock_height *)
    destruct (@lock_height_inv _ _ _ Hj) as (n & -> & El & ->). vw Hv. cbn [e_lock_height bx_env] in El.
    cbn [bx_enc enc]. change (word_num 5 (word_sval 32 n)) with (word_num (lg 32) (word_sval 32 n)).
    rewrite word_num_sval by assumption. rewrite El. split; reflexivity.
  - (* check_lock_distance *)
    destruct (@lock_distance_inv _ _ _ Hj) as (n & -> & El & ->). vw Hv. cbn [e_lock_distance bx_env] in El.
    cbn [bx_enc enc]. change (word_num 4 (word_sval 16 n)) with (word_num (lg 16) (word_sval 16 n)).
    rewrite word_num_sval by assumption. rewrite El. split; reflexivity.
  - (* sha_256_ctx_8_init *) destruct v; try discriminate. injection Hj as <-. split; reflexivity.
  - (* sha_256_ctx_8_add_32 *)
    destruct v as [| | |[| | | | | | | |l] x| | | | |]; try discriminate. injection Hj as <-.
    cbn [vwt] in Hv. apply andb_true_iff in Hv. destruct Hv as [_ Hx].
    cbn [bx_enc enc]. fold bx_enc. unfold bx_ctx_sval at 1, bx_ctx at 1.
    change (word_num 6 (word_sval 64 (N.min (N.of_nat (length l)) 2)))
      with (word_num (lg 64) (word_sval 64 (N.min (N.of_nat (length l)) 2))).
    rewrite word_num_sval by (try reflexivity; lia).
    split; [|reflexivity]. f_equal. unfold bx_ctx_sval. rewrite app_length. cbn [length].
    destruct l as [|y r].
    + cbn [length app Nat.add N.of_nat]. change (N.min 0 2) with 0. change (N.min (N.of_nat 1) 2) with 1. cbn [N.eqb].
      unfold bx_sha. rewrite (enc0_word x 8 Hx). reflexivity.
    + replace (N.min (N.of_nat (length (y :: r))) 2 =? 0) with false
        by (symmetry; apply N.eqb_neq; cbn [length]; lia).
      replace (N.min (N.of_nat (length (y :: r) + 1)) 2) with 2 by (cbn [length]; lia).
      unfold bx_sha. cbn [app]. destruct r; reflexivity.
  - (* sha_256_ctx_8_finalize *)
    destruct v as [| | | | | | | |l]; try discriminate. injection Hj as <-.
    cbn [bx_enc enc e_sha bx_env]. split; [reflexivity|].
    cbn [vwt]. change (is_pow2 256) with true. rewrite Typing.ty_eqb_refl. cbn [andb]. rewrite andb_true_r.
    apply N.ltb_lt. unfold bx_sha. destruct l as [|x [|y r]]; try (cbn; lia).
    unfold word_num, val_be.
    pose proof (val_be_acc_bound (padded_enc (word_ty 8) (enc0 x)) 0) as Hb.
    assert (Hlen : (length (padded_enc (word_ty 8) (enc0 x)) <= 256)%nat).
    { clear. generalize (enc0 x). intros a. change 256%nat with (N.to_nat (width (word_ty 8))).
      generalize 8%nat. intros k. revert a. induction k as [|k IH]; intros a.
      - destruct a as [|[]|[]|]; cbn; lia.
      - change (word_ty (S k)) with (Prod (word_ty k) (word_ty k)). destruct a; cbn [padded_enc length]; try lia.
        rewrite app_length. cbn [width]. pose proof (IH a1). pose proof (IH a2). lia. }
    assert (2 ^ N.of_nat (length (padded_enc (word_ty 8) (enc0 x))) <= 2 ^ 256) by (apply N.pow_le_mono_r; lia).
    lia.
  - (* verify *)
    destruct v as [|[]|[]| | | | | |]; try discriminate. injection Hj as <-. split; reflexivity.
  - (* eq_256 *)
    destruct (@eq256_inv _ _ _ Hj) as (x & y & ->). cbn [jet_sem] in Hj. injection Hj as <-.
    cbn [vwt] in Hv. apply andb_true_iff in Hv. destruct Hv as [Hx Hy]. vw Hx. vw Hy.
    cbn [bx_enc enc]. change (word_num 8) with (word_num (lg 256)).
    rewrite !word_num_sval by assumption. rewrite bit_sval_enc. split; [reflexivity|]. destruct (x =? y); reflexivity.
  - (* eq_32 *)
    destruct (@eq32_inv _ _ _ Hj) as (x & y & ->). cbn [jet_sem] in Hj. injection Hj as <-.
    cbn [vwt] in Hv. apply andb_true_iff in Hv. destruct Hv as [Hx Hy]. vw Hx. vw Hy.
    cbn [bx_enc enc]. change (word_num 5) with (word_num (lg 32)).
    rewrite !word_num_sval by assumption. rewrite bit_sval_enc. split; [reflexivity|]. destruct (x =? y); reflexivity.
  - (* add_32 *)
    destruct (@add32_inv _ _ _ Hj) as (x & y & ->). cbn [jet_sem] in Hj. injection Hj as <-.
    cbn [vwt] in Hv. apply andb_true_iff in Hv. destruct Hv as [Hx Hy]. vw Hx. vw Hy.
    cbn [bx_enc enc]. change (word_num 5) with (word_num (lg 32)).
    rewrite !word_num_sval by assumption. cbv zeta. rewrite bit_sval_enc. split; [reflexivity|].
    cbn [vwt]. change (is_pow2 32) with true. rewrite Typing.ty_eqb_refl. cbn [andb].
    assert (Hlt : ((x + y) mod 2 ^ 32 <? 2 ^ 32) = true) by (apply N.ltb_lt, N.mod_lt; lia).
    change (N.pos (2 ^ 32)) with (2 ^ 32). rewrite Hlt. destruct (2 ^ 32 <=? x + y); reflexivity.
Qed.

(* ------------------------------------------------------------------ the machine-level jets respect their types *)
Lemma bit_sval_ty b : has_ty (bit_sval b) Bit = true.
Proof. destruct b; reflexivity. Qed.

Lemma word_sval_ty bits x : is_pow2 bits = true -> has_ty (word_sval bits x) (word_ty (lg bits)) = true.
Proof.
  intros Hp. unfold word_sval. apply of_padded_has_ty. rewrite bits_be_length, (is_pow2_width _ Hp). reflexivity.
Qed.

Theorem bx_jets_typed height distance : RS.Core.Sem.jets_typed bx_cj_ty (bx_cj height distance).
Proof.
  intros j A B a b Hty Ha Hs. unfold bx_cj_ty in Hty.
  destruct (find (fun x => jet_code x =? j) all_jets) as [x|] eqn:Ef; [|discriminate]. injection Hty as <- <-.
  apply find_some in Ef. destruct Ef as [_ Ej]. apply N.eqb_eq in Ej. subst j.
  destruct x; cbn [jet_code bx_cj jsrc jtgt] in *.
  - replace b with (of_padded W256 bx_msg_bits) by congruence. apply of_padded_has_ty. reflexivity.
  - destruct a as [| | |[| | |k m] sg]; try discriminate.
    destruct ((word_num 9 sg =? word_num 8 k) && (word_num 8 m =? bx_msg)); [|discriminate]. injection Hs as <-. reflexivity.
  - destruct (word_num 5 a <=? height); [|discriminate]. injection Hs as <-. reflexivity.
  - destruct (word_num 4 a <=? distance); [|discriminate]. injection Hs as <-. reflexivity.
  - replace b with (bx_ctx 0 0) by congruence. apply bx_ctx_has_ty.
  - destruct a as [| | |[| | |bf [| | |c m]] x0]; try discriminate.
    destruct (word_num 6 c =? 0);
      [replace b with (bx_ctx 1 (word_num 8 x0)) by congruence|replace b with (bx_ctx 2 0) by congruence];
      apply bx_ctx_has_ty.
  - destruct a as [| | |bf [| | |c m]]; try discriminate. injection Hs as <-.
    unfold Ctx8 in Ha. cbn [has_ty] in Ha. apply andb_true_iff in Ha. destruct Ha as [_ Ha].
    apply andb_true_iff in Ha. destruct Ha as [_ Ha]. exact Ha.
  - destruct a as [| |[]|]; try discriminate. injection Hs as <-. reflexivity.
  - destruct a as [| | |x0 y0]; try discriminate. injection Hs as <-. apply bit_sval_ty.
  - destruct a as [| | |x0 y0]; try discriminate. injection Hs as <-. apply bit_sval_ty.
  - destruct a as [| | |x0 y0]; try discriminate. cbv zeta in Hs.
    replace b with (SP (bit_sval (2 ^ 32 <=? word_num 5 x0 + word_num 5 y0))
                       (word_sval 32 ((word_num 5 x0 + word_num 5 y0) mod 2 ^ 32))) by congruence.
    cbn [has_ty]. rewrite bit_sval_ty. apply (word_sval_ty 32). reflexivity.
Qed.

(* ------------------------------------------------------------------ a policy, a truthful satisfier, a run *)
Definition bx_ex_env : envo := bx_env 11 4.

Example bx_truthful : truthful bx_ex_env ex_sat.
Proof.
  constructor; cbn [ex_sat mk_sat s_sig s_pre s_after s_older bx_ex_env bx_env e_verify e_sha e_lock_height e_lock_distance].
  - intros k Hk. unfold memN in Hk. cbn [existsb] in Hk. rewrite orb_false_r in Hk. apply N.eqb_eq in Hk. subst k.
    vm_compute. reflexivity.
  - intros h Hh. unfold memN in Hh. cbn [existsb] in Hh. rewrite orb_false_r in Hh. apply N.eqb_eq in Hh. subst h.
    vm_compute. reflexivity.
  - intros n Hn. apply N.leb_le in Hn. exact Hn.
  - intros n Hn. apply N.leb_le in Hn. exact Hn.
Qed.

Example bx_in_range : in_range ex_policy.
Proof. cbn. repeat split; lia. Qed.

Definition bx_h_bytes (h : fh) : list N := repeat 0 32.
Definition bx_entropy (e : N) : list N := repeat 0 64.

(* Policy::satisfy returns a program for the example policy in this environment; it translates
   to a well-typed Core term that the Bit Machine model runs to completion within the bounds *)
Example bx_runs_on_machine :
  exists prog t, satisfy free_hf fh_eq bx_ex_env (fin_cost (H := fh)) CONSENSUS_MAX ex_sat ex_policy = Ok prog /\
    xl bx_h_bytes bx_entropy bx_sig_bits bx_pre_bits jet_code prog One = Some (t, One) /\
    typed bx_cj_ty t One One /\
    forall prof m0, length m0 = N.to_nat (Machine.machine_cells (fun _ => 0) t) ->
      exists st, Machine.machine_exec prof (fun _ => 0) (bx_cj 11 4) t m0 None = Ok (st, []).
Proof.
  destruct (satisfy free_hf fh_eq bx_ex_env (fin_cost (H := fh)) CONSENSUS_MAX ex_sat ex_policy) as [prog| | |] eqn:Es.
  2-4: (exfalso; vm_compute in Es; discriminate Es).
  destruct (@satisfy_runs_machine fh free_hf fh_eq fh_eq_refl (fin_cost (H := fh)) CONSENSUS_MAX bx_ex_env
              bx_h_bytes bx_entropy bx_sig_bits bx_pre_bits bx_msg_bits bx_ctx_sval jet_code bx_sig_len bx_pre_len
              bx_cj_ty bx_jets_ty (bx_cj 11 4) (bx_jets_agree 11 4) (bx_jets_typed 11 4)
              ex_sat ex_policy prog bx_truthful bx_in_range Es) as (t & Ex & Hty & Hev & Hrun).
  exists prog, t. split; [reflexivity|]. split; [exact Ex|]. split; [exact Hty|].
  intros prof m0 Hl.
  assert (Hc : Limits.check_program prof (Machine.bw One) (Machine.bw One) (Bounds.bounds (fun _ => 0) t) = Ok tt).
  { assert (Et : option_map fst (xl bx_h_bytes bx_entropy bx_sig_bits bx_pre_bits jet_code prog One) = Some t)
      by (rewrite Ex; reflexivity).
    clear -Es Et. vm_compute in Es. injection Es as <-. vm_compute in Et. injection Et as <-.
    destruct prof; vm_compute; reflexivity. }
  destruct (Hrun prof (fun _ => 0) m0 Hc Hl) as (st & E & _). eauto.
Qed.
