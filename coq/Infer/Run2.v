(* C04, phase 2 - further executable entry points of the correspondence check (tools/props/c04.py):

     run_incs   kind `incs`: Type::to_incomplete of every node's source and target after
                construction and BEFORE finalisation (Incomplete::from_bound_ref: occurs check of the
                bound first - `<self-reference>` when a cycle is reachable - otherwise the bound with
                its free variables), as numbers: 7 = free variable, 8 = self reference, ground words
                abbreviated exactly as harness/src/infer.rs `inc_nums` does.

   (kind `progf` - other finalisation strategies - uses Run.run_infer: the reference result does not
   depend on the order in which the types are finalised.) *)
From RS Require Import Lib.Tac Lib.Outcome Ty.Ty Core.Prog
  Infer.Constraints Infer.Unify Infer.Infer Infer.Order Infer.Run.
Import ListNotations.
Local Open Scope N_scope.

(* types with free leaves *)
Inductive fty : Type :=
| FOne
| FFree
| FSum (a b : fty)
| FProd (a b : fty).

(* as Infer.resolve (same recursion, same fuel), but a free variable stays a leaf *)
Fixpoint resolve_f (fuel : nat) (s : store) (v : nat) : option fty :=
  match fuel with
  | O => None
  | S f =>
      match sget s (find s v) with
      | BFree => Some FFree
      | BOne => Some FOne
      | BSum a b =>
          match resolve_f f s a with
          | None => None
          | Some ta => match resolve_f f s b with
                       | None => None
                       | Some tb => Some (FSum ta tb)
                       end
          end
      | BProd a b =>
          match resolve_f f s a with
          | None => None
          | Some ta => match resolve_f f s b with
                       | None => None
                       | Some tb => Some (FProd ta tb)
                       end
          end
      | BLink _ => None
      end
  end.

Definition res_f (s : store) (v : nat) : option fty := resolve_f (S (length s)) s v.

Fixpoint fty_nums (t : fty) : option nat * list N :=
  match t with
  | FOne => (None, [0])
  | FFree => (None, [7])
  | FSum a b =>
      let '(_, la) := fty_nums a in
      let '(_, lb) := fty_nums b in
      match a, b with
      | FOne, FOne => (Some O, [1; 0; 0])
      | _, _ => (None, 1 :: la ++ lb)
      end
  | FProd a b =>
      let '(wa, la) := fty_nums a in
      let '(wb, lb) := fty_nums b in
      match wa, wb with
      | Some n, Some m =>
          if (Nat.eqb n m && Nat.ltb (S n) 32)%bool then (Some (S n), [3; N.of_nat (S n)]) else (None, 2 :: la ++ lb)
      | _, _ => (None, 2 :: la ++ lb)
      end
  end.

Definition show_inc (s : store) (v : nat) : list N :=
  match res_f s v with
  | None => [8]
  | Some t => snd (fty_nums t)
  end.

Definition show_inc_arrow (s : store) (a : option varrow) : list N :=
  match a with
  | None => [5]
  | Some (x, y) => 4 :: show_inc s x ++ show_inc s y
  end.

Definition run_incs (program : bool) (order : list nat) (jets : list (N * N * list N * list N)) (p : prog) : list N :=
  let n := length p in
  let order := match order with [] => seq 0 n | _ => order end in
  if negb (valid_order n order) then [1; 11; 0] else
  let pos := pos_of order in
  let root := if program then Some (pos (n - 1)%nat) else None in
  match gen (jets_of jets) (permute p order) with
  | None => [1; 11; 0]
  | Some g =>
      match root_tmpl g root with
      | None => [1; 11; 0]
      | Some (rb, re) =>
          match solve (g_store g) (g_eqs g) with
          | Ok s1 =>
              match solve (s1 ++ rb) re with
              | Ok s2 => 0 :: flat_map (fun i => show_inc_arrow s2 (nth (pos i) (g_arr g) None)) (seq 0 n)
              | Err _ => [1; 20; 1]
              | _ => [8]
              end
          | Err _ => [1; 20; 0]
          | _ => [8]
          end
      end
  end.

(* the cycle test of to_incomplete is the one of the reference occurs check, and setting the free
   leaves to unit gives the reference's resolved type *)
Fixpoint erase (t : fty) : ty :=
  match t with
  | FOne | FFree => One
  | FSum a b => Sum (erase a) (erase b)
  | FProd a b => Prod (erase a) (erase b)
  end.

Lemma resolve_erase : forall fuel s v, resolve fuel s v = option_map erase (resolve_f fuel s v).
Proof.
  induction fuel as [|f IH]; intros s v; cbn [resolve_f resolve]; [reflexivity|].
  destruct (sget s (find s v)) as [|w| |a b|a b]; try reflexivity.
  - rewrite (IH s a), (IH s b). destruct (resolve_f f s a); [|reflexivity]. destruct (resolve_f f s b); reflexivity.
  - rewrite (IH s a), (IH s b). destruct (resolve_f f s a); [|reflexivity]. destruct (resolve_f f s b); reflexivity.
Qed.

Lemma fty_nums_not8 t : snd (fty_nums t) <> [8].
Proof.
  destruct t as [| |a b|a b]; cbn; try discriminate.
  - destruct (fty_nums a) as [wa la], (fty_nums b) as [wb lb]. destruct a, b; cbn; discriminate.
  - destruct (fty_nums a) as [wa la], (fty_nums b) as [wb lb].
    destruct wa as [n|], wb as [m|]; cbn; try discriminate. destruct (Nat.eqb n m && Nat.leb n 30)%bool; cbn; discriminate.
Qed.

Lemma show_inc_cycle s v : show_inc s v = [8] <-> res s v = None.
Proof.
  unfold show_inc, res_f, res. rewrite resolve_erase.
  destruct (resolve_f (S (length s)) s v) as [t|]; cbn [option_map]; [|tauto].
  split; [intros H; exfalso; exact (fty_nums_not8 t H)|discriminate].
Qed.
