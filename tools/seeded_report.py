#!/usr/bin/env python3
"""Markdown table of the seeded changes under /verif/seeded (for DESIGN.md §12)."""
import json
import os

VERIF = os.path.dirname(os.path.dirname(os.path.abspath(__file__)))
S = os.path.join(VERIF, "seeded")
rows = []
harmless = []
for n in sorted(os.listdir(S)):
    mp = os.path.join(S, n, "meta.json")
    if not os.path.exists(mp):
        continue
    m = json.load(open(mp))
    if m.get("harmless"):
        det = m.get("detection", {}).get("quick", {})
        res = []
        for p_, c in det.get("checks", {}).items():
            noin = "no-failing-input-found" in " ".join(c.get("violations") or [])
            res.append("%s: %s" % (p_, "exit 0" if c["exit"] == 0 else ("VIOLATION, no failing input" if noin else "exit %s" % c["exit"])))
        harmless.append("| %s | %s | %s | %s |" % (n, ",".join(m["property"]), (m.get("summary") or "").replace("|", "/").replace("\n", " ")[:220],
                                               "; ".join(res) or "pending"))
        continue
    prop = m["property"] if isinstance(m["property"], str) else ",".join(m["property"])
    conf = m.get("confirmed", {})
    det = m.get("detection", {}).get("quick", {})
    by = []
    for p, c in det.get("checks", {}).items():
        if c["exit"] == 1 and c["violations"]:
            why = (c.get("why") or [""])[-1]
            cls = why[why.rfind("[") + 1:why.rfind("]")] if "[" in why else ""
            noin = "no-failing-input-found" in " ".join(c["violations"])
            by.append("%s%s%s" % (p, " [" + cls + "]" if cls else "", " (no input)" if noin else ""))
    summary = (m.get("summary") or "").replace("|", "/").replace("\n", " ")
    if len(summary) > 150:
        summary = summary[:147] + "..."
    rows.append("| %s | %s | %s | %s | %s | %s |" % (
        n, prop, summary, "yes" if conf.get("ok") else ("?" if not conf else "NO"),
        "yes" if det.get("detected") else ("pending" if not det else "**no**"), "; ".join(by) or m.get("detected_by", "")))
print("| seed | property | change (one line) | confirmed (suite passes, demo fails only with it) | detected (quick) | by |")
print("|---|---|---|---|---|---|")
print("\n".join(rows))
if harmless:
    print()
    print("Behaviour-preserving refactorings (expected: every check exits 0):")
    print()
    print("| patch | checks run | refactoring | result |")
    print("|---|---|---|---|")
    print("\n".join(harmless))
