"""C05 - Bit Machine execution equals the denotational semantics."""
import json

import proggen as pg
import vplib
from vplib import Case
from props import core_common as cc

PROP = "C05"
LEVEL = "proof"
IMPORTS = cc.IMPORTS


# ------------------------------------------------------------------ generators
def gen_cases(rng, tier, binary, workdir):
    """two-phase generation: structures -> arrows from the implementation -> witnesses/inputs"""
    jl, costs = cc.jet_tables(binary, workdir)
    spec = cc.specified_jets(workdir)
    jet_ids = {("c", j[1]): j[0] for j in jl}
    bad_names = [(i, nm, jl[i][1]) for i, nm in spec.items() if i >= len(jl) or jl[i][1] != nm]
    sjets = [j for j in jl if j[0] in spec]
    cases = []
    notes = {"jet_name_mismatch": bad_names, "structures": 0, "rejected_by_inference": 0}
    k = [0]

    def add(prog, arrows, cmrs, inp, meta, model=True):
        k[0] += 1
        cases.append(cc.make_exec_case("e%d" % k[0], prog, arrows, cmrs, inp, jet_ids, costs, meta=meta, model=model))

    # ---- corpus (implementation only; lines `exec <program> <pdl> <input>`)
    for fn, ln, kind, rest in cc.load_corpus(PROP):
        k[0] += 1
        cases.append(Case("e%d" % k[0], kind, rest, None, {"corpus": "%s:%d" % (fn, ln)}))

    # ---- 1. type-directed random programs
    nstruct = 800 if tier == "quick" else 6000
    structs = cc.gen_structures(rng.fork("structs"), nstruct, jets=sjets)
    # small jets appear naturally: (a, b) chosen equal to the type of a small jet
    small = [j for j in sjets if pg.width(j[2]) <= 16]
    r2 = rng.fork("smalljets")
    for _ in range(nstruct // 10):
        j = r2.choice(small)
        o = {"jets": [("c", j[1], j[2], j[3])], "comp": 50}
        structs.append(pg.gen_program(r2, j[2], j[3], r2.range(1, 4), o))
    # systematic templates: read after drop / case, rewritten sums, disconnect passing the CMR on
    n_random = len(structs)
    structs += cc.template_programs(rng.fork("templates"), 6 if tier == "quick" else 40)
    infos = cc.harness_info(binary, structs, workdir)
    notes["structures"] = len(structs)
    r3 = rng.fork("fill")
    for si, (s, inf) in enumerate(zip(structs, infos)):
        tmpl = si >= n_random
        if inf[0] == "err":
            notes["rejected_by_inference"] += 1
            continue
        arrows, cmrs = inf
        prog = pg.fill_witnesses(r3, s, arrows)
        st = arrows[-1][0]
        w = pg.width(st)
        vals = []
        if w <= 3 and r3.chance(1, 3):
            vals = pg.all_values(st, 8)           # exhaustive over a small source type
        else:
            vals = [pg.rand_value(r3, st) for _ in range(1 if tier == "quick" else 2)]
        for v in vals:
            dirty = r3.chance(2, 3)
            bits = cc.rand_padded(r3, st, v, dirty)
            inp = (st, bits)
            if w == 0 and r3.chance(1, 2):
                inp = None
            add(prog, arrows, cmrs, inp, {"value": v, "gen": "template" if tmpl else "random", "dirty": dirty},
                model=(not tmpl) or si % 3 == 0)
            if dirty and cc.has_padding(st) and r3.chance(1, 3):
                # the same value with clean padding: the results must agree (both equal the reference)
                add(prog, arrows, cmrs, (st, cc.rand_padded(r3, st, v, False)), {"value": v, "gen": "random-clean"})
        # malformed stream: wrong input type / missing input
        if r3.chance(1, 12):
            other = pg.S(st, pg.U) if r3.chance(1, 2) else pg.P(st, pg.BIT)
            ov = pg.rand_value(r3, other)
            add(prog, arrows, cmrs, (other, cc.rand_padded(r3, other, ov)), {"gen": "wrong-input", "expect_err": 4})
        if w > 0 and r3.chance(1, 20):
            add(prog, arrows, cmrs, None, {"gen": "no-input", "expect_err": 4})

    # ---- 2. every specified jet on edge and random inputs
    r4 = rng.fork("jets")
    per_jet_model = 2 if tier == "quick" else 8
    nrand = 4 if tier == "quick" else 30
    for i, nm in sorted(spec.items()):
        if i >= len(jl) or jl[i][1] != nm:
            continue
        _, _, s, t = jl[i]
        w = pg.width(s)
        ins = edge_bitstrings(w, r4, nrand) if w else [[]]
        nmodel = per_jet_model
        if cc.core_jets is not None:
            if nm in cc.core_jets._JV:
                # jets on typed values (SHA-256 contexts, parse_*, secp256k1 arithmetic): uniformly random bits almost
                # never form an interesting input (a context with fewer than 2^55 blocks), so the structured inputs
                # come first and more of them go to the Coq specification as well
                ins = cc.core_jets.edge_inputs(nm, r4)[: (40 if tier == "quick" else 400)] + ins[: (6 if tier == "quick" else 30)]
                nmodel = (2 if w > 2000 else 5) if tier == "quick" else (8 if w > 2000 else 30)
                if nm in cc.core_jets.SLOW_MODEL:
                    # a scalar multiplication takes seconds under vm_compute: the first structured inputs only go to Coq
                    nmodel = 2 if tier == "quick" else 6
            else:
                ins += cc.core_jets.edge_inputs(nm, r4)[: (12 if tier == "quick" else 200)]
        prog = [("jet", "c", nm)]
        arrows = [(s, t)]
        for q, bits in enumerate(ins):
            v = pg.of_padded(s, bits) if w else ("U",)
            add(prog, arrows, {}, (s, bits) if w else None, {"value": v, "gen": "jet", "jet": nm},
                model=(q < nmodel or (q % 11 == 5 and w <= 2000 and nm not in getattr(cc.core_jets, "SLOW_MODEL", ()))))
    # ---- 3. the same runs observed at the level of `Value` (buffer, bit offset, type): the input Value sits at an
    # arbitrary bit offset of a shared buffer, the output is the Value exec returns (model: Core/ExecValue.v)
    r5 = rng.fork("values")
    base = [c for c in cases if c.kind == "exec" and c.expr is not None and c.meta.get("gen") in ("random", "template")
            and "value" in c.meta]
    want = 160 if tier == "quick" else 2500
    step = max(1, len(base) // want)
    for c in base[::step]:
        m = c.meta
        padty = r5.choice(cc.PAD_TYPES)
        padbits = cc.rand_padded(r5, padty, pg.rand_value(r5, padty))
        k[0] += 1
        cases.append(cc.make_execv_case("v%d" % k[0], m["prog"], m["arrows"], m["cmrs"], m["inp"], padty, padbits, jet_ids, costs,
                                        meta={"value": m["value"], "gen": "value-level"}))
    # ---- 4. typed copies `pair iden anchor : T -> T * 1` of inputs of 1 .. 24 bits sitting at every bit offset 1 .. 7 (and
    # 0, 8, 9) of a shared buffer: the bytes of an unaligned Value (RawByteIter, iter_padded, write_value) reach the output
    tcp = cc.typed_copy_programs()
    tinfos = cc.harness_info(binary, [p for p, _t in tcp], workdir)
    for (p, ty), inf in zip(tcp, tinfos):
        if inf[0] == "err" or inf[0][-1][0] != ty:
            notes["typed_copy_rejected"] = notes.get("typed_copy_rejected", 0) + 1
            continue
        arrows, cmrs = inf
        w = pg.width(ty)
        for padty in cc.PAD_TYPES:
            if tier == "quick" and pg.width(padty) in (0, 8) and w not in (3, 9):
                continue
            for pat in range(2):
                bits = [1] * w if pat == 0 else r5.bits(w)
                padbits = cc.rand_padded(r5, padty, pg.rand_value(r5, padty))
                k[0] += 1
                cases.append(cc.make_execv_case("v%d" % k[0], p, arrows, cmrs, (ty, bits), padty, padbits, jet_ids, costs,
                                                meta={"value": pg.of_padded(ty, bits), "gen": "value-level"}))
    return cases, notes


def edge_bitstrings(w, rng, nr):
    out = [[0] * w, [1] * w, [0] * (w - 1) + [1], [1] + [0] * (w - 1)]
    if w >= 2:
        h = w // 2
        out += [[1] * h + [0] * (w - h), [0] * h + [1] * (w - h), [0] * (h - 1) + [1] + [1] * (w - h),
                [1] * h + [0] * (w - h - 1) + [1]]
    for _ in range(nr):
        out.append(rng.bits(w))
    for _ in range(nr // 2):
        b = [0] * w
        for _k in range(rng.range(1, 3)):
            b[rng.below(w)] = 1
        out.append(b)
    return out


# ------------------------------------------------------------------ the property, on the implementation
def prop_check_v(c, r):
    """the property at the level of Value: the Value returned has the target type (Value::unit() for a zero-width target)
    and the cells it occupies in its buffer decode to the semantic value; the input Value was laid out as intended"""
    m = c.meta
    d = cc.split_execv(r)
    if d["tag"] in ("crash", "panic-early", "panic"):
        return ("panic", "the Bit Machine panicked or crashed on %s" % c.line[:200])
    if d["tag"] in ("build", "limit"):
        return ("build", "generated program rejected (%s): %s" % (d["tag"], c.line[:200]))
    prog, arrows = m["prog"], m["arrows"]
    ref = cc.reference_eval(prog, arrows, m["cmrs"], m["value"])
    if ref[0] == "skip":
        return None
    tgt = arrows[-1][1]
    if ref[0] != "ok":
        if d["tag"] != "err":
            return ("no-failure", "execution returned a value where the semantics fail (%s): %s" % (ref[0], c.line[:300]))
        return None
    if d["tag"] != "ok":
        return ("fails", "execution failed (%s) where the semantics give a value: %s" % (d.get("err"), c.line[:300]))
    w = pg.width(tgt)
    if w > 0:
        if d["is_target_ty"] != 1:
            return ("value-type", "the Value returned does not have the target type on %s" % c.line[:300])
        if d["out_off"] + w > 8 * len(d["out_bytes"]):
            return ("value-buffer", "the Value returned does not fit its buffer on %s" % c.line[:300])
        if pg.of_padded(tgt, cc.bits_at(d["out_bytes"], d["out_off"], w)) != ref[1]:
            return ("value", "the Value returned does not denote the semantic value on %s" % c.line[:300])
    elif d["is_unit_ty"] != 1:
        return ("value-type", "zero-width target: the Value returned is not Value::unit() on %s" % c.line[:300])
    return None


def prop_check(c, r):
    if c.kind == "execv":
        return prop_check_v(c, r)
    m = c.meta
    d = cc.split_exec(r)
    if d["tag"] in ("crash", "panic-early", "panic"):
        return ("panic", "the Bit Machine panicked or crashed on %s" % c.line[:200])
    if "corpus" in m:
        return None
    if d["tag"] == "build":
        return ("build", "generated program rejected when building (code %s): %s" % (d.get("code"), c.line[:200]))
    if d["tag"] == "limit":
        return ("limit", "small generated program refused by for_program: %s" % (d["limit"],))
    if "expect_err" in m:
        if not (d["tag"] == "err" and d["err"] == m["expect_err"]):
            return ("input-type", "input of the wrong type / missing input was not rejected with InputWrongType: %s" % r[8:12])
        return None
    prog, arrows = m["prog"], m["arrows"]
    ref = cc.reference_eval(prog, arrows, m["cmrs"], m["value"])
    if ref[0] == "skip":
        return None
    tgt = arrows[-1][1]
    if ref[0] == "ok":
        if d["tag"] != "ok":
            return ("fails", "execution failed (%s) where the semantics give a value: %s" % (d.get("err"), c.line[:300]))
        exp = pg.compact_bits(ref[1])
        if d["compact"] != exp:
            return ("value", "output %s differs from the semantics %s on %s" % (pg.bstr(d["compact"]), pg.bstr(exp), c.line[:300]))
        if len(d["padded"]) != pg.width(tgt) or pg.of_padded(tgt, d["padded"]) != ref[1]:
            return ("padded", "padded output does not decode to the semantic value on %s" % c.line[:300])
        return None
    if d["tag"] != "err":
        return ("no-failure", "execution returned a value where the semantics fail (%s): %s" % (ref[0], c.line[:300]))
    want = {"pruned": 1, "fail": 2, "jet": 3}[ref[0]]
    if d["err"] != want or (want in (1, 2) and d["data"] != ref[1]):
        return ("error-kind", "error kind/data %s %s differs from the semantic failure %s on %s"
                % (d["err"], d["data"][:4], ref[0], c.line[:300]))
    return None


def nontrivial(c, r):
    m = c.meta
    if c.kind == "execv":
        return ("value-level", hash(cc.shape_key(m["prog"])), tuple(m["inp"][1]) if m["inp"] else (), cc.ty_pdl(m["padty"]))
    if "prog" not in m or m.get("gen") in ("jet", "wrong-input", "no-input"):
        if m.get("gen") == "jet":
            return ("jet", m["jet"], tuple(m["inp"][1]) if m["inp"] else ())
        return None
    if cc.interesting(m["prog"], m["arrows"]):
        return (hash(cc.shape_key(m["prog"])), tuple(m["inp"][1]) if m["inp"] else ())
    return None


def run(rep, tier, rng):
    import time
    tm = {}
    t0 = time.time()
    vplib.proof_stage(rep, "Props/C05.v", extra_targets=cc.EXTRA_TARGETS, allowed_axioms=cc.UINT63_PRIMS)
    tm["proof_stage_s"] = round(time.time() - t0, 1)
    rep.coverage["trusted_base"] = vplib.GENERIC_TRUSTED + [
        "models Core/{Term,Typing,Sem,Machine}.v written by hand from bit_machine/{mod,frame}.rs; Jets/JetSpec.v, Jets/JetSpecSha.v, "
        "Jets/JetSpecSecp.v and Jets/JetSpecSecpSig.v by hand (all 368 Core jets: arithmetic/logic/comparison families, SHA-256 family over "
        "Merkle/Sha256.v, parse_lock/parse_sequence, secp256k1 field and scalar arithmetic, secp256k1 points in affine and Jacobian coordinates "
        "with libsecp256k1's exact representatives, secp256k1_ecmult, swu / hash_to_curve, BIP-340 verification); the proofs keep the jets a "
        "Section variable jet_sem",
        "final arrows, CMRs of disconnected branches and jet costs are taken from the implementation and handed to the model as data",
        "python reference evaluator tools/proggen.py eval_prog + tools/props/core_jets.py (independent of the Coq text)",
        "not modelled: overflow of cursor additions (unreachable under the theorems' premises), JetTypeMismatch, C jets, FFI marshalling",
    ]
    t0 = time.time()
    binary = cc.build("debug")
    tm["harness_build_s"] = round(time.time() - t0, 1)
    t0 = time.time()
    cases, notes = gen_cases(rng, tier, binary, rep.workdir())
    tm["generation_s"] = round(time.time() - t0, 1)
    if notes["jet_name_mismatch"]:
        rep.violation("jet ids of Jets/JetSpec.v do not match Core::ALL of the implementation: %s" % notes["jet_name_mismatch"][:3],
                      {"mismatch": notes["jet_name_mismatch"]}, False)
    impl, model = vplib.eval_cases(rep, binary, "core", cases, IMPORTS, tag="c05", batch=80)
    t0 = time.time()
    pfail, mism = vplib.decide(rep, cases, impl, model, prop_check, None, nontrivial,
                               what="correspondence Jets/JetSpecAll3.v (run_exec3) vs BitMachine")
    tm["property_check_s"] = round(time.time() - t0, 1)
    rep.coverage["timings"] = tm
    # second tie: the Coq big-step semantics against the python reference on a sample
    sample = [c for c in cases if c.expr is not None and c.meta.get("gen") in ("random", "template", "jet") and "value" in c.meta]
    sample = sample[:: max(1, len(sample) // (150 if tier == "quick" else 3000))]
    jl, costs = cc.jet_tables(binary, rep.workdir())
    jet_ids = {("c", j[1]): j[0] for j in jl}
    exprs = ["run_eval3 %s %s %s" % (cc.coq_typed_prog(c.meta["prog"], c.meta["arrows"], jet_ids), cc.coq_cmrs(c.meta["cmrs"]),
                                      pg.val_coq(c.meta["value"])) for c in sample]
    vals, logs = vplib.coq_eval(IMPORTS, exprs, workdir=rep.workdir(), tag="c05eval", batch=60)
    sem_bad = []
    for c, v in zip(sample, vals):
        ref = cc.reference_eval(c.meta["prog"], c.meta["arrows"], c.meta["cmrs"], c.meta["value"])
        exp = None
        if ref[0] == "ok":
            exp = [0] + pg.compact_bits(ref[1])
        elif ref[0] == "pruned":
            exp = [1, 1] + ref[1]
        elif ref[0] == "fail":
            exp = [1, 2] + ref[1]
        elif ref[0] == "jet":
            exp = [1, 3]
        if exp is not None and v != exp:
            sem_bad.append((c, v, exp))
    rep.coverage["semantics_vs_reference"] = {"cases": len(sample), "disagreements": len(sem_bad)}
    if sem_bad:
        c, v, exp = sem_bad[0]
        rep.violation("Core/Sem.v eval disagrees with the python reference evaluator on %d cases" % len(sem_bad),
                      {"case": {"harness_args": c.line}, "model_result": v, "reference": exp}, False)
    tags = {}
    for c in cases:
        t = (cc.split_execv if c.kind == "execv" else cc.split_exec)(impl.get(c.cid))["tag"]
        tags[t] = tags.get(t, 0) + 1
    rep.coverage["verdict_histogram"] = tags
    zw = [c for c in cases if c.kind == "execv" and cc.split_execv(impl.get(c.cid)).get("is_target_ty") == 0]
    rep.coverage["value_level"] = {"cases": sum(1 for c in cases if c.kind == "execv"),
                                   "zero_width_target_returned_as_unit_type": len(zw)}
    rep.coverage["generation"] = {k: v for k, v in notes.items() if k != "jet_name_mismatch"}
    rep.coverage["rule"] = ("programs generated from the type structure (random source/target types, all combinators, sharing, witnesses "
                            "and inputs drawn from the inferred types, dirty sum padding in inputs), every specified jet on edge and "
                            "random inputs, wrong-typed/missing inputs, and a sample of the same runs observed at the level of Value (input Value at "
                            "an arbitrary bit offset of a shared buffer, output buffer bytes / offset / type).  Distinct non-trivial = (term shape, input) of programs "
                            "containing a case or a comp through a padded type, and (jet, input)")
    rep.coverage["samples"] = [{"args": c.line[:300], "impl": impl.get(c.cid)} for c in cases[:: max(1, len(cases) // 5)][:6]]
    vplib.finish_proof_verdict(rep, pfail)


def replay(obj):
    print(json.dumps(obj, indent=1)[:6000])
    c = obj.get("case")
    if not c or "id" not in c:
        return 0
    binary = cc.build("debug")
    case = Case(c["id"], c["kind"], c["harness_args"], c["model_expr"], c.get("meta"))
    rep = vplib.Report(PROP, "quick", 0)
    impl, model = vplib.eval_cases(rep, binary, "core", [case], IMPORTS, tag="replay")
    print("implementation:", impl.get(case.cid))
    print("model         :", model.get(case.cid))
    try:
        print("property      :", prop_check(case, impl.get(case.cid)))
    except Exception as e:  # meta is stringified in the replay file
        print("property      : (not re-evaluated: %s)" % e)
    return 0
