"""Shared by C10 (value layout / accessors / pruning) and C11 (equality / ordering / hash):
an independent python reference for Simplicity types and values, the op language of the
"pool machine" (harness_value/src/value.rs <-> coq/Value/Run.v), generators and parsers."""
import os

import vplib
from vplib import Case

IMPORTS = ["Ty.Ty", "Value.ValueModel", "Value.Run", "Value.RunWord"]
CRATE = None  # merged into the main harness crate
COMMAND = "value"

# ----------------------------------------------------------------------------- types
# ('1',) | ('+', a, b) | ('*', a, b)
ONE = ('1',)
BIT = ('+', ONE, ONE)


def Sum(a, b):
    return ('+', a, b)


def Prod(a, b):
    return ('*', a, b)


_words = {0: BIT}


def word(k):
    if k not in _words:
        w = word(k - 1)
        _words[k] = ('*', w, w)
    return _words[k]


def option(a):
    return Sum(ONE, a)


def buffer_ty(n):
    t = option(word(3))
    for i in range(1, n + 1):
        t = Prod(option(word(i + 3)), t)
    return t


_width = {}


def width(t):
    k = id(t)
    r = _width.get(k)
    if r is not None and r[0] is t:
        return r[1]
    if t[0] == '1':
        w = 0
    elif t[0] == '+':
        w = 1 + max(width(t[1]), width(t[2]))
    else:
        w = width(t[1]) + width(t[2])
    _width[k] = (t, w)
    return w


def pad_left(a, b):
    return max(width(a), width(b)) - width(a)


def pad_right(a, b):
    return max(width(a), width(b)) - width(b)


def word_of(t):
    """k if t is the word type 2^(2^k)"""
    if t == BIT:
        return 0
    if t[0] == '*':
        if t[1] is t[2] or t[1] == t[2]:
            k = word_of(t[1])
            if k is not None:
                return k + 1
    return None


def ty_tokens(t):
    k = word_of(t)
    if k is not None:
        return [3, k]
    if t[0] == '1':
        return [0]
    return [1 if t[0] == '+' else 2] + ty_tokens(t[1]) + ty_tokens(t[2])


def ty_str(t):
    """prefix notation of the harness"""
    k = word_of(t)
    if k is not None:
        return "w%x" % k
    if t[0] == '1':
        return "1"
    return t[0] + ty_str(t[1]) + ty_str(t[2])


def ty_coq(t):
    k = word_of(t)
    if k is not None:
        return "(word_ty %d)" % k
    if t[0] == '1':
        return "One"
    return "(%s %s %s)" % ("Sum" if t[0] == '+' else "Prod", ty_coq(t[1]), ty_coq(t[2]))


def ty_parse(s):
    pos = [0]

    def go():
        c = s[pos[0]]
        pos[0] += 1
        if c == '1':
            return ONE
        if c == 'w':
            k = int(s[pos[0]], 16)
            pos[0] += 1
            return word(k)
        a = go()
        b = go()
        return (c, a, b)

    t = go()
    assert pos[0] == len(s)
    return t


def ty_size(t):
    """number of sum / product constructors"""
    return 0 if t[0] == '1' else 1 + ty_size(t[1]) + ty_size(t[2])


def ty_le(s, t):
    if s[0] == '1':
        return True
    if s[0] != t[0]:
        return False
    return ty_le(s[1], t[1]) and ty_le(s[2], t[2])


_types_cache = {}


def all_types(n):
    """all types with exactly n constructors"""
    if n in _types_cache:
        return _types_cache[n]
    if n == 0:
        r = [ONE]
    else:
        r = []
        for i in range(n):
            for a in all_types(i):
                for b in all_types(n - 1 - i):
                    r.append(('+', a, b))
                    r.append(('*', a, b))
    _types_cache[n] = r
    return r


# ----------------------------------------------------------------------------- values
# ('u',) | ('L', v) | ('R', v) | ('P', v, w)
U = ('u',)


def all_values(t):
    if t[0] == '1':
        return [U]
    if t[0] == '+':
        return [('L', v) for v in all_values(t[1])] + [('R', v) for v in all_values(t[2])]
    return [('P', v, w) for v in all_values(t[1]) for w in all_values(t[2])]


def count_values(t, cap=10**9):
    if t[0] == '1':
        return 1
    if t[0] == '+':
        return min(cap, count_values(t[1], cap) + count_values(t[2], cap))
    return min(cap, count_values(t[1], cap) * count_values(t[2], cap))


def has_ty(v, t):
    if v[0] == 'u':
        return t[0] == '1'
    if v[0] == 'L':
        return t[0] == '+' and has_ty(v[1], t[1])
    if v[0] == 'R':
        return t[0] == '+' and has_ty(v[1], t[2])
    return t[0] == '*' and has_ty(v[1], t[1]) and has_ty(v[2], t[2])


def compact_enc(v):
    out = []
    stack = [v]
    while stack:
        x = stack.pop()
        if x[0] == 'L':
            out.append(0)
            stack.append(x[1])
        elif x[0] == 'R':
            out.append(1)
            stack.append(x[1])
        elif x[0] == 'P':
            stack.append(x[2])
            stack.append(x[1])
    return out


def padded_enc(t, v, padbit):
    """padded encoding; padbit() supplies the padding bits"""
    if t[0] == '1':
        return []
    if t[0] == '+':
        if v[0] == 'L':
            return [0] + [padbit() for _ in range(pad_left(t[1], t[2]))] + padded_enc(t[1], v[1], padbit)
        return [1] + [padbit() for _ in range(pad_right(t[1], t[2]))] + padded_enc(t[2], v[1], padbit)
    return padded_enc(t[1], v[1], padbit) + padded_enc(t[2], v[2], padbit)


def of_padded(t, bits, pos=0):
    """decode exactly width(t) bits at pos"""
    if t[0] == '1':
        return U
    if t[0] == '+':
        if bits[pos]:
            return ('R', of_padded(t[2], bits, pos + 1 + pad_right(t[1], t[2])))
        return ('L', of_padded(t[1], bits, pos + 1 + pad_left(t[1], t[2])))
    return ('P', of_padded(t[1], bits, pos), of_padded(t[2], bits, pos + width(t[1])))


def strip(t, bits, pos=0):
    """the padded string with the padding positions deleted"""
    if t[0] == '1':
        return []
    if t[0] == '+':
        if bits[pos]:
            return [1] + strip(t[2], bits, pos + 1 + pad_right(t[1], t[2]))
        return [0] + strip(t[1], bits, pos + 1 + pad_left(t[1], t[2]))
    return strip(t[1], bits, pos) + strip(t[2], bits, pos + width(t[1]))


def of_compact(t, bits, pos=0):
    """(value, newpos) | None on early end"""
    if t[0] == '1':
        return (U, pos)
    if t[0] == '+':
        if pos >= len(bits):
            return None
        r = of_compact(t[2] if bits[pos] else t[1], bits, pos + 1)
        if r is None:
            return None
        return (('R' if bits[pos] else 'L', r[0]), r[1])
    a = of_compact(t[1], bits, pos)
    if a is None:
        return None
    b = of_compact(t[2], bits, a[1])
    if b is None:
        return None
    return (('P', a[0], b[0]), b[1])


def sprune(v, t):
    if t[0] == '1':
        return U
    if t[0] == '+':
        if v[0] == 'L':
            r = sprune(v[1], t[1])
            return None if r is None else ('L', r)
        if v[0] == 'R':
            r = sprune(v[1], t[2])
            return None if r is None else ('R', r)
        return None
    if v[0] != 'P':
        return None
    a = sprune(v[1], t[1])
    b = sprune(v[2], t[2])
    if a is None or b is None:
        return None
    return ('P', a, b)


def szero(t):
    if t[0] == '1':
        return U
    if t[0] == '+':
        return ('L', szero(t[1]))
    return ('P', szero(t[1]), szero(t[2]))


def word_value(k, bits):
    """value of word(k) from 2^k bits"""
    if k == 0:
        return ('R', U) if bits[0] else ('L', U)
    h = len(bits) // 2
    return ('P', word_value(k - 1, bits[:h]), word_value(k - 1, bits[h:]))


def int_bits(n, ln):
    return [(n >> i) & 1 for i in range(ln - 1, -1, -1)]


def bits_of_bytes(bs):
    return [(b >> (7 - i)) & 1 for b in bs for i in range(8)]


def pack(bits):
    out = []
    for i in range(0, len(bits), 8):
        ch = bits[i:i + 8]
        ch = ch + [0] * (8 - len(ch))
        v = 0
        for b in ch:
            v = 2 * v + b
        out.append(v)
    return out


def hexs(bs):
    return "".join("%02x" % b for b in bs) if bs else "-"


def coq_list(xs):
    return "[" + "; ".join(str(x) for x in xs) + "]"


# ----------------------------------------------------------------------------- ops
# op tuples (first component = name); indices are pool positions
def op_line(o):
    n = o[0]
    if n == "unit":
        return "unit"
    if n == "wi":
        return "wi %d %d" % (o[1], o[2])
    if n == "wb":
        return "wb %d %s" % (o[1], hexs(o[2]))
    if n == "ba":
        return "ba %s" % hexs(o[1])
    if n == "buf":
        return "buf %d %s" % (o[1], hexs(o[2]))
    if n == "left":
        return "left %d %s" % (o[1], ty_str(o[2]))
    if n == "right":
        return "right %s %d" % (ty_str(o[1]), o[2])
    if n == "prod":
        return "prod %d %d" % (o[1], o[2])
    if n == "none":
        return "none %s" % ty_str(o[1])
    if n == "some":
        return "some %d" % o[1]
    if n == "zero":
        return "zero %s" % ty_str(o[1])
    if n in ("asl", "asr", "fst", "snd", "machw"):
        return "%s %d" % (n, o[1])
    if n in ("pad", "cmp"):
        return "%s %s %s" % (n, ty_str(o[1]), hexs(o[2]))
    if n == "prune":
        return "prune %d %s" % (o[1], ty_str(o[2]))
    if n == "mach":
        # ('mach', k, w, side, j, u)
        return "mach %d %d %s %s %d" % (o[1], o[2], o[3], "-" if o[4] is None else o[4], o[5])
    if n == "ctx8":
        return "ctx8 %s %d %s" % (hexs(o[1]), o[2], hexs(o[3]))
    if n == "isty":
        return "isty %d %s" % (o[1], ty_str(o[2]))
    if n == "encv":
        return "encv %d %d" % (o[1], o[2])
    raise ValueError(n)


def op_parse(toks):
    n = toks[0]
    if n == "unit":
        return ("unit",)
    if n == "wi":
        return ("wi", int(toks[1]), int(toks[2]))
    if n == "wb":
        return ("wb", int(toks[1]), unhex(toks[2]))
    if n == "ba":
        return ("ba", unhex(toks[1]))
    if n == "buf":
        return ("buf", int(toks[1]), unhex(toks[2]))
    if n == "left":
        return ("left", int(toks[1]), ty_parse(toks[2]))
    if n == "right":
        return ("right", ty_parse(toks[1]), int(toks[2]))
    if n == "prod":
        return ("prod", int(toks[1]), int(toks[2]))
    if n == "none":
        return ("none", ty_parse(toks[1]))
    if n == "some":
        return ("some", int(toks[1]))
    if n == "zero":
        return ("zero", ty_parse(toks[1]))
    if n in ("asl", "asr", "fst", "snd", "machw"):
        return (n, int(toks[1]))
    if n in ("pad", "cmp"):
        return (n, ty_parse(toks[1]), unhex(toks[2]))
    if n == "prune":
        return ("prune", int(toks[1]), ty_parse(toks[2]))
    if n == "mach":
        return ("mach", int(toks[1]), int(toks[2]), toks[3], None if toks[4] == "-" else int(toks[4]), int(toks[5]))
    if n == "ctx8":
        return ("ctx8", unhex(toks[1]), int(toks[2]), unhex(toks[3]))
    if n == "isty":
        return ("isty", int(toks[1]), ty_parse(toks[2]))
    if n == "encv":
        return ("encv", int(toks[1]), int(toks[2]))
    raise ValueError(n)


def unhex(s):
    if s == "-":
        return []
    return [int(s[i:i + 2], 16) for i in range(0, len(s), 2)]


def mach_frame(o):
    """('mach', k, w, side, j, u) -> (type, bits of the output frame as the machine leaves them):
    the frame of the injection reuses the cells of a dropped frame holding the 2^k-bit word w;
    the tag is written, the padding skipped (stale), the payload written."""
    _, k, w, side, j, u = o
    big = word(k)
    pty = ONE if j is None else word(j)
    t = Sum(pty, big) if side == "L" else Sum(big, pty)
    wid = width(t)
    stale = int_bits(w, 2 ** k) + [0] * (wid - 2 ** k)
    pw = width(pty)
    padn = wid - 1 - pw
    frame = [0 if side == "L" else 1] + stale[1:1 + padn] + (int_bits(u, pw) if j is not None else [])
    assert len(frame) == wid
    return t, frame


def op_coq(o):
    n = o[0]
    if n == "unit":
        return "OUnit"
    if n == "wi":
        return "OWordInt %d %d" % (o[1], o[2])
    if n == "wb":
        return "OWordBytes %d %s" % (o[1], coq_list(o[2]))
    if n == "ba":
        return "OByteArray %s" % coq_list(o[1])
    if n == "buf":
        return "OBuffer %d %s" % (o[1], coq_list(o[2]))
    if n == "left":
        return "OLeft %d %s" % (o[1], ty_coq(o[2]))
    if n == "right":
        return "ORight %s %d" % (ty_coq(o[1]), o[2])
    if n == "prod":
        return "OProd %d %d" % (o[1], o[2])
    if n == "none":
        return "ONone %s" % ty_coq(o[1])
    if n == "some":
        return "OSome %d" % o[1]
    if n == "zero":
        return "OZero %s" % ty_coq(o[1])
    if n in ("asl", "asr", "fst", "snd", "machw"):
        return "%s %d" % ({"asl": "OAsLeft", "asr": "OAsRight", "fst": "OFst", "snd": "OSnd", "machw": "OMachW"}[n], o[1])
    if n == "pad":
        return "OPadded %s %s" % (ty_coq(o[1]), coq_list(o[2]))
    if n == "cmp":
        return "OCompact %s %s" % (ty_coq(o[1]), coq_list(o[2]))
    if n == "prune":
        return "OPrune %d %s" % (o[1], ty_coq(o[2]))
    if n == "mach":
        t, frame = mach_frame(o)
        return "OMach %s %s" % (ty_coq(t), coq_list(pack(frame)))
    if n == "ctx8":
        return "OCtx8 %s %d %s" % (coq_list(o[1]), o[2], coq_list(o[3]))
    if n == "isty":
        return "OIsType %d %s" % (o[1], ty_coq(o[2]))
    if n == "encv":
        return "OEncV %d" % o[1]
    raise ValueError(n)


def ops_line(ops):
    return " / ".join(op_line(o) for o in ops)


def ops_coq(ops):
    return "[" + "; ".join(op_coq(o) for o in ops) + "]"


def make_case(cid, kind, ops, meta=None, sel=None):
    """kind pool: every entry is observed; kind pair: the entries listed in sel are compared pairwise"""
    m = {"ops": [op_line(o) for o in ops]}
    if meta:
        m.update(meta)
    if kind in ("pair", "wpair"):
        if sel is None:
            sel = list(range(len(ops)))
        m["sel"] = sel
        return Case(cid, kind, "%s %s" % (",".join(str(i) for i in sel), ops_line(ops)),
                    "run_%s %s %s" % (kind, coq_list(["%d%%nat" % i for i in sel]), ops_coq(ops)), m)
    return Case(cid, kind, ops_line(ops), "run_%s %s" % (kind, ops_coq(ops)), m)


def case_ops(c):
    return [op_parse(l.split()) for l in c.meta["ops"]]


# ----------------------------------------------------------------------------- reference interpreter
def buffer_value(nn, data):
    """the intended element of buffer_ty(nn): per component Some(next 2^k bytes) iff bit k of the length is set"""
    vals = []
    rest = list(data)
    for lvl in range(nn, -1, -1):
        nb = 2 ** lvl
        if len(data) & nb:
            vals.append(('R', word_value(lvl + 3, bits_of_bytes(rest[:nb]))))
            rest = rest[nb:]
        else:
            vals.append(('L', U))
    v = vals[-1]
    for x in reversed(vals[:-1]):
        v = ('P', x, v)
    return v


def ref_run(ops):
    """Semantic meaning of a pool program, independent of any byte layout.
    Returns (pool, log): pool entries are (type, value) or an int failure code
    (1 None, 2 early end of stream, 3 slice too large, 9 panic); log is the status
    list the harness prints before 777."""
    pool = []
    log = []

    def get(i):
        if 0 <= i < len(pool) and not isinstance(pool[i], int):
            return pool[i]
        return None

    for o in ops:
        n = o[0]
        e = 1
        extra = []
        if n == "unit":
            e = (ONE, U)
        elif n == "wi":
            k, v = o[1], o[2]
            if k <= 2 and v >= 2 ** (2 ** k):
                e = 9
            else:
                e = (word(k), word_value(k, int_bits(v, 2 ** k)))
        elif n == "wb":
            e = (word(o[1]), word_value(o[1], bits_of_bytes(o[2])))
        elif n == "ba":
            ln = len(o[1])
            if ln & (ln - 1) or ln == 0:
                e = 9
            else:
                k = 3 + ln.bit_length() - 1
                e = (word(k), word_value(k, bits_of_bytes(o[1])))
        elif n == "buf":
            nn, data = o[1], o[2]
            if len(data) > 2 ** (nn + 1) - 1:
                e = 3
            else:
                vals = []
                rest = list(data)
                for lvl in range(nn, -1, -1):
                    nb = 2 ** lvl
                    if len(data) & nb:
                        vals.append(('R', word_value(lvl + 3, bits_of_bytes(rest[:nb]))))
                        rest = rest[nb:]
                    else:
                        vals.append(('L', U))
                v = vals[-1]
                for x in reversed(vals[:-1]):
                    v = ('P', x, v)
                e = (buffer_ty(nn), v)
        elif n == "left":
            a = get(o[1])
            if a:
                e = (Sum(a[0], o[2]), ('L', a[1]))
        elif n == "right":
            a = get(o[2])
            if a:
                e = (Sum(o[1], a[0]), ('R', a[1]))
        elif n == "prod":
            a, b = get(o[1]), get(o[2])
            if a and b:
                e = (Prod(a[0], b[0]), ('P', a[1], b[1]))
        elif n == "none":
            e = (Sum(ONE, o[1]), ('L', U))
        elif n == "some":
            a = get(o[1])
            if a:
                e = (Sum(ONE, a[0]), ('R', a[1]))
        elif n == "zero":
            e = (o[1], szero(o[1]))
        elif n == "asl":
            a = get(o[1])
            if a and a[0][0] == '+' and a[1][0] == 'L':
                e = (a[0][1], a[1][1])
        elif n == "asr":
            a = get(o[1])
            if a and a[0][0] == '+' and a[1][0] == 'R':
                e = (a[0][2], a[1][1])
        elif n == "fst":
            a = get(o[1])
            if a and a[0][0] == '*':
                e = (a[0][1], a[1][1])
        elif n == "snd":
            a = get(o[1])
            if a and a[0][0] == '*':
                e = (a[0][2], a[1][2])
        elif n == "pad":
            t, bs = o[1], o[2]
            bits = bits_of_bytes(bs)
            if len(bits) < width(t):
                e = 2
            else:
                e = (t, of_padded(t, bits))
                extra = [width(t)]
        elif n == "cmp":
            t, bs = o[1], o[2]
            bits = bits_of_bytes(bs)
            r = of_compact(t, bits)
            if r is None:
                e = 2
            else:
                e = (t, r[0])
                extra = [r[1]]
        elif n == "prune":
            a = get(o[1])
            if a:
                r = sprune(a[1], o[2])
                if r is not None:
                    e = (o[2], r)
        elif n == "mach":
            t, frame = mach_frame(o)
            e = (t, of_padded(t, frame))
        elif n == "machw":
            a = get(o[1])
            if a:
                # BitMachine::exec returns Value::unit() for every target type of width 0
                e = a if width(a[0]) > 0 else (ONE, U)
        elif n == "ctx8":
            mid, cnt, data = o[1], o[2], o[3]
            if len(data) > 63:
                e = 3
            else:
                e = (Prod(buffer_ty(5), Prod(word(6), word(8))),
                     ('P', buffer_value(5, data), ('P', word_value(6, int_bits(cnt, 64)), word_value(8, bits_of_bytes(mid)))))
        elif n == "isty":
            a = get(o[1])
            if a:
                e = a
                extra = [1 if a[0] == o[2] else 0]
        elif n == "encv":
            a = get(o[1])
            if a:
                e = a
                extra = [len(compact_enc(a[1]))]
        else:
            raise ValueError(n)
        pool.append(e)
        log.append(e if isinstance(e, int) else 0)
        log.extend(extra)
    return pool, log


# ----------------------------------------------------------------------------- result parsers
def split_log(r, ops):
    """(per-op [(code, extra)], rest after the 777 separator) or None; walks the op list so that
    a consumed-bits count can never be mistaken for the separator"""
    if not isinstance(r, list):
        return None
    out = []
    p = 0
    for o in ops:
        if p >= len(r):
            return None
        code = r[p]
        p += 1
        extra = []
        if code == 0 and o[0] in ("pad", "cmp", "isty", "encv"):
            if p >= len(r):
                return None
            extra = [r[p]]
            p += 1
        out.append((code, extra))
    if p >= len(r) or r[p] != 777:
        return None
    return out, r[p + 1:]


def parse_pool_obs(rest, nvals):
    """list of dicts (tokens, off, bytes, padded, compact, compact_len, padded_len) or None"""
    out = []
    p = 0
    try:
        for _ in range(nvals):
            d = {}
            for key in ("tokens", None, "bytes", "padded", "compact"):
                if key is None:
                    d["off"] = rest[p]
                    p += 1
                    continue
                ln = rest[p]
                d[key] = rest[p + 1:p + 1 + ln]
                if len(d[key]) != ln:
                    return None
                p += 1 + ln
            d["compact_len"] = rest[p]
            d["padded_len"] = rest[p + 1]
            p += 2
            out.append(d)
    except IndexError:
        return None
    if p != len(rest):
        return None
    return out


def parse_pool(r, ops):
    """-> (codes, obs) | None"""
    sl = split_log(r, ops)
    if sl is None:
        return None
    codes, rest = sl
    nvals = len([1 for c, _ in codes if c == 0])
    obs = parse_pool_obs(rest, nvals)
    if obs is None:
        return None
    return codes, obs


def parse_pair(r, ops, sel):
    """-> (codes, selected ok indices, matrix[i][j] = (eq, cmp, hasheq)) | None"""
    sl = split_log(r, ops)
    if sl is None:
        return None
    codes, rest = sl
    oksel = [i for i in sel if 0 <= i < len(codes) and codes[i][0] == 0]
    n = len(oksel)
    if len(rest) != 3 * n * n:
        return None
    m = [[tuple(rest[3 * (i * n + j):3 * (i * n + j) + 3]) for j in range(n)] for i in range(n)]
    return codes, oksel, m


def parse_wpair(r, ops, sel):
    """kind wpair -> (codes, selected ok indices, word n per selected (None = not a word),
    matrix over the words) | None"""
    sl = split_log(r, ops)
    if sl is None:
        return None
    codes, rest = sl
    oksel = [i for i in sel if 0 <= i < len(codes) and codes[i][0] == 0]
    if len(rest) < len(oksel):
        return None
    ns = [None if x == 0 else x - 1 for x in rest[:len(oksel)]]
    rest = rest[len(oksel):]
    n = len([x for x in ns if x is not None])
    if len(rest) != 3 * n * n:
        return None
    m = [[tuple(rest[3 * (i * n + j):3 * (i * n + j) + 3]) for j in range(n)] for i in range(n)]
    return codes, oksel, ns, m


def raw_only_difference(c, impl_r, model_r):
    """True when model and implementation differ only in raw buffer bytes / bit offset"""
    if c.kind != "pool":
        return False
    ops = case_ops(c)
    a = parse_pool(impl_r, ops)
    b = parse_pool(model_r, ops)
    if a is None or b is None:
        return False
    if a[0] != b[0] or len(a[1]) != len(b[1]):
        return False
    for x, y in zip(a[1], b[1]):
        for k in ("tokens", "padded", "compact", "compact_len", "padded_len"):
            if x[k] != y[k]:
                return False
    return True


# ----------------------------------------------------------------------------- random types / values
def rand_type(rng, budget, flavour=None):
    """random type with roughly `budget` constructors; flavours bias the shape"""
    if flavour is None:
        flavour = rng.choice(["mixed", "sums", "units", "words", "mixed"])
    if budget <= 0:
        if flavour == "words" and rng.chance(1, 2):
            return word(rng.below(4))
        return ONE if rng.chance(2, 3) else BIT
    r = rng.below(10)
    if flavour == "words" and r < 3:
        return word(rng.below(5))
    if flavour == "sums":
        # nested sums of unequal width
        if r < 7:
            a = rand_type(rng, rng.below(budget), flavour)
            b = rand_type(rng, budget - 1 - rng.below(budget), flavour)
            if width(a) == width(b) and rng.chance(2, 3):
                b = Prod(b, rng.choice([BIT, word(1), word(2), Sum(BIT, ONE)]))
            return Sum(a, b) if rng.chance(1, 2) else Sum(b, a)
        a = rand_type(rng, budget // 2, flavour)
        b = rand_type(rng, budget - 1 - budget // 2, flavour)
        return Prod(a, b)
    if flavour == "units":
        # unit-heavy products
        if r < 6:
            a = ONE if rng.chance(1, 2) else rand_type(rng, budget // 2, flavour)
            b = ONE if rng.chance(1, 3) else rand_type(rng, budget - 1 - budget // 2, flavour)
            return Prod(a, b)
        a = rand_type(rng, budget // 2, flavour)
        b = rand_type(rng, budget - 1 - budget // 2, flavour)
        return Sum(a, b)
    k = rng.below(budget)
    a = rand_type(rng, k, flavour)
    b = rand_type(rng, budget - 1 - k, flavour)
    return Sum(a, b) if rng.chance(1, 2) else Prod(a, b)


def rand_value(rng, t):
    if t[0] == '1':
        return U
    if t[0] == '+':
        if rng.chance(1, 2):
            return ('L', rand_value(rng, t[1]))
        return ('R', rand_value(rng, t[2]))
    return ('P', rand_value(rng, t[1]), rand_value(rng, t[2]))


def shrink_type(rng, t, p=3):
    """a type <= t: some subtrees replaced by unit"""
    if t[0] == '1':
        return ONE
    if rng.chance(1, p):
        return ONE
    return (t[0], shrink_type(rng, t[1], p), shrink_type(rng, t[2], p))


def grow_type(rng, t, v):
    """(t', v') with t <= t' and sprune(v', t) = v: unit leaves replaced by random types"""
    kw = word_of(t)
    if kw is not None and kw >= 2 and not rng.chance(1, 8 * kw):
        return t, v
    if t[0] == '1':
        if rng.chance(1, 2):
            return ONE, U
        nt = rand_type(rng, rng.below(3))
        return nt, rand_value(rng, nt)
    if t[0] == '+':
        if v[0] == 'L':
            a, va = grow_type(rng, t[1], v[1])
            b = grow_type(rng, t[2], szero(t[2]))[0] if rng.chance(1, 2) else t[2]
            return Sum(a, b), ('L', va)
        b, vb = grow_type(rng, t[2], v[1])
        a = grow_type(rng, t[1], szero(t[1]))[0] if rng.chance(1, 2) else t[1]
        return Sum(a, b), ('R', vb)
    a, va = grow_type(rng, t[1], v[1])
    b, vb = grow_type(rng, t[2], v[2])
    return Prod(a, b), ('P', va, vb)


def mutate_type(rng, t):
    """a type that is (usually) incompatible with t"""
    if t[0] == '1':
        return rng.choice([BIT, Prod(ONE, ONE), Sum(ONE, BIT)])
    r = rng.below(4)
    if r == 0:
        return ('*' if t[0] == '+' else '+', t[1], t[2])
    if r == 1:
        return (t[0], t[2], t[1])
    if r == 2:
        return (t[0], mutate_type(rng, t[1]), t[2])
    return (t[0], t[1], mutate_type(rng, t[2]))


# ----------------------------------------------------------------------------- building values by different histories
class Builder:
    """accumulates ops; every method returns the pool index of the value it built"""

    def __init__(self, rng):
        self.rng = rng
        self.ops = []

    def add(self, o):
        self.ops.append(o)
        return len(self.ops) - 1

    # --- history kinds
    def by_constructors(self, t, v, words=True):
        rng = self.rng
        k = word_of(t)
        if words and k is not None and k <= 9 and (k >= 3 or rng.chance(3, 4)):
            bits = padded_enc(t, v, lambda: 0)
            n = 0
            for b in bits:
                n = 2 * n + b
            if k <= 7 and (k < 3 or rng.chance(2, 3)):
                return self.add(("wi", k, n))
            bs = pack(bits)
            if k in (8, 9) and rng.chance(1, 2):
                return self.add(("wb", k, bs))
            if k >= 3 and k <= 9:
                return self.add(("ba", bs))
        if t[0] == '1':
            return self.add(("unit",))
        if t[0] == '+':
            if v[0] == 'L':
                if t[1][0] == '1' and rng.chance(1, 2):
                    return self.add(("none", t[2]))
                i = self.by_constructors(t[1], v[1], words)
                return self.add(("left", i, t[2]))
            i = self.by_constructors(t[2], v[1], words)
            if t[1][0] == '1' and rng.chance(1, 2):
                return self.add(("some", i))
            return self.add(("right", t[1], i))
        i = self.by_constructors(t[1], v[1], words)
        j = self.by_constructors(t[2], v[2], words)
        return self.add(("prod", i, j))

    def by_padded(self, t, v, dirty=True):
        rng = self.rng
        bits = padded_enc(t, v, (lambda: rng.next() & 1) if dirty else (lambda: 0))
        tail = rng.bits(rng.choice([0, 0, 3, 8]))
        bs = pack(bits + tail)
        if dirty and bs and rng.chance(1, 2):
            # the unused bits of the last byte are arbitrary too
            used = (len(bits) + len(tail)) % 8
            if used:
                bs[-1] |= rng.below(2 ** (8 - used))
        return self.add(("pad", t, bs))

    def by_compact(self, t, v):
        rng = self.rng
        bits = compact_enc(v) + rng.bits(rng.choice([0, 0, 5, 9]))
        bs = pack(bits)
        used = len(bits) % 8
        if used and rng.chance(1, 2):
            bs[-1] |= rng.below(2 ** (8 - used))
        return self.add(("cmp", t, bs))

    def by_embedding(self, t, v, inner):
        """wrap the value built by `inner` into a larger value at an odd offset, then extract it"""
        rng = self.rng
        i = inner(t, v)
        for _ in range(rng.range(1, 3)):
            r = rng.below(4)
            if r == 0:
                pt = rng.choice([BIT, word(1), Sum(BIT, ONE), Prod(BIT, word(1)), word(2), Sum(word(1), BIT), ONE,
                                 Prod(BIT, Prod(BIT, BIT)), Prod(word(2), BIT), Prod(word(2), word(1)), Prod(word(2), Prod(word(1), BIT))])
                pv = rand_value(rng, pt)
                p = self.by_constructors(pt, pv) if rng.chance(2, 3) else self.by_padded(pt, pv)
                q = self.add(("prod", p, i))
                i = self.add(("snd", q))
            elif r == 1:
                st = rng.choice([BIT, word(2), ONE, Sum(ONE, word(1))])
                sv = rand_value(rng, st)
                s = self.by_constructors(st, sv)
                q = self.add(("prod", i, s))
                i = self.add(("fst", q))
            elif r == 2:
                ot = rng.choice([ONE, BIT, word(2), word(3), Prod(word(3), BIT), t])
                q = self.add(("left", i, ot))
                i = self.add(("asl", q))
            else:
                ot = rng.choice([ONE, BIT, word(2), word(3), Prod(word(3), BIT), t])
                q = self.add(("right", ot, i))
                i = self.add(("asr", q))
        return i

    def by_prune(self, t, v, inner):
        t2, v2 = grow_type(self.rng, t, v)
        i = inner(t2, v2)
        return self.add(("prune", i, t))

    def by_machine(self, t, v, inner):
        i = inner(t, v)
        return self.add(("machw", i))

    def any_history(self, t, v, depth=0):
        """returns (index, history name)"""
        rng = self.rng
        r = rng.below(10) if depth < 2 else rng.below(4)
        inner = lambda tt, vv: self.any_history(tt, vv, depth + 1)[0]
        if r < 2:
            return self.by_constructors(t, v), "cons"
        if r < 3:
            return self.by_padded(t, v), "pad"
        if r < 4:
            return self.by_compact(t, v), "cmp"
        if r < 7:
            return self.by_embedding(t, v, inner), "embed"
        if r < 9:
            return self.by_prune(t, v, inner), "prune"
        return self.by_machine(t, v, inner), "mach"


def rand_big_type(rng, tier):
    """types for random histories: nested sums of unequal width, unit-heavy products, words, buffers"""
    r = rng.below(12)
    maxk = 9 if tier == "quick" else 11
    if r == 0:
        return word(rng.range(3, maxk))
    if r == 1:
        return buffer_ty(rng.range(0, 2 if tier == "quick" else 4))
    if r == 2:
        return Sum(word(rng.range(0, 6)), word(rng.range(0, 6)))
    if r == 3:
        return Prod(option(word(rng.range(0, 5))), Sum(word(rng.range(0, 4)), Prod(ONE, word(rng.range(0, 4)))))
    if r == 4:
        return option(option(word(rng.range(0, 5))))
    return rand_type(rng, rng.range(1, 9))


def load_corpus(prop):
    """corpus/<prop>/*.case: lines `<name> <kind> <ops ...>` in the harness notation"""
    d = os.path.join(vplib.VERIF, "corpus", prop)
    out = []
    if not os.path.isdir(d):
        return out
    for fn in sorted(os.listdir(d)):
        if not fn.endswith(".case"):
            continue
        for line in open(os.path.join(d, fn)):
            line = line.strip()
            if not line or line.startswith("#"):
                continue
            toks = line.split()
            name, kind = toks[0], toks[1]
            ops = []
            cur = []
            sel = None
            first = 2
            if kind == "pair" and (toks[2] == "*" or toks[2][0].isdigit()):
                sel = None if toks[2] == "*" else [int(x) for x in toks[2].split(",")]
                first = 3
            for t in toks[first:]:
                if t == "/":
                    ops.append(op_parse(cur))
                    cur = []
                else:
                    cur.append(t)
            if cur:
                ops.append(op_parse(cur))
            out.append(make_case("corpus_%s" % name, kind, ops, {"corpus": fn, "name": name}, sel=sel))
    return out


def replay_common(prop, obj, prop_check):
    import json
    print(json.dumps(obj, indent=1))
    c = obj.get("case")
    if not c:
        return 0
    binary, _ = vplib.harness_build("debug", crate=CRATE)
    case = Case(c["id"], c["kind"], c["harness_args"], c["model_expr"], c.get("meta"))
    rep = vplib.Report(prop, "quick", 0)
    impl, model = vplib.eval_cases(rep, binary, COMMAND, [case], IMPORTS, tag="replay")
    print("implementation:", impl.get(case.cid))
    print("model         :", model.get(case.cid))
    print("property      :", prop_check(case, impl.get(case.cid)))
    return 0
