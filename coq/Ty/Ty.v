(* Final types, bit widths, padding, and the mathematical values of a type with their
   padded and compact bit encodings.
     src/types/final_data.rs  Final::{sum,product,bit_width,has_padding,pad_left,pad_right}
     src/value.rs             (specification side only: what a value denotes)
   Shared by Value (C10/C11), Core (C05/C07), Codec (C01/C02), Redeem (C08/C12). *)
From RS Require Import Lib.Tac Lib.Bits.
Import ListNotations.
Local Open Scope N_scope.

Inductive ty : Type :=
| One
| Sum (a b : ty)
| Prod (a b : ty).

Fixpoint ty_eqb (a b : ty) : bool :=
  match a, b with
  | One, One => true
  | Sum a1 a2, Sum b1 b2 => ty_eqb a1 b1 && ty_eqb a2 b2
  | Prod a1 a2, Prod b1 b2 => ty_eqb a1 b1 && ty_eqb a2 b2
  | _, _ => false
  end.

Lemma ty_eqb_eq a : forall b, ty_eqb a b = true <-> a = b.
Proof.
  induction a as [|a1 IH1 a2 IH2|a1 IH1 a2 IH2]; intros [|b1 b2|b1 b2]; cbn;
    try (split; [discriminate|discriminate]); try (split; reflexivity).
  - rewrite andb_true_iff, IH1, IH2. split; [intros [-> ->]; reflexivity|intros H; injection H; auto].
  - rewrite andb_true_iff, IH1, IH2. split; [intros [-> ->]; reflexivity|intros H; injection H; auto].
Qed.

Lemma ty_eq_dec (a b : ty) : {a = b} + {a <> b}.
Proof. decide equality. Defined.

(* unbounded width (the mathematical one) *)
Fixpoint width (t : ty) : N :=
  match t with
  | One => 0
  | Sum a b => 1 + N.max (width a) (width b)
  | Prod a b => width a + width b
  end.

(* the width the code computes: usize with saturating adds *)
Definition usize_max : N := 18446744073709551615.
Definition sat_add (a b : N) : N := N.min (a + b) usize_max.

Fixpoint width_sat (t : ty) : N :=
  match t with
  | One => 0
  | Sum a b => sat_add (N.max (width_sat a) (width_sat b)) 1
  | Prod a b => sat_add (width_sat a) (width_sat b)
  end.

Fixpoint has_padding (t : ty) : bool :=
  match t with
  | One => false
  | Sum a b => has_padding a || has_padding b || negb (width_sat a =? width_sat b)
  | Prod a b => has_padding a || has_padding b
  end.

Definition pad_left (a b : ty) : N := N.max (width a) (width b) - width a.
Definition pad_right (a b : ty) : N := N.max (width a) (width b) - width b.

Lemma width_sat_le t : width_sat t <= usize_max.
Proof. destruct t; cbn; unfold sat_add, usize_max; lia. Qed.

Lemma width_sat_eq t : width t <= usize_max -> width_sat t = width t.
Proof.
  induction t as [|a IHa b IHb|a IHa b IHb]; cbn [width width_sat]; intros H; [reflexivity| |].
  - unfold sat_add. rewrite IHa, IHb by (unfold usize_max in *; lia). unfold usize_max in *; lia.
  - unfold sat_add. rewrite IHa, IHb by (unfold usize_max in *; lia). unfold usize_max in *; lia.
Qed.

(* 2^(2^n) words *)
Definition Bit : ty := Sum One One.
Fixpoint word_ty (n : nat) : ty :=
  match n with O => Bit | S k => Prod (word_ty k) (word_ty k) end.

Lemma width_word n : width (word_ty n) = 2 ^ N.of_nat n.
Proof.
  induction n as [|n IH]; [reflexivity|].
  cbn [word_ty width]. rewrite IH, Nat2N.inj_succ, N.pow_succ_r'. lia.
Qed.

Definition option_ty (a : ty) : ty := Sum One a.

(* the order used by pruning: unit below everything, component-wise otherwise *)
Fixpoint ty_le (s t : ty) : bool :=
  match s, t with
  | One, _ => true
  | Sum s1 s2, Sum t1 t2 => ty_le s1 t1 && ty_le s2 t2
  | Prod s1 s2, Prod t1 t2 => ty_le s1 t1 && ty_le s2 t2
  | _, _ => false
  end.

Lemma ty_le_refl t : ty_le t t = true.
Proof. induction t; cbn; rewrite ?IHt1, ?IHt2; reflexivity. Qed.

Lemma ty_le_trans a : forall b c, ty_le a b = true -> ty_le b c = true -> ty_le a c = true.
Proof.
  induction a as [|a1 IH1 a2 IH2|a1 IH1 a2 IH2]; intros b c Hab Hbc; [reflexivity| |];
    destruct b as [|b1 b2|b1 b2]; cbn in Hab; try discriminate;
    destruct c as [|c1 c2|c1 c2]; cbn in Hbc; try discriminate;
    apply andb_true_iff in Hab; apply andb_true_iff in Hbc; cbn;
    apply andb_true_iff; split; [eapply IH1|eapply IH2| eapply IH1| eapply IH2]; intuition eauto.
Qed.

(* ------------------------------------------------------------------ values *)

Inductive sval : Type :=
| SU
| SL (v : sval)
| SR (v : sval)
| SP (v w : sval).

Fixpoint sval_eqb (a b : sval) : bool :=
  match a, b with
  | SU, SU => true
  | SL a, SL b => sval_eqb a b
  | SR a, SR b => sval_eqb a b
  | SP a1 a2, SP b1 b2 => sval_eqb a1 b1 && sval_eqb a2 b2
  | _, _ => false
  end.

Lemma sval_eqb_eq a : forall b, sval_eqb a b = true <-> a = b.
Proof.
  induction a as [|a IH|a IH|a1 IH1 a2 IH2]; intros [|b|b|b1 b2]; cbn;
    try (split; [discriminate|discriminate]); try (split; reflexivity).
  - rewrite IH. split; [intros ->; reflexivity|intros H; injection H; auto].
  - rewrite IH. split; [intros ->; reflexivity|intros H; injection H; auto].
  - rewrite andb_true_iff, IH1, IH2. split; [intros [-> ->]; reflexivity|intros H; injection H; auto].
Qed.

Fixpoint has_ty (v : sval) (t : ty) : bool :=
  match v, t with
  | SU, One => true
  | SL v, Sum a _ => has_ty v a
  | SR v, Sum _ b => has_ty v b
  | SP v w, Prod a b => has_ty v a && has_ty w b
  | _, _ => false
  end.

(* padded encoding with all padding bits zero (the canonical representative) *)
Fixpoint padded_enc (t : ty) (v : sval) : list bool :=
  match t, v with
  | Sum a b, SL v => false :: repeat false (N.to_nat (pad_left a b)) ++ padded_enc a v
  | Sum a b, SR v => true :: repeat false (N.to_nat (pad_right a b)) ++ padded_enc b v
  | Prod a b, SP v w => padded_enc a v ++ padded_enc b w
  | _, _ => []
  end.

(* any padding contents: relation between a bit string and the value it denotes *)
Inductive padded_of : ty -> sval -> list bool -> Prop :=
| PO_unit : padded_of One SU []
| PO_left a b v pad bits :
    length pad = N.to_nat (pad_left a b) -> padded_of a v bits ->
    padded_of (Sum a b) (SL v) (false :: pad ++ bits)
| PO_right a b v pad bits :
    length pad = N.to_nat (pad_right a b) -> padded_of b v bits ->
    padded_of (Sum a b) (SR v) (true :: pad ++ bits)
| PO_prod a b v w bv bw :
    padded_of a v bv -> padded_of b w bw -> padded_of (Prod a b) (SP v w) (bv ++ bw).

(* compact encoding: tags and data, no padding *)
Fixpoint compact_enc (v : sval) : list bool :=
  match v with
  | SU => []
  | SL v => false :: compact_enc v
  | SR v => true :: compact_enc v
  | SP v w => compact_enc v ++ compact_enc w
  end.

(* decode a padded bit string of exactly [width t] bits (total on such strings) *)
Fixpoint of_padded (t : ty) (bits : list bool) : sval :=
  match t with
  | One => SU
  | Sum a b =>
      match bits with
      | true :: r => SR (of_padded b (skipn (N.to_nat (pad_right a b)) r))
      | _ :: r => SL (of_padded a (skipn (N.to_nat (pad_left a b)) r))
      | [] => SL (of_padded a [])
      end
  | Prod a b =>
      SP (of_padded a (firstn (N.to_nat (width a)) bits))
         (of_padded b (skipn (N.to_nat (width a)) bits))
  end.

(* decode a compact bit string; returns the value and the unread bits *)
Fixpoint of_compact (t : ty) (bits : list bool) : option (sval * list bool) :=
  match t with
  | One => Some (SU, bits)
  | Sum a b =>
      match bits with
      | [] => None
      | false :: r => match of_compact a r with Some (v, r') => Some (SL v, r') | None => None end
      | true :: r => match of_compact b r with Some (v, r') => Some (SR v, r') | None => None end
      end
  | Prod a b =>
      match of_compact a bits with
      | None => None
      | Some (v, r) => match of_compact b r with Some (w, r') => Some (SP v w, r') | None => None end
      end
  end.

(* prune a value to a smaller type *)
Fixpoint sprune (v : sval) (t : ty) : option sval :=
  match t, v with
  | One, _ => Some SU
  | Sum a _, SL v => option_map SL (sprune v a)
  | Sum _ b, SR v => option_map SR (sprune v b)
  | Prod a b, SP v w =>
      match sprune v a, sprune w b with
      | Some v', Some w' => Some (SP v' w')
      | _, _ => None
      end
  | _, _ => None
  end.

(* the all-zero value of a type: Value::zero *)
Fixpoint szero (t : ty) : sval :=
  match t with
  | One => SU
  | Sum a _ => SL (szero a)
  | Prod a b => SP (szero a) (szero b)
  end.

(* ------------------------------------------------------------------ theorems *)

Lemma padded_enc_length t : forall v, has_ty v t = true ->
  length (padded_enc t v) = N.to_nat (width t).
Proof.
  induction t as [|a IHa b IHb|a IHa b IHb]; intros v H; destruct v; cbn in H; try discriminate.
  - reflexivity.
  - cbn [padded_enc width length]. rewrite app_length, repeat_length, IHa by exact H.
    unfold pad_left. lia.
  - cbn [padded_enc width length]. rewrite app_length, repeat_length, IHb by exact H.
    unfold pad_right. lia.
  - apply andb_true_iff in H. destruct H as [H1 H2].
    cbn [padded_enc width]. rewrite app_length, IHa, IHb by assumption. lia.
Qed.

Lemma padded_of_length t v bits : padded_of t v bits -> length bits = N.to_nat (width t).
Proof.
  induction 1; cbn [width length]; rewrite ?app_length; unfold pad_left, pad_right in *; lia.
Qed.

Lemma padded_of_has_ty t v bits : padded_of t v bits -> has_ty v t = true.
Proof. induction 1; cbn; auto. rewrite IHpadded_of1, IHpadded_of2. reflexivity. Qed.

Lemma padded_enc_padded_of t : forall v, has_ty v t = true -> padded_of t v (padded_enc t v).
Proof.
  induction t as [|a IHa b IHb|a IHa b IHb]; intros v H; destruct v; cbn in H; try discriminate.
  - constructor.
  - cbn [padded_enc]. constructor; [apply repeat_length|apply IHa; exact H].
  - cbn [padded_enc]. constructor; [apply repeat_length|apply IHb; exact H].
  - apply andb_true_iff in H. destruct H. cbn [padded_enc]. constructor; auto.
Qed.

(* every padded string (any padding contents) decodes to the value it denotes *)
Theorem of_padded_spec t v bits : padded_of t v bits -> of_padded t bits = v.
Proof.
  induction 1 as [|a b v pad bits Hl Hp IH|a b v pad bits Hl Hp IH|a b v w bv bw H1 IH1 H2 IH2].
  - reflexivity.
  - cbn [of_padded]. rewrite <- Hl, skipn_app, skipn_all, Nat.sub_diag. cbn [skipn app]. rewrite IH. reflexivity.
  - cbn [of_padded]. rewrite <- Hl, skipn_app, skipn_all, Nat.sub_diag. cbn [skipn app]. rewrite IH. reflexivity.
  - cbn [of_padded]. rewrite <- (padded_of_length _ _ _ H1).
    rewrite firstn_app, firstn_all, Nat.sub_diag, firstn_O, app_nil_r.
    rewrite skipn_app, skipn_all, Nat.sub_diag. cbn [skipn app]. rewrite IH1, IH2. reflexivity.
Qed.

(* conversely every string of the right length denotes exactly one value *)
Theorem of_padded_total t : forall bits, length bits = N.to_nat (width t) ->
  padded_of t (of_padded t bits) bits.
Proof.
  induction t as [|a IHa b IHb|a IHa b IHb]; intros bits Hlen; cbn [width] in Hlen.
  - destruct bits; [constructor|discriminate].
  - destruct bits as [|tag r]; [cbn [length] in Hlen; lia|]. cbn [length] in Hlen.
    destruct tag; cbn [of_padded].
    + rewrite <- (firstn_skipn (N.to_nat (pad_right a b)) r) at 2.
      constructor.
      * rewrite firstn_length. unfold pad_right. lia.
      * apply IHb. rewrite skipn_length. unfold pad_right. lia.
    + rewrite <- (firstn_skipn (N.to_nat (pad_left a b)) r) at 2.
      constructor.
      * rewrite firstn_length. unfold pad_left. lia.
      * apply IHa. rewrite skipn_length. unfold pad_left. lia.
  - cbn [of_padded]. rewrite <- (firstn_skipn (N.to_nat (width a)) bits) at 3.
    constructor.
    + apply IHa. rewrite firstn_length. lia.
    + apply IHb. rewrite skipn_length. lia.
Qed.

(* compact encoding: exact consumption and uniqueness *)
Theorem of_compact_enc t : forall v rest, has_ty v t = true ->
  of_compact t (compact_enc v ++ rest) = Some (v, rest).
Proof.
  induction t as [|a IHa b IHb|a IHa b IHb]; intros v rest H; destruct v; cbn in H; try discriminate.
  - reflexivity.
  - cbn [compact_enc app of_compact]. rewrite IHa by exact H. reflexivity.
  - cbn [compact_enc app of_compact]. rewrite IHb by exact H. reflexivity.
  - apply andb_true_iff in H. destruct H as [H1 H2].
    cbn [compact_enc of_compact]. rewrite <- app_assoc, IHa, IHb by assumption. reflexivity.
Qed.

Theorem of_compact_inv t : forall bits v rest, of_compact t bits = Some (v, rest) ->
  has_ty v t = true /\ bits = compact_enc v ++ rest.
Proof.
  induction t as [|a IHa b IHb|a IHa b IHb]; intros bits v rest H; cbn [of_compact] in H.
  - injection H as <- <-. auto.
  - destruct bits as [|[|] r]; [discriminate| |].
    + destruct (of_compact b r) as [[w r']|] eqn:E; [|discriminate]. injection H as <- <-.
      destruct (IHb _ _ _ E) as [H1 ->]. auto.
    + destruct (of_compact a r) as [[w r']|] eqn:E; [|discriminate]. injection H as <- <-.
      destruct (IHa _ _ _ E) as [H1 ->]. auto.
  - destruct (of_compact a bits) as [[v1 r1]|] eqn:E1; [|discriminate].
    destruct (of_compact b r1) as [[v2 r2]|] eqn:E2; [|discriminate]. injection H as <- <-.
    destruct (IHa _ _ _ E1) as [H1 ->]. destruct (IHb _ _ _ E2) as [H2 ->].
    cbn. rewrite H1, H2, app_assoc. auto.
Qed.

Corollary compact_enc_inj t v w : has_ty v t = true -> has_ty w t = true ->
  compact_enc v = compact_enc w -> v = w.
Proof.
  intros Hv Hw E.
  pose proof (of_compact_enc t v [] Hv) as A. pose proof (of_compact_enc t w [] Hw) as B.
  rewrite E in A. rewrite A in B. injection B; auto.
Qed.

(* the compact encoding is the padded one with the padding positions deleted *)
Fixpoint strip (t : ty) (bits : list bool) : list bool :=
  match t with
  | One => []
  | Sum a b =>
      match bits with
      | true :: r => true :: strip b (skipn (N.to_nat (pad_right a b)) r)
      | _ :: r => false :: strip a (skipn (N.to_nat (pad_left a b)) r)
      | [] => []
      end
  | Prod a b => strip a (firstn (N.to_nat (width a)) bits) ++ strip b (skipn (N.to_nat (width a)) bits)
  end.

Theorem strip_padded t v bits : padded_of t v bits -> strip t bits = compact_enc v.
Proof.
  induction 1 as [|a b v pad bits Hl Hp IH|a b v pad bits Hl Hp IH|a b v w bv bw H1 IH1 H2 IH2].
  - reflexivity.
  - cbn [strip compact_enc]. rewrite <- Hl, skipn_app, skipn_all, Nat.sub_diag. cbn [skipn app]. rewrite IH. reflexivity.
  - cbn [strip compact_enc]. rewrite <- Hl, skipn_app, skipn_all, Nat.sub_diag. cbn [skipn app]. rewrite IH. reflexivity.
  - cbn [strip compact_enc]. rewrite <- (padded_of_length _ _ _ H1).
    rewrite firstn_app, firstn_all, Nat.sub_diag, firstn_O, app_nil_r.
    rewrite skipn_app, skipn_all, Nat.sub_diag. cbn [skipn app]. rewrite IH1, IH2. reflexivity.
Qed.

(* pruning *)
Theorem sprune_typed : forall v t t', has_ty v t = true -> ty_le t' t = true ->
  exists v', sprune v t' = Some v' /\ has_ty v' t' = true.
Proof.
  induction v as [|v IH|v IH|v1 IH1 v2 IH2]; intros t t' Hv Hle;
    destruct t as [|a b|a b]; cbn in Hv; try discriminate;
    destruct t' as [|a' b'|a' b']; cbn in Hle; try discriminate;
    try (eexists; split; reflexivity).
  - apply andb_true_iff in Hle. destruct Hle as [Hl _].
    destruct (IH _ _ Hv Hl) as (v' & Hs & Ht). cbn. rewrite Hs. eexists; split; [reflexivity|exact Ht].
  - apply andb_true_iff in Hle. destruct Hle as [_ Hl].
    destruct (IH _ _ Hv Hl) as (v' & Hs & Ht). cbn. rewrite Hs. eexists; split; [reflexivity|exact Ht].
  - apply andb_true_iff in Hle. destruct Hle as [Hl1 Hl2]. apply andb_true_iff in Hv. destruct Hv as [Hv1 Hv2].
    destruct (IH1 _ _ Hv1 Hl1) as (v1' & Hs1 & Ht1). destruct (IH2 _ _ Hv2 Hl2) as (v2' & Hs2 & Ht2).
    cbn. rewrite Hs1, Hs2. eexists; split; [reflexivity|]. cbn. rewrite Ht1, Ht2. reflexivity.
Qed.

Theorem sprune_has_ty : forall v t' v', sprune v t' = Some v' -> has_ty v' t' = true.
Proof.
  induction v as [|v IH|v IH|v1 IH1 v2 IH2]; intros t' v' H; destruct t' as [|a b|a b]; cbn in H;
    try discriminate; try (injection H as <-; reflexivity).
  - destruct (sprune v a) eqn:E; [|discriminate]. injection H as <-. cbn. eapply IH; eauto.
  - destruct (sprune v b) eqn:E; [|discriminate]. injection H as <-. cbn. eapply IH; eauto.
  - destruct (sprune v1 a) eqn:E1; [|discriminate]. destruct (sprune v2 b) eqn:E2; [|discriminate].
    injection H as <-. cbn. rewrite (IH1 _ _ E1), (IH2 _ _ E2). reflexivity.
Qed.

Theorem sprune_sprune : forall v t1 t2 v1, ty_le t2 t1 = true -> sprune v t1 = Some v1 ->
  sprune v1 t2 = sprune v t2.
Proof.
  induction v as [|v IH|v IH|va IHa vb IHb]; intros t1 t2 v1 Hle H;
    destruct t1 as [|a b|a b]; cbn in H; try discriminate;
    destruct t2 as [|a' b'|a' b']; cbn in Hle; try discriminate;
    try (injection H as <-; reflexivity); try reflexivity.
  - destruct (sprune v a) eqn:E; [|discriminate]. injection H as <-. reflexivity.
  - apply andb_true_iff in Hle. destruct Hle as [Hl _].
    destruct (sprune v a) eqn:E; [|discriminate]. injection H as <-. cbn. rewrite (IH _ _ _ Hl E). reflexivity.
  - destruct (sprune v b) eqn:E; [|discriminate]. injection H as <-. reflexivity.
  - apply andb_true_iff in Hle. destruct Hle as [_ Hl].
    destruct (sprune v b) eqn:E; [|discriminate]. injection H as <-. cbn. rewrite (IH _ _ _ Hl E). reflexivity.
  - destruct (sprune va a) eqn:E1; [|discriminate]. destruct (sprune vb b) eqn:E2; [|discriminate].
    injection H as <-. reflexivity.
  - apply andb_true_iff in Hle. destruct Hle as [Hl1 Hl2].
    destruct (sprune va a) eqn:E1; [|discriminate]. destruct (sprune vb b) eqn:E2; [|discriminate].
    injection H as <-. cbn. rewrite (IHa _ _ _ Hl1 E1), (IHb _ _ _ Hl2 E2). reflexivity.
Qed.

Lemma szero_has_ty t : has_ty (szero t) t = true.
Proof. induction t; cbn; rewrite ?IHt1, ?IHt2; reflexivity. Qed.
