(* Pruning of redemption programs (C08), structural part.
     src/node/redeem.rs        RedeemNode::prune_with_tracker (Pruner::prune_case, convert)
     src/node/mod.rs           Node::convert: Hide::Left => AssertR(left.cmr(), right), cmr copied
     src/bit_machine/tracker.rs SetTracker::visit_node: (case | assertl, first input bit 0) -> left set,
                               (case | assertr, bit 1) -> right set, keyed by the IHR of the node
     src/bit_machine/mod.rs    exec_with_tracker (what is executed, what a run returns)
   Programs are node tables (Finalize.rprog); sharing = the same index used twice.  A run returns
   its output and the list of events: every node visit, and for case/assert nodes the side taken.
   The tracker identifies a node by its IHR: [ident i] is the class of node i (two distinct nodes
   with the same IHR have the same class); with maximal sharing it is the identity.
   Commitment roots are computed with abstract hash functions (Section variables). *)
From RS Require Import Lib.Tac Lib.Outcome Lib.Bits Ty.Ty Core.Prog Redeem.Finalize.
Import ListNotations.
Local Open Scope N_scope.

Definition event := (nat * option bool)%type.   (* node, side taken (case / assert nodes) *)

Inductive eerr : Type :=
| EFail (entropy : list N)      (* ExecutionError::ReachedFailNode *)
| EPruned (cmr : list N)        (* ExecutionError::ReachedPrunedBranch *)
| EJet.                         (* ExecutionError::JetFailed *)

Definition word_val (n : nat) (bits : list bool) : sval :=
  match of_compact (word_ty n) bits with Some (v, _) => v | None => SU end.

(* Cmr::{iden, unit, injl, ..}: any functions (the commitment hash is abstract) *)
Record hashes : Type := Hashes {
  cmr_iden : list N; cmr_unit : list N; cmr_witness : list N;
  cmr_injl : list N -> list N; cmr_injr : list N -> list N; cmr_take : list N -> list N;
  cmr_drop : list N -> list N; cmr_disconnect : list N -> list N; cmr_fail : list N -> list N;
  cmr_comp : list N -> list N -> list N; cmr_case : list N -> list N -> list N;
  cmr_pair : list N -> list N -> list N;
  cmr_jet : N -> N -> list N;
  cmr_word : nat -> list bool -> list N }.

Section Prune.

Variable HS : hashes.
(* jets (None = the jet failed) and the 2^256 value holding a hash (disconnect) *)
Variable jet_sem : N -> N -> sval -> option sval.
Variable hash_val : list N -> sval.
(* IHR classes of the unpruned program *)
Variable ident : nat -> nat.

(* ------------------------------------------------------------------ commitment roots *)

(* CMR of a node from the CMRs of the earlier nodes (Node::from_parts) *)
Definition node_cmr (tab : list (list N)) (n : rnode) : list N :=
  let c k := nth k tab [] in
  match n with
  | RIden => cmr_iden HS
  | RUnit => cmr_unit HS
  | RInjL k => cmr_injl HS (c k)
  | RInjR k => cmr_injr HS (c k)
  | RTake k => cmr_take HS (c k)
  | RDrop k => cmr_drop HS (c k)
  | RComp l r => cmr_comp HS (c l) (c r)
  | RCase l r => cmr_case HS (c l) (c r)
  | RAssertL l h => cmr_case HS (c l) h
  | RAssertR h r => cmr_case HS h (c r)
  | RPair l r => cmr_pair HS (c l) (c r)
  | RDisconnect l _ => cmr_disconnect HS (c l)
  | RWitness _ => cmr_witness HS
  | RFail e => cmr_fail HS e
  | RJet f j => cmr_jet HS f j
  | RWord n bits => cmr_word HS n bits
  | RHole h => h
  end.

Fixpoint cmr_tab (tab : list (list N)) (rest : rprog) : list (list N) :=
  match rest with
  | [] => tab
  | n :: tl => cmr_tab (tab ++ [node_cmr tab n]) tl
  end.

Definition cmrs (p : rprog) : list (list N) := cmr_tab [] p.
Definition root_cmr (p : rprog) : list N := nth (length p - 1) (cmrs p) [].

Lemma cmr_tab_prefix : forall rest tab k, (k < length tab)%nat ->
  nth k (cmr_tab tab rest) [] = nth k tab [].
Proof.
  induction rest as [|n tl IH]; intros tab k Hk; cbn [cmr_tab]; [reflexivity|].
  rewrite IH by (rewrite app_length; cbn; lia). apply app_nth1. exact Hk.
Qed.

Lemma cmr_tab_length : forall rest tab, length (cmr_tab tab rest) = (length tab + length rest)%nat.
Proof.
  induction rest as [|n tl IH]; intros tab; cbn [cmr_tab length]; [lia|].
  rewrite IH, app_length. cbn. lia.
Qed.

(* ------------------------------------------------------------------ pruning *)

(* PruneTracker::contains_left / contains_right of the class of node i *)
Definition taken (T : list event) (i : nat) (side : bool) : bool :=
  existsb (fun e => Nat.eqb (ident (fst e)) (ident i) &&
                    match snd e with Some b => Bool.eqb b side | None => false end) T.

(* Pruner::prune_case followed by the Hide handling of Node::convert; C = CMRs of the unpruned nodes *)
Definition pnode (C : list (list N)) (T : list event) (i : nat) (n : rnode) : rnode :=
  match n with
  | RCase l r =>
      match taken T i false, taken T i true with
      | true, true => RCase l r
      | false, true => RAssertR (nth l C []) r        (* Hide::Left *)
      | true, false => RAssertL l (nth r C [])        (* Hide::Right *)
      | false, false => RCase l r                     (* never executed: dropped by an ancestor *)
      end
  | _ => n
  end.

Fixpoint prune_from (C : list (list N)) (T : list event) (i : nat) (rest : rprog) : rprog :=
  match rest with
  | [] => []
  | n :: tl => pnode C T i n :: prune_from C T (S i) tl
  end.

Definition prune_struct (p : rprog) (T : list event) : rprog := prune_from (cmrs p) T 0 p.

Lemma prune_from_length C T : forall rest i, length (prune_from C T i rest) = length rest.
Proof. induction rest as [|n tl IH]; intros i; cbn; [reflexivity|]. rewrite IH. reflexivity. Qed.

Lemma prune_from_nth C T : forall rest i k,
  nth_error (prune_from C T i rest) k = option_map (pnode C T (i + k)) (nth_error rest k).
Proof.
  induction rest as [|n tl IH]; intros i k; cbn [prune_from].
  - destruct k; reflexivity.
  - destruct k as [|k]; cbn [nth_error option_map].
    + rewrite Nat.add_0_r. reflexivity.
    + rewrite IH, Nat.add_succ_r. reflexivity.
Qed.

Lemma prune_nth p T k : nth_error (prune_struct p T) k = option_map (pnode (cmrs p) T k) (nth_error p k).
Proof. unfold prune_struct. rewrite prune_from_nth. reflexivity. Qed.

Lemma pnode_children C T i n : rchildren (pnode C T i n) = rchildren n \/
  exists l r, n = RCase l r /\ (rchildren (pnode C T i n) = [l] \/ rchildren (pnode C T i n) = [r]).
Proof.
  destruct n; cbn [pnode]; auto.
  destruct (taken T i false), (taken T i true); cbn; eauto 6.
Qed.

(* pruning keeps every commitment root *)
Lemma prune_cmr_gen T : forall rest tab,
  rwf_from (length tab) rest = true ->
  cmr_tab tab (prune_from (cmr_tab tab rest) T (length tab) rest) = cmr_tab tab rest.
Proof.
  induction rest as [|n tl IH]; intros tab Hwf; cbn [prune_from cmr_tab]; [reflexivity|].
  cbn [rwf_from] in Hwf. apply andb_true_iff in Hwf. destruct Hwf as [Hc Hwf].
  set (Cfull := cmr_tab (tab ++ [node_cmr tab n]) tl).
  assert (E : node_cmr tab (pnode Cfull T (length tab) n) = node_cmr tab n).
  { destruct n; cbn [pnode]; try reflexivity.
    cbn [rchildren forallb] in Hc. rewrite !andb_true_iff in Hc. destruct Hc as (Hl & Hr & _).
    apply Nat.ltb_lt in Hl. apply Nat.ltb_lt in Hr.
    assert (Pl : nth l Cfull [] = nth l tab []).
    { unfold Cfull. rewrite cmr_tab_prefix by (rewrite app_length; cbn; lia). apply app_nth1. exact Hl. }
    assert (Pr : nth r Cfull [] = nth r tab []).
    { unfold Cfull. rewrite cmr_tab_prefix by (rewrite app_length; cbn; lia). apply app_nth1. exact Hr. }
    destruct (taken T (length tab) false), (taken T (length tab) true); cbn [node_cmr];
      rewrite ?Pl, ?Pr; reflexivity. }
  rewrite E. specialize (IH (tab ++ [node_cmr tab n])).
  rewrite app_length in IH. cbn [length] in IH. rewrite Nat.add_1_r in IH. apply IH. exact Hwf.
Qed.

Theorem prune_cmrs p T : rwf p = true -> cmrs (prune_struct p T) = cmrs p.
Proof. intros H. unfold prune_struct, cmrs. exact (prune_cmr_gen T p [] H). Qed.

Theorem prune_cmr p T : rwf p = true -> root_cmr (prune_struct p T) = root_cmr p.
Proof.
  intros H. unfold root_cmr. rewrite prune_cmrs by exact H.
  unfold prune_struct. rewrite prune_from_length. reflexivity.
Qed.

(* pruning again with the same tracker content changes nothing *)
Theorem prune_idem p T : prune_struct (prune_struct p T) T = prune_struct p T.
Proof.
  unfold prune_struct at 1. generalize (cmrs (prune_struct p T)) as C'.
  unfold prune_struct. generalize (cmrs p) as C. generalize 0%nat as i.
  induction p as [|n tl IH]; intros i C C'; cbn [prune_from]; [reflexivity|].
  rewrite IH. f_equal. destruct n; cbn [pnode]; try reflexivity.
  destruct (taken T i false) eqn:A, (taken T i true) eqn:B; cbn [pnode]; rewrite ?A, ?B; reflexivity.
Qed.

(* ------------------------------------------------------------------ execution *)

(* big-step run of node i on input v; C = CMR table (disconnect reads the CMR of its right child) *)
Fixpoint eval (fuel : nat) (p : rprog) (C : list (list N)) (i : nat) (v : sval)
    : outcome eerr (sval * list event) :=
  match fuel with
  | O => OutOfFuel
  | S f =>
      match nth_error p i with
      | None => Panic 1
      | Some n =>
          match n with
          | RIden => Ok (v, [(i, None)])
          | RUnit => Ok (SU, [(i, None)])
          | RInjL c => obind (eval f p C c v) (fun x => Ok (SL (fst x), (i, None) :: snd x))
          | RInjR c => obind (eval f p C c v) (fun x => Ok (SR (fst x), (i, None) :: snd x))
          | RTake c =>
              match v with
              | SP a _ => obind (eval f p C c a) (fun x => Ok (fst x, (i, None) :: snd x))
              | _ => Panic 2
              end
          | RDrop c =>
              match v with
              | SP _ b => obind (eval f p C c b) (fun x => Ok (fst x, (i, None) :: snd x))
              | _ => Panic 2
              end
          | RComp l r =>
              obind (eval f p C l v) (fun x =>
              obind (eval f p C r (fst x)) (fun y => Ok (fst y, (i, None) :: snd x ++ snd y)))
          | RPair l r =>
              obind (eval f p C l v) (fun x =>
              obind (eval f p C r v) (fun y => Ok (SP (fst x) (fst y), (i, None) :: snd x ++ snd y)))
          | RCase l r =>
              match v with
              | SP (SL a) c => obind (eval f p C l (SP a c)) (fun x => Ok (fst x, (i, Some false) :: snd x))
              | SP (SR b) c => obind (eval f p C r (SP b c)) (fun x => Ok (fst x, (i, Some true) :: snd x))
              | _ => Panic 2
              end
          | RAssertL l h =>
              match v with
              | SP (SL a) c => obind (eval f p C l (SP a c)) (fun x => Ok (fst x, (i, Some false) :: snd x))
              | SP (SR _) _ => Err (EPruned h)
              | _ => Panic 2
              end
          | RAssertR h r =>
              match v with
              | SP (SL _) _ => Err (EPruned h)
              | SP (SR b) c => obind (eval f p C r (SP b c)) (fun x => Ok (fst x, (i, Some true) :: snd x))
              | _ => Panic 2
              end
          | RDisconnect l r =>
              obind (eval f p C l (SP (hash_val (nth r C [])) v)) (fun x =>
              match fst x with
              | SP b c => obind (eval f p C r c) (fun y => Ok (SP b (fst y), (i, None) :: snd x ++ snd y))
              | _ => Panic 2
              end)
          | RWitness c => Ok (cv_val c, [(i, None)])
          | RFail e => Err (EFail e)
          | RJet fam id =>
              match jet_sem fam id v with
              | Some o => Ok (o, [(i, None)])
              | None => Err EJet
              end
          | RWord n bits => Ok (word_val n bits, [(i, None)])
          | RHole _ => Panic 3
          end
      end
  end.

(* a program is run from its last node on the unit value *)
Definition run (p : rprog) : outcome eerr (sval * list event) :=
  eval (length p) p (cmrs p) (length p - 1) SU.

Lemma taken_in T i side : In (i, Some side) T -> taken T i side = true.
Proof.
  intros H. unfold taken. apply existsb_exists. exists (i, Some side). split; [exact H|].
  cbn. rewrite Nat.eqb_refl, eqb_reflx. reflexivity.
Qed.

Ltac ev_step H :=
  match type of H with
  | obind ?x _ = Ok _ =>
      let E := fresh "E" in destruct x as [[? ?]| | |] eqn:E; cbn [obind fst snd] in H; try discriminate
  end.

(* the pruned program runs exactly as the unpruned one: same output, same events *)
Theorem prune_eval_gen p T : rwf p = true -> forall fuel i v o E,
  eval fuel p (cmrs p) i v = Ok (o, E) -> incl E T ->
  eval fuel (prune_struct p T) (cmrs p) i v = Ok (o, E).
Proof.
  intros Hwf. induction fuel as [|f IH]; intros i v o E H Hin; cbn [eval] in H |- *; [discriminate|].
  rewrite prune_nth. destruct (nth_error p i) as [n|] eqn:En; cbn [option_map]; [|discriminate].
  destruct n; cbn [pnode]; try exact H.
  - (* injl *) ev_step H. injection H as <- <-.
    rewrite (IH _ _ _ _ E0) by (eapply incl_tran; [|exact Hin]; apply incl_tl, incl_refl). reflexivity.
  - ev_step H. injection H as <- <-.
    rewrite (IH _ _ _ _ E0) by (eapply incl_tran; [|exact Hin]; apply incl_tl, incl_refl). reflexivity.
  - destruct v; try discriminate. ev_step H. injection H as <- <-.
    rewrite (IH _ _ _ _ E0) by (eapply incl_tran; [|exact Hin]; apply incl_tl, incl_refl). reflexivity.
  - destruct v; try discriminate. ev_step H. injection H as <- <-.
    rewrite (IH _ _ _ _ E0) by (eapply incl_tran; [|exact Hin]; apply incl_tl, incl_refl). reflexivity.
  - (* comp *) ev_step H. ev_step H. injection H as <- <-.
    rewrite (IH _ _ _ _ E0) by (eapply incl_tran; [|exact Hin]; apply incl_tl, incl_appl, incl_refl).
    cbn [obind fst snd].
    rewrite (IH _ _ _ _ E1) by (eapply incl_tran; [|exact Hin]; apply incl_tl, incl_appr, incl_refl).
    reflexivity.
  - (* case *)
    destruct v as [| | |[|a|b|] c]; try discriminate.
    + ev_step H. injection H as <- <-.
      assert (A : taken T i false = true) by (apply taken_in, Hin; left; reflexivity).
      assert (R : eval f (prune_struct p T) (cmrs p) l (SP a c) = Ok (s, l0))
        by (apply IH; [exact E0|eapply incl_tran; [|exact Hin]; apply incl_tl, incl_refl]).
      rewrite A. destruct (taken T i true); cbn [eval]; rewrite R; reflexivity.
    + ev_step H. injection H as <- <-.
      assert (A : taken T i true = true) by (apply taken_in, Hin; left; reflexivity).
      assert (R : eval f (prune_struct p T) (cmrs p) r (SP b c) = Ok (s, l0))
        by (apply IH; [exact E0|eapply incl_tran; [|exact Hin]; apply incl_tl, incl_refl]).
      rewrite A. destruct (taken T i false); cbn [eval]; rewrite R; reflexivity.
  - (* assertl *)
    destruct v as [| | |[|a|b|] c]; try discriminate. ev_step H. injection H as <- <-.
    rewrite (IH _ _ _ _ E0) by (eapply incl_tran; [|exact Hin]; apply incl_tl, incl_refl). reflexivity.
  - destruct v as [| | |[|a|b|] c]; try discriminate. ev_step H. injection H as <- <-.
    rewrite (IH _ _ _ _ E0) by (eapply incl_tran; [|exact Hin]; apply incl_tl, incl_refl). reflexivity.
  - (* pair *) ev_step H. ev_step H. injection H as <- <-.
    rewrite (IH _ _ _ _ E0) by (eapply incl_tran; [|exact Hin]; apply incl_tl, incl_appl, incl_refl).
    cbn [obind fst snd].
    rewrite (IH _ _ _ _ E1) by (eapply incl_tran; [|exact Hin]; apply incl_tl, incl_appr, incl_refl).
    reflexivity.
  - (* disconnect *) ev_step H. destruct s; try discriminate. ev_step H. injection H as <- <-.
    rewrite (IH _ _ _ _ E0) by (eapply incl_tran; [|exact Hin]; apply incl_tl, incl_appl, incl_refl).
    cbn [obind fst snd].
    rewrite (IH _ _ _ _ E1) by (eapply incl_tran; [|exact Hin]; apply incl_tl, incl_appr, incl_refl).
    reflexivity.
Qed.

Theorem prune_eval p o E : rwf p = true ->
  run p = Ok (o, E) -> run (prune_struct p E) = Ok (o, E).
Proof.
  intros Hwf H. unfold run in *. rewrite prune_cmrs by exact Hwf.
  unfold prune_struct at 1 3. rewrite prune_from_length.
  apply prune_eval_gen; [exact Hwf|exact H|apply incl_refl].
Qed.

(* hence pruning the pruned program for the same environment changes nothing *)
Corollary prune_again p o E : rwf p = true -> run p = Ok (o, E) ->
  exists E', run (prune_struct p E) = Ok (o, E') /\
             prune_struct (prune_struct p E) E' = prune_struct p E.
Proof.
  intros Hwf H. exists E. split; [apply prune_eval; assumption|apply prune_idem].
Qed.

(* ------------------------------------------------------------------ every remaining node is executed *)

Definition executed (E : list event) (j : nat) : Prop := exists s, In (j, s) E.

(* children that a visit of node n with recorded side s goes on to run *)
Definition kids_run (n : rnode) (s : option bool) : list nat :=
  match n, s with
  | RCase l _, Some false => [l]
  | RCase _ r, Some true => [r]
  | RCase _ _, None => []
  | n, _ => rchildren n
  end.

(* which side a node kind can record *)
Definition side_ok (n : rnode) (s : option bool) : Prop :=
  match n, s with
  | RCase _ _, Some _ => True
  | RAssertL _ _, Some false => True
  | RAssertR _ _, Some true => True
  | (RCase _ _ | RAssertL _ _ | RAssertR _ _), _ => False
  | _, None => True
  | _, Some _ => False
  end.

Definition closed (p : rprog) (E : list event) : Prop :=
  forall k s, In (k, s) E ->
    exists n, nth_error p k = Some n /\
      (forall c, In c (kids_run n s) -> executed E c) /\ side_ok n s.

Lemma executed_app_l E1 E2 j : executed E1 j -> executed (E1 ++ E2) j.
Proof. intros [s H]. exists s. apply in_or_app. auto. Qed.
Lemma executed_app_r E1 E2 j : executed E2 j -> executed (E1 ++ E2) j.
Proof. intros [s H]. exists s. apply in_or_app. auto. Qed.
Lemma executed_cons e E j : executed E j -> executed (e :: E) j.
Proof. intros [s H]. exists s. right. exact H. Qed.

Lemma closed_app p E1 E2 : closed p E1 -> closed p E2 -> closed p (E1 ++ E2).
Proof.
  intros A B k s Hin. apply in_app_or in Hin. destruct Hin as [Hin|Hin].
  - destruct (A _ _ Hin) as (n & Hn & X & Y). exists n. repeat split; auto.
    intros c Hc. apply executed_app_l. auto.
  - destruct (B _ _ Hin) as (n & Hn & X & Y). exists n. repeat split; auto.
    intros c Hc. apply executed_app_r. auto.
Qed.

Lemma closed_cons p E k s n :
  nth_error p k = Some n -> closed p E ->
  (forall c, In c (kids_run n s) -> executed E c) -> side_ok n s ->
  closed p ((k, s) :: E).
Proof.
  intros Hn A B Cn k' s' Hin. destruct Hin as [Hin|Hin].
  - injection Hin as <- <-. exists n. repeat split; auto. intros c Hc. apply executed_cons. auto.
  - destruct (A _ _ Hin) as (n' & Hn' & X & Y). exists n'. repeat split; auto.
    intros c Hc. apply executed_cons. auto.
Qed.

(* a successful run visits its start node and, with every visited node, the children that the
   visit leads to *)
Lemma eval_closed p C : forall fuel i v o E,
  eval fuel p C i v = Ok (o, E) -> closed p E /\ executed E i.
Proof.
  induction fuel as [|f IH]; intros i v o E H; cbn [eval] in H; [discriminate|].
  destruct (nth_error p i) as [n|] eqn:En; [|discriminate].
  assert (Hd : forall s E', executed ((i, s) :: E') i) by (intros s E'; exists s; left; reflexivity).
  assert (Nil : closed p []) by (intros k s []).
  destruct n.
  - injection H as <- <-. split; [|apply Hd]. eapply closed_cons; eauto; cbn; auto. intros c [].
  - injection H as <- <-. split; [|apply Hd]. eapply closed_cons; eauto; cbn; auto. intros c [].
  - ev_step H. injection H as <- <-. destruct (IH _ _ _ _ E0) as [A B]. split; [|apply Hd].
    eapply closed_cons; eauto; cbn; auto. intros c' [<-|[]]. exact B.
  - ev_step H. injection H as <- <-. destruct (IH _ _ _ _ E0) as [A B]. split; [|apply Hd].
    eapply closed_cons; eauto; cbn; auto. intros c' [<-|[]]. exact B.
  - destruct v; try discriminate. ev_step H. injection H as <- <-. destruct (IH _ _ _ _ E0) as [A B].
    split; [|apply Hd]. eapply closed_cons; eauto; cbn; auto. intros c' [<-|[]]. exact B.
  - destruct v; try discriminate. ev_step H. injection H as <- <-. destruct (IH _ _ _ _ E0) as [A B].
    split; [|apply Hd]. eapply closed_cons; eauto; cbn; auto. intros c' [<-|[]]. exact B.
  - ev_step H. ev_step H. injection H as <- <-.
    destruct (IH _ _ _ _ E0) as [A B]. destruct (IH _ _ _ _ E1) as [A' B'].
    split; [|apply Hd]. eapply closed_cons; eauto using closed_app; cbn; auto.
    intros c' [<-|[<-|[]]]; [apply executed_app_l|apply executed_app_r]; assumption.
  - destruct v as [| | |[|a|b|] c]; try discriminate.
    + ev_step H. injection H as <- <-. destruct (IH _ _ _ _ E0) as [A B]. split; [|apply Hd].
      eapply closed_cons; eauto; cbn; auto. intros c' [<-|[]]. exact B.
    + ev_step H. injection H as <- <-. destruct (IH _ _ _ _ E0) as [A B]. split; [|apply Hd].
      eapply closed_cons; eauto; cbn; auto. intros c' [<-|[]]. exact B.
  - destruct v as [| | |[|a|b|] c]; try discriminate.
    ev_step H. injection H as <- <-. destruct (IH _ _ _ _ E0) as [A B]. split; [|apply Hd].
    eapply closed_cons; eauto; cbn; auto. intros c' [<-|[]]. exact B.
  - destruct v as [| | |[|a|b|] c]; try discriminate.
    ev_step H. injection H as <- <-. destruct (IH _ _ _ _ E0) as [A B]. split; [|apply Hd].
    eapply closed_cons; eauto; cbn; auto. intros c' [<-|[]]. exact B.
  - ev_step H. ev_step H. injection H as <- <-.
    destruct (IH _ _ _ _ E0) as [A B]. destruct (IH _ _ _ _ E1) as [A' B'].
    split; [|apply Hd]. eapply closed_cons; eauto using closed_app; cbn; auto.
    intros c' [<-|[<-|[]]]; [apply executed_app_l|apply executed_app_r]; assumption.
  - ev_step H. destruct s; try discriminate. ev_step H. injection H as <- <-.
    destruct (IH _ _ _ _ E0) as [A B]. destruct (IH _ _ _ _ E1) as [A' B'].
    split; [|apply Hd]. eapply closed_cons; eauto using closed_app; cbn; auto.
    intros c' [<-|[<-|[]]]; [apply executed_app_l|apply executed_app_r]; assumption.
  - injection H as <- <-. split; [|apply Hd]. eapply closed_cons; eauto; cbn; auto. intros c' [].
  - discriminate.
  - destruct (jet_sem family id v); [|discriminate]. injection H as <- <-. split; [|apply Hd].
    eapply closed_cons; eauto; cbn; auto. intros c' [].
  - injection H as <- <-. split; [|apply Hd]. eapply closed_cons; eauto; cbn; auto. intros c' [].
  - discriminate.
Qed.

(* nodes of a program reachable from node i *)
Inductive reach (q : rprog) (i : nat) : nat -> Prop :=
| reach_refl : reach q i i
| reach_step k n c : reach q i k -> nth_error q k = Some n -> In c (rchildren n) -> reach q i c.

(* no two distinct nodes share an identity class: the program is maximally shared, as every
   decoded program is (RedeemNode::decode rejects anything else) *)
Definition ident_inj (p : rprog) : Prop :=
  forall a b, (a < length p)%nat -> (b < length p)%nat -> ident a = ident b -> a = b.

Lemma taken_elim T i side : taken T i side = true ->
  exists j, ident j = ident i /\ In (j, Some side) T.
Proof.
  unfold taken. intros H. apply existsb_exists in H. destruct H as [[j s] [Hin H]].
  cbn in H. apply andb_true_iff in H. destruct H as [A B]. apply Nat.eqb_eq in A.
  destruct s as [b|]; [|discriminate]. apply eqb_prop in B. subst b. eauto.
Qed.

Lemma taken_own p E k side : ident_inj p -> closed p E -> (k < length p)%nat ->
  taken E k side = true -> In (k, Some side) E.
Proof.
  intros Hinj Hcl Hk Ht. destruct (taken_elim _ _ _ Ht) as (j & Hid & Hin).
  destruct (Hcl _ _ Hin) as (n & Hn & _).
  assert (j < length p)%nat by (apply nth_error_Some; congruence).
  assert (j = k) by (apply Hinj; assumption). subst. exact Hin.
Qed.

(* the anti-DoS rule as a property of the model: in the pruned program every node reachable from the
   root was executed, and every remaining case node had both of its sides taken *)
Theorem prune_all_executed p : ident_inj p -> forall fuel root v o E,
  eval fuel p (cmrs p) root v = Ok (o, E) ->
  forall j, reach (prune_struct p E) root j ->
    executed E j /\
    (forall l r, nth_error (prune_struct p E) j = Some (RCase l r) ->
       In (j, Some false) E /\ In (j, Some true) E).
Proof.
  intros Hinj fuel root v o E H.
  destruct (eval_closed _ _ _ _ _ _ _ H) as [Hcl Hroot].
  assert (Ex : forall j, reach (prune_struct p E) root j -> executed E j).
  { induction 1 as [|k n c Hr IHr Hn Hc]; [exact Hroot|].
    destruct IHr as [s Hs]. destruct (Hcl _ _ Hs) as (n0 & Hn0 & Hk & Hside).
    assert (Hlt : (k < length p)%nat) by (apply nth_error_Some; congruence).
    rewrite prune_nth, Hn0 in Hn. cbn [option_map] in Hn. injection Hn as <-.
    destruct n0; cbn [pnode] in Hc; try (apply Hk; destruct s as [[|]|]; exact Hc).
    (* case node *)
    destruct s as [side|]; [|contradiction].
    assert (Tk : taken E k side = true) by (apply taken_in; exact Hs).
    assert (Kid : forall sd, taken E k sd = true -> executed E (if sd then r else l)).
    { intros sd Ht. pose proof (taken_own _ _ _ _ Hinj Hcl Hlt Ht) as Hin.
      destruct (Hcl _ _ Hin) as (n1 & Hn1 & Hk1 & _). rewrite Hn0 in Hn1. injection Hn1 as <-.
      apply Hk1. destruct sd; left; reflexivity. }
    destruct (taken E k false) eqn:A, (taken E k true) eqn:B; cbn [rchildren] in Hc.
    - destruct Hc as [<-|[<-|[]]]; [apply (Kid false A)|apply (Kid true B)].
    - destruct Hc as [<-|[]]. apply (Kid false A).
    - destruct Hc as [<-|[]]. apply (Kid true B).
    - destruct side; congruence. }
  intros j Hj. split; [apply Ex; exact Hj|].
  intros l r Hq. destruct (Ex _ Hj) as [s Hs]. destruct (Hcl _ _ Hs) as (n0 & Hn0 & _ & Hside).
  assert (Hlt : (j < length p)%nat) by (apply nth_error_Some; congruence).
  rewrite prune_nth, Hn0 in Hq. cbn [option_map] in Hq.
  destruct n0; cbn [pnode] in Hq; try discriminate.
  destruct s as [side|]; [|contradiction].
  assert (Tk : taken E j side = true) by (apply taken_in; exact Hs).
  destruct (taken E j false) eqn:A, (taken E j true) eqn:B; try discriminate.
  - split; eapply taken_own; eauto.
  - destruct side; congruence.
Qed.

End Prune.
