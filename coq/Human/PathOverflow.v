(* C17 - when the path count of parse_inner leaves usize: exactly when some witness / disconnect name is
   reached from the root by more than usize::MAX paths (every yielded node is reachable from the root,
   so no intermediate map holds more than the root's). *)
From RS Require Import Lib.Tac Lib.Outcome Human.Namer Human.Render Human.RenderProofs Human.Resolve Human.RoundTrip
  Human.PathCount.
Import ListNotations.
Local Open Scope N_scope.

Section Overflow.
Variable d : ndag.
Hypothesis W : wf_ndag d = true.

Lemma child_le a c n : (a < length d)%nat -> child d a c -> name_paths d c n <= name_paths d a n.
Proof.
  intros Ha Hc. rewrite (name_paths_step d W a n Ha).
  destruct Hc as [E|E]; rewrite E; cbn [oname_paths]; lia.
Qed.

Lemma reach_le n : forall k a, In a (post_order d) -> (length d - a <= k)%nat ->
  name_paths d a n <= name_paths d (root_of d) n.
Proof.
  pose proof (post_order_facts d W) as F.
  induction k as [|k IH]; intros a Ha Hk.
  - pose proof (pf_range _ _ F a Ha). lia.
  - destruct (pf_parent _ _ F a Ha) as [->|[p [Hp Hc]]]; [lia|].
    destruct (wf_child d p a W Hc) as [Hlt Hpl].
    pose proof (child_le p a n Hpl Hc). specialize (IH p Hp ltac:(lia)). lia.
Qed.

Lemma over_iff m : keys_ok m -> (over m = true <-> exists n, usize_max < cnt_get m n).
Proof.
  intros K. unfold over. rewrite existsb_exists. split.
  - intros [[n c] [Hin Hc]]. cbn [snd] in Hc. apply N.ltb_lt in Hc. exists n.
    rewrite (In_cnt_get m n c K Hin). exact Hc.
  - intros [n Hn]. exists (n, cnt_get m n). split.
    + apply cnt_get_In. unfold usize_max in Hn. lia.
    + cbn [snd]. apply N.ltb_lt. exact Hn.
Qed.

Theorem wd_check_old_panic_iff :
  wd_check_old d = Panic 1 <-> exists n, usize_max < name_paths d (root_of d) n.
Proof.
  destruct (pc_all_inv d W) as [Hlen Hm].
  destruct (existsb over (pc_all d)) eqn:E.
  - split; [intros _ | intros _; unfold wd_check_old; rewrite E; reflexivity].
    apply existsb_exists in E. destruct E as [m [Hin Ho]].
    apply (In_nth _ _ []) in Hin. destruct Hin as [k [Hk0 Ek]]. assert (Hk : (k < length (post_order d))%nat) by (rewrite <- Hlen; exact Hk0). subst m.
    destruct (Hm k Hk) as [K G]. apply (over_iff _ K) in Ho. destruct Ho as [n Hn]. exists n.
    rewrite G in Hn.
    assert (Hin : In (nth k (post_order d) 0%nat) (post_order d)) by (apply nth_In; exact Hk).
    pose proof (reach_le n (length d) _ Hin ltac:(lia)). lia.
  - split.
    + intros H. rewrite (wd_check_old_ok d W E) in H. discriminate H.
    + intros [n Hn]. exfalso.
      destruct (pc_last d W) as [K G]. rewrite <- G in Hn.
      assert (Ho : over (last (pc_all d) []) = true) by (apply (over_iff _ K); exists n; exact Hn).
      assert (Hin : In (last (pc_all d) []) (pc_all d)).
      { destruct (pc_all d) as [|x l] eqn:Ep; [|rewrite <- Ep].
        - cbn in Ho. discriminate Ho.
        - rewrite Ep. destruct (@exists_last _ (x :: l) ltac:(discriminate)) as [l' [y Ey]].
          rewrite Ey, last_last. apply in_or_app. right. left. reflexivity. }
      assert (existsb over (pc_all d) = true) by (apply existsb_exists; exists (last (pc_all d) []); split; assumption).
      congruence.
Qed.
End Overflow.
