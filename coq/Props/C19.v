(* C19 - Budget padding is sufficient and minimal.  Pinned statements only.
   Model: Budget/Budget.v over constants regenerated into Generated/Consts.v. *)
From RS Require Import Lib.Tac Lib.Outcome Generated.Consts Budget.Budget.
Import ListNotations.
Local Open Scope N_scope.

Theorem C19_valid_iff : forall c ls, c <= c_consensus_max -> ser_len ls <= u32_max ->
  exists v, is_budget_valid c ls = Ok v /\
            (v = true <-> weight_of_cost c <= ser_len ls + 50).
Proof. exact valid_iff. Qed.
Print Assumptions C19_valid_iff.

Theorem C19_padding_none_iff : forall c ls, c <= c_consensus_max -> ser_len ls <= u32_max ->
  (get_padding c ls = Ok None <-> is_budget_valid c ls = Ok true).
Proof. exact padding_none_iff. Qed.
Print Assumptions C19_padding_none_iff.

Theorem C19_padding_sufficient : forall c ls a,
  c <= c_consensus_max -> ser_len (ls ++ [a]) <= u32_max ->
  get_padding c ls = Ok (Some a) ->
  is_budget_valid c (ls ++ [a]) = Ok true /\ 1 <= a.
Proof. exact padding_sufficient. Qed.
Print Assumptions C19_padding_sufficient.

Theorem C19_padding_minimal : forall c ls a a',
  c <= c_consensus_max -> ser_len (ls ++ [a]) <= u32_max ->
  get_padding c ls = Ok (Some a) ->
  cs (N.of_nat (length ls) + 1) = cs (N.of_nat (length ls)) ->
  1 <= a' -> a' < a ->
  is_budget_valid c (ls ++ [a']) = Ok false.
Proof. exact padding_minimal. Qed.
Print Assumptions C19_padding_minimal.

Theorem C19_padding_total : forall c ls, c <= c_consensus_max -> ser_len ls <= u32_max ->
  exists r, get_padding c ls = Ok r.
Proof. exact get_padding_total. Qed.
Print Assumptions C19_padding_total.

Theorem C19_weight_rounds_up : forall c, c <= c_consensus_max ->
  1000 * weight_of_cost c < c + 1000 /\ c <= 1000 * weight_of_cost c.
Proof. exact weight_rounds_up. Qed.
Print Assumptions C19_weight_rounds_up.

Theorem C19_weight_monotone : forall c1 c2, c1 <= c2 -> weight_of_cost c1 <= weight_of_cost c2.
Proof. exact weight_monotone. Qed.
Print Assumptions C19_weight_monotone.

Theorem C19_cost_of_weight_monotone : forall w1 w2, w1 <= w2 -> cost_of_weight w1 <= cost_of_weight w2.
Proof. exact cost_of_weight_monotone. Qed.
Print Assumptions C19_cost_of_weight_monotone.

Theorem C19_cost_of_weight_saturates : forall w, cost_of_weight w = N.min (1000 * w) u32_max.
Proof. exact cost_of_weight_saturates. Qed.
Print Assumptions C19_cost_of_weight_saturates.

Theorem C19_roundtrip : forall c, c <= c_consensus_max ->
  c <= cost_of_weight (weight_of_cost c) /\ cost_of_weight (weight_of_cost c) < c + 1000 /\
  weight_of_cost (cost_of_weight (weight_of_cost c)) = weight_of_cost c.
Proof. exact cost_weight_roundtrip. Qed.
Print Assumptions C19_roundtrip.

Theorem C19_cost_of_weight64_spec : forall w, cost_of_weight64 w = N.min (1000 * w) u32_max.
Proof. exact cost_of_weight64_spec. Qed.
Print Assumptions C19_cost_of_weight64_spec.

Theorem C19_cost_of_weight64_monotone : forall w1 w2, w1 <= w2 -> cost_of_weight64 w1 <= cost_of_weight64 w2.
Proof. exact cost_of_weight64_monotone. Qed.
Print Assumptions C19_cost_of_weight64_monotone.
