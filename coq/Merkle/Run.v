(* Executable entry points of the C09 correspondence check: each maps a case (as generated
   by tools/props/c09.py) to a flat list of numbers in exactly the form the harness command
   `roots` (harness_merkle/src/merkle.rs) prints. *)
From Coq Require Import Uint63.
From RS Require Import Lib.Tac Lib.Outcome Core.Prog Merkle.Sha256 Merkle.Tagged Merkle.Cmr Merkle.Ihr Merkle.Real.
Import ListNotations.
Local Open Scope N_scope.

Definition show_err {A} (o : outcome N A) (k : A -> list N) : list N :=
  match o with
  | Ok a => k a
  | Err e => [1; e]
  | Panic _ => [9]
  | OutOfFuel => [8]
  end.

(* kind tab: the ConstructNode table; per node the 32 bytes of its cached cmr *)
Definition run_tab (p : prog) : list N :=
  show_err (r_construct p) (fun t =>
    0 :: N.of_nat (length t) :: flat_map (fun v => bytes_of_state (val_cmr rH r_node_alg v)) t).

(* kind ccmr: the same table through the root-only algebra ConstructibleCmr *)
Definition run_ccmr (p : prog) : list N :=
  show_err (drive rH r_h_of_bytes r_ccmr_alg p) (fun t =>
    0 :: N.of_nat (length t) :: flat_map (fun v => bytes_of_state (val_cmr rH r_ccmr_alg v)) t).

(* kind spec: the root of the last node hashed from scratch from the erased structure
   (tree-recursive: only for programs whose unfolding is small) *)
Definition run_spec (p : prog) : list N :=
  match r_erase p with
  | [] => [1; 11]
  | es => 0 :: bytes_of_state (r_cmr_spec (last es CUnit))
  end.

(* the same table hashed from scratch: cmr_spec of the erased structure of every node *)
Definition run_spec_tab (p : prog) : list N :=
  let es := r_erase p in
  0 :: N.of_nat (length es) :: flat_map (fun s => bytes_of_state (r_cmr_spec s)) es.

(* kind hid: the table through Hiding<Arc<ConstructNode>>; per node: 0 node / 1 hidden, cmr *)
Definition hide_set (l : list nat) (i : nat) : bool := existsb (Nat.eqb i) l.

Definition run_hid (hs : list nat) (p : prog) : list N :=
  show_err (drive_hiding rH r_compress r_iv r_zero r_h_of_bytes r_node_alg (hide_set hs) p) (fun t =>
    0 :: N.of_nat (length t) ::
    flat_map (fun v => (match v with inl _ => 0 | inr _ => 1 end) :: bytes_of_state (h_cmr rH r_node_alg v)) t ++
    [77] ++
    match last t (inr r_zero) with
    | inl r => 1 :: bytes_of_state (r_cmr r) ++ [0] ++ bytes_of_state (r_cmr r)
    | inr _ => [0]
    end).

(* kinds sha / tag / word *)
Definition run_sha (bytes : list N) : list N := sha256 bytes.
Definition run_tag (bytes : list N) : list N := bytes_of_state (sha_hash_tag bytes).
(* word: the stack algorithm, then the root hashed from scratch from the scribe (the harness obtains
   the second through the scribe PROGRAM: Node constructors, inference, CommitData::ihr) *)
Definition run_word (n : nat) (bits : list bool) : list N :=
  if word_ok n bits then
    show_err (r_const_word n bits) (fun h =>
      0 :: bytes_of_state h ++ bytes_of_state (r_cmr_spec (CWord n bits)))
  else [1; 14].

(* a conversion of the model applied to the construct table: every Case whose index is in [hl]
   ([hr]) gets its left (right) child hidden, witnesses and disconnected branches dropped:
   prints the converted table's cmrs (what `convert` copies) *)
Definition run_convert (hl hr : list nat) (p : prog) : list N :=
  show_err (r_construct p) (fun t =>
    let cv : converter rH wit_spec unit unit unit :=
      {| cv_witness := fun _ _ => Ok tt;
         cv_disconnect := fun _ _ => Ok None;
         cv_prune := fun i => Ok (if hide_set hl i then HideLeft else if hide_set hr i then HideRight else HideNeither);
         cv_data := fun _ _ => Ok tt |} in
    show_err (convert rH cv (map (to_entry rH) t)) (fun t' =>
      0 :: N.of_nat (length t') :: flat_map (fun e => bytes_of_state (entry_cmr e)) t')).

(* kind mr: identity and annotated roots of every node of a typed program with witness values
   (RedeemData::new): per node 1, 32 bytes IHR, 32 bytes AMR; 5 for a hidden placeholder *)
Definition run_mr (tp : typed_prog) : list N :=
  show_err (redeem_table rH r_compress r_iv r_ivi r_zero r_of_weight r_bit_cmr r_tmr_unit r_two_two_n
              r_jet_cmr r_h_of_bytes r_compact_value tp) (fun t =>
    0 :: N.of_nat (length t) ::
    flat_map (fun v => match v with
                       | inl d => 1 :: bytes_of_state (rd_ihr rH d) ++ bytes_of_state (rd_amr rH d)
                       | inr _ => [5]
                       end) t).
