(* The executable instance of Section Hash: SHA-256 (Merkle/Sha256.v) with the initial
   values, constant tables and jet roots regenerated from the Rust sources
   (Generated/Ivs.v).  Definitions only: the side conditions of the abstract theorems are
   discharged for this instance in Merkle/RealSpec.v (kept apart so that the model stays
   executable when a regenerated constant no longer passes its check). *)
From Coq Require Import Uint63.
From RS Require Import Lib.Tac Lib.Outcome Lib.Sweep Core.Prog Merkle.Sha256 Merkle.Tagged Merkle.Cmr
  Generated.Ivs.
Import ListNotations.
Local Open Scope N_scope.

Definition rH : Type := state.

(* one compression: the block is the two 32-byte halves *)
Definition r_compress (s : rH) (b : rH * rH) : rH :=
  sha_compress s (words_of_state (fst b) ++ words_of_state (snd b)).

Definition r_zero : rH := (0, 0, 0, 0, 0, 0, 0, 0)%uint63.

(* `left[24..].copy_from_slice(&left_weight.to_be_bytes())` *)
Definition r_of_weight (w : N) : rH :=
  (0, 0, 0, 0, 0, 0, int_of_N (N.land (N.shiftr w 32) 4294967295), int_of_N (N.land w 4294967295))%uint63.

(* `bip340_iv(b"Simplicity\x1fJet")` is hashed at run time by Cmr::const_word *)
Definition jet_iv : rH := Eval vm_compute in sha_hash_tag runtime_tag_jet.

Definition r_iv_bytes (t : tag) : list N :=
  match t with
  | TcUnit => cmr_iv_unit | TcIden => cmr_iv_iden | TcInjL => cmr_iv_injl | TcInjR => cmr_iv_injr
  | TcTake => cmr_iv_take | TcDrop => cmr_iv_drop | TcComp => cmr_iv_comp | TcCase => cmr_iv_case
  | TcPair => cmr_iv_pair | TcDisconnect => cmr_iv_disconnect | TcWitness => cmr_iv_witness
  | TcFail => cmr_iv_fail
  | TIdentity => cmr_iv_const_word
  | TJet => bytes_of_state jet_iv
  | TiDisconnect => imr_iv_disconnect | TiWitness => imr_iv_witness
  | TaIden => amr_iv_iden | TaUnit => amr_iv_unit | TaInjL => amr_iv_injl | TaInjR => amr_iv_injr
  | TaTake => amr_iv_take | TaDrop => amr_iv_drop | TaComp => amr_iv_comp | TaCase => amr_iv_case
  | TaAssertL => amr_iv_assertl | TaAssertR => amr_iv_assertr | TaPair => amr_iv_pair
  | TaDisconnect => amr_iv_disconnect | TaWitness => amr_iv_witness | TaFail => amr_iv_fail
  | TtUnit => tmr_iv_unit | TtSum => tmr_iv_sum | TtProd => tmr_iv_prod
  end.

Definition r_tag_string (t : tag) : list N :=
  match t with
  | TcUnit => cmr_tag_unit | TcIden => cmr_tag_iden | TcInjL => cmr_tag_injl | TcInjR => cmr_tag_injr
  | TcTake => cmr_tag_take | TcDrop => cmr_tag_drop | TcComp => cmr_tag_comp | TcCase => cmr_tag_case
  | TcPair => cmr_tag_pair | TcDisconnect => cmr_tag_disconnect | TcWitness => cmr_tag_witness
  | TcFail => cmr_tag_fail
  | TIdentity => cmr_tag_const_word
  | TJet => runtime_tag_jet
  | TiDisconnect => imr_tag_disconnect | TiWitness => imr_tag_witness
  | TaIden => amr_tag_iden | TaUnit => amr_tag_unit | TaInjL => amr_tag_injl | TaInjR => amr_tag_injr
  | TaTake => amr_tag_take | TaDrop => amr_tag_drop | TaComp => amr_tag_comp | TaCase => amr_tag_case
  | TaAssertL => amr_tag_assertl | TaAssertR => amr_tag_assertr | TaPair => amr_tag_pair
  | TaDisconnect => amr_tag_disconnect | TaWitness => amr_tag_witness | TaFail => amr_tag_fail
  | TtUnit => tmr_tag_unit | TtSum => tmr_tag_sum | TtProd => tmr_tag_prod
  end.

Definition r_iv (t : tag) : rH := state_of_bytes (r_iv_bytes t).

Definition r_bit_cmr (b : bool) : rH := state_of_bytes (nth (if b then 1 else 0)%nat cmr_bits []).
Definition r_tmr_unit : rH := state_of_bytes tmr_iv_unit.
Definition r_two_two_n : list rH := map state_of_bytes tmr_two_two_n.

Definition bytes32_of_N (x : N) : list N :=
  map (fun k => N.land (N.shiftr x (8 * k)) 255)
      [31; 30; 29; 28; 27; 26; 25; 24; 23; 22; 21; 20; 19; 18; 17; 16; 15; 14; 13; 12; 11; 10; 9; 8; 7; 6;
       5; 4; 3; 2; 1; 0].

Definition r_jet_cmr (fam id : N) : rH :=
  state_of_bytes (bytes32_of_N (nth (N.to_nat id) (if fam =? 0 then core_jet_cmrs else elements_jet_cmrs) 0)).

Definition r_h_of_bytes (l : list N) : rH := state_of_bytes l.

(* ---------------------------------------------------------------- instantiated functions *)
Definition r_cmr_spec : cstruct rH -> rH := cmr_spec rH r_compress r_iv r_zero r_of_weight r_jet_cmr.
Definition r_erase : prog -> list (cstruct rH) := erase_prog rH r_h_of_bytes.
Definition r_const_word : nat -> list bool -> outcome N rH :=
  cmr_const_word rH r_compress r_iv r_zero r_of_weight r_bit_cmr r_tmr_unit r_two_two_n.
Definition r_construct (p : prog) : outcome N (list (nrec rH wit_spec unit + rH)) :=
  construct rH r_compress r_iv r_zero r_of_weight r_bit_cmr r_tmr_unit r_two_two_n r_jet_cmr r_h_of_bytes
    (fun _ => tt) p.
Definition r_node_alg : algebra rH (nrec rH wit_spec unit) :=
  node_alg rH r_compress r_iv r_zero r_of_weight r_bit_cmr r_tmr_unit r_two_two_n r_jet_cmr (fun _ => tt).
Definition r_ccmr_alg : algebra rH rH :=
  ccmr_alg rH r_compress r_iv r_zero r_of_weight r_bit_cmr r_tmr_unit r_two_two_n r_jet_cmr.

Definition bytes_eqb (a b : list N) : bool := list_beq N.eqb a b.

(* ---------------------------------------------------------------- identity / annotated roots *)
(* the IV table of ihr.rs: its own constants for the commitment tags *)
Definition r_ivi (t : tag) : rH :=
  match t with
  | TcIden => state_of_bytes imr_iv_iden | TcUnit => state_of_bytes imr_iv_unit
  | TcInjL => state_of_bytes imr_iv_injl | TcInjR => state_of_bytes imr_iv_injr
  | TcTake => state_of_bytes imr_iv_take | TcDrop => state_of_bytes imr_iv_drop
  | TcComp => state_of_bytes imr_iv_comp | TcCase => state_of_bytes imr_iv_case
  | TcPair => state_of_bytes imr_iv_pair | TcFail => state_of_bytes imr_iv_fail
  | TiDisconnect => state_of_bytes imr_iv_disconnect | TiWitness => state_of_bytes imr_iv_witness
  | other => r_iv other
  end.

(* merkle/mod.rs compact_value: SHA-256 of a bit string (a single 1 bit, zeros up to 448 mod 512,
   the bit length as big-endian u64), returned as the final midstate *)
Definition byte_of_bits (l : list bool) : N := fold_left (fun acc (b : bool) => 2 * acc + (if b then 1 else 0)) l 0.

Fixpoint chunks8 (fuel : nat) (l : list bool) : list (list bool) :=
  match fuel with
  | O => []
  | S f => match l with
           | [] => []
           | _ => firstn 8 (l ++ repeat false 7) :: chunks8 f (skipn 8 l)
           end
  end.

Definition r_compact_value (bits : list bool) : rH :=
  let bit_length := N.of_nat (length bits) in
  let l1 := bits ++ [true] in
  let bytes := map byte_of_bits (chunks8 (S (length l1)) l1) in
  let len := N.of_nat (length bytes) in
  let r := len mod 64 in
  let k := if 56 <? r then 56 + (64 - r) else 56 - r in
  sha_absorb sha_iv0 (bytes ++ repeat 0 (N.to_nat k) ++ be64 bit_length).

