(* C04 - the solved store: the occurs check and the read-off assignment.
   (A) `assign s` (free variables := unit) is a model of a solved store that passes the
       occurs check, (B) it is below every model in the ty_le order (principal), and
   (C) a store on which the occurs check fails has no ground model at all. *)
From RS Require Import Lib.Tac Lib.Outcome Ty.Ty Core.Prog Infer.Constraints Infer.Unify Infer.Infer.
Import ListNotations.

(* ------------------------------------------------------------------ resolve *)

Lemma resolve_mono : forall f s v t, resolve f s v = Some t -> resolve (S f) s v = Some t.
Proof.
  induction f as [|f IH]; intros s v t H; [discriminate|].
  cbn [resolve] in H. change (resolve (S (S f)) s v) with
    (match sget s (find s v) with
     | BFree | BOne => Some One
     | BSum a b => match resolve (S f) s a with
                   | None => None
                   | Some ta => match resolve (S f) s b with None => None | Some tb => Some (Sum ta tb) end
                   end
     | BProd a b => match resolve (S f) s a with
                    | None => None
                    | Some ta => match resolve (S f) s b with None => None | Some tb => Some (Prod ta tb) end
                    end
     | BLink _ => None
     end).
  destruct (sget s (find s v)) as [|w| |a b|a b]; auto.
  - destruct (resolve f s a) as [ta|] eqn:Ea; [|discriminate].
    destruct (resolve f s b) as [tb|] eqn:Eb; [|discriminate].
    rewrite (IH _ _ _ Ea), (IH _ _ _ Eb). exact H.
  - destruct (resolve f s a) as [ta|] eqn:Ea; [|discriminate].
    destruct (resolve f s b) as [tb|] eqn:Eb; [|discriminate].
    rewrite (IH _ _ _ Ea), (IH _ _ _ Eb). exact H.
Qed.

Lemma resolve_same_root : forall f s v w, find s v = find s w -> resolve f s v = resolve f s w.
Proof. intros [|f] s v w E; [reflexivity|]. cbn [resolve]. rewrite E. reflexivity. Qed.

Definition assign (s : store) : valuation :=
  fun v => match res s v with Some t => t | None => One end.

Lemma occurs_ok_spec s : occurs_ok s = true -> forall v, (v < length s)%nat -> exists t, res s v = Some t.
Proof.
  unfold occurs_ok. intros H v Hv. rewrite forallb_forall in H.
  specialize (H v ltac:(apply in_seq; lia)). destruct (res s v) as [t|]; [eauto|discriminate].
Qed.

(* (A) the assignment read off a store that passes the occurs check satisfies every bound *)
Lemma assign_sat s : wf s -> occurs_ok s = true -> sat (assign s) s.
Proof.
  intros W O v Hv. pose proof (occurs_ok_spec s O) as R.
  destruct (sget s v) as [|w| |a b|a b] eqn:E; cbn [holds]; auto.
  - unfold assign, res. rewrite (resolve_same_root _ s v w); [reflexivity|].
    apply find_link; assumption.
  - unfold assign, res. cbn [resolve]. rewrite find_of_root by (unfold is_root; rewrite E; exact I).
    rewrite E. reflexivity.
  - pose proof (W v Hv) as Wv. rewrite E in Wv. cbn [wf_bnd] in Wv.
    destruct (R v Hv) as (t & Rv). unfold assign. rewrite Rv.
    unfold res in Rv. cbn [resolve] in Rv. rewrite find_of_root in Rv by (unfold is_root; rewrite E; exact I).
    rewrite E in Rv.
    destruct (resolve (length s) s a) as [ta|] eqn:Ea; [|discriminate].
    destruct (resolve (length s) s b) as [tb|] eqn:Eb; [|discriminate].
    unfold res. rewrite (resolve_mono _ _ _ _ Ea), (resolve_mono _ _ _ _ Eb). congruence.
  - pose proof (W v Hv) as Wv. rewrite E in Wv. cbn [wf_bnd] in Wv.
    destruct (R v Hv) as (t & Rv). unfold assign. rewrite Rv.
    unfold res in Rv. cbn [resolve] in Rv. rewrite find_of_root in Rv by (unfold is_root; rewrite E; exact I).
    rewrite E in Rv.
    destruct (resolve (length s) s a) as [ta|] eqn:Ea; [|discriminate].
    destruct (resolve (length s) s b) as [tb|] eqn:Eb; [|discriminate].
    unfold res. rewrite (resolve_mono _ _ _ _ Ea), (resolve_mono _ _ _ _ Eb). congruence.
Qed.

(* (B) principal: whatever resolve returns is below every model *)
Lemma resolve_least s al : wf s -> sat al s -> forall f v t, (v < length s)%nat ->
  resolve f s v = Some t -> ty_le t (al v) = true.
Proof.
  intros W Sa. induction f as [|f IH]; intros v t Hv H; [discriminate|].
  cbn [resolve] in H.
  pose proof (find_lt s v W Hv) as Lr. pose proof (find_sat s v al W Hv Sa) as Er.
  pose proof (Sa _ Lr) as Sr. pose proof (W _ Lr) as Wr. rewrite <- Er.
  destruct (sget s (find s v)) as [|w| |a b|a b]; cbn [holds wf_bnd] in Sr, Wr; try discriminate.
  - injection H as <-. reflexivity.
  - injection H as <-. reflexivity.
  - destruct (resolve f s a) as [ta|] eqn:Ea; [|discriminate].
    destruct (resolve f s b) as [tb|] eqn:Eb; [|discriminate]. injection H as <-.
    rewrite Sr. cbn [ty_le]. rewrite (IH a ta), (IH b tb); tauto.
  - destruct (resolve f s a) as [ta|] eqn:Ea; [|discriminate].
    destruct (resolve f s b) as [tb|] eqn:Eb; [|discriminate]. injection H as <-.
    rewrite Sr. cbn [ty_le]. rewrite (IH a ta), (IH b tb); tauto.
Qed.

(* (C) occurs check: a failing resolve exhibits a path of representatives as long as the fuel *)
Definition edge (s : store) (r c : nat) : Prop :=
  match sget s r with
  | BSum a b | BProd a b => c = find s a \/ c = find s b
  | _ => False
  end.

Inductive rpath (s : store) : nat -> list nat -> Prop :=
| rp_nil r : rpath s r []
| rp_cons r c l : edge s r c -> rpath s c l -> rpath s r (c :: l).

Lemma resolve_none_path s : wf s -> forall f v, (v < length s)%nat -> resolve f s v = None ->
  exists l, length l = f /\ rpath s (find s v) l /\ Forall (fun x => x < length s)%nat l.
Proof.
  intros W. induction f as [|f IH]; intros v Hv H.
  - exists []. repeat split; constructor.
  - cbn [resolve] in H.
    pose proof (find_lt s v W Hv) as Lr. pose proof (find_root s v W Hv) as Rr.
    pose proof (W _ Lr) as Wr. unfold is_root in Rr.
    destruct (sget s (find s v)) as [|w| |a b|a b] eqn:E; cbn [wf_bnd] in Wr; try discriminate; try tauto.
    + assert (exists c, (c = a \/ c = b) /\ resolve f s c = None) as (c & Hc & Nc).
      { destruct (resolve f s a) eqn:Ea; [|exists a; auto].
        destruct (resolve f s b) eqn:Eb; [discriminate|exists b; auto]. }
      assert (Lc : (c < length s)%nat) by (destruct Hc; subst; tauto).
      destruct (IH c Lc Nc) as (l & Ll & P & F).
      exists (find s c :: l). split; [cbn; lia|]. split.
      * constructor; [|exact P]. unfold edge. rewrite E. destruct Hc; subst; auto.
      * constructor; [apply find_lt; assumption|exact F].
    + assert (exists c, (c = a \/ c = b) /\ resolve f s c = None) as (c & Hc & Nc).
      { destruct (resolve f s a) eqn:Ea; [|exists a; auto].
        destruct (resolve f s b) eqn:Eb; [discriminate|exists b; auto]. }
      assert (Lc : (c < length s)%nat) by (destruct Hc; subst; tauto).
      destruct (IH c Lc Nc) as (l & Ll & P & F).
      exists (find s c :: l). split; [cbn; lia|]. split.
      * constructor; [|exact P]. unfold edge. rewrite E. destruct Hc; subst; auto.
      * constructor; [apply find_lt; assumption|exact F].
Qed.

Lemma ty_size_pos t : (0 < ty_size t)%nat.
Proof. destruct t; cbn; lia. Qed.

Lemma edge_size s al r c : wf s -> sat al s -> (r < length s)%nat -> edge s r c ->
  (ty_size (al c) < ty_size (al r))%nat /\ (c < length s)%nat.
Proof.
  intros W Sa Hr E. unfold edge in E. pose proof (Sa r Hr) as Sr. pose proof (W r Hr) as Wr.
  destruct (sget s r) as [|w| |a b|a b]; cbn [holds wf_bnd] in Sr, Wr; try tauto.
  - rewrite Sr. cbn [ty_size]. destruct E as [-> | ->].
    + rewrite find_sat by tauto. split; [lia|apply find_lt; tauto].
    + rewrite find_sat by tauto. split; [lia|apply find_lt; tauto].
  - rewrite Sr. cbn [ty_size]. destruct E as [-> | ->].
    + rewrite find_sat by tauto. split; [lia|apply find_lt; tauto].
    + rewrite find_sat by tauto. split; [lia|apply find_lt; tauto].
Qed.

Lemma rpath_size s al : wf s -> sat al s -> forall r l, (r < length s)%nat -> rpath s r l ->
  forall x, In x l -> (ty_size (al x) < ty_size (al r))%nat.
Proof.
  intros W Sa r l Hr P. induction P as [r|r c l E P IH]; intros x Hx; [destruct Hx|].
  destruct (edge_size s al r c W Sa Hr E) as [Hs Hc].
  destruct Hx as [<-|Hx]; [exact Hs|]. specialize (IH Hc x Hx). lia.
Qed.

Lemma rpath_suffix s : forall l1 r x l2, rpath s r (l1 ++ x :: l2) -> rpath s x l2.
Proof.
  induction l1 as [|y l1 IH]; intros r x l2 P; inversion P; subst; eauto.
Qed.

Lemma dup_exists : forall l : list nat, ~ NoDup l -> exists x l1 l2 l3, l = l1 ++ x :: l2 ++ x :: l3.
Proof.
  induction l as [|a l IH]; intros H; [exfalso; apply H; constructor|].
  destruct (in_dec Nat.eq_dec a l) as [I|I].
  - destruct (in_split _ _ I) as (l2 & l3 & ->). exists a, [], l2, l3. reflexivity.
  - destruct IH as (x & l1 & l2 & l3 & ->).
    + intros N. apply H. constructor; assumption.
    + exists x, (a :: l1), l2, l3. reflexivity.
Qed.

(* a store on which the occurs check fails has no ground model *)
Lemma res_none_no_model s v : wf s -> (v < length s)%nat -> res s v = None -> forall al, ~ sat al s.
Proof.
  intros W Hv H al Sa. unfold res in H.
  destruct (resolve_none_path s W _ v Hv H) as (l & Ll & P & F).
  assert (ND : ~ NoDup l).
  { intros N. assert (I : incl l (seq 0 (length s))).
    { intros x Hx. apply in_seq. rewrite Forall_forall in F. specialize (F x Hx). lia. }
    pose proof (NoDup_incl_length N I) as Le. rewrite seq_length in Le. lia. }
  destruct (dup_exists l ND) as (x & l1 & l2 & l3 & ->).
  pose proof (rpath_suffix s _ _ _ _ P) as P2.
  assert (Hx : (x < length s)%nat).
  { rewrite Forall_forall in F. apply F. apply in_or_app. right. left. reflexivity. }
  pose proof (rpath_size s al W Sa x _ Hx P2 x ltac:(apply in_or_app; right; left; reflexivity)). lia.
Qed.

Lemma sat_occurs_ok s al : wf s -> sat al s -> occurs_ok s = true.
Proof.
  intros W Sa. unfold occurs_ok. apply forallb_forall. intros v Hv. apply in_seq in Hv.
  destruct (res s v) eqn:E; [reflexivity|]. exfalso. apply (res_none_no_model s v W ltac:(lia) E al Sa).
Qed.

Lemma ty_le_antisym a : forall b, ty_le a b = true -> ty_le b a = true -> a = b.
Proof.
  induction a as [|a1 IH1 a2 IH2|a1 IH1 a2 IH2]; intros [|b1 b2|b1 b2] H1 H2; cbn in *; try discriminate; auto.
  - apply andb_true_iff in H1, H2. f_equal; [apply IH1|apply IH2]; tauto.
  - apply andb_true_iff in H1, H2. f_equal; [apply IH1|apply IH2]; tauto.
Qed.
