"""Python reference of the Core jets on words (arithmetic, logic, comparison, shift, resize and
division families) and on typed values (SHA-256 family, parse_lock / parse_sequence, secp256k1 field and
scalar arithmetic, secp256k1 points: affine / Jacobian group operations with libsecp256k1's exact Jacobian
representatives, secp256k1_ecmult, swu, hash_to_curve), independent of coq/Jets/JetSpec*.v: written from the
meaning of the jets (simplicity-sys/depend/simplicity/jets.c, jets-secp256k1.c, secp256k1/*.h, tech report),
on python integers and bit lists; bip_0340_verify and check_sig_verify from BIP-340.

API
  SPECIFIED               set of jet names with a reference here
  JET_TYPES               name -> (source type, target type) (proggen type tuples)
  eval_jet(name, value)   value of the source type -> value of the target type;
                          raises proggen.EvalFail('jet') when the jet fails, EvalFail('nojet')
                          for a name without reference
  edge_inputs(name, rng)  extra family-specific inputs (bit lists of the source width)

All source and target types are products of bits and words, so a value is its bit string
(compact = padded encoding).  Words are big-endian: the first bit is the most significant.
"""
import proggen as pg

WIDTHS = (8, 16, 32, 64)
WIDTHS1 = (1, 8, 16, 32, 64)
BIT = pg.BIT
UNIT = pg.U


def wty(n):
    """type of the words of n bits, n a power of two (wty(1) is the bit type)"""
    k = n.bit_length() - 1
    assert n == 1 << k
    return pg.word(k)


def num(bits):
    x = 0
    for b in bits:
        x = 2 * x + b
    return x


def to_bits(n, x):
    """x as n bits, most significant first; x must fit"""
    assert 0 <= x < (1 << n), (n, x)
    return [(x >> i) & 1 for i in range(n - 1, -1, -1)]


def cut(bits, widths):
    """split a bit list into pieces of the given widths"""
    assert sum(widths) == len(bits)
    out = []
    pos = 0
    for w in widths:
        out.append(bits[pos:pos + w])
        pos += w
    return out


_J = {}      # name -> (src, tgt, bits -> bits, family, params)


def _reg(name, src, tgt, fn, fam, *params):
    assert name not in _J
    _J[name] = (src, tgt, fn, fam, params)


def _on_numbers(widths, g):
    """g takes the input fields as integers, returns [(width, integer)] output fields"""
    def fn(bits):
        out = []
        for w, v in g(*[num(p) for p in cut(bits, widths)]):
            out += to_bits(w, v)
        return out
    return fn


def _on_words(widths, g):
    """g takes the input fields as bit lists, returns the output bit list"""
    return lambda bits: g(*cut(bits, widths))


# ------------------------------------------------------------------ arithmetic
# Results are (carry or borrow bit, word): the exact result is word + carry * 2^w for the
# additions and word - borrow * 2^w for the subtractions.
def _with_carry(w, s):
    c = 1 if s >= (1 << w) else 0
    return [(1, c), (w, s - (c << w))]


def _with_borrow(w, d):
    b = 1 if d < 0 else 0
    return [(1, b), (w, d + (b << w))]


for _w in WIDTHS:
    _w2 = 2 * _w
    _cw = pg.P(BIT, wty(_w))
    _reg("add_%d" % _w, wty(_w2), _cw, _on_numbers([_w, _w], lambda x, y, w=_w: _with_carry(w, x + y)), "add", _w)
    _reg("full_add_%d" % _w, pg.P(BIT, wty(_w2)), _cw,
         _on_numbers([1, _w, _w], lambda c, x, y, w=_w: _with_carry(w, x + y + c)), "full_add", _w)
    _reg("subtract_%d" % _w, wty(_w2), _cw, _on_numbers([_w, _w], lambda x, y, w=_w: _with_borrow(w, x - y)), "subtract", _w)
    _reg("full_subtract_%d" % _w, pg.P(BIT, wty(_w2)), _cw,
         _on_numbers([1, _w, _w], lambda b, x, y, w=_w: _with_borrow(w, x - y - b)), "full_subtract", _w)
    _reg("negate_%d" % _w, wty(_w), _cw, _on_numbers([_w], lambda x, w=_w: _with_borrow(w, -x)), "negate", _w)
    _reg("increment_%d" % _w, wty(_w), _cw, _on_numbers([_w], lambda x, w=_w: _with_carry(w, x + 1)), "increment", _w)
    _reg("full_increment_%d" % _w, _cw, _cw, _on_numbers([1, _w], lambda c, x, w=_w: _with_carry(w, x + c)), "full_increment", _w)
    _reg("decrement_%d" % _w, wty(_w), _cw, _on_numbers([_w], lambda x, w=_w: _with_borrow(w, x - 1)), "decrement", _w)
    _reg("full_decrement_%d" % _w, _cw, _cw, _on_numbers([1, _w], lambda b, x, w=_w: _with_borrow(w, x - b)), "full_decrement", _w)
    _reg("multiply_%d" % _w, wty(_w2), wty(_w2), _on_numbers([_w, _w], lambda x, y, w=_w: [(2 * w, x * y)]), "multiply", _w)
    _reg("full_multiply_%d" % _w, wty(4 * _w), wty(_w2),
         _on_numbers([_w] * 4, lambda x, y, z, t, w=_w: [(2 * w, x * y + z + t)]), "full_multiply", _w)

# ------------------------------------------------------------------ tests of one word, constants
for _w in WIDTHS:
    _reg("is_zero_%d" % _w, wty(_w), BIT, _on_numbers([_w], lambda x: [(1, int(x == 0))]), "is_zero", _w)
    _reg("is_one_%d" % _w, wty(_w), BIT, _on_numbers([_w], lambda x: [(1, int(x == 1))]), "is_one", _w)
    _reg("all_%d" % _w, wty(_w), BIT, lambda bits: [int(all(bits))], "all", _w)
    _reg("one_%d" % _w, UNIT, wty(_w), lambda bits, w=_w: [0] * (w - 1) + [1], "one", _w)
for _w in WIDTHS1:
    _reg("some_%d" % _w, wty(_w), BIT, lambda bits: [int(any(bits))], "some", _w)
    _reg("low_%d" % _w, UNIT, wty(_w), lambda bits, w=_w: [0] * w, "low", _w)
    _reg("high_%d" % _w, UNIT, wty(_w), lambda bits, w=_w: [1] * w, "high", _w)

# ------------------------------------------------------------------ bitwise logic
for _w in WIDTHS1:
    _t3 = pg.P(wty(_w), wty(2 * _w))
    _reg("complement_%d" % _w, wty(_w), wty(_w), lambda bits: [1 - b for b in bits], "complement", _w)
    _reg("and_%d" % _w, wty(2 * _w), wty(_w), _on_words([_w, _w], lambda x, y: [a & b for a, b in zip(x, y)]), "and", _w)
    _reg("or_%d" % _w, wty(2 * _w), wty(_w), _on_words([_w, _w], lambda x, y: [a | b for a, b in zip(x, y)]), "or", _w)
    _reg("xor_%d" % _w, wty(2 * _w), wty(_w), _on_words([_w, _w], lambda x, y: [a ^ b for a, b in zip(x, y)]), "xor", _w)
    _reg("xor_xor_%d" % _w, _t3, wty(_w),
         _on_words([_w] * 3, lambda x, y, z: [(a + b + c) % 2 for a, b, c in zip(x, y, z)]), "xor_xor", _w)
    _reg("maj_%d" % _w, _t3, wty(_w),
         _on_words([_w] * 3, lambda x, y, z: [int(a + b + c >= 2) for a, b, c in zip(x, y, z)]), "maj", _w)
    # choice: each bit of the first word selects the bit of the second (1) or of the third (0) word
    _reg("ch_%d" % _w, _t3, wty(_w),
         _on_words([_w] * 3, lambda x, y, z: [b if a else c for a, b, c in zip(x, y, z)]), "ch", _w)

# ------------------------------------------------------------------ comparisons (unsigned)
for _w in (1, 8, 16, 32, 64, 256):
    _reg("eq_%d" % _w, wty(2 * _w), BIT, _on_words([_w, _w], lambda x, y: [int(x == y)]), "eq", _w)
for _w in WIDTHS:
    _t3 = pg.P(wty(_w), wty(2 * _w))
    _reg("le_%d" % _w, wty(2 * _w), BIT, _on_numbers([_w, _w], lambda x, y: [(1, int(x <= y))]), "le", _w)
    _reg("lt_%d" % _w, wty(2 * _w), BIT, _on_numbers([_w, _w], lambda x, y: [(1, int(x < y))]), "lt", _w)
    _reg("min_%d" % _w, wty(2 * _w), wty(_w), _on_numbers([_w, _w], lambda x, y, w=_w: [(w, min(x, y))]), "min", _w)
    _reg("max_%d" % _w, wty(2 * _w), wty(_w), _on_numbers([_w, _w], lambda x, y, w=_w: [(w, max(x, y))]), "max", _w)
    _reg("median_%d" % _w, _t3, wty(_w),
         _on_numbers([_w] * 3, lambda x, y, z, w=_w: [(w, sorted([x, y, z])[1])]), "median", _w)

# ------------------------------------------------------------------ shifts and rotations
# input: shift amount (4 bits for the 8 and 16 bit words, 8 bits for the 32 and 64 bit words),
# then the word; the _with variants have a leading bit that is shifted in (0 otherwise).
AMOUNT_BITS = {8: 4, 16: 4, 32: 8, 64: 8}


def _shl(fill, amt, word):
    return (word + [fill] * num(amt))[-len(word):]


def _shr(fill, amt, word):
    return ([fill] * num(amt) + word)[:len(word)]


def _rotl(amt, word):
    k = num(amt) % len(word)
    return word[k:] + word[:k]


def _rotr(amt, word):
    k = num(amt) % len(word)
    return word[len(word) - k:] + word[:len(word) - k]


for _w in WIDTHS:
    _l = AMOUNT_BITS[_w]
    _st = pg.P(wty(_l), wty(_w))
    _reg("left_shift_%d" % _w, _st, wty(_w), _on_words([_l, _w], lambda a, x: _shl(0, a, x)), "left_shift", _l, _w)
    _reg("right_shift_%d" % _w, _st, wty(_w), _on_words([_l, _w], lambda a, x: _shr(0, a, x)), "right_shift", _l, _w)
    _reg("left_shift_with_%d" % _w, pg.P(BIT, _st), wty(_w),
         _on_words([1, _l, _w], lambda b, a, x: _shl(b[0], a, x)), "left_shift_with", _l, _w)
    _reg("right_shift_with_%d" % _w, pg.P(BIT, _st), wty(_w),
         _on_words([1, _l, _w], lambda b, a, x: _shr(b[0], a, x)), "right_shift_with", _l, _w)
    _reg("left_rotate_%d" % _w, _st, wty(_w), _on_words([_l, _w], _rotl), "left_rotate", _l, _w)
    _reg("right_rotate_%d" % _w, _st, wty(_w), _on_words([_l, _w], _rotr), "right_rotate", _l, _w)

# shifts by a fixed number k of bits that keep everything:
#   full_left_shift_w_k  (word, k bits to shift in) -> (k bits shifted out, word)
#   full_right_shift_w_k (k bits to shift in, word) -> (word, k bits shifted out)
for _w in WIDTHS:
    _k = 1
    while _k < _w:
        _reg("full_left_shift_%d_%d" % (_w, _k), pg.P(wty(_w), wty(_k)), pg.P(wty(_k), wty(_w)),
             _on_words([_w, _k], lambda x, y, k=_k: x[:k] + (x[k:] + y)), "full_left_shift", _w, _k)
        _reg("full_right_shift_%d_%d" % (_w, _k), pg.P(wty(_k), wty(_w)), pg.P(wty(_w), wty(_k)),
             _on_words([_k, _w], lambda y, x, k=_k: (y + x[:len(x) - k]) + x[len(x) - k:]), "full_right_shift", _w, _k)
        _reg("leftmost_%d_%d" % (_w, _k), wty(_w), wty(_k), lambda x, k=_k: x[:k], "leftmost", _w, _k)
        _reg("rightmost_%d_%d" % (_w, _k), wty(_w), wty(_k), lambda x, k=_k: x[len(x) - k:], "rightmost", _w, _k)
        _k *= 2

# ------------------------------------------------------------------ padding and extension n -> m
for _n in (1, 8, 16, 32):
    for _m in WIDTHS:
        if _m <= _n:
            continue
        _d = _m - _n
        _nm = "%d_%d" % (_n, _m)
        _reg("left_pad_low_" + _nm, wty(_n), wty(_m), lambda x, d=_d: [0] * d + x, "left_pad_low", _n, _m)
        _reg("left_pad_high_" + _nm, wty(_n), wty(_m), lambda x, d=_d: [1] * d + x, "left_pad_high", _n, _m)
        _reg("right_pad_low_" + _nm, wty(_n), wty(_m), lambda x, d=_d: x + [0] * d, "right_pad_low", _n, _m)
        _reg("right_pad_high_" + _nm, wty(_n), wty(_m), lambda x, d=_d: x + [1] * d, "right_pad_high", _n, _m)
        # extension repeats the outermost bit (left_extend = sign extension)
        _reg("left_extend_" + _nm, wty(_n), wty(_m), lambda x, d=_d: [x[0]] * d + x, "left_extend", _n, _m)
        if _n > 1:    # right_extend_1_m does not exist
            _reg("right_extend_" + _nm, wty(_n), wty(_m), lambda x, d=_d: x + [x[-1]] * d, "right_extend", _n, _m)


# ------------------------------------------------------------------ division
# x / 0 = 0 and x mod 0 = x;  divides(x, y): "x divides y", where 0 divides only 0
def _quot(x, y):
    return x // y if y else 0


def _rem(x, y):
    return x % y if y else x


def _divides(x, y):
    if x == 0:
        return y == 0
    return y % x == 0


for _w in WIDTHS:
    _reg("divide_%d" % _w, wty(2 * _w), wty(_w), _on_numbers([_w, _w], lambda x, y, w=_w: [(w, _quot(x, y))]), "divide", _w)
    _reg("modulo_%d" % _w, wty(2 * _w), wty(_w), _on_numbers([_w, _w], lambda x, y, w=_w: [(w, _rem(x, y))]), "modulo", _w)
    _reg("div_mod_%d" % _w, wty(2 * _w), wty(2 * _w),
         _on_numbers([_w, _w], lambda x, y, w=_w: [(w, _quot(x, y)), (w, _rem(x, y))]), "div_mod", _w)
    _reg("divides_%d" % _w, wty(2 * _w), BIT, _on_numbers([_w, _w], lambda x, y: [(1, int(_divides(x, y)))]), "divides", _w)


def _div_mod_128_64(a, b):
    """(quotient, remainder) of a 128 bit number by a 64 bit number with the top bit set, when
    the quotient fits in 64 bits (high half of a < b); all bits set otherwise"""
    if b >= 1 << 63 and (a >> 64) < b:
        q, r = divmod(a, b)
        return [(64, q), (64, r)]
    return [(64, (1 << 64) - 1), (64, (1 << 64) - 1)]


_reg("div_mod_128_64", pg.P(wty(128), wty(64)), wty(128), _on_numbers([128, 64], _div_mod_128_64), "div_mod_128_64")


# ------------------------------------------------------------------ verify
def _verify(bits):
    if bits != [1]:
        raise pg.EvalFail("jet")
    return []


_reg("verify", BIT, UNIT, _verify, "verify")


# ------------------------------------------------------------------ jets on typed values
# The SHA-256 family, parse_lock / parse_sequence and the field / scalar arithmetic of secp256k1.
# The CTX8 type has optional components, so these references work on values, not on bit strings:
#   _JV[name] = (src, tgt, value -> value (raises EvalFail('jet') when the jet fails), family, params)
# Written from FIPS 180-4, BIP-340/SEC2 and the comments in jets.c / frame.c / sha256.h
# (independent of coq/Jets/JetSpecSha.v and of coq/Merkle/Sha256.v).
_JV = {}


def _regv(name, src, tgt, fn, fam, *params):
    assert name not in _J and name not in _JV
    _JV[name] = (src, tgt, fn, fam, params)


_K256 = [
    0x428a2f98, 0x71374491, 0xb5c0fbcf, 0xe9b5dba5, 0x3956c25b, 0x59f111f1, 0x923f82a4, 0xab1c5ed5, 0xd807aa98, 0x12835b01,
    0x243185be, 0x550c7dc3, 0x72be5d74, 0x80deb1fe, 0x9bdc06a7, 0xc19bf174, 0xe49b69c1, 0xefbe4786, 0x0fc19dc6, 0x240ca1cc,
    0x2de92c6f, 0x4a7484aa, 0x5cb0a9dc, 0x76f988da, 0x983e5152, 0xa831c66d, 0xb00327c8, 0xbf597fc7, 0xc6e00bf3, 0xd5a79147,
    0x06ca6351, 0x14292967, 0x27b70a85, 0x2e1b2138, 0x4d2c6dfc, 0x53380d13, 0x650a7354, 0x766a0abb, 0x81c2c92e, 0x92722c85,
    0xa2bfe8a1, 0xa81a664b, 0xc24b8b70, 0xc76c51a3, 0xd192e819, 0xd6990624, 0xf40e3585, 0x106aa070, 0x19a4c116, 0x1e376c08,
    0x2748774c, 0x34b0bcb5, 0x391c0cb3, 0x4ed8aa4a, 0x5b9cca4f, 0x682e6ff3, 0x748f82ee, 0x78a5636f, 0x84c87814, 0x8cc70208,
    0x90befffa, 0xa4506ceb, 0xbef9a3f7, 0xc67178f2]
SHA_IV = [0x6a09e667, 0xbb67ae85, 0x3c6ef372, 0xa54ff53a, 0x510e527f, 0x9b05688c, 0x1f83d9ab, 0x5be0cd19]
_M32 = 0xFFFFFFFF


def _rotr(x, n):
    return ((x >> n) | (x << (32 - n))) & _M32


def sha_compress(h, block):
    """h: 8 words, block: 64 bytes -> 8 words"""
    assert len(h) == 8 and len(block) == 64
    w = [int.from_bytes(bytes(block[4 * i:4 * i + 4]), "big") for i in range(16)]
    for i in range(16, 64):
        s0 = _rotr(w[i - 15], 7) ^ _rotr(w[i - 15], 18) ^ (w[i - 15] >> 3)
        s1 = _rotr(w[i - 2], 17) ^ _rotr(w[i - 2], 19) ^ (w[i - 2] >> 10)
        w.append((w[i - 16] + s0 + w[i - 7] + s1) & _M32)
    a, b, c, d, e, f, g, hh = h
    for i in range(64):
        s1 = _rotr(e, 6) ^ _rotr(e, 11) ^ _rotr(e, 25)
        ch = (e & f) ^ (~e & _M32 & g)
        t1 = (hh + s1 + ch + _K256[i] + w[i]) & _M32
        s0 = _rotr(a, 2) ^ _rotr(a, 13) ^ _rotr(a, 22)
        mj = (a & b) ^ (a & c) ^ (b & c)
        t2 = (s0 + mj) & _M32
        hh, g, f, e, d, c, b, a = g, f, e, (d + t1) & _M32, c, b, a, (t1 + t2) & _M32
    return [(x + y) & _M32 for x, y in zip(h, [a, b, c, d, e, f, g, hh])]


def _selftest_sha():
    import hashlib
    for msg in (b"", b"abc", bytes(range(200))):
        m = msg + b"\x80" + b"\x00" * ((55 - len(msg)) % 64) + (8 * len(msg)).to_bytes(8, "big")
        h = list(SHA_IV)
        for i in range(0, len(m), 64):
            h = sha_compress(h, list(m[i:i + 64]))
        assert b"".join(x.to_bytes(4, "big") for x in h) == hashlib.sha256(msg).digest()


_selftest_sha()


def wval(n, x):
    """the integer x as a value of the word type of n bits"""
    return pg.of_compact(wty(n), to_bits(n, x))[0]


def wnum(v):
    return num(pg.compact_bits(v))


def wbytes(v):
    bits = pg.compact_bits(v)
    assert len(bits) % 8 == 0
    return [num(bits[i:i + 8]) for i in range(0, len(bits), 8)]


def bytes_val(bs):
    bits = []
    for b in bs:
        bits += to_bits(8, b)
    return pg.of_compact(wty(len(bits)), bits)[0]


def buf_ty(n):
    """(2^8)^<2^(n+1): options of 2^n, ..., 2, 1 bytes"""
    t = pg.opt(wty(8))
    for k in range(1, n + 1):
        t = pg.P(pg.opt(wty(8 << k)), t)
    return t


CTX8 = pg.P(buf_ty(5), pg.P(wty(64), wty(256)))
MAX_BLOCKS = 1 << 55
MAX_COUNTER = 1 << 61


def buf_bytes(n, v):
    out = []
    for k in range(n, -1, -1):
        o, v = (v[1], v[2]) if k > 0 else (v, None)
        if o[0] == "R":
            out += wbytes(o[1])
    return out


def buf_val(n, bs):
    parts = []
    bs = list(bs)
    assert len(bs) < (2 << n)
    for k in range(n, -1, -1):
        nb = 1 << k
        if len(bs) >= nb:
            parts.append(("R", bytes_val(bs[:nb])))
            bs = bs[nb:]
        else:
            parts.append(("L", ("U",)))
    v = parts[-1]
    for p in reversed(parts[:-1]):
        v = ("P", p, v)
    return v


def ctx_val(buf, blocks, mid):
    """CTX8 value from a buffer (< 64 bytes), a block count (64 bits) and a midstate (8 words)"""
    mb = []
    for x in mid:
        mb += list(x.to_bytes(4, "big"))
    return ("P", buf_val(5, buf), ("P", wval(64, blocks), bytes_val(mb)))


def ctx_read(v):
    buf = buf_bytes(5, v[1])
    blocks = wnum(v[2][1])
    mb = wbytes(v[2][2])
    if blocks >= MAX_BLOCKS:
        raise pg.EvalFail("jet")
    return buf, blocks, [int.from_bytes(bytes(mb[4 * i:4 * i + 4]), "big") for i in range(8)]


def ctx_add(ctx, data):
    buf, blocks, mid = ctx
    counter = 64 * blocks + len(buf)
    if counter + len(data) >= MAX_COUNTER:
        raise pg.EvalFail("jet")
    pending = buf + list(data)
    while len(pending) >= 64:
        mid = sha_compress(mid, pending[:64])
        pending = pending[64:]
    return pending, (counter + len(data)) // 64, mid


def ctx_finalize(ctx):
    buf, blocks, mid = ctx
    total = 64 * blocks + len(buf)
    tail = [0x80] + [0] * ((55 - total) % 64) + list((8 * total).to_bytes(8, "big"))
    pending, _, mid = ctx_add((buf, 0, mid), tail)       # the counter no longer matters
    assert not pending
    return mid


def _mid_val(mid):
    mb = []
    for x in mid:
        mb += list(x.to_bytes(4, "big"))
    return bytes_val(mb)


def _words_of(v):
    mb = wbytes(v)
    return [int.from_bytes(bytes(mb[4 * i:4 * i + 4]), "big") for i in range(len(mb) // 4)]


_regv("sha_256_iv", UNIT, wty(256), lambda v: _mid_val(SHA_IV), "sha_const")
_regv("sha_256_block", pg.P(wty(256), wty(512)), wty(256),
      lambda v: _mid_val(sha_compress(_words_of(v[1]), wbytes(v[2]))), "sha_block")
_regv("sha_256_ctx_8_init", UNIT, CTX8, lambda v: ctx_val([], 0, SHA_IV), "sha_const")


def _tapdata():
    import hashlib
    d = hashlib.sha256(b"TapData").digest()
    return ctx_val([], 1, sha_compress(SHA_IV, list(d + d)))


_regv("tapdata_init", UNIT, CTX8, lambda v: _tapdata(), "sha_const")
for _n in (1, 2, 4, 8, 16, 32, 64, 128, 256, 512):
    _regv("sha_256_ctx_8_add_%d" % _n, pg.P(CTX8, wty(8 * _n)), CTX8,
          lambda v: ctx_val(*ctx_add(ctx_read(v[1]), wbytes(v[2]))), "ctx_add", _n)
_regv("sha_256_ctx_8_add_buffer_511", pg.P(CTX8, buf_ty(8)), CTX8,
      lambda v: ctx_val(*ctx_add(ctx_read(v[1]), buf_bytes(8, v[2]))), "ctx_add_buffer")
_regv("sha_256_ctx_8_finalize", CTX8, wty(256), lambda v: _mid_val(ctx_finalize(ctx_read(v))), "ctx_finalize")


def _parse_lock(v):
    n = wnum(v)
    return ("R", v) if n >= 500000000 else ("L", v)


def _parse_sequence(v):
    n = wnum(v)
    if n >> 31:
        return ("L", ("U",))
    low = wval(16, n & 0xFFFF)
    return ("R", ("R", low) if (n >> 22) & 1 else ("L", low))


_regv("parse_lock", wty(32), pg.S(wty(32), wty(32)), _parse_lock, "parse_lock")
_regv("parse_sequence", wty(32), pg.opt(pg.S(wty(16), wty(16))), _parse_sequence, "parse_sequence")

# secp256k1: the field of p elements and the scalars modulo the group order; every 256-bit pattern is
# accepted and reduced, results are canonical
FE_P = 2 ** 256 - 2 ** 32 - 977
SC_N = 0xFFFFFFFFFFFFFFFFFFFFFFFFFFFFFFFEBAAEDCE6AF48A03BBFD25E8CD0364141
FE_BETA = 0x7ae96a2b657c07106e64479eac3434e99cf0497512f58995c1396c28719501ee
SC_LAMBDA = 0x5363ad4cc05c30e0a5261c028812645a122e22ea20816678df02967c1b23bd72
assert pow(FE_BETA, 3, FE_P) == 1 and pow(SC_LAMBDA, 3, SC_N) == 1


def _bitv(b):
    return ("R", ("U",)) if b else ("L", ("U",))


def _fe_sqrt(v):
    a = wnum(v) % FE_P
    r = pow(a, (FE_P + 1) // 4, FE_P)
    return ("R", wval(256, r)) if r * r % FE_P == a else ("L", ("U",))


for _pre, _m, _c, _cn in (("fe", FE_P, FE_BETA, "beta"), ("scalar", SC_N, SC_LAMBDA, "lambda")):
    _regv(_pre + "_add", wty(512), wty(256), lambda v, m=_m: wval(256, (wnum(v[1]) + wnum(v[2])) % m), "mod2", _m)
    _regv(_pre + "_multiply", wty(512), wty(256), lambda v, m=_m: wval(256, (wnum(v[1]) * wnum(v[2])) % m), "mod2", _m)
    _regv(_pre + "_square", wty(256), wty(256), lambda v, m=_m: wval(256, wnum(v) ** 2 % m), "mod1", _m)
    _regv(_pre + "_negate", wty(256), wty(256), lambda v, m=_m: wval(256, -wnum(v) % m), "mod1", _m)
    _regv(_pre + "_normalize", wty(256), wty(256), lambda v, m=_m: wval(256, wnum(v) % m), "mod1", _m)
    _regv(_pre + "_invert", wty(256), wty(256), lambda v, m=_m: wval(256, pow(wnum(v) % m, m - 2, m)), "mod1", _m)
    _regv(_pre + "_is_zero", wty(256), BIT, lambda v, m=_m: _bitv(wnum(v) % m == 0), "mod1", _m)
    _regv("%s_multiply_%s" % (_pre, _cn), wty(256), wty(256), lambda v, m=_m, c=_c: wval(256, wnum(v) * c % m), "mod1", _m)
_regv("fe_is_odd", wty(256), BIT, lambda v: _bitv(wnum(v) % FE_P % 2 == 1), "mod1", FE_P)
_regv("fe_square_root", wty(256), pg.opt(wty(256)), _fe_sqrt, "mod1", FE_P)


# ------------------------------------------------------------------ secp256k1: points
# GE = (x, y) a point in affine coordinates (never the point at infinity), GEJ = ((x, y), z) a point in Jacobian
# coordinates (x / z^2, y / z^3), the point at infinity when z = 0.  Coordinates are arbitrary 256-bit patterns, reduced
# on reading.  The results carry the exact Jacobian representative libsecp256k1 computes (group_impl.h: gej_double_var,
# gej_add_var, gej_add_ge_var, ecmult_impl.h: Strauss/wNAF with the endomorphism and a common z for the table), so the
# reference follows the same sequence of field operations, as a small register machine over integers modulo p.
GE_T = wty(512)
GEJ_T = pg.P(wty(512), wty(256))
G_X = 0x79BE667EF9DCBBAC55A06295CE870B07029BFCDB2DCE28D959F2815B16F81798
G_Y = 0x483ADA7726A3C4655DA4FBFC0E1108A8FD17B448A68554199C47D08FFB10D4B8
assert (G_Y * G_Y - G_X ** 3 - 7) % FE_P == 0


def _finv(x):
    return pow(x, FE_P - 2, FE_P)


def _fsqrt(a):
    """the candidate root a^((p+1)/4) and whether it is one"""
    r = pow(a, (FE_P + 1) // 4, FE_P)
    return r, r * r % FE_P == a % FE_P


def _rd_fe(v):
    return wnum(v) % FE_P


def _rd_ge(v):
    return [_rd_fe(v[1]), _rd_fe(v[2])]


def _rd_gej(v):
    """[x, y, z, infinity flag]"""
    z = _rd_fe(v[2])
    return _rd_ge(v[1]) + [z, z == 0]


def _wr_ge(x, y):
    return ("P", wval(256, x % FE_P), wval(256, y % FE_P))


def _wr_gej(a):
    return ("P", _wr_ge(a[0], a[1]), wval(256, a[2] % FE_P))


_INF = [0, 0, 0, True]


def _gej_double_var(a):
    """-> (point, rzr)"""
    p = FE_P
    if a[3]:
        return list(_INF), 1
    x, y, z = a[:3]
    rzr = y
    z3 = z * y % p
    s = y * y % p
    l = 3 * x * x % p
    l = (l + p) // 2 if l & 1 else l // 2
    t = -s * x % p
    x3 = (l * l + t + t) % p
    s = s * s % p
    t = (t + x3) % p
    y3 = -(t * l + s) % p
    return [x3, y3, z3, z3 == 0], rzr


def _add_tail(a, u1, s1, h, i, rz):
    p = FE_P
    h2 = -h * h % p
    h3 = h2 * h % p
    t = u1 * h2 % p
    rx = (i * i + h3 + 2 * t) % p
    ry = ((t + rx) * i + h3 * s1) % p
    return [rx, ry, rz, False]


def _gej_add_var(a, b):
    """-> (point, rzr); rzr is None where the C code leaves it untouched"""
    p = FE_P
    if a[3]:
        return list(b), None
    if b[3]:
        return list(a), 1
    z22 = b[2] * b[2] % p
    z12 = a[2] * a[2] % p
    u1 = a[0] * z22 % p
    u2 = b[0] * z12 % p
    s1 = a[1] * z22 * b[2] % p
    s2 = b[1] * z12 * a[2] % p
    h = (u2 - u1) % p
    i = (s1 - s2) % p
    if h == 0:
        if i == 0:
            return _gej_double_var(a)
        return list(_INF), 0
    t = h * b[2] % p
    return _add_tail(a, u1, s1, h, i, a[2] * t % p), t


def _gej_add_ge_var(a, b, azscale=1):
    """a + (b.x, b.y, 1 / azscale): gej_add_ge_var for azscale = 1, gej_add_zinv_var otherwise (the z of a is scaled for
    x and y only).  -> (point, rzr)"""
    p = FE_P
    if a[3]:
        s2 = azscale * azscale % p
        return [b[0] * s2 % p, b[1] * s2 * azscale % p, 1, False], 0
    az = a[2] * azscale % p
    z12 = az * az % p
    u1, s1 = a[0], a[1]
    u2 = b[0] * z12 % p
    s2 = b[1] * z12 * az % p
    h = (u2 - u1) % p
    i = (s1 - s2) % p
    if h == 0:
        if i == 0:
            return _gej_double_var(a)
        return list(_INF), 0
    return _add_tail(a, u1, s1, h, i, a[2] * h % p), h


def _gej_on_curve(a):
    return (a[1] * a[1] - a[0] ** 3 - 7 * a[2] ** 6) % FE_P == 0


def _ge_on_curve(b):
    return (b[1] * b[1] - b[0] ** 3 - 7) % FE_P == 0


def _gej_eq(a, b, affine):
    """secp256k1_gej_eq_var / gej_eq_ge_var: (-a) + b is flagged as the point at infinity"""
    na = [a[0], -a[1] % FE_P, a[2], a[3]]
    r, _ = _gej_add_ge_var(na, b) if affine else _gej_add_var(na, b)
    return r[3]


def _gej_affine(a):
    zi = _finv(a[2])
    return a[0] * zi * zi % FE_P, a[1] * zi * zi * zi % FE_P


def _lift_x(x, odd):
    y, ok = _fsqrt((x ** 3 + 7) % FE_P)
    if not ok:
        return None
    if (y & 1) != odd:
        y = -y % FE_P
    return [x, y]


def _bit_of(v):
    return 1 if v[0] == "R" else 0


# ---- plain affine arithmetic for the table of multiples of G (precomputed_ecmult.h holds them normalised)
def _aff_add(P1, P2):
    p = FE_P
    if P1 is None:
        return P2
    if P2 is None:
        return P1
    if P1[0] == P2[0]:
        if (P1[1] + P2[1]) % p == 0:
            return None
        lam = 3 * P1[0] * P1[0] * _finv(2 * P1[1]) % p
    else:
        lam = (P2[1] - P1[1]) * _finv(P2[0] - P1[0]) % p
    x = (lam * lam - P1[0] - P2[0]) % p
    return (x, (lam * (P1[0] - x) - P1[1]) % p)


def _aff_mul(k, P1):
    acc = None
    while k:
        if k & 1:
            acc = _aff_add(acc, P1)
        P1 = _aff_add(P1, P1)
        k >>= 1
    return acc


_G128 = _aff_mul(1 << 128, (G_X, G_Y))


def _wnaf(s, w, length=129):
    """secp256k1_ecmult_wnaf: digits (least significant first) and the number of digits used"""
    out = [0] * length
    sign = 1
    if (s >> 255) & 1:
        s = SC_N - s
        sign = -1
    bit, carry, last = 0, 0, -1
    while bit < length:
        if ((s >> bit) & 1) == carry:
            bit += 1
            continue
        now = min(w, length - bit)
        word = ((s >> bit) & ((1 << now) - 1)) + carry
        carry = (word >> (w - 1)) & 1
        word -= carry << w
        out[bit] = sign * word
        last = bit
        bit += now
    return out, last + 1


def _split_lambda(k):
    g1 = 0x3086D221A7D46BCDE86C90E49284EB153DAA8A1471E8CA7FE893209A45DBB031
    g2 = 0xE4437ED6010E88286F547FA90ABFE4C4221208AC9DF506C61571B4AE8AC47F71
    mb1 = 0xE4437ED6010E88286F547FA90ABFE4C3
    mb2 = 0xFFFFFFFFFFFFFFFFFFFFFFFFFFFFFFFE8A280AC50774346DD765CDA83DB1562C
    c1 = ((k * g1) >> 384) + (((k * g1) >> 383) & 1)
    c2 = ((k * g2) >> 384) + (((k * g2) >> 383) & 1)
    r2 = (c1 * mb1 + c2 * mb2) % SC_N
    r1 = (k - r2 * SC_LAMBDA) % SC_N
    return r1, r2


def _ecmult(a, na, ng):
    """secp256k1_ecmult (Strauss, one point): na * a + ng * G with libsecp256k1's representative"""
    p = FE_P
    Z = 1
    pre = aux = None
    wa1 = wal = ([], 0)
    if na != 0 and not a[3]:
        wa1, wal = (_wnaf(x, 5) for x in _split_lambda(na))
        d, _ = _gej_double_var(a)
        dz = d[2]
        ai = [a[0] * dz * dz % p, a[1] * dz ** 3 % p, a[2], False]
        pre = [ai[:2]]
        zr = [dz]
        for _k in range(7):
            ai, r = _gej_add_ge_var(ai, d[:2])
            pre.append(ai[:2])
            zr.append(r)
        Z = ai[2] * dz % p
        zs = 1
        for k in range(6, -1, -1):
            zs = zs * zr[k + 1] % p
            pre[k] = [pre[k][0] * zs * zs % p, pre[k][1] * zs ** 3 % p]
        aux = [q[0] * FE_BETA % p for q in pre]
    wg1, wg128 = _wnaf(ng & ((1 << 128) - 1), 15), _wnaf(ng >> 128, 15)
    bits = max(wa1[1], wal[1], wg1[1], wg128[1])
    r = list(_INF)

    def entry(xs, ys, n):
        k = (abs(n) - 1) // 2
        return [xs[k], ys[k] if n > 0 else -ys[k] % p]

    for i in range(bits - 1, -1, -1):
        r, _ = _gej_double_var(r)
        if i < wa1[1] and wa1[0][i]:
            r, _ = _gej_add_ge_var(r, entry([q[0] for q in pre], [q[1] for q in pre], wa1[0][i]))
        if i < wal[1] and wal[0][i]:
            r, _ = _gej_add_ge_var(r, entry(aux, [q[1] for q in pre], wal[0][i]))
        for wn, base in ((wg1, (G_X, G_Y)), (wg128, _G128)):
            if i < wn[1] and wn[0][i]:
                n = wn[0][i]
                q = _aff_mul(abs(n), base)
                r, _ = _gej_add_ge_var(r, [q[0], q[1] if n > 0 else -q[1] % p], Z)
    if not r[3]:
        r[2] = r[2] * Z % p
    return r


def _verify_sum(a, na, ng, b):
    """na * a + ng * G - b is the point at infinity (a, b affine points on the curve)"""
    acc = _aff_add(_aff_mul(na % SC_N, tuple(a)), _aff_mul(ng % SC_N, (G_X, G_Y)))
    return _aff_add(acc, (b[0], -b[1] % FE_P)) is None


def _must(ok):
    if not ok:
        raise pg.EvalFail("jet")
    return ("U",)


def _swu(t):
    """shallue_van_de_woestijne (generator_impl.h)"""
    p = FE_P
    negc = 0xf5d2d456caf80e20dcc88f3d586869d339e092ea25eb132b8272d850e32a03dd     # -c, c a square root of -3
    assert negc * negc % p == p - 3
    d = 0x851695d49a83f8ef919bb86153cbcb16630fb68aed0a766a3ec693d68e6afa40        # (c - 1) / 2
    assert (2 * d + 1 + negc) % p == 0
    wd = (t * t + 8) % p
    x3d = -3 * t * t % p
    jinv = _finv(wd * x3d % p)
    x1 = (d + negc * t * t * x3d * jinv) % p
    x2 = -(x1 + 1) % p
    x3 = (1 + wd ** 3 * jinv) % p
    for x in (x1, x2, x3):
        y, ok = _fsqrt((x ** 3 + 7) % p)
        if ok or x is x3:
            break
    if t & 1:
        y = -y % p
    return x, y


_B = BIT
_regv("gej_infinity", UNIT, GEJ_T, lambda v: _wr_gej(_INF), "ec_const")
_regv("gej_is_infinity", GEJ_T, _B, lambda v: _bitv(_rd_gej(v)[3]), "gej")
_regv("gej_negate", GEJ_T, GEJ_T, lambda v: (lambda a: _wr_gej([a[0], -a[1], a[2]]))(_rd_gej(v)), "gej")
_regv("ge_negate", GE_T, GE_T, lambda v: (lambda b: _wr_ge(b[0], -b[1]))(_rd_ge(v)), "ge")
_regv("gej_is_on_curve", GEJ_T, _B, lambda v: _bitv(_gej_on_curve(_rd_gej(v))), "gej")
_regv("ge_is_on_curve", GE_T, _B, lambda v: _bitv(_ge_on_curve(_rd_ge(v))), "ge")
_regv("gej_double", GEJ_T, GEJ_T, lambda v: _wr_gej(_gej_double_var(_rd_gej(v))[0]), "gej")
_regv("gej_add", pg.P(GEJ_T, GEJ_T), GEJ_T, lambda v: _wr_gej(_gej_add_var(_rd_gej(v[1]), _rd_gej(v[2]))[0]), "gej_gej")
_regv("gej_ge_add", pg.P(GEJ_T, GE_T), GEJ_T, lambda v: _wr_gej(_gej_add_ge_var(_rd_gej(v[1]), _rd_ge(v[2]))[0]), "gej_ge")
_regv("gej_ge_add_ex", pg.P(GEJ_T, GE_T), pg.P(wty(256), GEJ_T),
      lambda v: (lambda r: ("P", wval(256, r[1] % FE_P), _wr_gej(r[0])))(_gej_add_ge_var(_rd_gej(v[1]), _rd_ge(v[2]))), "gej_ge")
_regv("gej_equiv", pg.P(GEJ_T, GEJ_T), _B, lambda v: _bitv(_gej_eq(_rd_gej(v[1]), _rd_gej(v[2]), False)), "gej_gej")
_regv("gej_ge_equiv", pg.P(GEJ_T, GE_T), _B, lambda v: _bitv(_gej_eq(_rd_gej(v[1]), _rd_ge(v[2]), True)), "gej_ge")


def _gej_rescale(v):
    a, s = _rd_gej(v[1]), _rd_fe(v[2])
    return _wr_gej([a[0] * s * s, a[1] * s ** 3, a[2] * s])


def _gej_normalize(v):
    a = _rd_gej(v)
    return ("L", ("U",)) if a[3] else ("R", _wr_ge(*_gej_affine(a)))


def _gej_x_equiv(v):
    x, a = _rd_fe(v[1]), _rd_gej(v[2])
    return _bitv((not a[3]) and (a[2] * a[2] * x - a[0]) % FE_P == 0)


def _gej_y_is_odd(v):
    a = _rd_gej(v)
    return _bitv((not a[3]) and _gej_affine(a)[1] & 1 == 1)


def _decompress(v):
    q = _lift_x(_rd_fe(v[2]), _bit_of(v[1]))
    return ("L", ("U",)) if q is None else ("R", _wr_ge(*q))


def _scale(v):
    a = _rd_gej(v[2])
    _must(_gej_on_curve(a))
    return _wr_gej(_ecmult(a, wnum(v[1]) % SC_N, 0))


def _linear_combination_1(v):
    a = _rd_gej(v[1][2])
    _must(_gej_on_curve(a))
    return _wr_gej(_ecmult(a, wnum(v[1][1]) % SC_N, wnum(v[2]) % SC_N))


def _linear_verify_1(v):
    (_, (_, (_, na, a), ng), b) = v
    a, b = _rd_ge(a), _rd_ge(b)
    return _must(_ge_on_curve(a) and _ge_on_curve(b) and _verify_sum(a, wnum(na), wnum(ng), b))


def _point_verify_1(v):
    (_, (_, (_, na, pa), ng), pb) = v
    a = _lift_x(_rd_fe(pa[2]), _bit_of(pa[1]))
    b = _lift_x(_rd_fe(pb[2]), _bit_of(pb[1]))
    return _must(a is not None and b is not None and _verify_sum(a, wnum(na), wnum(ng), b))


POINT_T = pg.P(_B, wty(256))
_regv("gej_rescale", pg.P(GEJ_T, wty(256)), GEJ_T, _gej_rescale, "gej_fe")
_regv("gej_normalize", GEJ_T, pg.opt(GE_T), _gej_normalize, "gej")
_regv("gej_x_equiv", pg.P(wty(256), GEJ_T), _B, _gej_x_equiv, "fe_gej")
_regv("gej_y_is_odd", GEJ_T, _B, _gej_y_is_odd, "gej")
_regv("decompress", POINT_T, pg.opt(GE_T), _decompress, "point")
_regv("generate", wty(256), GEJ_T, lambda v: _wr_gej(_ecmult(_INF, 0, wnum(v) % SC_N)), "generate")
_regv("scale", pg.P(wty(256), GEJ_T), GEJ_T, _scale, "scale")
_regv("linear_combination_1", pg.P(pg.P(wty(256), GEJ_T), wty(256)), GEJ_T, _linear_combination_1, "lc1")
_regv("linear_verify_1", pg.P(pg.P(pg.P(wty(256), GE_T), wty(256)), GE_T), UNIT, _linear_verify_1, "lv1")
_regv("point_verify_1", pg.P(pg.P(pg.P(wty(256), POINT_T), wty(256)), POINT_T), UNIT, _point_verify_1, "pv1")
_regv("swu", wty(256), GE_T, lambda v: _wr_ge(*_swu(_rd_fe(v))), "swu")


def _hash_to_curve(v):
    """secp256k1_generator_generate: the sum of the two points the key hashes to, in affine coordinates"""
    import hashlib
    key = bytes(wbytes(v))
    ts = [int.from_bytes(hashlib.sha256(pre + key).digest(), "big") for pre in (b"1st generation: ", b"2nd generation: ")]
    _must(all(t < FE_P for t in ts))
    q1, q2 = (_swu(t) for t in ts)
    r, _ = _gej_add_ge_var([q1[0], q1[1], 1, False], list(q2))
    return _wr_ge(0, 0) if r[3] else _wr_ge(*_gej_affine(r))


_regv("hash_to_curve", wty(256), GE_T, _hash_to_curve, "h2c")


# ---- BIP-340 signatures (secp256k1_schnorrsig_verify behind secp256k1_xonly_pubkey_parse), from the BIP's text
def _tagged_hash(tag, data):
    import hashlib
    d = hashlib.sha256(tag).digest()
    return hashlib.sha256(d + d + bytes(data)).digest()


def _bip340_verify(pk32, msg, sig64):
    px, r, sg = (int.from_bytes(bytes(b), "big") for b in (pk32, sig64[:32], sig64[32:]))
    if px >= FE_P or px == 0 or r >= FE_P or sg >= SC_N:       # (x = 0 is refused by secp256k1_pubkey_load)
        return False
    pt = _lift_x(px, 0)
    if pt is None:
        return False
    e = int.from_bytes(_tagged_hash(b"BIP0340/challenge", bytes(sig64[:32]) + bytes(pk32) + bytes(msg)), "big") % SC_N
    rp = _aff_add(_aff_mul(sg, (G_X, G_Y)), _aff_mul((SC_N - e) % SC_N, tuple(pt)))
    return rp is not None and rp[1] % 2 == 0 and rp[0] == r


def _bip340_sign(d, k, msg):
    """(public key, signature) as byte strings; the secret d and the nonce k are given"""
    pt = _aff_mul(d, (G_X, G_Y))
    if pt[1] & 1:
        d = SC_N - d
    rp = _aff_mul(k, (G_X, G_Y))
    if rp[1] & 1:
        k = SC_N - k
    pk32, r32 = pt[0].to_bytes(32, "big"), rp[0].to_bytes(32, "big")
    e = int.from_bytes(_tagged_hash(b"BIP0340/challenge", r32 + pk32 + bytes(msg)), "big") % SC_N
    return pk32, r32 + ((k + e * d) % SC_N).to_bytes(32, "big")


_regv("bip_0340_verify", wty(1024), UNIT, lambda v: _must(_bip340_verify(wbytes(v[1][1]), wbytes(v[1][2]), wbytes(v[2]))), "bip340")
_regv("check_sig_verify", pg.P(pg.P(wty(256), wty(512)), wty(512)), UNIT,
      lambda v: _must(_bip340_verify(wbytes(v[1][1]), _tagged_hash(b"Simplicity\x1fSignature", wbytes(v[1][2])), wbytes(v[2]))), "checksig")


def _ctx_edge_values(rng, n_extra):
    """contexts worth trying: every buffer length class, block counts at the limits"""
    out = []
    mids = [SHA_IV, [num(rng.bits(32)) for _ in range(8)]]
    lens = [0, 1, 31, 32, 33, 55, 56, 62, 63] + [rng.below(64) for _ in range(n_extra)]
    for ln in lens:
        out.append(ctx_val([num(rng.bits(8)) for _ in range(ln)], rng.below(5), rng.choice(mids)))
    for ln, blocks in ((0, MAX_BLOCKS - 1), (63, MAX_BLOCKS - 1), (62, MAX_BLOCKS - 1), (0, MAX_BLOCKS), (5, MAX_BLOCKS + 1),
                       (0, MAX_BLOCKS - 2), (40, MAX_BLOCKS - 3), (0, MAX_BLOCKS - 8), (1, MAX_BLOCKS - 9), (17, (1 << 64) - 1),
                       (3, 1 << 58), (63, MAX_BLOCKS - 5), (60, MAX_BLOCKS - 4)):
        out.append(ctx_val([num(rng.bits(8)) for _ in range(ln)], blocks, rng.choice(mids)))
    return out


def _edge_values(name, rng):
    src, tgt, fn, fam, params = _JV[name]
    vals = []
    if fam == "sha_block":
        vals.append(("P", _mid_val(SHA_IV), bytes_val([0x80] + [0] * 63)))                 # the empty message
        vals.append(("P", _mid_val(SHA_IV), bytes_val([97, 98, 99, 0x80] + [0] * 59 + [24])))   # "abc"
    elif fam == "ctx_add":
        n = params[0]
        for c in _ctx_edge_values(rng, 3):
            vals.append(("P", c, bytes_val([num(rng.bits(8)) for _ in range(n)])))
    elif fam == "ctx_add_buffer":
        ctxs = _ctx_edge_values(rng, 2)
        for k, ln in enumerate([0, 1, 63, 64, 65, 127, 128, 255, 256, 257, 510, 511, rng.below(512), rng.below(512)]):
            data = [num(rng.bits(8)) for _ in range(ln)]
            vals.append(("P", ctxs[k % len(ctxs)], buf_val(8, data)))
            vals.append(("P", ctxs[(3 * k + 5) % len(ctxs)], buf_val(8, data)))
    elif fam == "ctx_finalize":
        vals += _ctx_edge_values(rng, 6)
    elif fam == "parse_lock":
        for x in (0, 1, 499999999, 500000000, 500000001, 2 ** 31, 2 ** 32 - 1, num(rng.bits(32)), num(rng.bits(29))):
            vals.append(wval(32, x))
    elif fam == "parse_sequence":
        for x in (0, 1, 0xFFFF, 0x10000, 1 << 22, (1 << 22) | 0xFFFF, (1 << 22) - 1, (1 << 31) - 1, 1 << 31, (1 << 31) | (1 << 22) | 5,
                  2 ** 32 - 1, (1 << 23) | 77, num(rng.bits(31)), num(rng.bits(31)) | (1 << 22), num(rng.bits(32))):
            vals.append(wval(32, x))
    elif fam in ("mod1", "mod2"):
        m = params[0]
        r = num(rng.bits(256)) % m
        xs = [0, 1, 2, m - 1, m - 2, m, m + 1, 2 ** 256 - 1, r, (r * r) % m, (m - r * r % m) % m, (m + 1) // 2, 2 ** 255, 3, 5, 7]
        if fam == "mod1":
            vals += [wval(256, x) for x in xs]
        else:
            ys = [0, 1, m - 1, 2 ** 256 - 1, r, m - r, m]
            for x in xs[:10]:
                for y in (rng.choice(ys), rng.choice(ys)):
                    vals.append(("P", wval(256, x), wval(256, y)))
            vals.append(("P", wval(256, r), wval(256, m - r)))
            vals.append(("P", wval(256, 2 ** 256 - 1), wval(256, 2 ** 256 - 1)))
    elif fam in _EC_FAMILIES:
        vals += _ec_edge_values(name, fam, rng)
    return vals


# ---- inputs for the point jets
_EC_FAMILIES = ("ec_const", "gej", "ge", "gej_gej", "gej_ge", "gej_fe", "fe_gej", "point", "generate", "scale", "lc1", "lv1", "pv1", "swu", "h2c", "bip340", "checksig")


def _ec_edge_values(name, fam, rng):
    p, n = FE_P, SC_N
    G = (G_X, G_Y)
    fe = lambda x: wval(256, x)
    ge = lambda q: ("P", fe(q[0]), fe(q[1]))
    gej = lambda q: ("P", ("P", fe(q[0]), fe(q[1])), fe(q[2]))
    rnd = lambda: num(rng.bits(256))
    rfe = lambda: rnd() % p
    jac = lambda q, z: (q[0] * z * z % p, q[1] * z ** 3 % p, z % p)
    neg = lambda q: (q[0], -q[1] % p)
    k1 = rng.range(2, 1 << 20)
    P1 = _aff_mul(k1, G)
    P2 = _aff_mul(rnd() % n, G)
    P3 = _aff_add(P1, P2)
    beta_p1 = (P1[0] * FE_BETA % p, P1[1])                      # lambda * P1: the same y
    y0 = next(x for x in range(1, 50) if pow((x ** 3 + 6) % p, (p - 1) // 2, p) == 1)   # a point of y^2 = x^3 + 6
    off = (rfe(), rfe())
    ycube = pow(5, 3, p)
    # a point with y = 0 (not on the curve: -7 is not a cube): doubling it gives z = 0 with x, y != 0
    yzero = (rfe(), 0)
    small_x = next(x for x in range(1, 200) if _lift_x(x, 0) is not None)       # x + p still fits 256 bits
    Ps = _lift_x(small_x, 1)
    affs = [G, P1, P2, P3, neg(P1), beta_p1, off, yzero, (0, 0), (1, 1), (p - 1, p - 1), Ps, (Ps[0] + p, Ps[1]), (0, _fsqrt(7)[0])]
    z1, z2 = rfe() or 1, rfe() or 2
    jacs = [jac(G, 1), jac(P1, z1), jac(P1, z2), jac(neg(P1), z2), jac(P2, z1), jac(P3, 1), (0, 0, 0), (rfe(), rfe(), 0), (1, 1, 0), (4, 8, 0),
            jac(off, z1), jac(yzero, z2), (rnd(), rnd(), rnd()), jac(beta_p1, z1), jac(G, p - 1), (Ps[0] + p, Ps[1], 1), jac(P2, 1),
            (P1[0], P1[1], p), (P1[0], P1[1], p + 1), (2 ** 256 - 1, 2 ** 256 - 1, 2 ** 256 - 1), jac((0, _fsqrt(7)[0]), z1)]
    scalars = [0, 1, 2, 3, n - 1, n, n + 1, 2 ** 256 - 1, 1 << 128, (1 << 128) - 1, (1 << 127), SC_LAMBDA, n - SC_LAMBDA, 1 << 255, (1 << 255) - 1,
               rnd(), rnd() % n, rnd() >> 128, rnd() >> 200, (rnd() >> 128) << 128, n // 2, n // 2 + 1, 15, 16, 31, 32, 1 << 14, (1 << 14) + 1,
               (1 << 15) - 1, ((1 << 129) - 1)]
    vals = []
    if fam == "gej":
        vals = [gej(q) for q in jacs]
    elif fam == "ge":
        vals = [ge(q) for q in affs]
    elif fam == "gej_gej":
        pairs = [(jacs[1], jacs[2]), (jacs[1], jacs[3]), (jacs[3], jacs[1]), (jacs[1], jacs[4]), (jacs[4], jacs[1]), (jacs[6], jacs[1]), (jacs[1], jacs[6]),
                 (jacs[6], jacs[6]), (jacs[7], jacs[8]), (jacs[7], jacs[1]), (jacs[1], jacs[7]), (jacs[0], jacs[0]), (jacs[1], jacs[13]),
                 (jacs[13], jacs[3]), (jacs[10], jacs[10]), (jacs[10], jacs[1]), (jacs[11], jacs[11]), (jacs[11], jacs[2]), (jacs[12], jacs[12]),
                 (jacs[12], jacs[1]), (jacs[4], jacs[16]), (jacs[16], jacs[4]), (jacs[5], jacs[0]), (jacs[17], jacs[1]), (jacs[1], jacs[18]),
                 (jacs[19], jacs[19]), (jacs[15], jacs[0]), (jacs[20], jacs[20]), (jac(yzero, z1), jac(yzero, z2)), (jac(off, z1), jac(neg(off), z2)),
                 (jac(off, z1), jac(off, z2))]
        vals = [("P", gej(a), gej(b)) for a, b in pairs]
    elif fam == "gej_ge":
        pairs = [(jacs[1], P1), (jacs[1], neg(P1)), (jacs[1], P2), (jacs[4], P1), (jacs[6], P1), (jacs[7], P2), (jacs[8], G), (jacs[0], G), (jacs[0], neg(G)),
                 (jacs[1], beta_p1), (jacs[13], neg(P1)), (jacs[10], off), (jacs[10], neg(off)), (jacs[10], P1), (jacs[11], yzero), (jacs[11], P1),
                 (jacs[12], off), (jacs[12], (rnd(), rnd())), (jacs[5], P3), (jacs[5], (P3[0], P3[1] + 0)), (jacs[2], (0, 0)), (jacs[6], (0, 0)),
                 (jacs[1], (P1[0], (P1[1] + 1) % p)), (jacs[15], Ps), (jacs[15], (Ps[0] + p, p - Ps[1])), (jacs[19], (2 ** 256 - 1, 2 ** 256 - 1)), (jacs[2], P1),
                 (jacs[3], P1), (jacs[3], neg(P1))]
        vals = [("P", gej(a), ge(b)) for a, b in pairs]
    elif fam == "gej_fe":
        cs = [0, 1, 2, p - 1, p, p + 1, 2 ** 256 - 1, rfe(), rfe()]
        vals = [("P", gej(jacs[k % len(jacs)]), fe(c)) for k, c in enumerate(cs * 3)]
        vals += [("P", gej(jacs[6]), fe(rfe())), ("P", gej(jacs[1]), fe(0)), ("P", gej(jacs[7]), fe(rfe()))]
    elif fam == "fe_gej":
        for q in jacs:
            zi = _finv(q[2] % p)
            x = q[0] * zi * zi % p
            vals.append(("P", fe(x), gej(q)))
            vals.append(("P", fe((x + 1) % p), gej(q)))
        vals += [("P", fe(Ps[0] + p), gej(jac(Ps, z1))), ("P", fe(0), gej((0, 0, 0))), ("P", fe(0), gej((0, 5, 1))), ("P", fe(P1[0]), gej(jacs[3])),
                 ("P", fe(P1[0] * FE_BETA % p), gej(jacs[1]))]
    elif fam == "point":
        xs = [G[0], P1[0], P2[0], small_x, small_x + p, 0, 1, 2, 3, 4, 5, 6, 7, p - 1, p, 2 ** 256 - 1, rfe(), rfe(), rfe(), rfe()]
        vals = [("P", _bitv(b), fe(x)) for x in xs for b in (0, 1)]
    elif fam == "generate":
        vals = [fe(k) for k in scalars]
    elif fam == "scale":
        pts = [jacs[0], jacs[1], jacs[4], jacs[16], jacs[13], jacs[14]]
        vals = [("P", fe(k), gej(pts[j % len(pts)])) for j, k in enumerate(scalars)]
        vals += [("P", fe(rnd()), gej(q)) for q in (jacs[6], jacs[7], jacs[8], jacs[9], jacs[10], jacs[11], jacs[12], jacs[15], jacs[17], jacs[18], jacs[20])]
        vals += [("P", fe(k), gej(jacs[2])) for k in (0, 1, 2, n - 1, n, SC_LAMBDA)]
    elif fam == "lc1":
        pts = [jacs[1], jacs[0], jacs[4], jacs[16], jacs[3], jacs[14]]
        for j, k in enumerate(scalars):
            vals.append(("P", ("P", fe(k), gej(pts[j % len(pts)])), fe(scalars[(7 * j + 3) % len(scalars)])))
        # na * (k1 G) + ng G with cancellations: the sum is the point at infinity or hits the doubling case on the way
        vals += [("P", ("P", fe(1), gej(jacs[1])), fe(n - k1)), ("P", ("P", fe(2), gej(jacs[2])), fe(n - 2 * k1)), ("P", ("P", fe(1), gej(jacs[1])), fe(k1)),
                 ("P", ("P", fe(n - 1), gej(jacs[1])), fe(k1)), ("P", ("P", fe(rnd()), gej(jacs[6])), fe(rnd())), ("P", ("P", fe(0), gej(jacs[4])), fe(rnd())),
                 ("P", ("P", fe(rnd()), gej(jacs[8])), fe(0)), ("P", ("P", fe(rnd()), gej(jacs[10])), fe(rnd())), ("P", ("P", fe(0), gej(jacs[12])), fe(5)),
                 ("P", ("P", fe(0), gej(jacs[6])), fe(0)), ("P", ("P", fe(rnd()), gej(jacs[0])), fe(rnd())), ("P", ("P", fe(1), gej(jacs[0])), fe(1)),
                 ("P", ("P", fe(1), gej(jacs[0])), fe(n - 1))]
    elif fam in ("lv1", "pv1"):
        comp = lambda q: ("P", _bitv(q[1] & 1), fe(q[0]))
        enc = ge if fam == "lv1" else comp
        mk = lambda na, a, ng, b: ("P", ("P", ("P", fe(na), enc(a)), fe(ng)), enc(b))
        for na, ng in ((1, 0), (0, 1), (1, 1), (2, 3), (n - 1, 1), (rnd(), rnd()), (rnd() % n, 0), (0, rnd()), (n, n + 1), (rnd() >> 128, rnd() >> 130),
                       (SC_LAMBDA, 1), (2 ** 256 - 1, 2 ** 256 - 1)):
            a = P1 if na % 3 else P2
            acc = _aff_add(_aff_mul(na % n, a), _aff_mul(ng % n, G))
            if acc is not None:
                vals.append(mk(na, a, ng, acc))
                vals.append(mk(na, a, ng, neg(acc)))
            vals.append(mk(na, a, ng, P3))
        # the sum is the point at infinity (no b can match), a or b not on the curve, coordinates not reduced
        vals += [mk(1, P1, n - k1, G), mk(0, P1, 0, P1), mk(1, off, 0, off), mk(1, P1, 0, (P1[0], (P1[1] + 1) % p)), mk(1, Ps, 0, (Ps[0] + p, Ps[1])),
                 mk(1, (Ps[0] + p, Ps[1]), 0, Ps), mk(1, P1, 0, beta_p1), mk(SC_LAMBDA, P1, 0, beta_p1), mk(1, (0, 0), 0, (0, 0)), mk(2, P1, 0, _aff_add(P1, P1)),
                 mk(1, (3, 0), 0, (3, 0))]
    elif fam in ("bip340", "checksig"):
        b32 = lambda x: x.to_bytes(32, "big")
        mlen = 32 if fam == "bip340" else 64

        def mk(pk32, msg, sig64):
            return ("P", ("P", bytes_val(list(pk32)), bytes_val(list(msg))), bytes_val(list(sig64)))

        def digest(msg):
            return msg if fam == "bip340" else _tagged_hash(b"Simplicity\x1fSignature", msg)

        for j in range(3):
            msg = bytes(num(rng.bits(8)) for _ in range(mlen))
            d, k = rnd() % n or 1, rnd() % n or 1
            pk32, sig = _bip340_sign(d, k, digest(msg))
            vals.append(mk(pk32, msg, sig))                                                   # valid
            if j == 0:
                bad_msg = bytes([msg[0] ^ 1]) + msg[1:]
                vals.append(mk(pk32, bad_msg, sig))
                vals.append(mk(pk32, msg, sig[:63] + bytes([sig[63] ^ 1])))                   # s off by one bit
                vals.append(mk(pk32, msg, bytes([sig[0] ^ 0x40]) + sig[1:]))                  # another r
                sv = int.from_bytes(sig[32:], "big")
                if sv + n < 2 ** 256:
                    vals.append(mk(pk32, msg, sig[:32] + (sv + n).to_bytes(32, "big")))       # s not reduced
                vals.append(mk(pk32, msg, sig[:32] + ((n - sv) % n).to_bytes(32, "big")))     # -s
                # the same equation with a nonce point of odd y: r matches, the parity does not
                rp = _aff_mul(k, G)
                kk = k if rp[1] & 1 else n - k
                dd = d if _aff_mul(d, G)[1] & 1 == 0 else n - d
                e = int.from_bytes(_tagged_hash(b"BIP0340/challenge", sig[:32] + pk32 + digest(msg)), "big") % n
                vals.append(mk(pk32, msg, sig[:32] + ((kk + e * dd) % n).to_bytes(32, "big")))
        msg = bytes(mlen)
        pk32, sig = _bip340_sign(3, 5, digest(msg))
        vals.append(mk(pk32, msg, sig))
        vals += [mk(b32(0), msg, sig), mk(b32(p), msg, sig), mk(b32(p + 1), msg, sig), mk(b32(2 ** 256 - 1), msg, sig), mk(b32(5), msg, sig),
                 mk(pk32, msg, b32(p) + sig[32:]), mk(pk32, msg, b32(0) + sig[32:]), mk(pk32, msg, sig[:32] + b32(n)), mk(pk32, msg, sig[:32] + b32(0)),
                 mk(pk32, msg, bytes(64)), mk(b32(G_X), msg, b32(G_X) + b32(1)), mk(b32(small_x + p), msg, sig)]
    elif fam == "h2c":
        vals = [fe(t) for t in (0, 1, 2 ** 256 - 1, rnd(), rnd(), rnd(), rnd(), rnd())]
    elif fam == "swu":
        vals = [fe(t) for t in (0, 1, 2, 3, p - 1, p - 2, p, p + 1, 2 ** 256 - 1, rfe(), rfe(), rfe(), rfe(), rfe(), rfe(), rfe(), rfe())]
    return vals


SPECIFIED = set(_J) | set(_JV)
# jets whose Coq specification takes seconds per evaluation (a scalar multiplication): fewer model evaluations
SLOW_MODEL = {"generate", "scale", "linear_combination_1", "linear_verify_1", "point_verify_1", "hash_to_curve", "swu", "bip_0340_verify",
              "check_sig_verify"}
JET_TYPES = {n: (e[0], e[1]) for n, e in list(_J.items()) + list(_JV.items())}


def eval_jet(name, value):
    ev = _JV.get(name)
    if ev is not None:
        out = ev[2](value)
        assert pg.has_ty(out, ev[1]), (name, out)
        return out
    e = _J.get(name)
    if e is None:
        raise pg.EvalFail("nojet")
    src, tgt, fn = e[0], e[1], e[2]
    bits = pg.compact_bits(value)
    assert len(bits) == pg.width(src), (name, len(bits))
    out = fn(list(bits))
    assert len(out) == pg.width(tgt), (name, len(out))
    v, pos = pg.of_compact(tgt, out)
    assert pos == len(out)
    return v


# ------------------------------------------------------------------ edge inputs
def _dirty_padded(rng, t, v):
    if t[0] == "u":
        return []
    if t[0] == "s":
        w = max(pg.width(t[1]), pg.width(t[2]))
        if v[0] == "L":
            return [0] + rng.bits(w - pg.width(t[1])) + _dirty_padded(rng, t[1], v[1])
        return [1] + rng.bits(w - pg.width(t[2])) + _dirty_padded(rng, t[2], v[1])
    return _dirty_padded(rng, t[1], v[1]) + _dirty_padded(rng, t[2], v[2])


def _rnd(rng, w):
    return num(rng.bits(w))


def _pairs(rng, w):
    """interesting operand pairs of w bits"""
    top = (1 << w) - 1
    half = 1 << (w - 1)
    a = _rnd(rng, w)
    b = _rnd(rng, w)
    lo, hi = min(a, b), max(a, b)
    mid = _rnd(rng, w) | 1
    ps = [(a, a), (lo, hi), (hi, lo), (top, top), (top, 1), (1, top), (top, 0), (0, top), (0, 0), (0, 1), (1, 0), (1, 1),
          (a, top - a), (a, (top - a + 1) & top), (half, half), (half - 1, half), (half, half - 1), (top - 1, top), (top, top - 1),
          (a, 0), (0, a), (a, 1), (1, a)]
    if a < top:
        ps += [(a, a + 1), (a + 1, a)]
    return ps


def _div_pairs(rng, w):
    top = (1 << w) - 1
    ps = []
    for _ in range(3):
        d = _rnd(rng, rng.range(1, w)) or 1          # divisors of all sizes
        q = _rnd(rng, w) // d
        ps += [(q * d, d), (d, q * d), (min(top, q * d + d - 1), d), (d, d), (d, min(top, d + 1))]
        if q * d:
            ps += [(q * d - 1, d), (d, q * d - 1)]
    ps += [(top, 2), (2, top), (top, 3), (3, top), (top, top - 1), (top - 1, top), (top, 1 << (w - 1)), (1 << (w - 1), top)]
    return ps


def _triples(rng, w):
    top = (1 << w) - 1
    vals = sorted([_rnd(rng, w), _rnd(rng, w), _rnd(rng, w)])
    a, b, c = vals
    ts = [(a, b, c), (a, c, b), (b, a, c), (b, c, a), (c, a, b), (c, b, a),
          (a, a, c), (a, c, a), (c, a, a), (c, c, a), (c, a, c), (a, c, c), (b, b, b),
          (0, b, c), (top, b, c), (b, 0, top), (b, top, 0), (0, 0, top), (top, 0, 0), (0, top, 0),
          (top, top, 0), (0, top, top), (top, 0, top), (b, c, c), (b, c, top - c)]
    return ts


def _amounts(l, w):
    am = {0, 1, 2, w // 2, w - 1, (1 << l) - 1}
    for x in (w, w + 1, 2 * w - 1, 2 * w, 2 * w + 1, 3 * w, (1 << l) - w, (1 << l) - w - 1):
        if 0 <= x < (1 << l):
            am.add(x)
    return sorted(am)


def _words(rng, w):
    top = (1 << w) - 1
    return [_rnd(rng, w), top, 1, 1 << (w - 1), (1 << (w - 1)) | 1 | _rnd(rng, w), _rnd(rng, w) & (top >> 1) & ~1]


def edge_inputs(name, rng):
    if name in _JV:
        src = _JV[name][0]
        out = []
        for k, v in enumerate(_edge_values(name, rng)):
            assert pg.has_ty(v, src), (name, v)
            # the padding cells of absent buffer parts are arbitrary: alternate clean and dirty
            out.append(pg.padded_bits(src, v, 0) if k % 2 == 0 else _dirty_padded(rng, src, v))
        return out
    e = _J.get(name)
    if e is None:
        return []
    fam, params = e[3], e[4]
    out = []

    def put(*fields):
        bits = []
        for w, v in fields:
            bits += to_bits(w, v)
        assert len(bits) == pg.width(e[0]), (name, len(bits))
        out.append(bits)

    if fam in ("add", "subtract", "multiply", "and", "or", "xor", "le", "lt", "min", "max", "eq"):
        w = params[0]
        if w == 1:
            return []                       # all inputs are in the generic list already
        if w == 256:
            a = _rnd(rng, w)
            put((w, a), (w, a))
            put((w, 0), (w, 0))
            for k in (0, 31, 32, 127, 128, 223, 224, 255):     # one differing bit in several 32-bit limbs
                put((w, a), (w, a ^ (1 << k)))
                put((w, a ^ (1 << k)), (w, a))
            return out
        for x, y in _pairs(rng, w):
            put((w, x), (w, y))
    elif fam in ("full_add", "full_subtract"):
        w = params[0]
        for x, y in _pairs(rng, w):
            for c in (0, 1):
                put((1, c), (w, x), (w, y))
    elif fam in ("negate", "increment", "decrement", "is_zero", "is_one", "some", "all", "complement"):
        w = params[0]
        if w == 1:
            return []
        top = (1 << w) - 1
        for x in (2, top - 1, top ^ 1, 1 << (w - 1), (1 << (w - 1)) - 1, top ^ (1 << (w - 1)), 1 << rng.below(w), top ^ (1 << rng.below(w))):
            put((w, x))
    elif fam in ("full_increment", "full_decrement"):
        w = params[0]
        top = (1 << w) - 1
        for c in (0, 1):
            for x in (0, 1, top, top - 1, 1 << (w - 1), _rnd(rng, w)):
                put((1, c), (w, x))
    elif fam == "full_multiply":
        w = params[0]
        top = (1 << w) - 1
        a, b = _rnd(rng, w), _rnd(rng, w)
        for q in ((top, top, top, top), (top, top, 0, 0), (top, top, top, 0), (top, top, 0, top), (0, a, top, top), (a, 0, top, top),
                  (1, a, b, 0), (a, 1, 0, b), (a, b, 0, 0), (a, b, top, top), (1, 1, 1, 1), (0, 0, 0, 0), (top, 1, top, top),
                  (1 << (w - 1), 2, 0, 0), (1 << (w - 1), 2, top, top)):
            put(*[(w, v) for v in q])
    elif fam in ("xor_xor", "maj", "ch", "median"):
        w = params[0]
        if w == 1:
            return []                       # 8 inputs, the generic list has them (with high probability)
        for t in _triples(rng, w):
            put(*[(w, v) for v in t])
    elif fam in ("left_shift", "right_shift", "left_rotate", "right_rotate"):
        l, w = params
        words = _words(rng, w)
        for a in _amounts(l, w):
            for x in (words[0], words[1], words[4]):
                put((l, a), (w, x))
        for a in (1, w - 1):
            for x in words[2:4]:
                put((l, a), (w, x))
    elif fam in ("left_shift_with", "right_shift_with"):
        l, w = params
        words = _words(rng, w)
        for a in _amounts(l, w):
            for b in (0, 1):
                put((1, b), (l, a), (w, words[0]))
                put((1, b), (l, a), (w, words[1] if b == 0 else 0))
    elif fam in ("full_left_shift", "full_right_shift"):
        w, k = params
        topw, topk = (1 << w) - 1, (1 << k) - 1
        cases = [(topw, 0), (0, topk), (1, 0), (1 << (w - 1), 0), (0, 1), (0, 1 << (k - 1)), (_rnd(rng, w), _rnd(rng, k)),
                 (topw ^ 1, topk), (topw >> 1, topk)]
        for x, y in cases:
            if fam == "full_left_shift":
                put((w, x), (k, y))
            else:
                put((k, y), (w, x))
    elif fam in ("leftmost", "rightmost"):
        w, k = params
        top = (1 << w) - 1
        for x in ((1 << k) - 1, top ^ ((1 << k) - 1), top >> k, top ^ (top >> k), 1 << k if k < w else 1, 1 << (w - k), 1 << (w - k - 1) if w > k else 1,
                  _rnd(rng, w)):
            put((w, x))
    elif fam in ("left_pad_low", "left_pad_high", "right_pad_low", "right_pad_high", "left_extend", "right_extend"):
        n, m = params
        if n == 1:
            return []
        top = (1 << n) - 1
        r = _rnd(rng, n)
        for x in (r | (1 << (n - 1)), r & (top >> 1), r | 1, r & ~1, top >> 1, top ^ 1, 1 << (n - 1), 1, (1 << (n - 1)) | 1):
            put((n, x))
    elif fam in ("divide", "modulo", "div_mod", "divides"):
        w = params[0]
        for x, y in _pairs(rng, w) + _div_pairs(rng, w):
            put((w, x), (w, y))
    elif fam == "div_mod_128_64":
        m64 = (1 << 64) - 1
        m32 = (1 << 32) - 1
        hb = 1 << 63
        divisors = [hb, hb + 1, m64, m64 - 1, hb | m32, hb | (m32 << 31) & m64, m64 ^ m32, hb | _rnd(rng, 63), hb | _rnd(rng, 63),
                    hb | _rnd(rng, 32), hb | (_rnd(rng, 31) << 32)]
        for b in divisors:
            his = [0, 1, b - 1, b - 2, b >> 1, _rnd(rng, 64) % b, (b - 1) & ~m32, ((b >> 32) << 32) - 1]
            for ah in his:
                if 0 <= ah < b:
                    for al in (0, m64, _rnd(rng, 64), (b & m32) << 32):
                        put((128, (ah << 64) | al), (64, b))
            # multiples of b and their neighbours (remainders 0 and b - 1)
            q = _rnd(rng, 64)
            put((128, q * b), (64, b))
            put((128, q * b + b - 1), (64, b))
            put((128, m64 * b + b - 1), (64, b))        # the largest dividend with a 64 bit quotient
            # out of the domain: high half >= b
            put((128, (b << 64)), (64, b))
            put((128, (b << 64) | m64), (64, b))
            if b < m64:
                put((128, ((b + 1) << 64) | _rnd(rng, 64)), (64, b))
            put((128, (m64 << 64) | m64), (64, b))
        # out of the domain: top bit of the divisor clear
        for b in (0, 1, 2, hb - 1, _rnd(rng, 63), _rnd(rng, 32)):
            for a in (0, 1, _rnd(rng, 64), _rnd(rng, 128), b << 63, (1 << 128) - 1):
                put((128, a), (64, b))
    return out
