(* C14: finite checks over the complete bitcoin table (Generated/Jets_bitcoin.v), each by vm_compute,
   lifted to quantified statements with the lemmas of Jets/JetLemmas.v. *)
From RS Require Import Lib.Tac Lib.Outcome Lib.Bits Lib.Sweep Ty.Ty Jets.TypeName Jets.JetTable Jets.JetLemmas
  Generated.Jets_bitcoin.
From Coq Require Import String.
Import ListNotations.
Local Open Scope N_scope.

Lemma bitcoin_length : List.length (f_rows bitcoin_family) = 428%nat.
Proof. vm_compute. reflexivity. Qed.

Lemma bitcoin_idx_b : idx_ok bitcoin_family = true.
Proof. vm_compute. reflexivity. Qed.

Lemma bitcoin_table :
  List.length (f_rows bitcoin_family) = 428%nat /\
  map j_idx (f_rows bitcoin_family) = upto 428 /\ f_all bitcoin_family = upto 428 /\ f_all_len bitcoin_family = 428.
Proof.
  pose proof (idx_lift _ bitcoin_idx_b) as H. rewrite bitcoin_length in H. split; [exact bitcoin_length|exact H].
Qed.

Lemma bitcoin_roundtrip_b : forallb (roundtrip_ok bitcoin_family) (f_rows bitcoin_family) = true.
Proof. vm_compute. reflexivity. Qed.

Lemma bitcoin_roundtrip : forall j, In j (f_rows bitcoin_family) -> forall r,
  jet_encode j = Ok (jet_code j) /\
  decode (f_tree bitcoin_family) (jet_code j ++ r) = Ok (j_idx j, r).
Proof.
  intros j Hj r. pose proof bitcoin_roundtrip_b as H. rewrite forallb_forall in H.
  destruct (roundtrip_lift _ _ (H j Hj)) as [H1 H2]. split; [exact H1|apply H2].
Qed.

Lemma bitcoin_leaves_b : forallb (leaf_ok bitcoin_family) (tree_leaves (f_tree bitcoin_family)) = true.
Proof. vm_compute. reflexivity. Qed.

Lemma bitcoin_decode_complete : forall b i r, decode (f_tree bitcoin_family) b = Ok (i, r) ->
  exists j, row_at bitcoin_family i = Some j /\ j_idx j = i /\ b = jet_code j ++ r.
Proof. exact (decode_complete _ bitcoin_leaves_b). Qed.

Lemma bitcoin_prefix_b : forallb (prefix_free_ok bitcoin_family) (f_rows bitcoin_family) = true.
Proof. vm_compute. reflexivity. Qed.

Lemma bitcoin_prefix_free : forall j k, In j (f_rows bitcoin_family) -> In k (f_rows bitcoin_family) ->
  j_idx j <> j_idx k -> forall r, jet_code k <> jet_code j ++ r.
Proof. exact (prefix_free_lift _ bitcoin_prefix_b). Qed.

Lemma bitcoin_names_b : forallb (name_ok bitcoin_family) (f_rows bitcoin_family) = true.
Proof. vm_compute. reflexivity. Qed.

Lemma bitcoin_names :
  (forall j, In j (f_rows bitcoin_family) -> parse bitcoin_family (j_name j) = Ok (j_idx j)) /\
  (forall j k, In j (f_rows bitcoin_family) -> In k (f_rows bitcoin_family) -> j_name j = j_name k -> j_idx j = j_idx k).
Proof. exact (names_lift _ bitcoin_names_b). Qed.

Lemma bitcoin_fromstr_b : forallb (fromstr_ok bitcoin_family) (f_fromstr bitcoin_family) = true.
Proof. vm_compute. reflexivity. Qed.

Lemma bitcoin_parse_sound : forall s i, parse bitcoin_family s = Ok i ->
  exists j, row_at bitcoin_family i = Some j /\ j_idx j = i /\ j_name j = s.
Proof. exact (fromstr_lift _ bitcoin_fromstr_b). Qed.

Lemma bitcoin_types_b : forallb types_ok (f_rows bitcoin_family) = true.
Proof. vm_compute. reflexivity. Qed.

Lemma bitcoin_types : forall j, In j (f_rows bitcoin_family) -> tn_good (j_src j) /\ tn_good (j_tgt j).
Proof.
  intros j Hj. pose proof bitcoin_types_b as H. rewrite forallb_forall in H. apply types_lift, H, Hj.
Qed.
