(* C10 - abstraction theorems for the word and byte-array constructors of src/value.rs:
   Value::u1 .. u128 (v_word_int), u256 / u512 (v_word_bytes), from_byte_array
   (v_from_byte_array): each builds a well-formed value of the word type whose denotation is
   the intended one - the bits of the argument, most significant first. *)
From RS Require Import Lib.Tac Lib.Outcome Lib.Bits Lib.Sweep Lib.ListExtra Ty.Ty
  Value.ValueModel Value.ValueBits Value.ValueRefine Value.ValueCons Value.ValueInv.
Import ListNotations.
Local Open Scope N_scope.

(* the element of 2^(2^k) whose bits, most significant first, are [bits] *)
Fixpoint word_sval (k : nat) (bits : list bool) : sval :=
  match k with
  | O => match bits with true :: _ => SR SU | _ => SL SU end
  | S j => SP (word_sval j (firstn (2 ^ j) bits)) (word_sval j (skipn (2 ^ j) bits))
  end.

Lemma width_word_nat k : N.to_nat (width (word_ty k)) = (2 ^ k)%nat.
Proof.
  rewrite width_word. rewrite <- (Nnat.Nat2N.id (2 ^ k)%nat). f_equal.
  rewrite Nat2N.inj_pow. reflexivity.
Qed.

Lemma pow2_pos k : (0 < 2 ^ k)%nat.
Proof. induction k; cbn; lia. Qed.

(* word types have no padding: the padded decoder reads the bits as they are *)
Lemma of_padded_word : forall k bits, length bits = (2 ^ k)%nat ->
  of_padded (word_ty k) bits = word_sval k bits.
Proof.
  induction k as [|k IH]; intros bits Hl.
  - destruct bits as [|b [|c r]]; try discriminate. destruct b; reflexivity.
  - cbn [word_ty of_padded word_sval]. rewrite width_word_nat.
    cbn [Nat.pow] in Hl.
    rewrite IH by (rewrite firstn_length; lia). rewrite IH by (rewrite skipn_length; lia). reflexivity.
Qed.

Lemma word_sval_has_ty : forall k bits, has_ty (word_sval k bits) (word_ty k) = true.
Proof.
  induction k as [|k IH]; intros bits.
  - cbn. destruct bits as [|[|] r]; reflexivity.
  - cbn [word_sval word_ty has_ty]. rewrite !IH. reflexivity.
Qed.

(* ... and the compact encoding of the element is that bit string *)
Lemma word_sval_compact : forall k bits, length bits = (2 ^ k)%nat ->
  compact_enc (word_sval k bits) = bits.
Proof.
  induction k as [|k IH]; intros bits Hl.
  - destruct bits as [|b [|c r]]; try discriminate. destruct b; reflexivity.
  - cbn [word_sval compact_enc]. cbn [Nat.pow] in Hl.
    rewrite IH by (rewrite firstn_length; lia). rewrite IH by (rewrite skipn_length; lia).
    apply firstn_skipn.
Qed.

(* a WF value of a word type denotes the word of its bits *)
Lemma absv_word v k : vty v = word_ty k -> absv v = word_sval k (vbits v).
Proof.
  intros Ht. unfold absv. rewrite Ht. apply of_padded_word.
  rewrite vbits_length, Ht. apply width_word_nat.
Qed.

(* ------------------------------------------------------------------ big-endian bytes *)
Lemma bits_be_ext : forall l x y, (forall i, i < N.of_nat l -> N.testbit x i = N.testbit y i) ->
  bits_be l x = bits_be l y.
Proof.
  induction l as [|l IH]; intros x y H; [reflexivity|].
  cbn [bits_be]. f_equal; [apply H; lia|apply IH; intros i Hi; apply H; lia].
Qed.

Lemma bits_be_app : forall a b n, bits_be (a + b) n = bits_be a (n / 2 ^ N.of_nat b) ++ bits_be b n.
Proof.
  induction a as [|a IH]; intros b n; [reflexivity|].
  cbn [Nat.add bits_be app]. f_equal; [|apply IH].
  rewrite <- N.shiftr_div_pow2, N.shiftr_spec by lia. f_equal. lia.
Qed.

Lemma bits_be_mod l m x : (l <= m)%nat -> bits_be l (x mod 2 ^ N.of_nat m) = bits_be l x.
Proof.
  intros H. apply bits_be_ext. intros i Hi. apply N.mod_pow2_bits_low. lia.
Qed.

Lemma bits_of_bytes_be_bytes : forall len n, bits_of_bytes (be_bytes len n) = bits_be (8 * len) n.
Proof.
  induction len as [|len IH]; intros n; [reflexivity|].
  cbn [be_bytes bits_of_bytes flat_map]. fold (bits_of_bytes (be_bytes len n)). rewrite IH.
  replace (8 * S len)%nat with (8 + 8 * len)%nat by lia. rewrite bits_be_app.
  f_equal. unfold bits_of_byte. change 256 with (2 ^ N.of_nat 8).
  rewrite bits_be_mod by lia. f_equal. f_equal. f_equal. lia.
Qed.

Lemma be_bytes_length len n : length (be_bytes len n) = len.
Proof. apply be_bytes_ok. Qed.

(* ------------------------------------------------------------------ Value::u1 .. u128 *)
Lemma small_word k : (k <= 63)%nat -> small (word_ty k).
Proof.
  intros Hk. unfold small. rewrite width_word. unfold usize_max.
  assert (2 ^ N.of_nat k <= 2 ^ 63) by (apply N.pow_le_mono_r; lia).
  change (2 ^ 63) with 9223372036854775808 in *. lia.
Qed.

(* THEOREM: u1 .. u128 build the word whose bits are those of the integer, MSB first *)
Theorem v_word_int_abs k n v : (k <= 7)%nat -> v_word_int k n = Ok v ->
  WF v /\ vty v = word_ty k /\ vbits v = bits_be (2 ^ k) n /\
  absv v = word_sval k (bits_be (2 ^ k) n).
Proof.
  intros Hk E.
  assert (Hcore : WF v /\ vty v = word_ty k /\ vbits v = bits_be (2 ^ k) n).
  { destruct k as [|[|[|k]]].
    - pose proof E as E0. cbn [v_word_int] in E. destruct (n <=? 1) eqn:L; [|discriminate]. apply N.leb_le in L.
      assert (Hn : n < 256) by lia.
      destruct (v_word_int_WF 0 n v Hk (or_introl Hn) E0) as [HW Ht]. clear E0.
      injection E as <-. split; [exact HW|]. split; [reflexivity|].
      assert (n = 0 \/ n = 1) as [->| ->] by lia; vm_compute; reflexivity.
    - pose proof E as E0. cbn [v_word_int] in E. destruct (n <=? 3) eqn:L; [|discriminate]. apply N.leb_le in L.
      assert (Hn : n < 256) by lia.
      destruct (v_word_int_WF 1 n v Hk (or_introl Hn) E0) as [HW Ht]. clear E0.
      injection E as <-. split; [exact HW|]. split; [reflexivity|].
      assert (n = 0 \/ n = 1 \/ n = 2 \/ n = 3) as [->|[->|[->| ->]]] by lia; vm_compute; reflexivity.
    - pose proof E as E0. cbn [v_word_int] in E. destruct (n <=? 15) eqn:L; [|discriminate]. apply N.leb_le in L.
      assert (Hn : n < 256) by lia.
      destruct (v_word_int_WF 2 n v Hk (or_introl Hn) E0) as [HW Ht]. clear E0.
      injection E as <-. split; [exact HW|]. split; [reflexivity|].
      assert (n = 0 \/ n = 1 \/ n = 2 \/ n = 3 \/ n = 4 \/ n = 5 \/ n = 6 \/ n = 7 \/ n = 8 \/ n = 9 \/
              n = 10 \/ n = 11 \/ n = 12 \/ n = 13 \/ n = 14 \/ n = 15)
        as [->|[->|[->|[->|[->|[->|[->|[->|[->|[->|[->|[->|[->|[->|[->| ->]]]]]]]]]]]]]]] by lia;
        vm_compute; reflexivity.
    - assert (H3 : (3 <= S (S (S k)))%nat) by lia.
      destruct (v_word_int_WF _ n v Hk (or_intror H3) E) as [HW Ht].
      split; [exact HW|]. split; [exact Ht|].
      change (@Ok verr value (mkV (be_bytes (2 ^ (S (S (S k)) - 3)) n) 0 (word_ty (S (S (S k))))) = Ok v) in E.
      assert (Ev : v = mkV (be_bytes (2 ^ (S (S (S k)) - 3)) n) 0 (word_ty (S (S (S k))))) by congruence.
      subst v. unfold vbits. cbn [buf off vty]. rewrite width_word_nat.
      replace (S (S (S k)) - 3)%nat with k by lia.
      replace (2 ^ S (S (S k)))%nat with (8 * length (be_bytes (2 ^ k) n))%nat
        by (rewrite be_bytes_length; cbn [Nat.pow]; lia).
      rewrite <- bits_of_bytes_bitrange, bits_of_bytes_be_bytes, be_bytes_length. reflexivity. }
  destruct Hcore as (HW & Ht & Hb). split; [exact HW|]. split; [exact Ht|]. split; [exact Hb|].
  rewrite (absv_word v k Ht), Hb. reflexivity.
Qed.

(* ------------------------------------------------------------------ Value::u256 / u512 *)
Theorem v_word_bytes_abs k bytes : (3 <= k)%nat -> (k <= 63)%nat -> bytes_ok bytes ->
  length bytes = (2 ^ (k - 3))%nat ->
  let v := v_word_bytes k bytes in
  WF v /\ vty v = word_ty k /\ vbits v = bits_of_bytes bytes /\
  absv v = word_sval k (bits_of_bytes bytes).
Proof.
  intros H3 Hk Hb Hl v.
  assert (Hpow : (2 ^ k = 8 * length bytes)%nat).
  { rewrite Hl. replace k with (3 + (k - 3))%nat at 1 by lia. rewrite Nat.pow_add_r. reflexivity. }
  assert (Hbits : vbits v = bits_of_bytes bytes).
  { unfold vbits, v, v_word_bytes. cbn [buf off vty]. rewrite width_word_nat, Hpow.
    symmetry. apply bits_of_bytes_bitrange. }
  split; [|split; [reflexivity|split; [exact Hbits|]]].
  - split; [exact Hb|]. split; [|apply small_word; exact Hk].
    unfold v, v_word_bytes, blen. cbn [buf off vty].
    pose proof (width_word_nat k) as Hw. lia.
  - rewrite (absv_word v k eq_refl), Hbits. reflexivity.
Qed.

(* ------------------------------------------------------------------ Value::from_byte_array *)
Definition lvl (j : nat) (vals : list value) : Prop := Forall (fun v => WF v /\ vty v = word_ty j) vals.

Lemma pair_up_spec j : (S j <= 63)%nat -> forall m vals, lvl j vals -> length vals = (2 * m)%nat ->
  exists vs, pair_up vals = Ok vs /\ lvl (S j) vs /\ length vs = m /\
             concat (map vbits vs) = concat (map vbits vals).
Proof.
  intros Hj. induction m as [|m IH]; intros vals Hl Hlen.
  - destruct vals; [|discriminate]. exists []. repeat split; constructor.
  - destruct vals as [|a [|b r]]; try (cbn in Hlen; lia).
    inversion Hl as [|? ? [HWa Hta] Hl1]; subst. inversion Hl1 as [|? ? [HWb Htb] Hl2]; subst.
    destruct (IH r Hl2 ltac:(cbn in Hlen; lia)) as (vs & E & Hvs & Hn & Hc).
    destruct (v_product_spec a b HWa HWb) as (x & Ex & HWx & Htx & Hbx & _).
    { rewrite Hta, Htb. apply (small_word (S j) Hj). }
    exists (x :: vs). cbn [pair_up]. rewrite Ex. cbn [obind]. rewrite E. cbn [obind].
    split; [reflexivity|]. split.
    + constructor; [|exact Hvs]. split; [exact HWx|]. rewrite Htx, Hta, Htb. reflexivity.
    + split; [cbn; lia|]. cbn [map concat]. rewrite Hbx, Hc, <- app_assoc. reflexivity.
Qed.

Lemma fba_loop_spec : forall i j vals fuel, lvl j vals -> length vals = (2 ^ i)%nat ->
  (i < fuel)%nat -> (j + i <= 63)%nat ->
  exists v, fba_loop fuel vals = Ok v /\ WF v /\ vty v = word_ty (j + i) /\
            vbits v = concat (map vbits vals).
Proof.
  induction i as [|i IH]; intros j vals fuel Hl Hlen Hf Hj.
  - destruct vals as [|v [|w r]]; try discriminate. destruct fuel; [lia|].
    inversion Hl as [|? ? [HW Ht] _]; subst.
    exists v. cbn [fba_loop]. rewrite Nat.add_0_r. cbn [map concat]. rewrite app_nil_r. auto.
  - destruct fuel as [|fuel]; [lia|].
    assert (Hlen2 : length vals = (2 * 2 ^ i)%nat) by (rewrite Hlen; cbn [Nat.pow]; lia).
    destruct (pair_up_spec j ltac:(lia) (2 ^ i)%nat vals Hl Hlen2) as (vs & E & Hvs & Hn & Hc).
    destruct (IH (S j) vs fuel Hvs Hn ltac:(lia) ltac:(lia)) as (v & Ev & HW & Ht & Hb).
    exists v. cbn [fba_loop].
    pose proof (pow2_pos i) as Hp.
    destruct vals as [|a [|b r]]; try (cbn in Hlen2; lia).
    rewrite E. cbn [obind]. rewrite Ev. split; [reflexivity|]. split; [exact HW|].
    split; [rewrite Ht; f_equal; lia|]. rewrite Hb, Hc. reflexivity.
Qed.

Lemma is_pow2_pow m : is_pow2 (N.of_nat (2 ^ m)) = true.
Proof.
  rewrite Nat2N.inj_pow. change (N.of_nat 2) with 2.
  destruct (2 ^ N.of_nat m) as [|p] eqn:E.
  - exfalso. pose proof (N.pow_nonzero 2 (N.of_nat m) ltac:(discriminate)). lia.
  - cbn [is_pow2]. rewrite <- E. rewrite N.log2_pow2 by lia. apply N.eqb_refl.
Qed.

Lemma lt_pow2 m : (m < 2 ^ m)%nat.
Proof. induction m; cbn; lia. Qed.

(* THEOREM: from_byte_array of 2^m bytes is the word of 2^(m+3) bits holding the bytes in order *)
Theorem v_from_byte_array_abs m bytes : (m + 3 <= 63)%nat -> bytes_ok bytes ->
  length bytes = (2 ^ m)%nat ->
  exists v, v_from_byte_array bytes = Ok v /\ WF v /\ vty v = word_ty (m + 3) /\
            vbits v = bits_of_bytes bytes /\ absv v = word_sval (m + 3) (bits_of_bytes bytes).
Proof.
  intros Hm Hb Hl. unfold v_from_byte_array. rewrite Hl, is_pow2_pow.
  set (mk := fun b : N => mkV [b] 0 (word_ty 3)).
  assert (Hlvl : lvl 3 (map mk bytes)).
  { unfold lvl. apply Forall_map. eapply Forall_impl; [|exact Hb]. intros b Hb8. cbn beta.
    split; [|reflexivity]. split; [repeat constructor; exact Hb8|].
    split; [vm_compute; discriminate|apply small_word; lia]. }
  destruct (fba_loop_spec m 3 (map mk bytes) (S (2 ^ m)) Hlvl ltac:(rewrite map_length; exact Hl)
              ltac:(pose proof (lt_pow2 m); lia) ltac:(lia)) as (v & E & HW & Ht & Hbits).
  exists v. rewrite E.
  assert (Hcat : concat (map vbits (map mk bytes)) = bits_of_bytes bytes).
  { clear. induction bytes as [|b r IH]; [reflexivity|].
    cbn [map concat bits_of_bytes flat_map]. fold (bits_of_bytes r). rewrite IH. f_equal. }
  rewrite Hcat in Hbits. replace (3 + m)%nat with (m + 3)%nat in Ht by lia.
  split; [reflexivity|]. split; [exact HW|]. split; [exact Ht|]. split; [exact Hbits|].
  rewrite (absv_word v (m + 3) Ht), Hbits. reflexivity.
Qed.

(* the premise cannot be dropped: a length that is not a power of two panics (the assert!) *)
Example v_from_byte_array_three : v_from_byte_array [1; 2; 3] = Panic 7.
Proof. reflexivity. Qed.

(* the assert! of u1 / u2 / u4: a value is returned exactly for arguments in range; the wider
   constructors take a Rust integer of that width and cannot be out of range *)
Theorem v_word_int_range k n : (k <= 7)%nat ->
  (exists v, v_word_int k n = Ok v) \/
  ((k <= 2)%nat /\ 2 ^ (2 ^ N.of_nat k) <= n /\ v_word_int k n = Panic 4).
Proof.
  intros Hk. destruct k as [|[|[|k]]]; cbn [v_word_int].
  - destruct (n <=? 1) eqn:L; [left; eexists; reflexivity|right]. apply N.leb_gt in L.
    split; [lia|]. split; [change (2 ^ (2 ^ N.of_nat 0)) with 2; lia|reflexivity].
  - destruct (n <=? 3) eqn:L; [left; eexists; reflexivity|right]. apply N.leb_gt in L.
    split; [lia|]. split; [change (2 ^ (2 ^ N.of_nat 1)) with 4; lia|reflexivity].
  - destruct (n <=? 15) eqn:L; [left; eexists; reflexivity|right]. apply N.leb_gt in L.
    split; [lia|]. split; [change (2 ^ (2 ^ N.of_nat 2)) with 16; lia|reflexivity].
  - left. eexists. reflexivity.
Qed.
