"""C11 - Value equality, ordering and hashing are semantic."""
import vplib
from props import value_common as vc
from props.value_common import (ONE, BIT, U, Sum, Prod, word, option, width, ty_str, all_types, all_values,
                                compact_enc, of_padded, Builder, make_case, case_ops, ref_run, parse_pair, parse_wpair)

PROP = "C11"
LEVEL = "proof"


# ------------------------------------------------------------ generators
def gen_cases(rng, tier):
    # the regression witnesses of F-C11 run first
    cases = list(vc.load_corpus(PROP))
    k = [0]

    def add(ops_sel, meta):
        k[0] += 1
        ops, sel = ops_sel
        cases.append(make_case("c%d" % k[0], "pair", ops, meta, sel=sel))

    # --- exhaustive: every type with <= n constructors, every value, two histories each, all pairs
    n = 3 if tier == "quick" else 4
    for i in range(n + 1):
        for t in all_types(i):
            vals = all_values(t)
            if len(vals) > 6:
                vals = rng.shuffle(vals)[:6]
            b = Builder(rng)
            keep = []
            for v in vals:
                keep.append(b.by_constructors(t, v, words=False))
                keep.append(b.by_padded(t, v, dirty=True) if rng.chance(2, 3) else b.by_compact(t, v))
            # only the finished values take part in the comparison: drop intermediates by rebuilding
            add(prune_to(b.ops, keep), {"gen": "exhaustive", "type": ty_str(t)})

    # --- one element, many histories; near misses; same bits at another type
    nrand = 260 if tier == "quick" else 5000
    for _ in range(nrand):
        for _try in range(20):
            b = Builder(rng)
            t = vc.rand_big_type(rng, tier)
            v = vc.rand_value(rng, t)
            keep = []
            hist = []
            for _h in range(rng.range(2, 4)):
                i, hn = b.any_history(t, v)
                keep.append(i)
                hist.append(hn)
            # a different element of the same type
            v2 = vc.rand_value(rng, t)
            i, hn = b.any_history(t, v2)
            keep.append(i)
            # the same compact bits at a different type: L(x) : A + B1 vs L(x) : A + B2
            if rng.chance(1, 2):
                x = rng.choice(keep)
                b1 = vc.rand_type(rng, rng.below(3))
                b2 = vc.mutate_type(rng, b1)
                keep.append(b.add(("left", x, b1)))
                keep.append(b.add(("left", x, b2)))
                keep.append(b.add(("left", keep[0], b1)))
            if rng.chance(1, 3):
                keep.append(b.add(("zero", t)))
            if rng.chance(1, 3):
                keep.append(b.add(("prune", keep[0], vc.shrink_type(rng, t))))
                keep.append(b.add(("prune", keep[1], b.ops[-1][2])))
            if len(b.ops) <= 40 and len(b.ops) * max(8, width(t)) <= 12000:
                break
        add(prune_to(b.ops, keep), {"gen": "histories", "hist": hist, "type": ty_str(t) if len(ty_str(t)) < 60 else "big"})

    # --- machine outputs with stale padding against constructor-built values
    for kk in (3, 4, 5, 6):
        for side in ("L", "R"):
            for j in (None, 0, 2, 3):
                if j is not None and j >= kk:
                    continue
                w = rng.choice([2 ** (2 ** kk) - 1, rng.below(2 ** (2 ** kk))])
                u = 0 if j is None else rng.below(2 ** (2 ** j))
                o = ("mach", kk, w, side, j, u)
                t, frame = vc.mach_frame(o)
                v = of_padded(t, frame)
                b = Builder(rng)
                keep = [b.add(o)]
                keep.append(b.by_constructors(t, v))
                keep.append(b.by_compact(t, v))
                keep.append(b.add(("machw", keep[0])))
                keep.append(b.add(("mach", kk, rng.below(2 ** (2 ** kk)), side, j, u)))
                v2 = vc.rand_value(rng, t)
                keep.append(b.by_constructors(t, v2))
                add(prune_to(b.ops, keep), {"gen": "machine"})

    # --- words: the same word through every constructor, and neighbours
    for kk in range(0, 8):
        nbits = 2 ** kk
        x = rng.below(2 ** nbits)
        y = x ^ (1 << rng.below(nbits))
        b = Builder(rng)
        keep = [b.add(("wi", kk, x)), b.add(("wi", kk, y))]
        bits = vc.int_bits(x, nbits)
        keep.append(b.add(("pad", word(kk), vc.pack(bits + rng.bits(5)))))
        keep.append(b.add(("cmp", word(kk), vc.pack(bits))))
        if kk >= 3:
            keep.append(b.add(("ba", vc.pack(bits))))
        p = b.add(("prod", keep[1], keep[0]))
        keep.append(b.add(("snd", p)))
        keep.append(b.add(("fst", p)))
        add(prune_to(b.ops, keep), {"gen": "words"})

    # --- Word: the derived ==, cmp, hash of the struct {value, n} over the same histories
    # (to_word on every selected entry; entries that are not of a word type must give None)
    def addw(ops_sel, meta):
        k[0] += 1
        ops, sel = ops_sel
        cases.append(make_case("c%d" % k[0], "wpair", ops, meta, sel=sel))

    for rep_ in range(2 if tier == "quick" else 12):
        for kk in range(0, 8):
            nbits = 2 ** kk
            x = rng.below(2 ** nbits)
            y = x ^ (1 << rng.below(nbits))
            b = Builder(rng)
            bits = vc.int_bits(x, nbits)
            keep = [b.add(("wi", kk, x)), b.add(("wi", kk, y))]
            keep.append(b.add(("pad", word(kk), vc.pack(bits + rng.bits(5)))))
            keep.append(b.add(("cmp", word(kk), vc.pack(bits))))
            if kk >= 3:
                keep.append(b.add(("ba", vc.pack(bits))))
            p = b.add(("prod", keep[1], keep[0]))          # a word of the next size
            keep.append(p)
            keep.append(b.add(("snd", p)))                 # sub-value at an odd offset
            keep.append(b.add(("fst", p)))
            v = vc.word_value(kk, bits)
            i, _hn = b.any_history(word(kk), v)
            keep.append(i)
            # the same bits at a neighbouring word size and at a non-word type
            if kk >= 1:
                keep.append(b.add(("cmp", Prod(word(kk - 1), word(kk - 1)), vc.pack(bits))))
                keep.append(b.add(("cmp", word(kk - 1), vc.pack(bits[:nbits // 2]))))
            keep.append(b.add(("left", keep[0], ONE)))     # not a word
            keep.append(b.add(("unit",)))
            if len(b.ops) <= 60:
                addw(prune_to(b.ops, keep), {"gen": "word-struct"})
    for kk in (8, 9):
        bs = rng.bytes(2 ** (kk - 3))
        bs2 = list(bs)
        bs2[rng.below(len(bs2))] ^= 1 << rng.below(8)
        b = Builder(rng)
        keep = [b.add(("wb", kk, bs)), b.add(("wb", kk, bs2)), b.add(("ba", bs)),
                b.add(("cmp", word(kk), bs)), b.add(("pad", word(kk), bs + [0x55]))]
        addw(prune_to(b.ops, keep), {"gen": "word-struct"})

    # --- sub-values of LARGE parents (a buffer of 130 .. 300 bytes) at every bit offset 0 .. 9, against the same element
    # built by constructors: to_value / the raw byte iterator over a long shared buffer
    pads = [ONE, BIT, word(1), Prod(BIT, word(1)), word(2), Prod(BIT, word(2)), Prod(word(1), word(2)),
            Prod(BIT, Prod(word(1), word(2))), word(3), Prod(word(3), BIT)]
    for j, pt in enumerate(pads):
        for t in ([word(3), Sum(word(2), word(3)), Prod(word(3), BIT)] if tier == "quick" else
                  [word(3), word(4), Sum(word(2), word(3)), Prod(word(3), BIT), Prod(BIT, word(4)), option(word(3))]):
            b = Builder(rng)
            v = vc.rand_value(rng, t)
            v2 = vc.rand_value(rng, t)
            bigt = word(10) if (j % 2 == 0 or tier == "quick") else word(11)
            big = b.by_padded(bigt, vc.rand_value(rng, bigt), dirty=False)
            keep = []
            for vv in (v, v2):
                i = b.by_constructors(t, vv)
                keep.append(i)
                q1 = b.add(("prod", i, big))
                if pt == ONE:
                    q2 = q1
                else:
                    pi = b.by_constructors(pt, vc.rand_value(rng, pt))
                    q2 = b.add(("snd", b.add(("prod", pi, q1))))
                keep.append(b.add(("fst", q2)))
                # and behind the large component
                q3 = b.add(("prod", big, i)) if pt == ONE else b.add(("prod", b.add(("prod", pi, big)), i))
                keep.append(b.add(("snd", q3)))
            add(prune_to(b.ops, keep), {"gen": "large-parent"})
    return cases


def prune_to(ops, keep):
    """the program and the entries to compare pairwise: the finished values plus a few intermediates"""
    sel = sorted(set(keep))
    rest = [i for i in range(len(ops)) if i not in sel]
    extra = rest[::max(1, len(rest) // 3)][:3]
    return ops, sorted(set(sel + extra))[:12]


# ------------------------------------------------------------ the property, tested directly on the implementation
def prop_check(c, r):
    if r in ("CRASH", "TIMEOUT") or r is None:
        return ("crash", "implementation crashed or hung on %s" % c.line[:200])
    if r == [9]:
        return ("panic", "==, cmp or hash panicked on %s" % c.line[:200])
    ops = case_ops(c)
    pool, _log = ref_run(ops)
    if c.kind == "wpair":
        pr = parse_wpair(r, ops, c.meta["sel"])
        if pr is None:
            return ("malformed-output", "unparsable harness output for %s" % c.line[:200])
        codes, oksel, ns, m = pr
    else:
        pr = parse_pair(r, ops, c.meta["sel"])
        if pr is None:
            return ("malformed-output", "unparsable harness output for %s" % c.line[:200])
        codes, oksel, m = pr
    for idx, (o, e, (code, _x)) in enumerate(zip(ops, pool, codes)):
        exp = e if isinstance(e, int) else 0
        if code != exp:
            return ("status", "entry %d (`%s`): status %d, expected %d (see C10)" % (idx, vc.op_line(o)[:80], code, exp))
    if c.kind == "wpair":
        # Value::to_word: Some(n) exactly for the word types 2^(2^n), n < 32
        keepw = []
        for i, got in zip(oksel, ns):
            want = vc.word_of(pool[i][0])
            if want is not None and want >= 32:
                want = None
            if got != want:
                return ("to-word", "entry %d (`%s`) of type %s: to_word gives n = %s, expected %s"
                        % (i, vc.op_line(ops[i])[:60], ty_str(pool[i][0])[:40], got, want))
            if got is not None:
                keepw.append(i)
        oksel = keepw
    ents = [(i, pool[i]) for i in oksel]
    n = len(ents)
    for a in range(n):
        for b in range(n):
            (ia, (ta, va)), (ib, (tb, vb)) = ents[a], ents[b]
            eq, cm, he = m[a][b]
            same_ty = ta == tb
            expected = same_ty and va == vb
            names = "entry %d (`%s`) vs entry %d (`%s`)" % (ia, vc.op_line(ops[ia])[:60], ib, vc.op_line(ops[ib])[:60])
            if expected:
                if eq != 1:
                    return ("raw-byte-equality", "%s denote the same element of %s but compare unequal" % (names, ty_str(ta)[:40]))
                if he != 1:
                    return ("raw-byte-equality", "%s are the same element of %s but hash differently" % (names, ty_str(ta)[:40]))
                if cm != 1:
                    return ("raw-byte-equality", "%s are the same element of %s but cmp is not Equal (%d)" % (names, ty_str(ta)[:40], cm))
            else:
                if eq != 0:
                    return ("eq-not-injective", "%s are different elements (or types) but compare equal" % names)
                if cm == 1:
                    return ("cmp-eq-mismatch", "%s are different but cmp says Equal" % names)
            if cm == 5:
                return ("cmp-type-order", "%s: cmp of values of different types is not the order of their types" % names)
            if same_ty and cm not in (0, 1, 2):
                return ("cmp-code", "%s: unexpected cmp code %d" % (names, cm))
            if not same_ty and cm != 3:
                return ("cmp-code", "%s: types differ but the harness saw equal types (code %d)" % (names, cm))
            rev = m[b][a][1]
            if (cm, rev) not in ((0, 2), (2, 0), (1, 1), (3, 3)):
                return ("cmp-antisymmetry", "%s: cmp(a,b)=%d but cmp(b,a)=%d" % (names, cm, rev))
            if m[b][a][0] != eq or m[b][a][2] != he:
                return ("eq-symmetry", "%s: == or hash equality is not symmetric" % names)
    # transitivity of <= inside each type
    for a in range(n):
        for b in range(n):
            if m[a][b][1] not in (0, 1):
                continue
            for cc in range(n):
                if m[b][cc][1] in (0, 1) and m[a][cc][1] not in (0, 1):
                    return ("cmp-transitivity", "cmp is not transitive on entries %d, %d, %d" % (ents[a][0], ents[b][0], ents[cc][0]))
                if m[b][cc][1] in (0, 1) and m[a][cc][1] == 1 and not (m[a][b][1] == 1 and m[b][cc][1] == 1):
                    return ("cmp-transitivity", "cmp: a<=b<=c with a==c but not all equal on entries %d, %d, %d" % (ents[a][0], ents[b][0], ents[cc][0]))
    return None


def nontrivial(c, r):
    """non-trivial = the pool holds two entries of equal type and equal denotation produced by different op kinds"""
    ops = case_ops(c)
    pool, _ = ref_run(ops)
    seen = {}
    keys = set()
    for i in c.meta["sel"]:
        o, e = ops[i], pool[i]
        if isinstance(e, int):
            continue
        key = (e[0], e[1])
        if key in seen and seen[key] != o[0]:
            keys.add((tuple(vc.ty_tokens(e[0])), tuple(sorted((seen[key], o[0])))))
        seen.setdefault(key, o[0])
    return tuple(sorted(keys)) if keys else None


def run(rep, tier, rng):
    vplib.proof_stage(rep, "Props/C11.v", extra_targets=["Value/Run.vo", "Value/RunWord.vo"])
    rep.coverage["trusted_base"] = vplib.GENERIC_TRUSTED + TRUSTED
    rep.coverage["refuted_lemmas"] = ["C11_eq_raw_not_semantic (about the comparison used before the fix 8d443c2; documents F-C11)"]
    binary, out = vplib.harness_build("debug", crate=vc.CRATE)
    if binary is None:
        raise vplib.Infra("harness build failed:\n" + out[-3000:])
    cases = gen_cases(rng, tier)
    impl, model = vplib.eval_cases(rep, binary, vc.COMMAND, cases, vc.IMPORTS, tag="c11",
                                   batch=max(40, min(120, (len(cases) + 7) // 8)))
    pfail, mism = vplib.decide(rep, cases, impl, model, prop_check, None, nontrivial,
                               what="correspondence Value/Run.v (v_eq / v_cmp / v_hash) vs impl PartialEq / Ord / Hash for Value")
    cor = rep.coverage["correspondence"]
    gens = {}
    for c in cases:
        g = c.meta.get("gen", "corpus")
        gens[g] = gens.get(g, 0) + 1
    cor["generator_histogram"] = gens
    npairs = 0
    for c in cases:
        if c.kind == "wpair":
            pw = parse_wpair(impl.get(c.cid), case_ops(c), c.meta["sel"]) if isinstance(impl.get(c.cid), list) else None
            if pw:
                cor["word_pairs_compared"] = cor.get("word_pairs_compared", 0) + len(pw[3]) ** 2
            continue
        pr = parse_pair(impl.get(c.cid), case_ops(c), c.meta["sel"]) if isinstance(impl.get(c.cid), list) else None
        if pr:
            npairs += len(pr[1]) ** 2
    cor["ordered_pairs_compared"] = npairs
    rep.coverage["rule"] = (
        "pools of values of one type built by different histories (constructors, dirty padded decode, compact decode, sub-value "
        "extraction at odd offsets, prune from a larger type, machine output) plus near misses and same bits at other types; "
        "all ordered pairs compared with ==, cmp, hash; the same for `Word` (to_word on every entry, then ==, cmp, hash of the structs).  Exhaustive over all types with <= %d constructors.  Distinct non-trivial "
        "= distinct set of (type shape, pair of producing op kinds) for entries that denote the same element" % (3 if tier == "quick" else 4))
    rep.coverage["samples"] = [{"kind": c.kind, "args": c.line[:300], "impl": (impl.get(c.cid) or [])[:60] if isinstance(impl.get(c.cid), list) else impl.get(c.cid)}
                               for c in cases[::max(1, len(cases) // 5)][:6]]
    vplib.finish_proof_verdict(rep, pfail)


TRUSTED = [
    "model Value/ValueModel.v (v_eq / v_cmp / v_hash over iter_compact) written by hand from src/value.rs as fixed by commit 8d443c2",
    "type equality/order/hash: the code uses the TMR (a SHA-256 based hash of the type); the model compares type trees structurally and takes the "
    "order on types as a parameter (a total order whose Eq is equality).  Gap: a TMR collision.  For pairs of different types the harness only "
    "checks that Value::cmp answers Final::cmp",
    "hash equality is observed through std's DefaultHasher (SipHash, 64 bits): 'equal streams' is observed as 'equal digests'",
    "Word {value, n} with derived Eq/Ord/Hash is modelled in Value/ValueWord.v (fields compared in declaration order); Final::as_word "
    "(TMR lookup among the 32 word types) is modelled as structural recognition of 2^(2^n), n < 32",
]


def replay(obj):
    return vc.replay_common(PROP, obj, prop_check)
