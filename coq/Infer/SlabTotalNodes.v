(* C04, phase 4 - totality, part 3: the construction stage.  The potential `potL` (representatives + incomplete
   sum/product bounds + max (deepest complete type, L)) grows by at most 12 per node and is never increased by unify;
   with L = 33 + ty_depth_bound jets it stays below RunSlab.model_fuel, and tables of fewer than 2^32 nodes stay below
   2^64 elements, so that by SlabTotalBind every unify / bind_product of the construction stage returns Ok, Err or the
   panic 10 of reassign_non_complete. *)
From RS Require Import Lib.Tac Lib.Outcome Lib.Sweep Ty.Ty Core.Prog Infer.Constraints Infer.Unify Infer.Infer Infer.Gen Infer.Rational
  Infer.UnionFind Infer.Slab Infer.RunSlab Infer.SlabProofs Infer.SlabSim Infer.SlabSimInst Infer.SlabPrims Infer.SlabNodes Infer.SlabNodes2
  Infer.SlabNodes3 Infer.SlabNodes4 Infer.SlabNodes5 Infer.SlabConstruct Infer.SlabFin Infer.SlabWfd Infer.SlabTotal Infer.SlabNoP10 Infer.SlabTotalBind.
Import ListNotations.
Local Open Scope outcome_scope.

Definition potL (L : nat) (c : ctx) : nat := (nr (c_uf c) + np c + Nat.max (mcd c) L)%nat.

Definition Inv3 (L : nat) (c : ctx) (P N : nat) : Prop :=
  cwf c /\ RKI (c_uf c) /\ (potL L c <= P)%nat /\ (length (c_uf c) <= N)%nat.

Definition okr {A} (r : rres A) (Q : A -> Prop) : Prop :=
  match r with Ok a => Q a | Err _ => True | Panic _ => False | OutOfFuel => False end.

Lemma pot_le_potL L c : (pot c <= potL L c)%nat.
Proof. unfold pot, potL. lia. Qed.

Lemma potL_of_post L c c' extra : (pot c' <= pot c + extra)%nat -> (mcd c <= mcd c')%nat -> (potL L c' <= potL L c + extra)%nat.
Proof. unfold pot, potL. lia. Qed.

(* ---- allocation *)
Lemma nr_app_root u b : nr (u ++ [mk_ub (URoot b) 0]) = S (nr u).
Proof.
  unfold nr. rewrite app_length. cbn [length]. replace (length u + 1)%nat with (S (length u)) by lia.
  rewrite seq_S. cbn [Nat.add]. rewrite filter_app, app_length. cbn [filter].
  assert (E1 : filter (rootb (u ++ [mk_ub (URoot b) 0])) (seq 0 (length u)) = filter (rootb u) (seq 0 (length u))).
  { apply filter_ext_in. intros i Hi. apply in_seq in Hi. unfold rootb. rewrite ufget_app_l by lia. reflexivity. }
  assert (E2 : rootb (u ++ [mk_ub (URoot b) 0]) (length u) = true) by (unfold rootb; rewrite ufget_app_last; reflexivity).
  rewrite E1, E2. cbn [length]. lia.
Qed.

Lemma np_new c bnd u' : np (mk_ctx (c_slab c ++ [bnd]) u') = (np c + (if pairb bnd then 1 else 0))%nat.
Proof.
  unfold np. cbn [c_slab]. rewrite app_length. cbn [length]. replace (length (c_slab c) + 1)%nat with (S (length (c_slab c))) by lia.
  rewrite seq_S. cbn [Nat.add]. rewrite filter_app, app_length. cbn [filter].
  assert (E1 : filter (fun b => pairb (slab_get (mk_ctx (c_slab c ++ [bnd]) u') b)) (seq 0 (length (c_slab c))) =
               filter (fun b => pairb (slab_get c b)) (seq 0 (length (c_slab c)))).
  { apply filter_ext_in. intros i Hi. apply in_seq in Hi. rewrite slab_get_app_l by lia. reflexivity. }
  rewrite E1, slab_get_app_last. destruct (pairb bnd); cbn [length]; lia.
Qed.

Lemma mcd_new c bnd u' : (mcd (mk_ctx (c_slab c ++ [bnd]) u') <= Nat.max (mcd c) (cdb bnd))%nat /\ (mcd c <= mcd (mk_ctx (c_slab c ++ [bnd]) u'))%nat.
Proof.
  split.
  - apply mcd_le. intros b Hb. cbn [c_slab] in Hb. rewrite app_length in Hb. cbn [length] in Hb.
    destruct (Nat.eq_dec b (length (c_slab c))) as [->|N]; [rewrite slab_get_app_last; lia|].
    rewrite slab_get_app_l by lia. pose proof (mcd_ge c b ltac:(lia)). lia.
  - apply mcd_le. intros b Hb. rewrite <- (slab_get_app_l c bnd u' b Hb). apply mcd_ge. cbn [c_slab]. rewrite app_length. lia.
Qed.

Lemma p_new L c P N bnd dd : Inv3 L c P N -> bound_in (S (length (c_uf c))) bnd -> (cdb bnd <= Nat.max (mcd c) L + dd)%nat ->
  Inv3 L (fst (new_type c bnd)) (P + 1 + (if pairb bnd then 1 else 0) + dd) (S N) /\
  snd (new_type c bnd) = length (c_uf c) /\ length (c_uf (fst (new_type c bnd))) = S (length (c_uf c)).
Proof.
  intros (CW & RK & Pp & Ln) BI Cd.
  assert (NT : alloc_post ty eq One Sum Prod c (fst (new_type c bnd)) (snd (new_type c bnd)) bnd)
    by (apply (new_type_spec ty eq One Sum Prod); auto; fin_hyps).
  destruct NT as (Ee & CW' & L' & _ & _ & _).
  split; [|split; assumption]. rewrite new_type_eq in *. cbn [fst snd] in *.
  split; [exact CW'|]. cbn [c_uf]. split; [|split].
  - unfold RKI in *. rewrite max_rank_app0, nr_app_root, app_length. cbn [length]. lia.
  - unfold potL in *. cbn [c_uf]. rewrite nr_app_root, np_new. destruct (mcd_new c bnd (c_uf c ++ [mk_ub (URoot (length (c_slab c))) 0])) as [M1 M2]. lia.
  - rewrite app_length. cbn [length]. lia.
Qed.

Lemma Inv3_same L c P N u' : Inv3 L c P N -> same_part (c_uf c) u' -> max_rank u' = max_rank (c_uf c) -> Inv3 L (put_uf c u') P N.
Proof.
  intros (CW & RK & Pp & Ln) Sp M. split; [apply cwf_same_part; assumption|]. cbn [put_uf c_uf].
  split; [apply (RKI_same (c_uf c)); assumption|]. split.
  - unfold potL in *. cbn [put_uf c_uf]. rewrite (nr_same_part _ _ Sp). exact Pp.
  - destruct Sp as (_ & -> & _). exact Ln.
Qed.

Lemma p_pair L s c P N l r : Inv3 L c P N -> (l < length (c_uf c))%nat -> (r < length (c_uf c))%nat ->
  exists c', ty_pair s c l r = Ok (c', length (c_uf c)) /\ Inv3 L c' (P + 2) (S N) /\ length (c_uf c') = S (length (c_uf c)).
Proof.
  intros I0 Ll Lr. pose proof I0 as (CW & RK & Pp & Ln). pose proof CW as (W & Ch & Un & Br). unfold ty_pair, complete_pair_data.
  destruct (c_root_spec2 c l CW Ll) as (ua & Ea & Pa & Ma). rewrite Ea. cbn [obind].
  pose proof (Inv3_same L c P N ua I0 Pa Ma) as Ia. pose proof Ia as (CWa & _).
  assert (La : length ua = length (c_uf c)) by (destruct Pa as (_ & Lx & _); exact Lx).
  destruct (c_root_spec2 (put_uf c ua) r CWa ltac:(cbn [put_uf c_uf]; lia)) as (ub & Eb2 & Pb & Mb). rewrite Eb2. cbn [obind].
  pose proof (Inv3_same L (put_uf c ua) P N ub Ia Pb Mb) as I1.
  cbn [put_uf c_uf c_slab] in *.
  set (c1 := mk_ctx (c_slab c) ub) in *. change (put_uf (put_uf c ua) ub) with c1 in *.
  assert (L1 : length (c_uf c1) = length (c_uf c)) by (cbn [c1 c_uf]; destruct Pb as (_ & Lx & _); lia).
  pose proof I1 as (CW1 & _ & _ & _). pose proof CW1 as (W1 & _ & _ & Br1).
  set (b1 := bref_of (c_uf c) (rep (c_uf c) l)) in *. set (b2 := bref_of ua (rep ua r)) in *.
  assert (Lb1 : (b1 < length (c_slab c1))%nat) by (destruct (rep_root _ l W Ll); apply Br; assumption).
  assert (Lb2 : (b2 < length (c_slab c1))%nat).
  { destruct CWa as (Wa & _ & _ & Bra). destruct (rep_root ua r Wa ltac:(lia)). apply (Bra (rep ua r)); assumption. }
  assert (Inc : exists c', Ok (new_type c1 (if s then RSum l r else RProd l r)) = @Ok (berr * ctx) _ (c', length (c_uf c)) /\
              Inv3 L c' (P + 2) (S N) /\ length (c_uf c') = S (length (c_uf c))).
  { destruct (p_new L c1 P N (if s then RSum l r else RProd l r) 0 I1) as (I2 & E2 & L2).
    - destruct s; cbn [bound_in]; lia.
    - destruct s; cbn [cdb]; lia.
    - destruct (new_type c1 (if s then RSum l r else RProd l r)) as [c' e]. cbn [fst snd] in *. exists c'. subst e. rewrite L1.
      split; [reflexivity|]. split; [|lia]. assert ((if pairb (if s then RSum l r else RProd l r) then 1 else 0) = 1)%nat by (destruct s; reflexivity).
      destruct I2 as (A & B & C & D). split; [exact A|]. split; [exact B|]. split; lia. }
  destruct (slab_get c1 b1) as [|d1|? ?|? ?] eqn:G1; try exact Inc.
  destruct (slab_get c1 b2) as [|d2|? ?|? ?] eqn:G2; try exact Inc.
  clear Inc. cbn [obind].
  pose proof (mcd_ge c1 b1 Lb1) as M1. rewrite G1 in M1. pose proof (mcd_ge c1 b2 Lb2) as M2. rewrite G2 in M2. cbn [cdb] in M1, M2.
  destruct (p_new L c1 P N (RComplete (if s then Sum d1 d2 else Prod d1 d2)) 1 I1 I) as (I2 & E2 & L2).
  - cbn [cdb]. destruct s; cbn [tdepth]; lia.
  - destruct (new_type c1 (RComplete (if s then Sum d1 d2 else Prod d1 d2))) as [c' e]. cbn [fst snd pairb] in *. exists c'. subst e. rewrite L1.
    split; [reflexivity|]. split; [|lia]. destruct I2 as (A & B & C & D). split; [exact A|]. split; [exact B|]. split; lia.
Qed.

(* ---- unify and bind_product with the fuel F *)
Lemma p_unify L F st c P N x y : Inv3 L c P N -> (x < length (c_uf c))%nat -> (y < length (c_uf c))%nat ->
  (P <= F)%nat -> (N.of_nat N <= usize_max)%N ->
  okr (lift_bind st (ctx_unify F c x y)) (fun c' => Inv3 L c' P N /\ length (c_uf c') = length (c_uf c)).
Proof.
  intros (CW & RK & Pp & Ln) Lx Ly HF HU.
  assert (T : TI c) by (split; [exact CW|split; [exact RK|lia]]).
  pose proof (TU_all F c x y T Lx Ly ltac:(pose proof (pot_le_potL L c); lia)) as U.
  destruct (ctx_unify F c x y) as [c'|[[ex new] ce]|k|] eqn:E; cbn [lift_bind okr tb_post alloc_bound] in *; auto.
  destruct U as (RK' & L' & P' & M'). pose proof (unify_post F c x y c' CW Lx Ly E) as (CW' & _).
  split; [|exact L']. split; [exact CW'|]. split; [exact RK'|]. split; [pose proof (potL_of_post L c c' 0 P' M'); lia|lia].
Qed.

Lemma p_bindp L F c P N ex l r : Inv3 L c P N ->
  (ex < length (c_uf c))%nat -> (l < length (c_uf c))%nat -> (r < length (c_uf c))%nat ->
  (P < F)%nat -> (N.of_nat N <= usize_max)%N ->
  okr (lift_bind 0 (bind_product F c ex l r)) (fun c' => Inv3 L c' (P + 1) N /\ length (c_uf c') = length (c_uf c)).
Proof.
  intros I0 Lex Ll Lr HF HU. pose proof I0 as (CW & RK & Pp & Ln). pose proof CW as (W & _).
  pose proof (bind_product_spec ty eq One Sum Prod) as BPS.
  specialize (BPS ltac:(fin_hyps) ltac:(fin_hyps) ltac:(fin_hyps) ltac:(fin_hyps) ltac:(fin_hyps) ltac:(fin_hyps) ltac:(fin_hyps)
                  ltac:(fin_hyps) ltac:(fin_hyps) ltac:(fin_hyps) F c ex l r CW Lex Ll Lr).
  unfold bind_product in *.
  destruct (c_root_spec2 c ex CW Lex) as (ua & Ea & Pa & Ma). rewrite Ea in *. cbn [obind] in *.
  pose proof (Inv3_same L c P N ua I0 Pa Ma) as Ia. pose proof Ia as (CWa & RKa & Ppa & Lna).
  assert (La : length ua = length (c_uf c)) by (destruct Pa as (_ & Lx & _); exact Lx).
  destruct (rep_root (c_uf c) ex W Lex) as [Rr Lrr]. set (rr := rep (c_uf c) ex) in *.
  assert (HR : holds_ref (put_uf c ua) rr (bref_of (c_uf c) rr)).
  { unfold holds_ref. cbn [put_uf c_uf]. split; [lia|]. split; [apply (proj1 (same_part_root _ _ rr Pa)); exact Rr|].
    apply same_part_bref; assumption. }
  assert (T : TI (put_uf c ua)) by (split; [exact CWa|split; [exact RKa|cbn [put_uf c_uf]; lia]]).
  pose proof (TB_all F (put_uf c ua) _ (RProd l r) rr T HR ltac:(cbn [bound_in put_uf c_uf]; lia) ltac:(cbn; lia)) as B.
  specialize (B ltac:(cbn [fuel_ok]; pose proof (pot_le_potL L (put_uf c ua)); lia)).
  destruct (bind F (put_uf c ua) (bref_of (c_uf c) rr) (RProd l r)) as [c'|[[ex0 new] ce]|k|]; cbn [lift_bind okr tb_post alloc_bound pairb] in *; auto.
  destruct B as (RK' & L' & P' & M'). destruct BPS as ((CW' & _) & _).
  split; [|cbn [put_uf c_uf] in L'; lia]. split; [exact CW'|]. split; [exact RK'|].
  split; [pose proof (potL_of_post L (put_uf c ua) c' 1 P' M'); lia|cbn [put_uf c_uf] in L'; lia].
Qed.

Lemma Inv3_mono L c P N P' N' : Inv3 L c P N -> (P <= P')%nat -> (N <= N')%nat -> Inv3 L c P' N'.
Proof. intros (A & B & C & D) H1 H2. split; [exact A|]. split; [exact B|]. split; lia. Qed.

Lemma tdepth_word k : tdepth (word_ty k) = S k.
Proof. induction k as [|k IH]; [reflexivity|]. change (word_ty (S k)) with (Prod (word_ty k) (word_ty k)). cbn [tdepth]. rewrite IH. lia. Qed.

Section NodesTotal.
  Variable L F : nat.
  Variable jt : jet_table.
  Hypothesis HL : (33 <= L)%nat.
  Hypothesis Hjet : forall fam id gs gt, jet_lookup jt fam id = Some (gs, gt) -> (tdepth (gty_ty gs) <= L)%nat /\ (tdepth (gty_ty gt) <= L)%nat.

  Lemma HOne : (tdepth One <= L)%nat.
  Proof. cbn. lia. Qed.

  Lemma p_free c P N : Inv3 L c P N ->
    Inv3 L (fst (ty_free c)) (P + 1) (S N) /\ snd (ty_free c) = length (c_uf c) /\ length (c_uf (fst (ty_free c))) = S (length (c_uf c)).
  Proof.
    intros I0. destruct (p_new L c P N RFree 0 I0 I ltac:(cbn; lia)) as (I1 & E & Ln). cbn [pairb] in I1.
    split; [apply (Inv3_mono L _ _ _ _ _ I1); lia|split; assumption].
  Qed.

  Lemma p_complete c P N t : Inv3 L c P N -> (tdepth t <= L)%nat ->
    Inv3 L (fst (ty_complete c t)) (P + 1) (S N) /\ snd (ty_complete c t) = length (c_uf c) /\ length (c_uf (fst (ty_complete c t))) = S (length (c_uf c)).
  Proof.
    intros I0 Ht. destruct (p_new L c P N (RComplete t) 0 I0 I ltac:(cbn [cdb]; lia)) as (I1 & E & Ln). cbn [pairb] in I1.
    split; [apply (Inv3_mono L _ _ _ _ _ I1); lia|split; assumption].
  Qed.

  Ltac stepf I0 c1 f I1 L1 :=
    let E := fresh "E" in
    destruct (p_free _ _ _ I0) as (I1 & E & L1); destruct (ty_free _) as [c1 f]; cbn [fst snd] in I1, E, L1; subst f.
  Ltac stepc I0 t Ht c1 f I1 L1 :=
    let E := fresh "E" in
    destruct (p_complete _ _ _ t I0 Ht) as (I1 & E & L1); destruct (ty_complete _ t) as [c1 f]; cbn [fst snd] in I1, E, L1; subst f.

  (* two fresh variables *)
  Lemma p_free2 c P N : Inv3 L c P N ->
    exists c2, (let '(c1, x) := ty_free c in let '(c2, y) := ty_free c1 in (c2, x, y)) = (c2, length (c_uf c), S (length (c_uf c))) /\
      Inv3 L c2 (P + 2) (S (S N)) /\ length (c_uf c2) = S (S (length (c_uf c))).
  Proof.
    intros I0. stepf I0 c1 x I1 L1. stepf I1 c2 y I2 L2.
    exists c2. split; [rewrite L1; reflexivity|]. split; [apply (Inv3_mono L _ _ _ _ _ I2); lia|lia].
  Qed.

  Lemma for_disconnect_total c P N ls lt rs rt : Inv3 L c P N ->
    (ls < length (c_uf c))%nat -> (lt < length (c_uf c))%nat -> (rs < length (c_uf c))%nat -> (rt < length (c_uf c))%nat ->
    (P + 8 <= F)%nat -> (N.of_nat (N + 4) <= usize_max)%N ->
    okr (for_disconnect F c ls lt rs rt) (fun '(c', _) => Inv3 L c' (P + 7) (N + 4)).
  Proof.
    intros I0 Lls Llt Lrs Lrt HF HU. unfold for_disconnect.
    stepf I0 c1 a I1 L1. stepf I1 c2 b I2 L2.
    assert (Hw : (tdepth (word_ty 8) <= L)%nat) by (rewrite tdepth_word; lia).
    stepc I2 (word_ty 8) Hw c3 w I3 L3.
    pose proof (p_bindp L F c3 _ _ ls (length (c_uf c2)) (length (c_uf c)) I3 ltac:(lia) ltac:(lia) ltac:(lia) ltac:(lia) ltac:(lia)) as B1.
    unfold a_bind_product.
    destruct (lift_bind 0 (bind_product F c3 ls (length (c_uf c2)) (length (c_uf c)))) as [c4|e|k|]; cbn [obind okr] in *; auto.
    destruct B1 as [I4 L4].
    pose proof (p_bindp L F c4 _ _ lt (length (c_uf c1)) rs I4 ltac:(lia) ltac:(lia) ltac:(lia) ltac:(lia) ltac:(lia)) as B2.
    destruct (lift_bind 0 (bind_product F c4 lt (length (c_uf c1)) rs)) as [c5|e|k|]; cbn [obind okr] in *; auto.
    destruct B2 as [I5 L5].
    destruct (p_pair L false c5 _ _ (length (c_uf c1)) rt I5 ltac:(lia) ltac:(lia)) as (c6 & E6 & I6 & L6).
    rewrite E6. cbn [lift_unwrap obind okr]. apply (Inv3_mono L _ _ _ _ _ I6); lia.
  Qed.

  Lemma node_total_simple nd : (forall l r, nd <> NCase l r) -> forall c ar P N, Inv3 L c P N -> arr_in (length (c_uf c)) ar ->
    (P + 12 <= F)%nat -> (N.of_nat (N + 6) <= usize_max)%N ->
    okr (r_node F jt c ar nd) (fun '(c', _) => Inv3 L c' (P + 12) (N + 6)).
  Proof.
    intros Hnc c ar P N I0 Ai HF HU. destruct nd; cbn [r_node].
    - stepf I0 c1 f I1 L1. cbn [okr]. apply (Inv3_mono L _ _ _ _ _ I1); lia.
    - stepf I0 c1 f I1 L1. stepc I1 One HOne c2 t I2 L2. cbn [okr]. apply (Inv3_mono L _ _ _ _ _ I2); lia.
    - destruct (arr_of ar c0) as [[cs ct]|] eqn:Ec; [|exact I]. destruct (Ai _ _ _ Ec) as [Lcs Lct].
      stepf I0 c1 f I1 L1. destruct (p_pair L true c1 _ _ ct (length (c_uf c)) I1 ltac:(lia) ltac:(lia)) as (c2 & E2 & I2 & L2).
      rewrite E2. cbn [lift_unwrap obind okr]. apply (Inv3_mono L _ _ _ _ _ I2); lia.
    - destruct (arr_of ar c0) as [[cs ct]|] eqn:Ec; [|exact I]. destruct (Ai _ _ _ Ec) as [Lcs Lct].
      stepf I0 c1 f I1 L1. destruct (p_pair L true c1 _ _ (length (c_uf c)) ct I1 ltac:(lia) ltac:(lia)) as (c2 & E2 & I2 & L2).
      rewrite E2. cbn [lift_unwrap obind okr]. apply (Inv3_mono L _ _ _ _ _ I2); lia.
    - destruct (arr_of ar c0) as [[cs ct]|] eqn:Ec; [|exact I]. destruct (Ai _ _ _ Ec) as [Lcs Lct].
      stepf I0 c1 f I1 L1. destruct (p_pair L false c1 _ _ cs (length (c_uf c)) I1 ltac:(lia) ltac:(lia)) as (c2 & E2 & I2 & L2).
      rewrite E2. cbn [lift_unwrap obind okr]. apply (Inv3_mono L _ _ _ _ _ I2); lia.
    - destruct (arr_of ar c0) as [[cs ct]|] eqn:Ec; [|exact I]. destruct (Ai _ _ _ Ec) as [Lcs Lct].
      stepf I0 c1 f I1 L1. destruct (p_pair L false c1 _ _ (length (c_uf c)) cs I1 ltac:(lia) ltac:(lia)) as (c2 & E2 & I2 & L2).
      rewrite E2. cbn [lift_unwrap obind okr]. apply (Inv3_mono L _ _ _ _ _ I2); lia.
    - destruct (arr_of ar l) as [[ls lt]|] eqn:El; [|exact I]. destruct (arr_of ar r) as [[rs rt]|] eqn:Er; [|exact I].
      destruct (Ai _ _ _ El) as [Lls Llt]. destruct (Ai _ _ _ Er) as [Lrs Lrt].
      pose proof (p_unify L F 0 c P N lt rs I0 Llt Lrs ltac:(lia) ltac:(lia)) as U. unfold a_unify.
      destruct (lift_bind 0 (ctx_unify F c lt rs)) as [c1|e|k|]; cbn [obind okr] in *; auto.
      destruct U as [I1 _]. apply (Inv3_mono L _ _ _ _ _ I1); lia.
    - exfalso. apply (Hnc l r). reflexivity.
    - destruct (arr_of ar l) as [[ls lt]|] eqn:El; [|exact I]. destruct (arr_of ar r) as [[rs rt]|] eqn:Er; [|exact I].
      destruct (Ai _ _ _ El) as [Lls Llt]. destruct (Ai _ _ _ Er) as [Lrs Lrt].
      pose proof (p_unify L F 0 c P N ls rs I0 Lls Lrs ltac:(lia) ltac:(lia)) as U. unfold a_unify.
      destruct (lift_bind 0 (ctx_unify F c ls rs)) as [c1|e|k|]; cbn [obind okr] in *; auto.
      destruct U as [I1 L1]. destruct (p_pair L false c1 _ _ lt rt I1 ltac:(lia) ltac:(lia)) as (c2 & E2 & I2 & L2).
      rewrite E2. cbn [lift_unwrap obind okr]. apply (Inv3_mono L _ _ _ _ _ I2); lia.
    - destruct (arr_of ar l) as [[ls lt]|] eqn:El; [|exact I]. destruct (Ai _ _ _ El) as [Lls Llt].
      destruct r as [r|].
      + destruct (arr_of ar r) as [[rs rt]|] eqn:Er; [|exact I]. destruct (Ai _ _ _ Er) as [Lrs Lrt].
        pose proof (for_disconnect_total c P N ls lt rs rt I0 Lls Llt Lrs Lrt ltac:(lia) ltac:(lia)) as D.
        destruct (for_disconnect F c ls lt rs rt) as [[c' a]|e|k|]; cbn [obind okr] in *; auto. apply (Inv3_mono L _ _ _ _ _ D); lia.
      + destruct (p_free2 c P N I0) as (c2 & E & I2 & L2).
        destruct (ty_free c) as [c1 x]. destruct (ty_free c1) as [c2' y]. injection E as -> -> ->.
        pose proof (for_disconnect_total c2 _ _ ls lt (length (c_uf c)) (S (length (c_uf c))) I2 ltac:(lia) ltac:(lia) ltac:(lia) ltac:(lia) ltac:(lia) ltac:(lia)) as D.
        destruct (for_disconnect F c2 ls lt (length (c_uf c)) (S (length (c_uf c)))) as [[c' a]|e|k|]; cbn [obind okr] in *; auto.
        apply (Inv3_mono L _ _ _ _ _ D); lia.
    - cbn [okr]. apply (Inv3_mono L _ _ _ _ _ I0); lia.
    - destruct (p_free2 c P N I0) as (c2 & E & I2 & L2).
      destruct (ty_free c) as [c1 x]. destruct (ty_free c1) as [c2' y]. injection E as -> -> ->. cbn [okr]. apply (Inv3_mono L _ _ _ _ _ I2); lia.
    - destruct (jet_lookup jt family name_id) as [[gs gt]|] eqn:Ej; [|exact I]. destruct (Hjet _ _ _ _ Ej) as [H1 H2].
      stepc I0 (gty_ty gs) H1 c1 x I1 L1. stepc I1 (gty_ty gt) H2 c2 y I2 L2. cbn [okr]. apply (Inv3_mono L _ _ _ _ _ I2); lia.
    - destruct (Nat.leb n 31 && Nat.eqb (length bits) (2 ^ n))%bool eqn:Ew; [|exact I].
      apply andb_true_iff in Ew. destruct Ew as [Ew _]. apply Nat.leb_le in Ew.
      assert (Hwn : (tdepth (word_ty n) <= L)%nat) by (rewrite tdepth_word; lia).
      stepc I0 One HOne c1 x I1 L1. stepc I1 (word_ty n) Hwn c2 y I2 L2.
      cbn [okr]. apply (Inv3_mono L _ _ _ _ _ I2); lia.
    - destruct (p_free2 c P N I0) as (c2 & E & I2 & L2).
      destruct (ty_free c) as [c1 x]. destruct (ty_free c1) as [c2' y]. injection E as -> -> ->. cbn [okr]. apply (Inv3_mono L _ _ _ _ _ I2); lia.
  Qed.
End NodesTotal.

(* ---- a fresh variable of the reference can be equated with anything *)
Definition fresh_var (v : nat) (S : store) (E : list (nat * nat)) : Prop :=
  (v < length S)%nat /\ sget S v = BFree /\
  (forall u, (u < length S)%nat -> match sget S u with BSum a b | BProd a b => a <> v /\ b <> v | BLink w => w <> v | _ => True end) /\
  (forall x y, In (x, y) E -> x <> v /\ y <> v).

Lemma fresh_consistent v w S E : consistent S E -> fresh_var v S E -> w <> v -> consistent S (E ++ [(v, w)]).
Proof.
  intros (al & Sa & Ea) (Lv & Fv & Fs & Fe) Nw.
  exists (fun u => if Nat.eqb u v then al w else al u).
  assert (A : forall u, u <> v -> (if Nat.eqb u v then al w else al u) = al u) by (intros u Hu; destruct (Nat.eqb_spec u v); [contradiction|reflexivity]).
  split.
  - intros u Hu. specialize (Sa u Hu). specialize (Fs u Hu). destruct (Nat.eq_dec u v) as [->|Nu].
    + rewrite Fv. exact I.
    + destruct (sget S u) as [|w0| |a b|a b]; cbn [dholds] in *; auto.
      * rewrite (A u Nu), (A w0 Fs). exact Sa.
      * rewrite (A u Nu). exact Sa.
      * destruct Fs. rewrite (A u Nu), (A a), (A b) by assumption. exact Sa.
      * destruct Fs. rewrite (A u Nu), (A a), (A b) by assumption. exact Sa.
  - intros x y Hin. apply in_app_or in Hin. destruct Hin as [Hin|[E0|[]]].
    + destruct (Fe x y Hin). rewrite (A x), (A y) by assumption. apply Ea. exact Hin.
    + injection E0 as <- <-. rewrite Nat.eqb_refl, (A w Nw). apply teq_refl.
Qed.

Lemma fresh_last s5 E : wf s5 -> eqs_in (length s5) E -> fresh_var (length s5) (s5 ++ [BFree]) E.
Proof.
  intros W Ei. split; [rewrite app_length; cbn; lia|]. split; [rewrite <- (Nat.add_0_r (length s5)); rewrite sget_app_r; reflexivity|]. split.
  - intros u Hu. rewrite app_length in Hu. cbn [length] in Hu. destruct (Nat.eq_dec u (length s5)) as [->|N].
    + rewrite <- (Nat.add_0_r (length s5)). rewrite sget_app_r. exact I.
    + rewrite sget_app_l by lia. pose proof (W u ltac:(lia)) as Wu. destruct (sget s5 u); cbn [wf_bnd] in Wu; auto; lia.
  - intros x y Hin. destruct (Ei x y Hin). lia.
Qed.

Lemma fresh_ext v S E x y x' y' : fresh_var v S E -> x <> v -> y <> v -> x' <> v -> y' <> v -> fresh_var v (S ++ [BProd x y]) (E ++ [(x', y')]).
Proof.
  intros (Lv & Fv & Fs & Fe) N1 N2 N3 N4. split; [rewrite app_length; lia|]. split; [rewrite sget_app_l by exact Lv; exact Fv|]. split.
  - intros u Hu. rewrite app_length in Hu. cbn [length] in Hu. destruct (Nat.eq_dec u (length S)) as [->|N].
    + rewrite <- (Nat.add_0_r (length S)). rewrite sget_app_r. cbn. auto.
    + rewrite sget_app_l by lia. apply Fs. lia.
  - intros a b Hin. apply in_app_or in Hin. destruct Hin as [Hin|[E0|[]]]; [apply Fe; exact Hin|]. injection E0 as <- <-. auto.
Qed.

Section CaseTotal.
  Variable L F : nat.
  Variable jt : jet_table.
  Hypothesis HL : (33 <= L)%nat.

  Lemma for_case_total c s eqs em la ra P N : Sim c s eqs em -> Inv3 L c P N ->
    (forall ss st, la = Some (ss, st) -> (ss < length (c_uf c))%nat /\ (st < length (c_uf c))%nat) ->
    (forall ss st, ra = Some (ss, st) -> (ss < length (c_uf c))%nat /\ (st < length (c_uf c))%nat) ->
    (P + 12 <= F)%nat -> (N.of_nat (N + 6) <= usize_max)%N ->
    okr (for_case F c la ra) (fun '(c', _) => Inv3 L c' (P + 12) (N + 6)).
  Proof.
    intros S0 I0 Hla Hra HF HU. unfold for_case.
    destruct (sim_free c s eqs em S0) as (S1 & _ & _). destruct (p_free L HL c P N I0) as (I1 & E1 & L1).
    destruct (ty_free c) as [c1 a]. cbn [fst snd] in *. subst a.
    destruct (sim_free c1 _ eqs _ S1) as (S2 & _ & _). destruct (p_free L HL c1 _ _ I1) as (I2 & E2 & L2).
    destruct (ty_free c1) as [c2 b]. cbn [fst snd] in *. subst b.
    destruct (sim_free c2 _ eqs _ S2) as (S3 & _ & _). destruct (p_free L HL c2 _ _ I2) as (I3 & E3 & L3).
    destruct (ty_free c2) as [c3 cc]. cbn [fst snd] in *. subst cc.
    destruct (sim_pair true c3 _ eqs _ (length (c_uf c)) (length (c_uf c1)) S3 ltac:(lia) ltac:(lia)) as (c4 & E4 & S4 & L4).
    destruct (p_pair L true c3 _ _ (length (c_uf c)) (length (c_uf c1)) I3 ltac:(lia) ltac:(lia)) as (c4' & E4' & I4 & _).
    rewrite E4 in E4'. injection E4' as <-. rewrite E4. cbn [lift_unwrap obind].
    destruct (sim_pair false c4 _ eqs _ (length (c_uf c3)) (length (c_uf c2)) S4 ltac:(lia) ltac:(lia)) as (c5 & E5 & S5 & L5).
    destruct (p_pair L false c4 _ _ (length (c_uf c3)) (length (c_uf c2)) I4 ltac:(lia) ltac:(lia)) as (c5' & E5' & I5 & _).
    rewrite E5 in E5'. injection E5' as <-. rewrite E5. cbn [lift_unwrap obind].
    destruct (sim_free c5 _ eqs _ S5) as (S6 & _ & _). destruct (p_free L HL c5 _ _ I5) as (I6 & E6 & L6).
    destruct (ty_free c5) as [c6 tg]. cbn [fst snd] in *. subst tg.
    match type of S5 with Sim _ ?X _ ?Y => set (s5 := X) in *; set (em5 := Y) in * end.
    set (em6 := upd em5 (length (c_uf c5)) (length s5)) in *.
    destruct S5 as [(CW5 & Ws5 & Ei5 & Rg5) _ _].
    assert (Old : forall e, (e < length (c_uf c5))%nat -> em6 e <> length s5).
    { intros e He. unfold em6. rewrite upd_lt by exact He. pose proof (Rg5 e He). lia. }
    assert (Tg : em6 (length (c_uf c5)) = length s5) by (unfold em6; apply upd_eq).
    pose proof (fresh_last s5 eqs Ws5 Ei5) as Fr6.
    (* left branch *)
    assert (Left : okr (match la with
                        | Some (ls, lt) => c7 <- a_bind_product F c6 ls (length (c_uf c)) (length (c_uf c2)) ;; lift_unwrap (ctx_unify F c7 (length (c_uf c5)) lt)
                        | None => Ok c6
                        end) (fun c8 => Inv3 L c8 (P + 9) (N + 6) /\ length (c_uf c8) = length (c_uf c6))).
    { destruct la as [[ls lt]|]; [|cbn [okr]; split; [apply (Inv3_mono L _ _ _ _ _ I6); lia|reflexivity]].
      destruct (Hla ls lt eq_refl) as [Lls Llt].
      pose proof (sim_bindp F c6 _ eqs em6 ls (length (c_uf c)) (length (c_uf c2)) S6 ltac:(lia) ltac:(lia) ltac:(lia)) as SB.
      pose proof (p_bindp L F c6 _ _ ls (length (c_uf c)) (length (c_uf c2)) I6 ltac:(lia) ltac:(lia) ltac:(lia) ltac:(lia) ltac:(lia)) as PB.
      unfold a_bind_product.
      destruct (bind_product F c6 ls (length (c_uf c)) (length (c_uf c2))) as [c7|[[ex new] ce]|k|]; cbn [lift_bind obind okr alloc_bound] in *; auto.
      destruct SB as [S7 _]. destruct PB as [I7 L7].
      pose proof (sim_unify F c7 _ _ em6 (length (c_uf c5)) lt S7 ltac:(lia) ltac:(lia)) as SU.
      pose proof (p_unify L F 0 c7 _ _ (length (c_uf c5)) lt I7 ltac:(lia) ltac:(lia) ltac:(lia) ltac:(lia)) as PU.
      destruct (ctx_unify F c7 (length (c_uf c5)) lt) as [c8|[[ex new] ce]|k|]; cbn [lift_bind lift_unwrap okr alloc_bound] in *; auto.
      - destruct PU as [I8 L8]. split; [apply (Inv3_mono L _ _ _ _ _ I8); lia|lia].
      - (* the `.unwrap()`: this unification cannot fail *)
        exfalso. apply SU. rewrite Tg. apply fresh_consistent.
        + apply (Sim_consistent c7 _ _ em6 S7).
        + apply fresh_ext; [exact Fr6| | | |]; try (apply Old; lia). rewrite app_length. cbn [length]. lia.
        + apply Old. lia. }
    revert Left. match goal with |- okr ?X0 _ -> okr (obind ?X _) _ => change X0 with X; destruct X as [c8|e|k|] end; intros Left; cbn [obind okr] in *; auto.
    destruct Left as [I8 L8].
    (* right branch *)
    assert (Right : okr (match ra with
                         | Some (rs, rt) => c9 <- a_bind_product F c8 rs (length (c_uf c1)) (length (c_uf c2)) ;; a_unify F c9 (length (c_uf c5)) rt
                         | None => Ok c8
                         end) (fun c10 => Inv3 L c10 (P + 10) (N + 6))).
    { destruct ra as [[rs rt]|]; [|cbn [okr]; apply (Inv3_mono L _ _ _ _ _ I8); lia].
      destruct (Hra rs rt eq_refl) as [Lrs Lrt].
      pose proof (p_bindp L F c8 _ _ rs (length (c_uf c1)) (length (c_uf c2)) I8 ltac:(lia) ltac:(lia) ltac:(lia) ltac:(lia) ltac:(lia)) as PB.
      unfold a_bind_product.
      destruct (lift_bind 0 (bind_product F c8 rs (length (c_uf c1)) (length (c_uf c2)))) as [c9|e|k|]; cbn [obind okr] in *; auto.
      destruct PB as [I9 L9].
      pose proof (p_unify L F 0 c9 _ _ (length (c_uf c5)) rt I9 ltac:(lia) ltac:(lia) ltac:(lia) ltac:(lia)) as PU. unfold a_unify.
      destruct (lift_bind 0 (ctx_unify F c9 (length (c_uf c5)) rt)) as [c10|e|k|]; cbn [okr] in *; auto.
      destruct PU as [I10 _]. apply (Inv3_mono L _ _ _ _ _ I10); lia. }
    revert Right. match goal with |- okr ?X0 _ -> okr (obind ?X _) _ => change X0 with X; destruct X as [c10|e|k|] end; intros Right; cbn [obind okr] in *; auto.
    apply (Inv3_mono L _ _ _ _ _ Right); lia.
  Qed.
End CaseTotal.

Section AllNodes.
  Variable L F : nat.
  Variable jt : jet_table.
  Hypothesis HL : (33 <= L)%nat.
  Hypothesis Hjet : forall fam id gs gt, jet_lookup jt fam id = Some (gs, gt) -> (tdepth (gty_ty gs) <= L)%nat /\ (tdepth (gty_ty gt) <= L)%nat.

  Theorem node_total nd : forall c s eqs em ar P N, Sim c s eqs em -> Inv3 L c P N -> arr_in (length (c_uf c)) ar ->
    (P + 12 <= F)%nat -> (N.of_nat (N + 6) <= usize_max)%N ->
    okr (r_node F jt c ar nd) (fun '(c', _) => Inv3 L c' (P + 12) (N + 6)).
  Proof.
    intros c s eqs em ar P N S0 I0 Ai HF HU.
    destruct nd; try (apply (node_total_simple L F jt HL Hjet); auto; intros; discriminate).
    cbn [r_node]. destruct (hidden_at ar l && hidden_at ar r)%bool; [exact I|].
    destruct (_ || _)%bool; [exact I|].
    pose proof (for_case_total L F HL c s eqs em (arr_of ar l) (arr_of ar r) P N S0 I0 (fun ss st E => Ai l ss st E) (fun ss st E => Ai r ss st E) HF HU) as Fc.
    destruct (for_case F c (arr_of ar l) (arr_of ar r)) as [[c' a]|e|k|]; cbn [obind okr] in *; auto.
  Qed.

  Theorem r_nodes_total : forall p c s eqs em ar g' P N, Sim c s eqs em -> Inv3 L c P N -> arr_in (length (c_uf c)) ar ->
    gen_nodes jt p (mk_gstate s eqs (map (amap em) ar)) = Some g' ->
    (P + 12 * length p <= F)%nat -> (N.of_nat (N + 6 * length p) <= usize_max)%N ->
    okr (r_nodes F jt c ar p) (fun '(c', _) => Inv3 L c' (P + 12 * length p) (N + 6 * length p)).
  Proof.
    induction p as [|nd rest IH]; intros c s eqs em ar g' P N S0 I0 Ai H HF HU; cbn [gen_nodes r_nodes length] in *.
    - cbn [okr]. apply (Inv3_mono L _ _ _ _ _ I0); lia.
    - cbn [g_store g_arr g_eqs] in H.
      destruct (node_tmpl jt (length s) (map (amap em) ar) nd) as [[[nb ne] a_r]|] eqn:T; [|discriminate].
      pose proof (r_node_sim F jt nd c s eqs em ar nb ne a_r S0 Ai T) as Ns. unfold node_post in Ns.
      pose proof (node_total nd c s eqs em ar P N S0 I0 Ai ltac:(lia) ltac:(lia)) as Nt.
      destruct (r_node F jt c ar nd) as [[c1 a_s]|e|k|]; cbn [obind okr] in *; auto.
      destruct Ns as (em1 & Ex & S1 & Ea & Ll & La).
      assert (Ai1 : arr_in (length (c_uf c1)) (ar ++ [a_s])).
      { intros ch x y E. unfold arr_of in E. destruct (Nat.lt_ge_cases ch (length ar)) as [Lc|Gc].
        - rewrite nth_error_app1 in E by exact Lc. destruct (Ai ch x y E). lia.
        - rewrite nth_error_app2 in E by exact Gc. destruct (ch - length ar)%nat as [|k]; cbn in E.
          + destruct a_s as [[x0 y0]|]; [|discriminate]. injection E as <- <-. apply La. reflexivity.
          + destruct k; discriminate. }
      pose proof (IH c1 _ _ em1 (ar ++ [a_s]) g' (P + 12) (N + 6) S1 Nt Ai1) as R.
      specialize (R ltac:(rewrite map_app; cbn [map]; rewrite (map_amap_ext em em1 (length (c_uf c)) ar Ex Ai), <- Ea; exact H) ltac:(lia) ltac:(lia)).
      destruct (r_nodes F jt c1 (ar ++ [a_s]) rest) as [[c' ar']|e|k|]; cbn [okr] in *; auto.
      apply (Inv3_mono L _ _ _ _ _ R); lia.
  Qed.

  Lemma set_program_total c P N x y : Inv3 L c P N -> (x < length (c_uf c))%nat -> (y < length (c_uf c))%nat ->
    (P + 1 <= F)%nat -> (N.of_nat (N + 1) <= usize_max)%N ->
    okr (r_set_program F c (x, y)) (fun _ => True).
  Proof.
    intros I0 Lx Ly HF HU. unfold r_set_program. cbn [fst snd].
    destruct (p_complete L HL c P N One I0 (HOne L HL)) as (I1 & E1 & L1).
    destruct (ty_complete c One) as [c1 u]. cbn [fst snd] in *. subst u.
    pose proof (p_unify L F 1 c1 _ _ x (length (c_uf c)) I1 ltac:(lia) ltac:(lia) ltac:(lia) ltac:(lia)) as U1.
    destruct (lift_bind 1 (ctx_unify F c1 x (length (c_uf c)))) as [c2|e|k|]; cbn [obind okr] in *; auto.
    destruct U1 as [I2 L2].
    pose proof (p_unify L F 1 c2 _ _ y (length (c_uf c)) I2 ltac:(lia) ltac:(lia) ltac:(lia) ltac:(lia)) as U2.
    destruct (lift_bind 1 (ctx_unify F c2 y (length (c_uf c)))) as [c3|e|k|]; cbn [okr] in *; auto.
  Qed.
End AllNodes.
