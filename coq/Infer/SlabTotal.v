(* C04, phase 4 - totality, part 1: pieces of "the slab model never ends in Panic / OutOfFuel".
     occurs_check_total   Incomplete::occurs_check on a well-formed state: the fuel 4 |slab| + 4 of the model suffices and
                          no panic is possible: the result is always Ok (measure: 3 x unvisited bounds + stack length)
     bind_complete_total  bind against a complete type of depth < fuel returns Ok or Err (no Panic, no OutOfFuel) *)
From RS Require Import Lib.Tac Lib.Outcome Lib.Sweep Ty.Ty Core.Prog Infer.Constraints Infer.Unify Infer.Infer Infer.Gen Infer.Rational
  Infer.UnionFind Infer.Slab Infer.RunSlab Infer.SlabProofs Infer.SlabSim Infer.SlabSimInst Infer.SlabFin Infer.SlabWfd.
Import ListNotations.
Local Open Scope outcome_scope.

Lemma filter_length_le {A} (f g : A -> bool) l : (forall x, g x = true -> f x = true) -> (length (filter g l) <= length (filter f l))%nat.
Proof.
  intros H. induction l as [|x l IH]; cbn [filter]; [lia|].
  destruct (g x) eqn:Gx; [rewrite (H x Gx); cbn; lia|]. destruct (f x); cbn; lia.
Qed.

Lemma filter_length_lt {A} (f g : A -> bool) l b : (forall x, g x = true -> f x = true) -> In b l -> f b = true -> g b = false ->
  (length (filter g l) < length (filter f l))%nat.
Proof.
  intros H. induction l as [|x l IH]; intros Hin Fb Gb; [destruct Hin|]. cbn [filter].
  destruct Hin as [->|Hin].
  - rewrite Fb, Gb. cbn [length]. pose proof (filter_length_le f g l H). lia.
  - specialize (IH Hin Fb Gb). destruct (g x) eqn:Gx; [rewrite (H x Gx); cbn; lia|]. destruct (f x); cbn; lia.
Qed.

Lemma filter_len {A} (f : A -> bool) l : (length (filter f l) <= length l)%nat.
Proof. induction l as [|x l IH]; cbn [filter length]; [lia|]. destruct (f x); cbn [length]; lia. Qed.

Definition unv (N : nat) (comp ip : list nat) : nat :=
  length (filter (fun b => negb (mem b comp || mem b ip)) (seq 0 N)).

Lemma mem_remove_neq x id l : x <> id -> mem x (remove_nat id l) = mem x l.
Proof.
  intros N. unfold mem, remove_nat. induction l as [|y l IH]; [reflexivity|]. cbn [filter existsb].
  destruct (Nat.eqb_spec id y) as [->|Ny]; cbn [negb].
  - destruct (Nat.eqb_spec x y); [contradiction|]. cbn. exact IH.
  - cbn [existsb]. rewrite IH. reflexivity.
Qed.

Lemma kids_total c b : cwf c ->
  exists c1 k, kids c b = Ok (c1, k) /\ keeps_part c c1 /\ c_slab c1 = c_slab c /\
    forall l r, k = Some (l, r) -> (l < length (c_slab c))%nat /\ (r < length (c_slab c))%nat.
Proof.
  intros CW. pose proof CW as (W & Ch & _ & Br).
  destruct (slab_get c b) as [|t|x1 x2|x1 x2] eqn:Eb.
  - exists c, None. unfold kids. rewrite Eb. split; [reflexivity|]. split; [apply same_part_refl; exact W|]. split; [reflexivity|]. intros; discriminate.
  - exists c, None. unfold kids. rewrite Eb. split; [reflexivity|]. split; [apply same_part_refl; exact W|]. split; [reflexivity|]. intros; discriminate.
  - destruct (Ch b x1 x2 (or_introl Eb)) as [L1 L2]. destruct (kids_pair c b true x1 x2 CW Eb L1 L2) as (u' & Ek & P).
    eexists. eexists. split; [exact Ek|]. split; [exact P|]. split; [reflexivity|]. intros l r E. injection E as <- <-.
    destruct (rep_root _ x1 W L1). destruct (rep_root _ x2 W L2). split; apply Br; assumption.
  - destruct (Ch b x1 x2 (or_intror Eb)) as [L1 L2]. destruct (kids_pair c b false x1 x2 CW Eb L1 L2) as (u' & Ek & P).
    eexists. eexists. split; [exact Ek|]. split; [exact P|]. split; [reflexivity|]. intros l r E. injection E as <- <-.
    destruct (rep_root _ x1 W L1). destruct (rep_root _ x2 W L2). split; apply Br; assumption.
Qed.

Theorem occurs_loop_total : forall fuel c st ip comp, cwf c ->
  (forall o, In o st -> (oid o < length (c_slab c))%nat) ->
  (3 * unv (length (c_slab c)) comp ip + length st < fuel)%nat ->
  exists c' cyc, occurs_loop fuel c st ip comp = Ok (c', cyc).
Proof.
  induction fuel as [|f IH]; intros c st ip comp CW Hst Hf; [lia|].
  cbn [occurs_loop]. destruct st as [|[b|id] rest].
  - eauto.
  - assert (Lb : (b < length (c_slab c))%nat) by (apply (Hst (OIter b)); left; reflexivity).
    assert (Hrest : forall o, In o rest -> (oid o < length (c_slab c))%nat) by (intros o Ho; apply Hst; right; exact Ho).
    cbn [length] in Hf.
    destruct (mem b comp) eqn:Mc; [apply IH; auto; lia|].
    destruct (mem b ip) eqn:Mi; [eauto|].
    destruct (kids_total c b CW) as (c1 & k & Ek & K1 & E1 & Hk). rewrite Ek. cbn [obind].
    pose proof (cwf_keeps c c1 CW K1 E1) as CW1.
    assert (Dec : (unv (length (c_slab c)) comp (b :: ip) < unv (length (c_slab c)) comp ip)%nat).
    { unfold unv. apply (filter_length_lt _ _ _ b).
      - intros x Hx. apply negb_true_iff in Hx. apply negb_true_iff. apply orb_false_iff in Hx. destruct Hx as [H1 H2].
        apply orb_false_iff. split; [exact H1|]. unfold mem in *. cbn [existsb] in H2. apply orb_false_iff in H2. tauto.
      - apply in_seq. lia.
      - rewrite Mc, Mi. reflexivity.
      - unfold mem at 2. cbn [existsb]. rewrite Nat.eqb_refl. rewrite orb_true_r. reflexivity. }
    destruct k as [[l r]|].
    + destruct (Hk l r eq_refl) as [Ll Lr]. apply IH; [exact CW1| |rewrite E1; cbn [length]; lia].
      rewrite E1. intros o [<-|[<-|[<-|Ho]]]; cbn [oid]; auto.
    + apply IH; [exact CW1| |rewrite E1; cbn [length]; lia].
      rewrite E1. intros o [<-|Ho]; cbn [oid]; auto.
  - assert (Hrest : forall o, In o rest -> (oid o < length (c_slab c))%nat) by (intros o Ho; apply Hst; right; exact Ho).
    cbn [length] in Hf. apply IH; auto.
    assert (Le : (unv (length (c_slab c)) (id :: comp) (remove_nat id ip) <= unv (length (c_slab c)) comp ip)%nat).
    { unfold unv. apply filter_length_le. intros x Hx. apply negb_true_iff in Hx. apply negb_true_iff. apply orb_false_iff in Hx. destruct Hx as [H1 H2].
      unfold mem at 1 in H1. cbn [existsb] in H1. apply orb_false_iff in H1. destruct H1 as [Nx H1]. apply Nat.eqb_neq in Nx.
      rewrite (mem_remove_neq x id ip Nx) in H2. apply orb_false_iff. split; assumption. }
    lia.
Qed.

Theorem occurs_check_total c b : cwf c -> (b < length (c_slab c))%nat -> exists c' cyc, occurs_check c b = Ok (c', cyc).
Proof.
  intros CW Lb. unfold occurs_check, occurs_fuel. apply occurs_loop_total; [exact CW|intros o [<-|[]]; exact Lb|].
  cbn [length]. assert (unv (length (c_slab c)) [] [] <= length (c_slab c))%nat.
  { unfold unv. etransitivity; [apply filter_len|]. rewrite seq_length. lia. }
  lia.
Qed.

(* ================================================================== the occurs check is complete *)
Definition cb (c : ctx) (x : nat) : nat := bref_of (c_uf c) (rep (c_uf c) x).

Inductive wfbh (c : ctx) : nat -> nat -> Prop :=
| wl_free h d : slab_get c d = RFree -> wfbh c h d
| wl_complete h d t : slab_get c d = RComplete t -> wfbh c h d
| wp_sum h h' d x1 x2 : slab_get c d = RSum x1 x2 -> (h' < h)%nat -> wfbh c h' (cb c x1) -> wfbh c h' (cb c x2) -> wfbh c h d
| wp_prod h h' d x1 x2 : slab_get c d = RProd x1 x2 -> (h' < h)%nat -> wfbh c h' (cb c x1) -> wfbh c h' (cb c x2) -> wfbh c h d.

Lemma wfbh_mono c h h' d : (h <= h')%nat -> wfbh c h d -> wfbh c h' d.
Proof.
  intros L H. revert h' L. induction H as [h d E|h d t E|h h0 d x1 x2 E Lh H1 IH1 H2 IH2|h h0 d x1 x2 E Lh H1 IH1 H2 IH2]; intros h' L.
  - apply wl_free. exact E.
  - eapply wl_complete. exact E.
  - apply (wp_sum c h' h0 d x1 x2 E); [lia|exact H1|exact H2].
  - apply (wp_prod c h' h0 d x1 x2 E); [lia|exact H1|exact H2].
Qed.

Definition chb (c : ctx) (d b' : nat) : Prop :=
  exists x1 x2, (slab_get c d = RSum x1 x2 \/ slab_get c d = RProd x1 x2) /\ (b' = cb c x1 \/ b' = cb c x2).

Lemma wfbh_node c h d : (forall b', chb c d b' -> wfbh c h b') -> wfbh c (S h) d.
Proof.
  intros H. destruct (slab_get c d) as [|t|x1 x2|x1 x2] eqn:E.
  - apply wl_free. exact E.
  - eapply wl_complete. exact E.
  - apply (wp_sum c (S h) h d x1 x2 E); [lia| |]; apply H; exists x1, x2; auto.
  - apply (wp_prod c (S h) h d x1 x2 E); [lia| |]; apply H; exists x1, x2; auto.
Qed.

Fixpoint dones (st : list ocs) : list nat :=
  match st with
  | [] => []
  | ODone d :: r => d :: dones r
  | OIter _ :: r => dones r
  end.

Lemma in_dones d st : In d (dones st) <-> In (ODone d) st.
Proof.
  induction st as [|[b|e] r IH]; cbn [dones In]; [tauto| |].
  - rewrite IH. split; [auto|intros [E|H]; [discriminate|exact H]].
  - rewrite IH. split; [intros [->|H]; auto|intros [E|H]; [injection E as ->; auto|auto]].
Qed.

(* what the children returned by kids are, in terms of the state c0 the loop started in *)
Lemma kids_cb c0 c b : cwf c0 -> keeps_part c0 c -> c_slab c = c_slab c0 -> cwf c ->
  forall c1 k, kids c b = Ok (c1, k) ->
    match k with
    | Some (l, r) => forall b', chb c0 b b' <-> (b' = l \/ b' = r)
    | None => forall b', ~ chb c0 b b'
    end.
Proof.
  intros CW0 K Es CW c1 k Ek. pose proof CW as (W & Ch & _). pose proof CW0 as (W0 & _).
  assert (SG : forall b0, slab_get c b0 = slab_get c0 b0) by (intros b0; unfold slab_get; rewrite Es; reflexivity).
  assert (Cb : forall x, (x < length (c_uf c))%nat -> bref_of (c_uf c) (rep (c_uf c) x) = cb c0 x).
  { intros x Hx. unfold cb. pose proof K as (_ & Lk & Rk & _). rewrite (Rk x ltac:(lia)).
    apply (same_part_bref _ _ _ K). apply rep_root; [exact W0|lia]. }
  destruct (slab_get c b) as [|t|x1 x2|x1 x2] eqn:Eb.
  - unfold kids in Ek. rewrite Eb in Ek. injection Ek as <- <-. intros b' (x1 & x2 & [E|E] & _); rewrite <- SG, Eb in E; discriminate.
  - unfold kids in Ek. rewrite Eb in Ek. injection Ek as <- <-. intros b' (x1 & x2 & [E|E] & _); rewrite <- SG, Eb in E; discriminate.
  - destruct (Ch b x1 x2 (or_introl Eb)) as [L1 L2]. destruct (kids_pair c b true x1 x2 CW Eb L1 L2) as (u' & Ek' & P).
    rewrite Ek' in Ek. injection Ek as <- <-. rewrite (Cb x1 L1), (Cb x2 L2). intros b'. split.
    + intros (y1 & y2 & [E|E] & Hb); rewrite <- SG, Eb in E; [injection E as <- <-; exact Hb|discriminate].
    + intros Hb. exists x1, x2. rewrite <- SG. auto.
  - destruct (Ch b x1 x2 (or_intror Eb)) as [L1 L2]. destruct (kids_pair c b false x1 x2 CW Eb L1 L2) as (u' & Ek' & P).
    rewrite Ek' in Ek. injection Ek as <- <-. rewrite (Cb x1 L1), (Cb x2 L2). intros b'. split.
    + intros (y1 & y2 & [E|E] & Hb); rewrite <- SG, Eb in E; [discriminate|injection E as <- <-; exact Hb].
    + intros Hb. exists x1, x2. rewrite <- SG. auto.
Qed.

Lemma NoDup_insert {A} (x : A) : forall l1 l2, NoDup (l1 ++ l2) -> ~ In x (l1 ++ l2) -> NoDup (l1 ++ x :: l2).
Proof.
  induction l1 as [|y l1 IH]; intros l2 ND Nx; cbn [app] in *; [constructor; assumption|].
  apply NoDup_cons_iff in ND. destruct ND as [Ny ND]. constructor.
  - intros Hin. apply in_app_or in Hin. destruct Hin as [Hin|[E|Hin]]; [apply Ny; apply in_or_app; auto|subst; apply Nx; left; reflexivity|apply Ny; apply in_or_app; auto].
  - apply IH; [exact ND|]. intros Hin. apply Nx. right. exact Hin.
Qed.

Definition pending (c0 : ctx) (comp : list nat) (st : list ocs) : Prop :=
  forall above d below, st = above ++ ODone d :: below ->
    forall b', chb c0 d b' -> wfbh c0 (length comp) b' \/ exists o, In o above /\ oid o = b'.

Theorem occurs_loop_complete c0 b0 : cwf c0 -> forall fuel c st ip comp c' ,
  keeps_part c0 c -> c_slab c = c_slab c0 ->
  NoDup (comp ++ dones st) -> (forall d, In d (dones st) -> mem d ip = true) ->
  (forall d, In d (comp ++ dones st) -> (d < length (c_slab c0))%nat) ->
  (forall d, In d comp -> wfbh c0 (length comp) d) ->
  pending c0 comp st ->
  (In b0 comp \/ exists o, In o st /\ oid o = b0) ->
  (forall o, In o st -> (oid o < length (c_slab c0))%nat) ->
  occurs_loop fuel c st ip comp = Ok (c', false) ->
  exists h, (h <= length (c_slab c0))%nat /\ wfbh c0 h b0.
Proof.
  intros CW0. induction fuel as [|f IH]; intros c st ip comp c' K Es ND Hip Hlt Good Pend Tgt Hst H; [discriminate|].
  assert (CW : cwf c) by (apply (cwf_keeps c0 c CW0 K Es)).
  cbn [occurs_loop] in H. destruct st as [|[b|id] rest].
  - (* finished *)
    destruct Tgt as [Hin|(o & [] & _)]. exists (length comp). split; [|apply Good; exact Hin].
    cbn [dones] in ND, Hlt. rewrite app_nil_r in ND, Hlt.
    assert (Inc : incl comp (seq 0 (length (c_slab c0)))) by (intros d Hd; apply in_seq; pose proof (Hlt d Hd); lia).
    pose proof (NoDup_incl_length ND Inc) as L. rewrite seq_length in L. exact L.
  - cbn [dones] in *.
    assert (Hrest : forall o, In o rest -> (oid o < length (c_slab c0))%nat) by (intros o Ho; apply Hst; right; exact Ho).
    destruct (mem b comp) eqn:Mc.
    + (* already completed: skip *)
      assert (Bc : In b comp).
      { unfold mem in Mc. apply existsb_exists in Mc. destruct Mc as (y & Hy & E). apply Nat.eqb_eq in E. subst y. exact Hy. }
      apply (IH c rest ip comp c' K Es ND Hip Hlt Good); auto.
      * intros above d below E b' Hc. destruct (Pend (OIter b :: above) d below ltac:(rewrite E; reflexivity) b' Hc) as [Hw|(o & [<-|Ho] & Eo)].
        -- left. exact Hw.
        -- left. cbn [oid] in Eo. subst b'. apply Good. exact Bc.
        -- right. exists o. auto.
      * destruct Tgt as [Hin|(o & [<-|Ho] & Eo)]; [left; exact Hin|left; cbn [oid] in Eo; subst b0; exact Bc|right; exists o; auto].
    + destruct (mem b ip) eqn:Mi; [discriminate|].
      assert (Lb : (b < length (c_slab c0))%nat) by (apply (Hst (OIter b)); left; reflexivity).
      destruct (kids_total c b CW) as (c1 & k & Ek & K1 & E1 & Hk). rewrite Ek in H. cbn [obind] in H.
      pose proof (kids_cb c0 c b CW0 K Es CW c1 k Ek) as Kc.
      assert (K01 : keeps_part c0 c1) by (unfold keeps_part in *; eapply same_part_trans; eassumption).
      assert (Es1 : c_slab c1 = c_slab c0) by congruence.
      assert (Bnc : ~ In b comp).
      { intros Hin. assert (mem b comp = true) by (apply existsb_exists; exists b; split; [exact Hin|apply Nat.eqb_refl]). congruence. }
      assert (Bnd : ~ In b (dones rest)) by (intros Hin; rewrite (Hip b Hin) in Mi; discriminate).
      assert (ND' : NoDup (comp ++ b :: dones rest)).
      { apply NoDup_insert; [exact ND|]. intros Hin. apply in_app_or in Hin. tauto. }
      destruct k as [[l r]|].
      * destruct (Hk l r eq_refl) as [Ll Lr]. rewrite Es in Ll, Lr.
        apply (IH c1 (OIter l :: OIter r :: ODone b :: rest) (b :: ip) comp c' K01 Es1); auto.
        -- intros d [<-|Hd]; [unfold mem; cbn [existsb]; rewrite Nat.eqb_refl; reflexivity|].
           unfold mem. cbn [existsb]. rewrite (Hip d Hd : existsb (Nat.eqb d) ip = true). apply orb_true_r.
        -- intros d Hd. apply in_app_or in Hd. destruct Hd as [Hd|[<-|Hd]]; [apply Hlt; apply in_or_app; auto|exact Lb|apply Hlt; apply in_or_app; auto].
        -- intros above d below E b' Hc.
           destruct above as [|o1 above]; [discriminate|]. injection E as <- E.
           destruct above as [|o2 above]; [discriminate|]. injection E as <- E.
           destruct above as [|o3 above].
           ++ injection E as <- <-. right. apply Kc in Hc. destruct Hc as [-> | ->]; [exists (OIter l)|exists (OIter r)]; cbn; auto.
           ++ injection E as <- E. destruct (Pend (OIter b :: above) d below ltac:(rewrite E; reflexivity) b' Hc) as [Hw|(o & [<-|Ho] & Eo)].
              ** left. exact Hw.
              ** right. exists (ODone b). cbn. auto.
              ** right. exists o. cbn. auto.
        -- destruct Tgt as [Hin|(o & [<-|Ho] & Eo)]; [left; exact Hin|right; exists (ODone b); cbn; auto|right; exists o; cbn; auto].
        -- intros o [<-|[<-|[<-|Ho]]]; cbn [oid]; auto.
      * apply (IH c1 (ODone b :: rest) (b :: ip) comp c' K01 Es1); auto.
        -- intros d [<-|Hd]; [unfold mem; cbn [existsb]; rewrite Nat.eqb_refl; reflexivity|].
           unfold mem. cbn [existsb]. rewrite (Hip d Hd : existsb (Nat.eqb d) ip = true). apply orb_true_r.
        -- intros d Hd. apply in_app_or in Hd. destruct Hd as [Hd|[<-|Hd]]; [apply Hlt; apply in_or_app; auto|exact Lb|apply Hlt; apply in_or_app; auto].
        -- intros above d below E b' Hc.
           destruct above as [|o1 above].
           ++ injection E as <- <-. exfalso. exact (Kc b' Hc).
           ++ injection E as <- E. destruct (Pend (OIter b :: above) d below ltac:(rewrite E; reflexivity) b' Hc) as [Hw|(o & [<-|Ho] & Eo)].
              ** left. exact Hw.
              ** right. exists (ODone b). cbn. auto.
              ** right. exists o. cbn. auto.
        -- destruct Tgt as [Hin|(o & [<-|Ho] & Eo)]; [left; exact Hin|right; exists (ODone b); cbn; auto|right; exists o; cbn; auto].
        -- intros o [<-|Ho]; cbn [oid]; auto.
  - (* a Done marker: all its children are well founded *)
    cbn [dones] in *.
    assert (Wid : wfbh c0 (S (length comp)) id).
    { apply wfbh_node. intros b' Hc. destruct (Pend [] id rest eq_refl b' Hc) as [Hw|(o & [] & _)]. exact Hw. }
    assert (ND' : NoDup ((id :: comp) ++ dones rest)) by (cbn [app]; apply NoDup_cons_iff; apply NoDup_remove in ND; tauto).
    apply NoDup_remove in ND. destruct ND as [ND Nid].
    apply (IH c rest (remove_nat id ip) (id :: comp) c' K Es ND'); auto.
    + intros d Hd. assert (Nd : d <> id) by (intros ->; apply Nid; apply in_or_app; auto).
      rewrite (mem_remove_neq d id ip Nd). apply Hip. right. exact Hd.
    + intros d Hd. cbn [app] in Hd. destruct Hd as [<-|Hd]; [apply Hlt; apply in_or_app; right; left; reflexivity|].
      apply in_app_or in Hd. apply Hlt. apply in_or_app. destruct Hd; [left|right; right]; assumption.
    + intros d [<-|Hd]; cbn [length]; [exact Wid|]. apply (wfbh_mono c0 (length comp)); [lia|apply Good; exact Hd].
    + intros above d below E b' Hc. destruct (Pend (ODone id :: above) d below ltac:(rewrite E; reflexivity) b' Hc) as [Hw|(o & [<-|Ho] & Eo)].
      * left. cbn [length]. apply (wfbh_mono c0 (length comp)); [lia|exact Hw].
      * left. cbn [oid] in Eo. subst b'. exact Wid.
      * right. exists o. auto.
    + destruct Tgt as [Hin|(o & [<-|Ho] & Eo)]; [left; right; exact Hin|left; left; exact Eo|right; exists o; auto].
    + intros o Ho. apply Hst. right. exact Ho.
Qed.

(* ================================================================== the completion loop terminates within S |slab| *)
Definition srel (c c' : ctx) : Prop :=
  keeps_part c c' /\ forall b, slab_get c' b = slab_get c b \/ exists t, slab_get c' b = RComplete t.

Lemma srel_of_FinInv c c' : FinInv c c' -> srel c c'.
Proof. intros (_ & _ & K & Sl). split; [exact K|]. intros b. destruct (Sl b) as [E|[E _]]; auto. Qed.

Lemma srel_trans c1 c2 c3 : srel c1 c2 -> srel c2 c3 -> srel c1 c3.
Proof.
  intros [K1 S1] [K2 S2]. split; [unfold keeps_part in *; eapply same_part_trans; eassumption|].
  intros b. destruct (S2 b) as [E|E]; [rewrite E; apply S1|right; exact E].
Qed.

Lemma srel_same_part c u' : cwf c -> same_part (c_uf c) u' -> srel c (put_uf c u').
Proof. intros CW P. split; [exact P|]. intros b. left. reflexivity. Qed.

Lemma cb_srel c c' x : cwf c -> srel c c' -> (x < length (c_uf c))%nat -> cb c' x = cb c x.
Proof.
  intros (W & _) [K _] Hx. unfold cb. pose proof K as (_ & _ & R & _). rewrite (R x Hx).
  apply (same_part_bref _ _ _ K). apply rep_root; assumption.
Qed.

Lemma wfbh_srel c c' h d : cwf c -> srel c c' -> wfbh c h d -> wfbh c' h d.
Proof.
  intros CW SR H. pose proof CW as (_ & Ch & _). pose proof SR as [K Sl].
  induction H as [h d E|h d t E|h h0 d x1 x2 E Lh H1 IH1 H2 IH2|h h0 d x1 x2 E Lh H1 IH1 H2 IH2].
  - destruct (Sl d) as [E'|(t & E')]; [apply wl_free; congruence|eapply wl_complete; exact E'].
  - destruct (Sl d) as [E'|(t' & E')]; [eapply wl_complete; rewrite E'; exact E|eapply wl_complete; exact E'].
  - destruct (Ch d x1 x2 (or_introl E)) as [L1 L2].
    destruct (Sl d) as [E'|(t' & E')]; [|eapply wl_complete; exact E'].
    apply (wp_sum c' h h0 d x1 x2); [congruence|exact Lh| |]; rewrite (cb_srel c c' _ CW SR); assumption.
  - destruct (Ch d x1 x2 (or_intror E)) as [L1 L2].
    destruct (Sl d) as [E'|(t' & E')]; [|eapply wl_complete; exact E'].
    apply (wp_prod c' h h0 d x1 x2); [congruence|exact Lh| |]; rewrite (cb_srel c c' _ CW SR); assumption.
Qed.

Theorem fin_bound_total : forall fuel c b r h, cwf c -> holds_ref c r b -> wfbh c h b -> (h < fuel)%nat ->
  exists c' t, fin_bound fuel c b = Ok (c', t).
Proof.
  induction fuel as [|f IH]; intros c b r h CW HR Hw Hf; [lia|].
  pose proof CW as (W & Ch & _). cbn [fin_bound].
  destruct (slab_get c b) as [|t|x1 x2|x1 x2] eqn:Eb.
  - unfold reassign_non_complete. rewrite Eb. cbn [obind]. eauto.
  - eauto.
  - inversion Hw as [? ? E|? ? ? E|? h' ? y1 y2 E Lh H1 H2|? h' ? y1 y2 E Lh H1 H2]; subst; try (rewrite Eb in E; discriminate).
    rewrite Eb in E. injection E as <- <-.
    destruct (Ch b x1 x2 (or_introl Eb)) as [L1 L2].
    destruct (kids_pair c b true x1 x2 CW Eb L1 L2) as (u' & Ek & P). rewrite Ek. cbn [obind].
    fold (cb c x1). fold (cb c x2).
    set (c1 := put_uf c u').
    pose proof (cwf_same_part c u' CW P) as CW1. fold c1 in CW1.
    pose proof (srel_same_part c u' CW P) as SR1. fold c1 in SR1.
    destruct (rep_root _ x1 W L1) as [Rr1 Lr1]. destruct (rep_root _ x2 W L2) as [Rr2 Lr2].
    assert (HR1 : holds_ref c1 (rep (c_uf c) x1) (cb c x1)) by (apply holds_ref_same_part; [exact P|repeat split; auto]).
    assert (HR2 : holds_ref c1 (rep (c_uf c) x2) (cb c x2)) by (apply holds_ref_same_part; [exact P|repeat split; auto]).
    destruct (IH c1 (cb c x1) _ h' CW1 HR1 (wfbh_srel c c1 _ _ CW SR1 H1) ltac:(lia)) as (c2 & ta & E1). rewrite E1. cbn [obind].
    pose proof (fin_bound_wfd c1 f c1 (cb c x1) _ (FinInv_refl c1 CW1) HR1) as FW. rewrite E1 in FW. destruct FW as (I2 & K2 & _).
    pose proof I2 as (_ & CW2 & _). pose proof (srel_trans _ _ _ SR1 (srel_of_FinInv _ _ I2)) as SR2.
    destruct (IH c2 (cb c x2) _ h' CW2 (holds_ref_keeps _ _ _ _ K2 HR2) (wfbh_srel c c2 _ _ CW SR2 H2) ltac:(lia)) as (c3 & tb & E2).
    rewrite E2. cbn [obind].
    destruct (slab_get c3 b) as [|t3|z1 z2|z1 z2] eqn:Eb3; unfold reassign_non_complete; rewrite ?Eb3; cbn [obind]; eauto.
  - inversion Hw as [? ? E|? ? ? E|? h' ? y1 y2 E Lh H1 H2|? h' ? y1 y2 E Lh H1 H2]; subst; try (rewrite Eb in E; discriminate).
    rewrite Eb in E. injection E as <- <-.
    destruct (Ch b x1 x2 (or_intror Eb)) as [L1 L2].
    destruct (kids_pair c b false x1 x2 CW Eb L1 L2) as (u' & Ek & P). rewrite Ek. cbn [obind].
    fold (cb c x1). fold (cb c x2).
    set (c1 := put_uf c u').
    pose proof (cwf_same_part c u' CW P) as CW1. fold c1 in CW1.
    pose proof (srel_same_part c u' CW P) as SR1. fold c1 in SR1.
    destruct (rep_root _ x1 W L1) as [Rr1 Lr1]. destruct (rep_root _ x2 W L2) as [Rr2 Lr2].
    assert (HR1 : holds_ref c1 (rep (c_uf c) x1) (cb c x1)) by (apply holds_ref_same_part; [exact P|repeat split; auto]).
    assert (HR2 : holds_ref c1 (rep (c_uf c) x2) (cb c x2)) by (apply holds_ref_same_part; [exact P|repeat split; auto]).
    destruct (IH c1 (cb c x1) _ h' CW1 HR1 (wfbh_srel c c1 _ _ CW SR1 H1) ltac:(lia)) as (c2 & ta & E1). rewrite E1. cbn [obind].
    pose proof (fin_bound_wfd c1 f c1 (cb c x1) _ (FinInv_refl c1 CW1) HR1) as FW. rewrite E1 in FW. destruct FW as (I2 & K2 & _).
    pose proof I2 as (_ & CW2 & _). pose proof (srel_trans _ _ _ SR1 (srel_of_FinInv _ _ I2)) as SR2.
    destruct (IH c2 (cb c x2) _ h' CW2 (holds_ref_keeps _ _ _ _ K2 HR2) (wfbh_srel c c2 _ _ CW SR2 H2) ltac:(lia)) as (c3 & tb & E2).
    rewrite E2. cbn [obind].
    destruct (slab_get c3 b) as [|t3|z1 z2|z1 z2] eqn:Eb3; unfold reassign_non_complete; rewrite ?Eb3; cbn [obind]; eauto.
Qed.

(* ================================================================== Type::finalize and the finalisation stage are total *)
Theorem finalize_total c e : cwf c -> (e < length (c_uf c))%nat -> exists c' o, finalize c e = Ok (c', o).
Proof.
  intros CW He. pose proof CW as (W & Ch & Un & Br).
  unfold finalize. destruct (c_root_spec c e CW He) as (ua & Ea & Pa). rewrite Ea. cbn [obind].
  set (c1 := put_uf c ua). pose proof (cwf_same_part c ua CW Pa) as CW1. fold c1 in CW1.
  set (r := rep (c_uf c) e) in *. destruct (rep_root _ e W He) as [Rr Lr]. fold r in Rr, Lr.
  set (b := bref_of (c_uf c) r) in *.
  assert (HR : holds_ref c1 r b) by (apply holds_ref_same_part; [exact Pa|repeat split; auto]).
  assert (Lb : (b < length (c_slab c1))%nat) by (apply Br; assumption).
  destruct (slab_get c1 b) as [|t|x1 x2|x1 x2] eqn:Eb; [|eauto| |].
  all: destruct (occurs_check_total c1 b CW1 Lb) as (c2 & cyc & Eo); rewrite Eo; cbn [obind]; destruct cyc; [eauto|].
  all: pose proof (occurs_loop_part (occurs_fuel c1) c1 [OIter b] [] [] CW1) as Op; unfold occurs_check in Eo; rewrite Eo in Op; destruct Op as [K2 Es2].
  all: destruct (occurs_loop_complete c1 b CW1 (occurs_fuel c1) c1 [OIter b] [] [] c2 (same_part_refl _ (proj1 CW1)) eq_refl) as (h & Lh & Hw);
    [constructor|intros d []|intros d []|intros d []| |right; exists (OIter b); split; [left; reflexivity|reflexivity]|intros o [<-|[]]; exact Lb|exact Eo|].
  all: try (intros above d below E; destruct above as [|o [|? ?]]; discriminate).
  all: pose proof (cwf_keeps c1 c2 CW1 K2 Es2) as CW2.
  all: assert (SR : srel c1 c2) by (split; [exact K2|]; intros b0; left; unfold slab_get; rewrite Es2; reflexivity).
  all: destruct (fin_bound_total (S (length (c_slab c2))) c2 b r h CW2 (holds_ref_keeps _ _ _ _ K2 HR) (wfbh_srel c1 c2 _ _ CW1 SR Hw) ltac:(rewrite Es2; lia)) as (c3 & t & Ef);
    rewrite Ef; cbn [obind]; eauto.
Qed.

Definition terminated {A} (r : rres A) : Prop := match r with Ok _ | Err _ => True | _ => False end.

Lemma fin_ty_total c e : cwf c -> (e < length (c_uf c))%nat ->
  match fin_ty c e with
  | Ok (c', _) => cwf c' /\ length (c_uf c') = length (c_uf c)
  | Err _ => True
  | _ => False
  end.
Proof.
  intros CW He. destruct (finalize_total c e CW He) as (c' & o & E). pose proof (finalize_wfd c c e (FinInv_refl c CW) He) as F.
  unfold fin_ty. rewrite E in *. cbn [lift_fin obind]. destruct o as [t|]; [|exact I].
  destruct F as ((_ & CW' & _) & L & _). split; assumption.
Qed.

Lemma fin_arrow_total sf c a : cwf c ->
  (forall x y, a = Some (x, y) -> (x < length (c_uf c))%nat /\ (y < length (c_uf c))%nat) ->
  match fin_arrow sf c a with
  | Ok c' => cwf c' /\ length (c_uf c') = length (c_uf c)
  | Err _ => True
  | _ => False
  end.
Proof.
  intros CW Ha. unfold fin_arrow. destruct a as [[s t]|]; [|split; [exact CW|reflexivity]].
  destruct (Ha s t eq_refl) as [Ls Lt].
  assert (G : forall u v, (u < length (c_uf c))%nat -> (v < length (c_uf c))%nat ->
            match ('(c1, _) <- fin_ty c u ;; '(c2, _) <- fin_ty c1 v ;; Ok c2) with
            | Ok c' => cwf c' /\ length (c_uf c') = length (c_uf c) | Err _ => True | _ => False end).
  { intros u v Lu Lv. pose proof (fin_ty_total c u CW Lu) as F1.
    destruct (fin_ty c u) as [[c1 t1]|e1| |]; cbn [obind]; try exact F1; try exact I.
    destruct F1 as (CW1 & L1). pose proof (fin_ty_total c1 v CW1 ltac:(lia)) as F2.
    destruct (fin_ty c1 v) as [[c2 t2]|e2| |]; cbn [obind]; try exact F2; try exact I.
    destruct F2 as (CW2 & L2). split; [exact CW2|lia]. }
  destruct sf; [apply (G s t Ls Lt)|apply (G t s Lt Ls)].
Qed.

Lemma fin_list_total sf ar : forall l c, cwf c -> arr_in (length (c_uf c)) ar ->
  match fin_list sf c ar l with
  | Ok c' => cwf c' /\ length (c_uf c') = length (c_uf c)
  | Err _ => True
  | _ => False
  end.
Proof.
  induction l as [|i rest IH]; intros c CW Ai; cbn [fin_list]; [split; [exact CW|reflexivity]|].
  pose proof (fin_arrow_total sf c (nth i ar None) CW) as F.
  specialize (F ltac:(intros x y E; apply (Ai i); rewrite SlabConstruct.arr_of_nth; exact E)).
  destruct (fin_arrow sf c (nth i ar None)) as [c1|e1| |]; cbn [obind]; try exact F; try exact I.
  destruct F as (CW1 & L1). pose proof (IH c1 CW1 ltac:(rewrite L1; exact Ai)) as R.
  destruct (fin_list sf c1 ar rest) as [c2|e2| |]; try exact R; try exact I.
  destruct R as (CW2 & L2). split; [exact CW2|lia].
Qed.

Lemma read_arrows_total ar : forall l c, cwf c -> arr_in (length (c_uf c)) ar -> terminated (read_arrows c ar l).
Proof.
  induction l as [|i rest IH]; intros c CW Ai; cbn [read_arrows]; [exact I|].
  destruct (nth i ar None) as [[s t]|] eqn:En.
  - destruct (Ai i s t ltac:(rewrite SlabConstruct.arr_of_nth; exact En)) as [Ls Lt].
    pose proof (fin_ty_total c s CW Ls) as F1.
    destruct (fin_ty c s) as [[c1 t1]|e1| |]; cbn [obind]; try exact F1; try exact I.
    destruct F1 as (CW1 & L1). pose proof (fin_ty_total c1 t CW1 ltac:(lia)) as F2.
    destruct (fin_ty c1 t) as [[c2 t2]|e2| |]; cbn [obind]; try exact F2; try exact I.
    destruct F2 as (CW2 & L2). pose proof (IH c2 CW2 ltac:(rewrite L2, L1; exact Ai)) as R.
    destruct (read_arrows c2 ar rest) as [r|e3| |]; cbn [obind]; try exact R; exact I.
  - pose proof (IH c CW Ai) as R.
    destruct (read_arrows c ar rest) as [r|e3| |]; cbn [obind]; try exact R; exact I.
Qed.

Theorem r_finish_total fmode p canon root c ar : cwf c -> arr_in (length (c_uf c)) ar ->
  terminated (SlabRun.r_finish fmode p canon root c ar).
Proof.
  intros CW Ai. unfold SlabRun.r_finish.
  assert (G : forall X : rres ctx,
            match X with Ok c' => cwf c' /\ length (c_uf c') = length (c_uf c) | Err _ => True | _ => False end ->
            terminated (c1 <- X ;; read_arrows c1 ar canon)).
  { intros X HX. destruct X as [c1|e1| |]; cbn [obind]; try exact HX; try exact I.
    destruct HX as (CW1 & L1). apply (read_arrows_total ar canon c1 CW1). rewrite L1. exact Ai. }
  apply G. destruct fmode as [|[|[|k]]]; try (apply fin_list_total; assumption).
  destruct (nth root ar None); [apply fin_list_total; assumption|split; [exact CW|reflexivity]].
Qed.
