#!/usr/bin/env python3
"""Merge a sub-crate /verif/harness_<name>/ (developed separately) into the main harness crate:
copies its module files, adds the `mod` declarations and the command dispatch arms to
harness/src/main.rs.  Usage: merge_harness.py <name> [<name> ...]"""
import os
import re
import shutil
import sys

VERIF = os.path.dirname(os.path.dirname(os.path.abspath(__file__)))
MAIN = os.path.join(VERIF, "harness", "src", "main.rs")
SHARED = {"main.rs", "util.rs", "prog.rs"}


def merge(name):
    src = os.path.join(VERIF, "harness_" + name, "src")
    main_sub = open(os.path.join(src, "main.rs")).read()
    main = open(MAIN).read()
    for fn in sorted(os.listdir(src)):
        if fn in SHARED or not fn.endswith(".rs"):
            if fn in ("util.rs", "prog.rs"):
                a = open(os.path.join(src, fn)).read()
                b = open(os.path.join(VERIF, "harness", "src", fn)).read()
                if a != b:
                    print("WARNING: %s/%s differs from the main harness copy" % (name, fn))
            continue
        dst = os.path.join(VERIF, "harness", "src", fn)
        if os.path.exists(dst) and open(dst).read() != open(os.path.join(src, fn)).read():
            print("NOTE: overwriting harness/src/%s" % fn)
        shutil.copy(os.path.join(src, fn), dst)
        mod = fn[:-3]
        if not re.search(r"^mod %s;" % re.escape(mod), main, re.M):
            main = main.replace("mod util;\n", "mod %s;\nmod util;\n" % mod)
    # dispatch arms
    for m in re.finditer(r'^\s*("[a-z0-9_]+")\s*=>\s*([a-z0-9_]+)::(run[a-z0-9_]*)\(&toks\[1\.\.\]\),\s*$', main_sub, re.M):
        cmd, mod, fn = m.group(1), m.group(2), m.group(3)
        if mod in ("bits", "budget", "findings", "prog") and cmd in main:
            continue
        if cmd + " =>" in main:
            continue
        arm = "            %s => %s::%s(&toks[1..]),\n" % (cmd, mod, fn)
        main = main.replace("            other => {\n", arm + "            other => {\n", 1)
    # keep the mod list sorted
    mods = sorted(set(re.findall(r"^mod ([a-z0-9_]+);", main, re.M)))
    main = re.sub(r"(^mod [a-z0-9_]+;\n)+", "".join("mod %s;\n" % m for m in mods), main, count=1, flags=re.M)
    open(MAIN, "w").write(main)
    # extra Cargo dependencies?
    ct_sub = open(os.path.join(VERIF, "harness_" + name, "Cargo.toml")).read()
    ct = open(os.path.join(VERIF, "harness", "Cargo.toml")).read()
    deps_sub = re.search(r"\[dependencies\]\n(.*?)\n\n", ct_sub + "\n\n", re.S).group(1).split("\n")
    for d in deps_sub:
        k = d.split("=")[0].strip()
        if k and not re.search(r"^%s\s*=" % re.escape(k), ct, re.M):
            print("NOTE: dependency of %s not in main harness: %s" % (name, d))


if __name__ == "__main__":
    for n in sys.argv[1:]:
        merge(n)
