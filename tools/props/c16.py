"""C16 - Policies compile, satisfy and canonicalise consistently."""
import hashlib
import itertools
import os

import vplib
from vplib import Case, coq_list

PROP = "C16"
LEVEL = "proof"
IMPORTS = ["Policy.PolicyAst", "Policy.Compile", "Policy.Run"]
CRATE = None  # merged into the main harness crate
NKEYS = 8
HEIGHT_LIMIT = 500000000
CONSENSUS_MAX = 4000050000
SEQ_FINAL = 0xFFFFFFFF

# ------------------------------------------------------------ independent key / hash tables
_P = 2**256 - 2**32 - 977
_G = (0x79BE667EF9DCBBAC55A06295CE870B07029BFCDB2DCE28D959F2815B16F81798,
      0x483ADA7726A3C4655DA4FBFC0E1108A8FD17B448A68554199C47D08FFB10D4B8)


def _add(a, b):
    if a is None:
        return b
    if b is None:
        return a
    if a[0] == b[0] and (a[1] + b[1]) % _P == 0:
        return None
    if a == b:
        lam = 3 * a[0] * a[0] * pow(2 * a[1], _P - 2, _P) % _P
    else:
        lam = (b[1] - a[1]) * pow(b[0] - a[0], _P - 2, _P) % _P
    x = (lam * lam - a[0] - b[0]) % _P
    return (x, (lam * (a[0] - x) - a[1]) % _P)


def xonly(i):
    """x coordinate of i*G (secp256k1): the x-only public key of secret i"""
    r, q = None, _G
    while i:
        if i & 1:
            r = _add(r, q)
        q = _add(q, q)
        i >>= 1
    return r[0]


KEY = {i: xonly(i) for i in range(1, NKEYS + 1)}
IMG = {j: int.from_bytes(hashlib.sha256(bytes([j]) * 32).digest(), "big") for j in range(1, NKEYS + 1)}


# the model and the harness identify keys / images by their rank in the order of the values
KEYRANK = {i: 1 + sorted(KEY.values()).index(KEY[i]) for i in KEY}
IMGRANK = {j: 101 + sorted(IMG.values()).index(IMG[j]) for j in IMG}


def limbs(v):
    return [v >> 128, v & (2**128 - 1)]


# ------------------------------------------------------------ policies as python tuples
# ("U", e) ("T",) ("K", i) ("A", n) ("O", n) ("H", j) ("&", l, r) ("|", l, r) ("#", k, [subs])
def toks(p):
    t = p[0]
    if t == "T":
        return ["T"]
    if t in "UKAOH":
        return ["%s%d" % (t, p[1])]
    if t in "&|":
        return [t] + toks(p[1]) + toks(p[2])
    out = ["#%d:%d" % (p[1], len(p[2]))]
    for s in p[2]:
        out += toks(s)
    return out


def coq(p):
    t = p[0]
    if t == "U":
        return "(Unsat %d)" % p[1]
    if t == "T":
        return "Trivial"
    if t == "K":
        return "(Key %d)" % KEYRANK[p[1]]
    if t == "A":
        return "(After %d)" % p[1]
    if t == "O":
        return "(Older %d)" % p[1]
    if t == "H":
        return "(Sha256 %d)" % IMGRANK[p[1]]
    if t == "&":
        return "(And %s %s)" % (coq(p[1]), coq(p[2]))
    if t == "|":
        return "(Or %s %s)" % (coq(p[1]), coq(p[2]))
    return "(Thresh %d [%s])" % (p[1], "; ".join(coq(s) for s in p[2]))


def dump(p):
    t = p[0]
    if t == "U":
        return [0, p[1]]
    if t == "T":
        return [1]
    if t == "K":
        return [2, KEYRANK[p[1]]]
    if t == "A":
        return [3, p[1]]
    if t == "O":
        return [4, p[1]]
    if t == "H":
        return [5, IMGRANK[p[1]]]
    if t == "&":
        return [6] + dump(p[1]) + dump(p[2])
    if t == "|":
        return [7] + dump(p[1]) + dump(p[2])
    out = [8, p[1], len(p[2])]
    for s in p[2]:
        out += dump(s)
    return out


def undump(l, pos=0):
    """parse a dump back into a canonical python value (keys/hashes as numbers)"""
    t = l[pos]
    if t == 1:
        return ("T",), pos + 1
    if t in (0, 2, 3, 4, 5):
        return ("UxKAOH"[t], l[pos + 1]), pos + 2
    if t in (6, 7):
        a, pos = undump(l, pos + 1)
        b, pos = undump(l, pos)
        return ("&" if t == 6 else "|", a, b), pos
    if t == 8:
        k, n = l[pos + 1], l[pos + 2]
        pos += 3
        subs = []
        for _ in range(n):
            s, pos = undump(l, pos)
            subs.append(s)
        return ("#", k, subs), pos
    raise ValueError("dump")


def absval(p):
    """the python policy with keys/hashes replaced by their ranks (as undump produces)"""
    t = p[0]
    if t == "K":
        return ("K", KEYRANK[p[1]])
    if t == "H":
        return ("H", IMGRANK[p[1]])
    if t in "&|":
        return (t, absval(p[1]), absval(p[2]))
    if t == "#":
        return ("#", p[1], [absval(s) for s in p[2]])
    return p


TAGS = {"U": 0, "T": 1, "K": 2, "A": 3, "O": 4, "H": 5, "&": 6, "|": 7, "#": 8}


def okey(p):
    """the derived order of the Rust enum on abstract values: variant index, then fields"""
    t = p[0]
    if t in "&|":
        return (TAGS[t], okey(p[1]), okey(p[2]))
    if t == "#":
        return (TAGS[t], p[1], [okey(s) for s in p[2]])
    return (TAGS[t],) + tuple(p[1:])


def is_canonical(p):
    """and/or: larger child first; threshold: children ascending; recursively"""
    t = p[0]
    if t in "&|":
        return is_canonical(p[1]) and is_canonical(p[2]) and not okey(p[2]) > okey(p[1])
    if t == "#":
        ks = [okey(s) for s in p[2]]
        return all(is_canonical(s) for s in p[2]) and all(ks[i] <= ks[i + 1] for i in range(len(ks) - 1))
    return True


def multiset(p):
    """order-insensitive fingerprint: equal iff the policies are reorderings of each other"""
    t = p[0]
    if t in "&|":
        return (t, tuple(sorted([multiset(p[1]), multiset(p[2])], key=repr)))
    if t == "#":
        return (t, p[1], tuple(sorted([multiset(s) for s in p[2]], key=repr)))
    return p


def holds(p, o):
    """the property's truth evaluation: and-both, or-either, threshold at least k"""
    t = p[0]
    if t == "U":
        return False
    if t == "T":
        return True
    if t == "K":
        return p[1] in o["keys"]
    if t == "H":
        return p[1] in o["pres"]
    if t == "A":
        return p[1] <= o["after"]
    if t == "O":
        return p[1] <= o["older"]
    if t == "&":
        return holds(p[1], o) and holds(p[2], o)
    if t == "|":
        return holds(p[1], o) or holds(p[2], o)
    return sum(1 for s in p[2] if holds(s, o)) >= p[1]


def well_formed(p):
    t = p[0]
    if t == "A":
        return p[1] < HEIGHT_LIMIT
    if t in "&|":
        return well_formed(p[1]) and well_formed(p[2])
    if t == "#":
        return len(p[2]) >= 1 and p[1] <= len(p[2]) and all(well_formed(s) for s in p[2])
    return True


def leaves(p):
    t = p[0]
    if t in "&|":
        return leaves(p[1]) + leaves(p[2])
    if t == "#":
        return [x for s in p[2] for x in leaves(s)]
    return [p]


def size(p):
    t = p[0]
    if t in "&|":
        return 1 + size(p[1]) + size(p[2])
    if t == "#":
        return 1 + sum(size(s) for s in p[2])
    return 1


# environment as the lock-time jets see it (C: env.c, elementsJets.c), one input, version 2
def lock_height(lock_time, sequence):
    if sequence == SEQ_FINAL:
        return 0
    return lock_time if lock_time < HEIGHT_LIMIT else 0


def lock_distance(sequence):
    if sequence < 2**31 and not (sequence >> 22) & 1:
        return sequence & 0xFFFF
    return 0


# ------------------------------------------------------------ generators
def gen_policy(rng, depth, afters, olders):
    r = rng.below(100)
    if depth <= 0 or r < 30:
        k = rng.below(20)
        if k < 6:
            return ("K", rng.range(1, 4))
        if k < 11:
            return ("H", rng.range(1, 4))
        if k < 14:
            return ("A", rng.choice(afters))
        if k < 17:
            return ("O", rng.choice(olders))
        if k < 18:
            return ("T",)
        return ("U", rng.below(3))
    if r < 52:
        return ("&", gen_policy(rng, depth - 1, afters, olders), gen_policy(rng, depth - 1, afters, olders))
    if r < 76:
        return ("|", gen_policy(rng, depth - 1, afters, olders), gen_policy(rng, depth - 1, afters, olders))
    n = rng.range(1, 4)
    subs = [gen_policy(rng, depth - 1, afters, olders) for _ in range(n)]
    if rng.chance(1, 4) and n > 1:
        subs[rng.below(n)] = subs[rng.below(n)]      # equal children (shared case nodes)
    return ("#", rng.range(0, n), subs)


def sprinkle(rng, p):
    """wrap sub-policies of and/or nodes with trivial / unsatisfiable siblings"""
    t = p[0]
    if t in "&|":
        l, r = sprinkle(rng, p[1]), sprinkle(rng, p[2])
        k = rng.below(8)
        if k == 0:
            l = ("T",)
        elif k == 1:
            r = ("U", rng.below(3))
        elif k == 2:
            r = ("T",)
        elif k == 3:
            l = ("U", rng.below(3))
        return (t, l, r)
    return p


def holds_abs(p, o):
    """holds on abstract values (ranks), for dumps read back from the implementation"""
    t = p[0]
    if t == "U":
        return False
    if t == "T":
        return True
    if t == "K":
        return p[1] in o["keys"]
    if t == "H":
        return p[1] in o["pres"]
    if t == "A":
        return p[1] <= o["after"]
    if t == "O":
        return p[1] <= o["older"]
    if t == "&":
        return holds_abs(p[1], o) and holds_abs(p[2], o)
    if t == "|":
        return holds_abs(p[1], o) or holds_abs(p[2], o)
    return sum(1 for s in p[2] if holds_abs(s, o)) >= p[1]


def permute(rng, p, prob=2):
    """a random reordering of commutative children at random depths"""
    t = p[0]
    if t in "&|":
        l, r = permute(rng, p[1], prob), permute(rng, p[2], prob)
        return (t, r, l) if rng.chance(1, prob) else (t, l, r)
    if t == "#":
        subs = [permute(rng, s, prob) for s in p[2]]
        return ("#", p[1], rng.shuffle(subs) if rng.chance(1, prob) else subs)
    return p


def sat_case(p, lock_time, sequence, keys, pres, after_max=None, older_max=None):
    if after_max is None:
        after_max = lock_height(lock_time, sequence)
    if older_max is None:
        older_max = lock_distance(sequence)
    tk = toks(p)
    keymask = sum(1 << i for i in keys)
    premask = sum(1 << j for j in pres)
    line = "%d %s %d %d %d %d %d %d" % (len(tk), " ".join(tk), lock_time, sequence, after_max, older_max, keymask, premask)
    expr = "run_sat %s %d %d %d %d %s %s" % (coq(p), lock_time, sequence, after_max, older_max,
                                             coq_list([KEYRANK[i] for i in keys]), coq_list([IMGRANK[j] for j in pres]))
    meta = {"p": p, "lock_time": lock_time, "sequence": sequence, "after": after_max, "older": older_max,
            "keys": sorted(keys), "pres": sorted(pres),
            "truthful": after_max <= lock_height(lock_time, sequence) and older_max <= lock_distance(sequence)}
    return line, expr, meta


def corpus_cases():
    """corpus/C16/*.case: lines `kind args...` with the model expression after ` ## ` (optional)"""
    out = []
    d = os.path.join(vplib.VERIF, "corpus", PROP)
    if not os.path.isdir(d):
        return out
    for fn in sorted(os.listdir(d)):
        if not fn.endswith(".case"):
            continue
        for ln in open(os.path.join(d, fn)):
            ln = ln.strip()
            if not ln or ln.startswith("#"):
                continue
            out.append((fn, ln))
    return out


def parse_toks(tk, pos=0):
    t = tk[pos]
    c, rest = t[0], t[1:]
    if c == "T":
        return ("T",), pos + 1
    if c in "UKAOH":
        return (c, int(rest)), pos + 1
    if c in "&|":
        a, pos = parse_toks(tk, pos + 1)
        b, pos = parse_toks(tk, pos)
        return (c, a, b), pos
    k, n = rest.split(":")
    pos += 1
    subs = []
    for _ in range(int(n)):
        s, pos = parse_toks(tk, pos)
        subs.append(s)
    return ("#", int(k), subs), pos


def case_from_line(kind, args):
    """rebuild (line, expr, meta) of a case from its harness line (corpus / replay)"""
    a = args.split()
    if kind == "pol":
        p, _ = parse_toks(a)
        return args, "run_pol %s" % coq(p), {"p": p}
    if kind == "norm":
        p, _ = parse_toks(a)
        return args, "run_norm %s" % coq(p), {"p": p}
    if kind == "perm":
        n = int(a[0])
        p, _ = parse_toks(a[1:1 + n])
        q, _ = parse_toks(a[1 + n:])
        return args, "run_perm %s %s" % (coq(p), coq(q)), {"p": p, "q": q}
    if kind == "sat":
        n = int(a[0])
        p, _ = parse_toks(a[1:1 + n])
        lt, sq, am, om, km, pm = [int(x) for x in a[1 + n:]]
        keys = [i for i in range(1, NKEYS + 1) if km >> i & 1]
        pres = [i for i in range(1, NKEYS + 1) if pm >> i & 1]
        return sat_case(p, lt, sq, keys, pres, am, om)
    if kind == "lib":
        lt, sq, na, no = [int(x) for x in a]
        return args, "run_lib %d %d %d %d" % (lt, sq, na, no), {"lock_time": lt, "sequence": sq, "n_after": na, "n_older": no}
    if kind == "jets":
        return "", "run_jets", {}
    if kind == "key":
        return args, None, {"i": int(a[0])}
    if kind == "hash":
        return args, None, {"j": int(a[0])}
    raise ValueError(kind)


def gen_cases(rng, tier):
    cases = []
    k = [0]

    def add(kind, line, expr, meta):
        k[0] += 1
        cases.append(Case("c%d" % k[0], kind, line, expr, meta))

    # 0. corpus first (the witness of the sort defect fixed in /repo comes first)
    for fn, ln in corpus_cases():
        kind, _, args = ln.partition(" ")
        line, expr, meta = case_from_line(kind, args)
        meta["corpus"] = fn
        add(kind, line, expr, meta)

    # 1. constants and the key / hash tables
    add("jets", "", "run_jets", {})
    for i in range(1, NKEYS + 1):
        add("key", "%d" % i, None, {"i": i})      # real bytes against python's secp256k1 / sha256 (prop_check)
        add("hash", "%d" % i, None, {"j": i})
        # ranks: the order of the implementation's Ord on keys / images against python's numeric order
        add("pol", "K%d" % i, "run_pol %s" % coq(("K", i)), {"p": ("K", i)})
        add("pol", "H%d" % i, "run_pol %s" % coq(("H", i)), {"p": ("H", i)})

    quick = tier == "quick"
    afters = [0, 1, 10, 11, 12, 499999999]
    olders = [0, 1, 10, 11, 12, 65535]
    envs = [(0, SEQ_FINAL), (11, 0), (10, 5), (12, 11), (499999999, 12), (HEIGHT_LIMIT, 10), (11, SEQ_FINAL),
            (11, 0x80000000 | 12), (11, (1 << 22) | 12), (1, 65535), (11, 0xFFFFFFFE), (4294967295, 11)]

    # 2. sorting: random trees and reorderings of them
    for _ in range(150 if quick else 3000):
        p = gen_policy(rng, rng.range(1, 4), afters, olders)
        add("pol", " ".join(toks(p)), "run_pol %s" % coq(p), {"p": p})
    for _ in range(250 if quick else 5000):
        p = gen_policy(rng, rng.range(1, 4 if quick else 5), afters, olders)
        q = permute(rng, p, rng.choice([2, 2, 3, 5]))
        tp, tq = toks(p), toks(q)
        add("perm", "%d %s %s" % (len(tp), " ".join(tp), " ".join(tq)), "run_perm %s %s" % (coq(p), coq(q)), {"p": p, "q": q})
    # normalisation (not part of the property's statement; meaning preservation is checked)
    for _ in range(100 if quick else 2000):
        p = gen_policy(rng, rng.range(1, 4), afters, olders)
        if rng.chance(1, 2):
            p = sprinkle(rng, p)
        add("norm", " ".join(toks(p)), "run_norm %s" % coq(p), {"p": p})
    # malformed stream: thresholds outside 1 <= |subs|, k <= |subs|; timelocks outside the height range
    bad = [("#", 3, [("K", 1), ("K", 2)]), ("#", 0, []), ("#", 1, []), ("A", HEIGHT_LIMIT), ("A", 4294967295),
           ("&", ("A", HEIGHT_LIMIT), ("T",)), ("|", ("#", 2, [("T",)]), ("T",)), ("#", 1, [("#", 5, [("T",), ("H", 1)])]),
           ("#", 4294967296, [("T",)])]
    for p in bad:
        add("pol", " ".join(toks(p)), "run_pol %s" % coq(p), {"p": p})
        line, expr, meta = sat_case(p, 11, 0, [1], [1])
        add("sat", line, expr, meta)

    # 3. satisfaction: every leaf x every relevant environment; small trees x all availability subsets
    for leaf in [("A", n) for n in afters] + [("O", n) for n in olders]:
        for (lt, sq) in envs:
            line, expr, meta = sat_case(leaf, lt, sq, [], [])
            add("sat", line, expr, meta)
    for leaf in [("T",), ("U", 0), ("K", 1), ("H", 1)]:
        for (lt, sq) in envs[:2] if quick else envs:
            for keys, pres in (([], []), ([1], [1])):
                line, expr, meta = sat_case(leaf, lt, sq, keys, pres)
                add("sat", line, expr, meta)
    small = [("&", ("K", 1), ("H", 1)), ("|", ("K", 1), ("H", 1)), ("|", ("K", 1), ("K", 2)),
             ("#", 2, [("K", 1), ("H", 1), ("K", 2)]), ("#", 1, [("H", 1), ("H", 1)]), ("#", 2, [("H", 1), ("H", 1), ("H", 2)]),
             ("#", 0, [("K", 1), ("H", 2)]), ("#", 3, [("K", 1), ("H", 1), ("A", 10)]),
             ("&", ("|", ("K", 1), ("A", 11)), ("#", 1, [("H", 2), ("O", 10)])),
             ("|", ("&", ("K", 1), ("K", 2)), ("&", ("H", 1), ("O", 11))),
             ("#", 2, [("|", ("K", 1), ("H", 1)), ("&", ("K", 2), ("H", 2)), ("U", 1), ("T",)])]
    for p in small:
        ks = sorted({l[1] for l in leaves(p) if l[0] == "K"})
        hs = sorted({l[1] for l in leaves(p) if l[0] == "H"})
        for nk in range(len(ks) + 1):
            for kk in itertools.combinations(ks, nk):
                for nh in range(len(hs) + 1):
                    for hh in itertools.combinations(hs, nh):
                        for (lt, sq) in ((10, 10), (11, 11)):
                            line, expr, meta = sat_case(p, lt, sq, list(kk), list(hh))
                            add("sat", line, expr, meta)
    # random trees, random availability, environments straddling the timelocks
    for _ in range(400 if quick else 8000):
        p = gen_policy(rng, rng.range(1, 4 if quick else 5), afters, olders)
        lt, sq = rng.choice(envs)
        if rng.chance(1, 3):
            lt, sq = rng.choice([9, 10, 11, 12, 13]), rng.choice([9, 10, 11, 12, 13])
        keys = [i for i in range(1, 5) if rng.chance(1, 2)]
        pres = [i for i in range(1, 5) if rng.chance(1, 2)]
        line, expr, meta = sat_case(p, lt, sq, keys, pres)
        add("sat", line, expr, meta)
    # satisfiers that claim more than the environment grants (outside the premise: AssemblyFailed expected)
    for _ in range(30 if quick else 300):
        p = gen_policy(rng, rng.range(1, 3), afters, olders)
        lt, sq = rng.choice(envs)
        line, expr, meta = sat_case(p, lt, sq, [1, 2, 3, 4], [1, 2, 3, 4], after_max=499999999, older_max=65535)
        add("sat", line, expr, meta)

    # 4. the satisfiers provided by satisfy.rs for (Context, LockTime) / (Context, Sequence)
    seqs = [0, 5, 10, 11, 12, 65535, 65536 + 11, 0x7FFFFFFF, 0x80000000, 0x80000000 | 11, (1 << 22) | 11, 0xFFFFFFFE, SEQ_FINAL]
    lts = [0, 10, 11, 12, 499999999, HEIGHT_LIMIT, HEIGHT_LIMIT + 11, 4294967295]
    for lt in lts:
        for sq in seqs:
            for n in (0, 11, 12):
                add("lib", "%d %d %d %d" % (lt, sq, n, n), "run_lib %d %d %d %d" % (lt, sq, n, n),
                    {"lock_time": lt, "sequence": sq, "n_after": n, "n_older": n})
    return cases


# ------------------------------------------------------------ the property, tested directly on the implementation
def parse_sat(r):
    """split a `sat` result into its parts"""
    o = {"roots": r[0], "verdict": r[1]}
    if r[1] != 1:
        return o
    o["cmr_eq"], o["exec"], o["cost"] = r[2], r[3], r[4]
    nw = r[5]
    pos = 6
    ws = []
    for _ in range(nw):
        t = r[pos]
        if t == 1:
            ws.append(("bit", r[pos + 1]))
            pos += 2
        elif t in (2, 3):
            ws.append(("sig" if t == 2 else "pre", r[pos + 1]))
            pos += 2
        else:
            ws.append(("other",))
            pos += 1
    o["wits"] = ws
    nn = r[pos]
    pos += 1
    nodes = []
    for _ in range(nn):
        t = r[pos]
        if t == 14:
            nodes.append((14, r[pos + 1]))
            pos += 2
        elif t == 15:
            nodes.append((15, r[pos + 1], r[pos + 2]))
            pos += 3
        else:
            nodes.append((t,))
            pos += 1
    o["nodes"] = nodes
    if pos != len(r):
        raise ValueError("trailing numbers")
    return o


def prop_check(c, r):
    m = c.meta
    if r in ("CRASH", "TIMEOUT") or r is None:
        return ("crash", "implementation crashed or hung on %s %s" % (c.kind, c.line))
    if c.kind == "jets":
        if r[0] != CONSENSUS_MAX:
            return ("constants", "Cost::CONSENSUS_MAX is %s" % r[0])
        return None
    if c.kind == "key":
        if r != limbs(KEY[m["i"]]):
            return ("keys", "x-only key of secret %d differs from secp256k1" % m["i"])
        return None
    if c.kind == "hash":
        if r != limbs(IMG[m["j"]]):
            return ("hashes", "sha256 image %d differs" % m["j"])
        return None
    if c.kind == "pol":
        p = m["p"]
        if r == [9]:
            return ("panic", "sorted() panicked on %s" % " ".join(toks(p)))
        wf = well_formed(p)
        if wf and r[0] != 1:
            return ("root-mismatch", "Policy::cmr() != commit().cmr() (or a panic, flag %s) for %s" % (r[0], " ".join(toks(p))))
        if r[1] != 1:
            return ("sort-not-idempotent", "sorted(sorted(p)) != sorted(p) for %s" % " ".join(toks(p)))
        try:
            s, pos = undump(r, 2)
        except Exception:
            return ("dump", "unparsable dump")
        if pos != len(r):
            return ("dump", "unparsable dump")
        if multiset(s) != multiset(absval(p)):
            return ("sort-changes-policy", "sorted(p) is not a reordering of p for %s" % " ".join(toks(p)))
        if not is_canonical(s):
            return ("sort-not-canonical", "sorted(p) is not ordered at every depth for %s" % " ".join(toks(p)))
        return None
    if c.kind == "norm":
        p = m["p"]
        if r == [9]:
            return ("panic", "normalized() panicked on %s" % " ".join(toks(p)))
        try:
            s, pos = undump(r, 0)
        except Exception:
            return ("dump", "unparsable dump")
        if pos != len(r):
            return ("dump", "unparsable dump")
        ap = absval(p)
        for bits in range(64):
            o = {"keys": {k for k in (1, 2, 3, 4, 5, 6, 7, 8) if bits >> (k % 3) & 1},
                 "pres": {100 + k for k in (1, 2, 3, 4, 5, 6, 7, 8) if bits >> (3 + k % 2) & 1},
                 "after": 11 if bits & 32 else 0, "older": 11 if bits & 16 else 0}
            if holds_abs(s, o) != holds_abs(ap, o):
                return ("normalized-changes-meaning", "normalized(p) differs from p under some answers: %s" % " ".join(toks(p)))
        return None
    if c.kind == "perm":
        p, q = m["p"], m["q"]
        if r == [9]:
            return ("panic", "sorted() panicked")
        if r[0] != 1:
            return ("sort-not-canonical", "sorted(p) != sorted(q) for a reordering q of p: p = %s, q = %s"
                    % (" ".join(toks(p)), " ".join(toks(q))))
        try:
            s1, pos = undump(r, 1)
            s2, pos = undump(r, pos)
        except Exception:
            return ("dump", "unparsable dump")
        if s1 != s2 or multiset(s1) != multiset(absval(p)):
            return ("sort-not-canonical", "sorted forms differ or are not reorderings: p = %s" % " ".join(toks(p)))
        return None
    if c.kind == "lib":
        lt, sq = m["lock_time"], m["sequence"]
        exp_after = m["n_after"] <= lock_height(lt, sq)
        exp_older = m["n_older"] <= lock_distance(sq)
        if r == [9]:
            return ("panic", "tuple satisfier panicked")
        if r[2] != int(exp_after) or r[3] != int(exp_older):
            return ("lock-jets", "after(%d)/older(%d) run %s in env lock_time=%d sequence=%d, expected %s"
                    % (m["n_after"], m["n_older"], r[2:], lt, sq, [int(exp_after), int(exp_older)]))
        # the provided satisfiers must not claim more than the environment grants, except that
        # (Context, LockTime) cannot see a final sequence number (documented exclusion)
        if r[0] == 1 and not exp_after and sq != SEQ_FINAL:
            return ("lib-satisfier-untruthful", "check_after true but after(%d) fails: lock_time=%d sequence=%d" % (m["n_after"], lt, sq))
        if r[1] == 1 and not exp_older:
            return ("lib-satisfier-untruthful", "check_older true but older(%d) fails: sequence=%d" % (m["n_older"], sq))
        return None
    if c.kind == "sat":
        p = m["p"]
        name = " ".join(toks(p))
        wf = well_formed(p)
        try:
            o = parse_sat(r)
        except Exception:
            return ("dump", "unparsable result for %s" % name)
        if not wf:
            return None      # outside the quantifier: only the correspondence with the model is checked
        if o["roots"] != 1:
            return ("root-mismatch", "Policy::cmr() != commit().cmr() for %s" % name)
        if o["verdict"] == 9:
            return ("panic", "satisfy panicked on %s" % name)
        if size(p) * 200000 >= CONSENSUS_MAX:
            return None      # sentinel premise not guaranteed
        oracle = {"keys": set(m["keys"]), "pres": set(m["pres"]), "after": m["after"], "older": m["older"]}
        truth = holds(p, oracle)
        if not m["truthful"]:
            # outside the premise: the verdict may be AssemblyFailed; nothing else is claimed
            if o["verdict"] == 1 and o["exec"] != 1:
                return ("returned-program-fails", "returned program does not run: %s" % name)
            return None
        if truth and o["verdict"] != 1:
            return ("satisfy-incomplete", "policy is true under the satisfier but satisfy returned %s: %s [%s]"
                    % ({0: "Unsatisfiable", 2: "AssemblyFailed"}.get(o["verdict"]), name, c.line))
        if not truth and o["verdict"] != 0:
            return ("satisfy-unsound", "policy is false under the satisfier but satisfy returned %s: %s [%s]"
                    % ({1: "a program", 2: "AssemblyFailed"}.get(o["verdict"]), name, c.line))
        if o["verdict"] == 1:
            if o["cmr_eq"] != 1:
                return ("root-mismatch", "satisfied and pruned program has a different root: %s" % name)
            if o["exec"] != 1:
                return ("returned-program-fails", "returned program does not run in its environment: %s" % name)
            if o["cost"] >= CONSENSUS_MAX:
                return ("sentinel-premise", "cost %d reaches the sentinel" % o["cost"])
            # witnesses are honest: only signatures / preimages the satisfier has
            for w in o["wits"]:
                if w[0] == "sig" and w[1] not in {KEYRANK[i] for i in m["keys"]}:
                    return ("witness", "signature of an unavailable key in the program: %s" % name)
                if w[0] == "pre" and w[1] not in {IMGRANK[j] for j in m["pres"]}:
                    return ("witness", "preimage of an unavailable image in the program: %s" % name)
                if w[0] == "other":
                    return ("witness", "unexpected witness in the program: %s" % name)
        return None
    return None


def finding_match(c, r, cls):
    return None     # F-C16 is fixed in /repo: no open finding to match


def nontrivial(c, r):
    m = c.meta
    if c.kind in ("pol", "perm", "norm"):
        p = m["p"]
        if size(p) < 3:
            return None
        return (c.kind, repr(p), repr(m.get("q")))
    if c.kind == "sat":
        p = m["p"]
        if size(p) < 2:
            return None
        return ("sat", repr(p), m["lock_time"], m["sequence"], tuple(m["keys"]), tuple(m["pres"]), m["after"], m["older"])
    if c.kind == "lib":
        return ("lib", m["lock_time"], m["sequence"], m["n_after"])
    return None


def run(rep, tier, rng):
    # Props/C16.v now reaches Core/{Bounds,Limits,Machine,ExecCorrect}.v (the Bit Machine link), which depend on the
    # regenerated constants of Generated/Consts.v
    vplib.proof_stage(rep, "Props/C16.v", extra_targets=["Policy/Run.vo"], translators=("xlate_consts.py",))
    rep.coverage["trusted_base"] = vplib.GENERIC_TRUSTED + [
        "models Policy/{PolicyAst,Sort,Compile,Satisfy,Sem,Cost}.v written by hand from policy/{ast,serialize,satisfy}.rs, "
        "node/hiding.rs, merkle/cmr.rs (ConstructibleCmr), analysis.rs (cost), redeem.rs (prune)",
        "hash idealised: theorems hold for any tagged hash (Section variable); the executable model uses the free hash, so only "
        "root *equalities* are compared with the implementation",
        "jets: eq/add/verify by specification; sig_all_hash, bip_0340_verify, lock jets, sha_256_ctx_8 as an oracle constrained by `truthful`",
        "link to the Bit Machine (Policy/Bridge*.v): translation of the satisfier's programs into Core/Term.v terms, agreement of the "
        "mini-semantics with Core/Sem.v under the hypothesis that the machine-level jets compute the encoding of what the policy-level "
        "oracle computes (jets_agree), then C05's exec theorem; bit layouts of signatures/preimages/sighash/contexts are parameters",
        "type inference inside the node constructors is not modelled (policy fragments are 1 -> 1); IHR identity idealised as "
        "identity of the subterm with its witness data; slice::sort / sort_by_key modelled as stable insertion sort",
        "python: secp256k1 point multiplication and hashlib.sha256 for the key/hash tables (checked against the harness on every run)",
    ]
    rep.coverage["refuted_lemmas"] = ["C16_sort_old_refuted (the pre-fix sort; documentation of F-C16, fixed)"]
    binary, out = vplib.harness_build("debug", crate=CRATE)
    if binary is None:
        raise vplib.Infra("harness build failed:\n" + out[-3000:])
    cases = gen_cases(rng, tier)
    impl, model = vplib.eval_cases(rep, binary, "policy", cases, IMPORTS, tag="c16", batch=max(60, (len(cases) + 15) // 16))
    pfail, mism = vplib.decide(rep, cases, impl, model, prop_check, finding_match, nontrivial,
                               what="correspondence Policy/Run.v vs policy::{ast,serialize,satisfy}")
    excluded = sum(1 for c in cases if c.kind == "lib" and c.meta["sequence"] == SEQ_FINAL and isinstance(impl.get(c.cid), list)
                   and impl[c.cid][0] == 1 and impl[c.cid][2] == 0)
    untruthful = sum(1 for c in cases if c.kind == "sat" and not c.meta.get("truthful", True))
    sat = [c for c in cases if c.kind == "sat"]
    verdicts = {}
    for c in sat:
        r = impl.get(c.cid)
        v = r[1] if isinstance(r, list) and len(r) > 1 else "?"
        verdicts[str(v)] = verdicts.get(str(v), 0) + 1
    rep.coverage["sat_verdict_histogram"] = verdicts
    rep.coverage["rule"] = ("corpus first; random policy trees of depth <= 4 (quick) over 4 keys, 4 hash images, timelocks around the "
                            "environment values, trivial/unsatisfiable leaves, thresholds with 0 <= k <= n and repeated children; "
                            "reorderings of commutative children at random depths; every leaf x 12 environments; 11 small trees x all "
                            "subsets of available signatures/preimages; malformed thresholds/timelocks (panic correspondence only).  "
                            "Distinct = distinct (policy, reordering) or (policy, environment, availability); non-trivial = at least "
                            "2 (sat) or 3 (sort) nodes")
    rep.coverage["samples"] = [{"kind": c.kind, "args": c.line, "impl": (impl.get(c.cid) or [])[:24]}
                               for c in cases[::max(1, len(cases) // 6)][:7]]
    vplib.finish_proof_verdict(rep, pfail)
    rep.assumptions += [
        "satisfy_iff premises: wf (timelocks < 500000000, thresholds 1 <= |subs| < 2^32, k <= |subs|) and cost_ok (satisfied children "
        "finalise; under a threshold they cost < CONSENSUS_MAX = 4000050000, the sentinel the code gives unsatisfiable children)",
        "satisfier answers supplied by the generator are true of the environment (lock height / distance as the C jets compute them); "
        "%d sat cases deliberately outside that premise" % untruthful,
        "the tuple satisfier (Context, LockTime) answers check_after without seeing a final sequence number: %d lib cases where it "
        "says true and after(n) fails in the environment (excluded, outside C16's premise)" % excluded,
    ]


def replay(obj):
    import json
    print(json.dumps(obj, indent=1))
    c = obj.get("case")
    if not c:
        return 0
    binary, _ = vplib.harness_build("debug", crate=CRATE)
    line, expr, meta = case_from_line(c["kind"], c["harness_args"])
    case = Case(c["id"], c["kind"], line, expr, meta)
    rep = vplib.Report(PROP, "quick", 0)
    impl, model = vplib.eval_cases(rep, binary, "policy", [case], IMPORTS, tag="replay")
    print("implementation:", impl.get(case.cid))
    print("model         :", model.get(case.cid))
    print("property      :", prop_check(case, impl.get(case.cid)))
    return 0
