(* Terms of the Bit Machine models (C05, C07): the 16 variants of `node::Inner` as a tree
   that carries the final arrow of every node.
     src/node/inner.rs        Inner::{Iden,Unit,InjL,InjR,Take,Drop,Comp,Case,AssertL,AssertR,
                                       Pair,Disconnect,Witness,Fail,Jet,Word}
     src/bit_machine/mod.rs   exec_with_tracker follows `Arc` pointers, so sharing is irrelevant
                              for execution: a node table (Core/Prog.v) is unfolded into a tree.
   Data kept in the tree: hidden CMRs of assertl/assertr, fail entropy, the bits of words and
   of witness values (padded encoding, any padding contents), the jet id, and the CMR of the
   right branch of a disconnect node (the machine writes it in front of the input). *)
From RS Require Import Lib.Tac Lib.Outcome Lib.Bits Ty.Ty Core.Prog.
Import ListNotations.
Local Open Scope N_scope.

Inductive term : Type :=
| Iden (ar : arrow)
| Unit (ar : arrow)
| InjL (ar : arrow) (t : term)
| InjR (ar : arrow) (t : term)
| Take (ar : arrow) (t : term)
| Drop (ar : arrow) (t : term)
| Comp (ar : arrow) (s t : term)
| Case (ar : arrow) (s t : term)
| AssertL (ar : arrow) (s : term) (hidden : list N)
| AssertR (ar : arrow) (hidden : list N) (t : term)
| Pair (ar : arrow) (s t : term)
| Disconnect (ar : arrow) (s t : term) (tcmr : list N)   (* 32 bytes: cmr of [t] *)
| Witness (ar : arrow) (pbits : list bool)               (* iter_padded of the value *)
| Fail (ar : arrow) (entropy : list N)                   (* 64 bytes *)
| Jet (ar : arrow) (j : N)                               (* index into the jet table *)
| Word (ar : arrow) (n : nat) (bits : list bool).        (* 2^n bits *)

Definition arrow_of (t : term) : arrow :=
  match t with
  | Iden ar | Unit ar | InjL ar _ | InjR ar _ | Take ar _ | Drop ar _ | Comp ar _ _
  | Case ar _ _ | AssertL ar _ _ | AssertR ar _ _ | Pair ar _ _ | Disconnect ar _ _ _
  | Witness ar _ | Fail ar _ | Jet ar _ | Word ar _ _ => ar
  end.
Definition src (t : term) : ty := fst (arrow_of t).
Definition tgt (t : term) : ty := snd (arrow_of t).

Fixpoint tsize (t : term) : nat :=
  match t with
  | InjL _ t | InjR _ t | Take _ t | Drop _ t | AssertL _ t _ | AssertR _ _ t => S (tsize t)
  | Comp _ s t | Case _ s t | Pair _ s t | Disconnect _ s t _ => S (tsize s + tsize t)
  | _ => 1
  end.

(* ------------------------------------------------------------------ unfolding a node table *)

(* auxiliary data that the node table does not contain: the CMR of each node (taken from the
   implementation; only the right children of disconnect nodes are looked up) *)
Definition cmr_table := list (nat * list N).

Fixpoint lookup_cmr (tab : cmr_table) (i : nat) : option (list N) :=
  match tab with
  | [] => None
  | (k, c) :: r => if Nat.eqb k i then Some c else lookup_cmr r i
  end.

Definition wit_pbits (w : wit_spec) (target : ty) : option (list bool) :=
  match w with
  | WNone => None
  | WCompact bits =>
      match of_compact target bits with
      | Some (v, []) => Some (padded_enc target v)
      | _ => None
      end
  | WTyped t bits =>
      if ty_eqb t target then
        match of_compact t bits with
        | Some (v, []) => Some (padded_enc t v)
        | _ => None
        end
      else None
  end.

(* [term_of fuel p cm i]: the tree rooted at node [i]; [fuel] bounds the depth (children have
   smaller indices, so [S i] always suffices) *)
Fixpoint term_of (fuel : nat) (p : typed_prog) (cm : cmr_table) (i : nat) : option term :=
  match fuel with
  | O => None
  | S f =>
      match nth_error p i with
      | None => None
      | Some (n, oar) =>
          let sub := term_of f p cm in
          match n, oar with
          | NHidden _, _ => None
          | _, None => None
          | NIden, Some ar => Some (Iden ar)
          | NUnit, Some ar => Some (Unit ar)
          | NInjL c, Some ar => option_map (InjL ar) (sub c)
          | NInjR c, Some ar => option_map (InjR ar) (sub c)
          | NTake c, Some ar => option_map (Take ar) (sub c)
          | NDrop c, Some ar => option_map (Drop ar) (sub c)
          | NComp l r, Some ar =>
              match sub l, sub r with Some s, Some t => Some (Comp ar s t) | _, _ => None end
          | NPair l r, Some ar =>
              match sub l, sub r with Some s, Some t => Some (Pair ar s t) | _, _ => None end
          | NCase l r, Some ar =>
              match nth_error p l, nth_error p r with
              | Some (NHidden _, _), Some (NHidden _, _) => None
              | Some (NHidden h, _), _ => option_map (AssertR ar h) (sub r)
              | _, Some (NHidden h, _) => option_map (fun s => AssertL ar s h) (sub l)
              | _, _ => match sub l, sub r with Some s, Some t => Some (Case ar s t) | _, _ => None end
              end
          | NDisconnect l (Some r), Some ar =>
              match sub l, sub r, lookup_cmr cm r with
              | Some s, Some t, Some c => Some (Disconnect ar s t c)
              | _, _, _ => None
              end
          | NDisconnect _ None, _ => None
          | NFail e, Some ar => Some (Fail ar e)
          | NJet _ j, Some ar => Some (Jet ar j)
          | NWord n bits, Some ar => Some (Word ar n bits)
          | NWitness w, Some ar => option_map (Witness ar) (wit_pbits w (snd ar))
          end
      end
  end.

Definition term_of_prog (p : typed_prog) (cm : cmr_table) (i : nat) : option term :=
  term_of (S i) p cm i.

Definition root_term (p : typed_prog) (cm : cmr_table) : option term :=
  term_of_prog p cm (length p - 1).
