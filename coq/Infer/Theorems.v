(* C04 - the theorems about the reference inference:
     infer_sound      infer = Ok tau  ->  tau satisfies the typing rule of every node
     infer_complete   some typing exists  <->  infer succeeds   (finalises exactly when ...)
     infer_total      never OutOfFuel / Panic
     infer_least      infer = Ok tau0  ->  tau0 is below every typing in the ty_le order (principal,
                      remaining variables := unit)
     infer_order      any two construction orders of the same DAG give the same result *)
From RS Require Import Lib.Tac Lib.Outcome Ty.Ty Core.Prog
  Infer.Constraints Infer.Unify Infer.Infer Infer.Principal Infer.Gen.
Import ListNotations.

(* ------------------------------------------------------------------ invariants of generation *)

Record ginv (g : gstate) : Prop := mk_ginv {
  gi_wf : wf (g_store g);
  gi_eqs : eqs_in (length (g_store g)) (g_eqs g);
  gi_arr : arr_in (length (g_store g)) (g_arr g)
}.

Lemma arr_of_app_l {A} (ar : list (option A)) l c : (c < length ar)%nat -> arr_of (ar ++ l) c = arr_of ar c.
Proof. intros H. unfold arr_of. rewrite nth_error_app1 by exact H. reflexivity. Qed.

Lemma arr_of_some_lt {A} (ar : list (option A)) c x : arr_of ar c = Some x -> (c < length ar)%nat.
Proof.
  unfold arr_of. intros H. destruct (nth_error ar c) eqn:E; [|discriminate].
  apply nth_error_Some. congruence.
Qed.

Lemma arr_of_app_last {A} (ar : list (option A)) a : arr_of (ar ++ [a]) (length ar) = a.
Proof. unfold arr_of. rewrite nth_error_app2 by lia. rewrite Nat.sub_diag. cbn. destruct a; reflexivity. Qed.

Lemma ginv_step jt g nd nb ne a : ginv g ->
  node_tmpl jt (length (g_store g)) (g_arr g) nd = Some (nb, ne, a) ->
  ginv (mk_gstate (g_store g ++ nb) (g_eqs g ++ ne) (g_arr g ++ [a])).
Proof.
  intros [W E A] H. destruct (node_tmpl_wf _ _ _ _ _ _ _ A H) as (Wn & En & An).
  constructor; cbn [g_store g_eqs g_arr]; rewrite ?app_length.
  - apply wf_app; assumption.
  - intros x y Hin. apply in_app_or in Hin. destruct Hin as [Hin|Hin].
    + destruct (E x y Hin). lia.
    + destruct (En x y Hin). lia.
  - intros c x y Hc. pose proof (arr_of_some_lt _ _ _ Hc) as Lc. rewrite app_length in Lc. cbn [length] in Lc.
    destruct (Nat.eq_dec c (length (g_arr g))) as [->|N].
    + rewrite arr_of_app_last in Hc. destruct (An x y Hc). lia.
    + rewrite arr_of_app_l in Hc by lia. destruct (A c x y Hc). lia.
Qed.

Lemma gen_nodes_inv jt : forall p g g', ginv g -> gen_nodes jt p g = Some g' ->
  ginv g' /\ exists s2 e2 a2, g_store g' = g_store g ++ s2 /\ g_eqs g' = g_eqs g ++ e2 /\
                               g_arr g' = g_arr g ++ a2 /\ length a2 = length p.
Proof.
  induction p as [|nd rest IH]; intros g g' I H.
  - injection H as <-. split; [exact I|]. exists [], [], []. rewrite !app_nil_r. auto.
  - cbn [gen_nodes] in H.
    destruct (node_tmpl jt (length (g_store g)) (g_arr g) nd) as [[[nb ne] a]|] eqn:T; [|discriminate].
    destruct (IH _ _ (ginv_step _ _ _ _ _ _ I T) H) as (I' & s2 & e2 & a2 & -> & -> & -> & L).
    split; [exact I'|]. cbn [g_store g_eqs g_arr].
    exists (nb ++ s2), (ne ++ e2), (a :: a2). rewrite <- !app_assoc. cbn [app length]. auto.
Qed.

(* ------------------------------------------------------------------ generation is sound *)

Lemma gen_nodes_sound jt : forall p g g', ginv g -> gen_nodes jt p g = Some g' ->
  forall al, sat al (g_store g') -> eqs_hold al (g_eqs g') ->
  check_nodes jt (map (img al) (g_arr g')) (length (g_arr g)) p = true.
Proof.
  induction p as [|nd rest IH]; intros g g' I H al Sa Eq; [reflexivity|].
  cbn [gen_nodes] in H.
  destruct (node_tmpl jt (length (g_store g)) (g_arr g) nd) as [[[nb ne] a]|] eqn:T; [|discriminate].
  pose proof (ginv_step _ _ _ _ _ _ I T) as I1.
  destruct (gen_nodes_inv _ _ _ _ I1 H) as (_ & s2 & e2 & a2 & Es & Ee & Ea & La).
  cbn [g_store g_eqs g_arr] in Es, Ee, Ea.
  cbn [check_nodes]. apply andb_true_iff. split.
  - rewrite Ea. rewrite <- app_assoc. rewrite firstn_map, firstn_app, Nat.sub_diag, firstn_all, firstn_O, app_nil_r.
    rewrite map_app. rewrite app_nth2 by (rewrite map_length; lia). rewrite map_length, Nat.sub_diag. cbn [app map nth].
    apply (node_tmpl_sound _ _ _ _ _ _ _ al T).
    + rewrite Es in Sa. apply sat_app in Sa. destruct Sa as [Sa _]. apply sat_app in Sa. tauto.
    + rewrite Ee in Eq. intros x y Hin. apply Eq. apply in_or_app. left. apply in_or_app. right. exact Hin.
  - specialize (IH _ _ I1 H al Sa Eq). cbn [g_arr] in IH. rewrite app_length in IH. cbn [length] in IH.
    rewrite Nat.add_1_r in IH. exact IH.
Qed.

(* ------------------------------------------------------------------ generation is complete *)

Lemma firstn_S_nth {A} (d : A) : forall (l : list A) i, (i < length l)%nat ->
  firstn (S i) l = firstn i l ++ [nth i l d].
Proof.
  induction l as [|x l IH]; intros [|i] H; cbn [length] in H; try lia; [reflexivity|].
  cbn [firstn nth app]. f_equal. apply IH. lia.
Qed.

Lemma map_img_agree al al' n ar : arr_in n ar -> (forall v, (v < n)%nat -> al' v = al v) ->
  map (img al') ar = map (img al) ar.
Proof.
  intros A Ag. apply map_ext_in. intros [[x y]|] Hin; [|reflexivity].
  destruct (In_nth_error _ _ Hin) as (c & Hc).
  assert (E : arr_of ar c = Some (x, y)) by (unfold arr_of; rewrite Hc; reflexivity).
  destruct (A _ _ _ E). cbn [img]. rewrite !Ag by assumption. reflexivity.
Qed.

Lemma eqs_hold_agree al al' n eqs : eqs_in n eqs -> (forall v, (v < n)%nat -> al' v = al v) ->
  eqs_hold al eqs -> eqs_hold al' eqs.
Proof. intros In_ Ag E x y Hin. destruct (In_ x y Hin). rewrite !Ag by assumption. apply E. exact Hin. Qed.

Lemma gen_nodes_complete jt : forall p g tau al, ginv g ->
  sat al (g_store g) -> eqs_hold al (g_eqs g) ->
  length tau = (length (g_arr g) + length p)%nat ->
  firstn (length (g_arr g)) tau = map (img al) (g_arr g) ->
  check_nodes jt tau (length (g_arr g)) p = true ->
  exists g' al', gen_nodes jt p g = Some g' /\ sat al' (g_store g') /\ eqs_hold al' (g_eqs g') /\
    map (img al') (g_arr g') = tau /\ (forall v, (v < length (g_store g))%nat -> al' v = al v).
Proof.
  induction p as [|nd rest IH]; intros g tau al I Sa Eq L F C.
  - exists g, al. cbn [length] in L. rewrite Nat.add_0_r in L.
    rewrite <- L, firstn_all in F. repeat split; auto.
  - cbn [check_nodes] in C. apply andb_true_iff in C. destruct C as [C Cr].
    rewrite F in C. destruct I as [W E A].
    destruct (node_tmpl_complete jt (length (g_store g)) (g_arr g) nd al _ A C)
      as (nb & ne & a & al1 & T & Ag & Sl & En & Ia).
    pose proof (ginv_step _ _ _ _ _ _ (mk_ginv _ W E A) T) as I1.
    cbn [length] in L.
    destruct (IH (mk_gstate (g_store g ++ nb) (g_eqs g ++ ne) (g_arr g ++ [a])) tau al1 I1) as (g' & al' & G & Sa' & Eq' & Ta & Ag').
    + cbn [g_store]. apply sat_app. split; [eapply sat_agree; eauto|exact Sl].
    + cbn [g_eqs]. intros x y Hin. apply in_app_or in Hin. destruct Hin as [Hin|Hin].
      * eapply eqs_hold_agree; eauto.
      * apply En. exact Hin.
    + cbn [g_arr]. rewrite app_length. cbn [length]. lia.
    + cbn [g_arr]. rewrite app_length. cbn [length]. rewrite Nat.add_1_r.
      rewrite (firstn_S_nth None) by lia. rewrite F, map_app. cbn [map]. rewrite Ia.
      rewrite (map_img_agree al al1 _ _ A Ag). reflexivity.
    + cbn [g_arr]. rewrite app_length. cbn [length]. rewrite Nat.add_1_r. exact Cr.
    + exists g', al'. cbn [gen_nodes]. rewrite T. split; [exact G|]. repeat split; auto.
      intros v Hv. cbn [g_store] in Ag'. rewrite Ag' by (rewrite app_length; lia). apply Ag. exact Hv.
Qed.

(* ------------------------------------------------------------------ the pipeline of infer, opened up *)

Definition empty_g : gstate := mk_gstate [] [] [].

Lemma ginv_empty : ginv empty_g.
Proof.
  constructor; cbn.
  - intros v Hv. cbn in Hv. lia.
  - intros ? ? [].
  - intros c x y H. unfold arr_of in H. destruct c; discriminate.
Qed.

Lemma root_tmpl_facts g root rb re : ginv g -> root_tmpl g root = Some (rb, re) ->
  Forall (wf_new (length rb + length (g_store g))) rb /\ eqs_in (length rb + length (g_store g)) re /\
  (match root with
   | None => rb = [] /\ re = []
   | Some r => exists rs rt, arr_of (g_arr g) r = Some (rs, rt) /\ rb = [BOne] /\
                             re = [(rs, length (g_store g)); (rt, length (g_store g))]
   end).
Proof.
  intros [W E A] H. unfold root_tmpl in H. destruct root as [r|].
  - destruct (arr_of (g_arr g) r) as [[rs rt]|] eqn:Er; [|discriminate]. injection H as <- <-.
    destruct (A _ _ _ Er). split; [constructor; [exact I|constructor]|]. split.
    + intros x y [Hin|[Hin|[]]]; injection Hin as <- <-; cbn [length]; lia.
    + eauto.
  - injection H as <- <-. split; [constructor|]. split; [intros ? ? []|auto].
Qed.

Lemma lift_solve_ok st o s : lift_solve st o = Ok s -> o = Ok s.
Proof. destruct o; cbn; congruence. Qed.

Lemma infer_ok_inv jt root p tau : infer jt root p = Ok tau ->
  exists g rb re s1 s2, gen jt p = Some g /\ root_tmpl g root = Some (rb, re) /\
    solve (g_store g) (g_eqs g) = Ok s1 /\ solve (s1 ++ rb) re = Ok s2 /\
    occurs_ok s2 = true /\ tau = map (res_arrow s2) (g_arr g).
Proof.
  unfold infer. intros H.
  destruct (gen jt p) as [g|] eqn:G; [|discriminate].
  destruct (root_tmpl g root) as [[rb re]|] eqn:R; [|discriminate].
  destruct (lift_solve 0 (solve (g_store g) (g_eqs g))) as [s1| | |] eqn:E1; cbn [obind] in H; try discriminate.
  destruct (lift_solve 1 (solve (s1 ++ rb) re)) as [s2| | |] eqn:E2; cbn [obind] in H; try discriminate.
  destruct (occurs_ok s2) eqn:O; [|discriminate]. injection H as <-.
  apply lift_solve_ok in E1. apply lift_solve_ok in E2.
  exists g, rb, re, s1, s2. repeat split; auto.
Qed.

(* the stores along the pipeline are well-formed *)
Lemma pipeline_wf jt root p g rb re s1 : gen jt p = Some g -> root_tmpl g root = Some (rb, re) ->
  solve (g_store g) (g_eqs g) = Ok s1 ->
  ginv g /\ wf s1 /\ length s1 = length (g_store g) /\ wf (s1 ++ rb) /\ eqs_in (length (s1 ++ rb)) re /\
  (forall al, sat al s1 -> sat al (g_store g) /\ eqs_hold al (g_eqs g)).
Proof.
  intros G R S1. destruct (gen_nodes_inv jt p empty_g g ginv_empty G) as (I & _).
  destruct (solve_sound _ _ _ (gi_wf _ I) (gi_eqs _ I) S1) as (W1 & L1 & A1).
  destruct (root_tmpl_facts _ _ _ _ I R) as (Wr & Er & _).
  split; [exact I|]. split; [exact W1|]. split; [exact L1|]. split; [|split; [|exact A1]].
  - apply wf_app; [exact W1|]. rewrite L1. exact Wr.
  - rewrite app_length, L1, Nat.add_comm. exact Er.
Qed.

Lemma res_arrow_img s ar : occurs_ok s = true -> arr_in (length s) ar ->
  map (res_arrow s) ar = map (img (assign s)) ar.
Proof.
  intros O A. apply map_ext_in. intros [[x y]|] Hin; [|reflexivity].
  destruct (In_nth_error _ _ Hin) as (c & Hc).
  assert (E : arr_of ar c = Some (x, y)) by (unfold arr_of; rewrite Hc; reflexivity).
  destruct (A _ _ _ E) as [Hx Hy].
  destruct (occurs_ok_spec s O x Hx) as (tx & Rx). destruct (occurs_ok_spec s O y Hy) as (t_y & Ry).
  cbn [res_arrow img]. unfold assign. rewrite Rx, Ry. reflexivity.
Qed.

Lemma arr_in_mono n n' ar : (n <= n')%nat -> arr_in n ar -> arr_in n' ar.
Proof. intros L A c x y H. destruct (A c x y H). lia. Qed.

(* ------------------------------------------------------------------ soundness *)

Theorem infer_sound jt root p tau : infer jt root p = Ok tau -> check_typing jt root p tau = true.
Proof.
  intros H. destruct (infer_ok_inv _ _ _ _ H) as (g & rb & re & s1 & s2 & G & R & S1 & S2 & O & ->).
  destruct (pipeline_wf _ _ _ _ _ _ _ G R S1) as (I & W1 & L1 & W1r & E1r & A1).
  destruct (solve_sound _ _ _ W1r E1r S2) as (W2 & L2 & A2).
  set (al := assign s2).
  pose proof (assign_sat s2 W2 O) as Sa.
  destruct (A2 al Sa) as [Sa1r Er]. pose proof Sa1r as Sa1r'. apply sat_app in Sa1r. destruct Sa1r as [Sa1 Srb].
  destruct (A1 al Sa1) as [Sa0 E0].
  assert (Ain : arr_in (length s2) (g_arr g)).
  { eapply arr_in_mono; [|apply (gi_arr _ I)]. rewrite L2, app_length. lia. }
  rewrite (res_arrow_img s2 _ O Ain). fold al.
  destruct (gen_nodes_inv jt p empty_g g ginv_empty G) as (_ & s' & e' & a' & _ & _ & Ea & La).
  cbn [empty_g g_arr app] in Ea.
  unfold check_typing. apply andb_true_iff. split; [apply andb_true_iff; split|].
  - rewrite map_length, Ea, La. apply Nat.eqb_refl.
  - apply (gen_nodes_sound jt p empty_g g ginv_empty G al Sa0 E0).
  - unfold check_root. destruct (root_tmpl_facts _ _ _ _ I R) as (_ & _ & Hr). destruct root as [r|]; [|reflexivity].
    destruct Hr as (rs & rt & Er' & -> & ->). rewrite arr_of_img, Er'.
    assert (Eu : al (length (g_store g)) = One).
    { cbn [sat_list holds] in Srb. rewrite L1 in Srb. tauto. }
    rewrite (Er rs _ (or_introl eq_refl)), (Er rt _ (or_intror (or_introl eq_refl))), Eu. reflexivity.
Qed.

(* ------------------------------------------------------------------ completeness and principality *)

Lemma typing_pipeline jt root p tau : check_typing jt root p tau = true ->
  exists g rb re s1 s2 al, gen jt p = Some g /\ root_tmpl g root = Some (rb, re) /\
    solve (g_store g) (g_eqs g) = Ok s1 /\ solve (s1 ++ rb) re = Ok s2 /\
    wf s2 /\ sat al s2 /\ map (img al) (g_arr g) = tau /\ arr_in (length s2) (g_arr g).
Proof.
  unfold check_typing. intros C. apply andb_true_iff in C. destruct C as [C Cr].
  apply andb_true_iff in C. destruct C as [Cl Cn]. apply Nat.eqb_eq in Cl.
  destruct (gen_nodes_complete jt p empty_g tau (fun _ => One) ginv_empty) as (g & al & G & Sa & Eq & Ta & _);
    try (cbn; auto; fail).
  { intros v Hv. cbn in Hv. lia. }
  { intros ? ? []. }
  change (gen jt p = Some g) in G.
  destruct (gen_nodes_inv jt p empty_g g ginv_empty G) as (I & _).
  destruct (solve_complete _ _ al (gi_wf _ I) (gi_eqs _ I) Sa Eq) as (s1 & S1 & Sa1).
  destruct (solve_sound _ _ _ (gi_wf _ I) (gi_eqs _ I) S1) as (W1 & L1 & _).
  (* the root *)
  assert (exists rb re al2, root_tmpl g root = Some (rb, re) /\ sat al2 (s1 ++ rb) /\ eqs_hold al2 re /\
            (forall v, (v < length s1)%nat -> al2 v = al v)) as (rb & re & al2 & R & Sa2 & Eq2 & Ag2).
  { unfold root_tmpl. unfold check_root in Cr. destruct root as [r|].
    - rewrite <- Ta, arr_of_img in Cr. destruct (arr_of (g_arr g) r) as [[rs rt]|] eqn:Er; [|discriminate].
      teq. destruct (gi_arr _ I _ _ _ Er) as [Lrs Lrt].
      set (u := length (g_store g)) in *.
      exists [BOne], [(rs, u); (rt, u)], (fun v => if Nat.eqb v u then One else al v).
      assert (Ag : forall v, (v < length s1)%nat -> (if Nat.eqb v u then One else al v) = al v).
      { intros v Hv. destruct (Nat.eqb_spec v u); [lia|reflexivity]. }
      split; [reflexivity|]. split; [|split; [|exact Ag]].
      + apply sat_app. split; [eapply sat_agree; eauto|]. cbn [sat_list holds]. rewrite L1. fold u.
        rewrite Nat.eqb_refl. auto.
      + intros x y [Hin|[Hin|[]]]; injection Hin as <- <-; rewrite Nat.eqb_refl;
          rewrite Ag by lia; assumption.
    - exists [], [], al. rewrite app_nil_r. repeat split; auto. intros ? ? []. }
  destruct (pipeline_wf _ _ _ _ _ _ _ G R S1) as (_ & _ & _ & W1r & E1r & _).
  destruct (solve_complete _ _ al2 W1r E1r Sa2 Eq2) as (s2 & S2 & Sa2').
  destruct (solve_sound _ _ _ W1r E1r S2) as (W2 & L2 & _).
  assert (Ain : arr_in (length s2) (g_arr g)).
  { eapply arr_in_mono; [|apply (gi_arr _ I)]. rewrite L2, app_length. lia. }
  exists g, rb, re, s1, s2, al2.
  split; [exact G|]. split; [exact R|]. split; [exact S1|]. split; [exact S2|]. split; [exact W2|].
  split; [exact Sa2'|]. split; [|exact Ain].
  rewrite <- Ta. apply (map_img_agree al al2 (length s1)); [|exact Ag2].
  eapply arr_in_mono; [|apply (gi_arr _ I)]. lia.
Qed.

Lemma infer_of_pipeline jt root p g rb re s1 s2 : gen jt p = Some g -> root_tmpl g root = Some (rb, re) ->
  solve (g_store g) (g_eqs g) = Ok s1 -> solve (s1 ++ rb) re = Ok s2 ->
  infer jt root p = if occurs_ok s2 then Ok (map (res_arrow s2) (g_arr g)) else Err EOccurs.
Proof. intros G R S1 S2. unfold infer. rewrite G, R, S1. cbn [lift_solve obind]. rewrite S2. reflexivity. Qed.

Theorem infer_complete jt root p tau : check_typing jt root p tau = true ->
  exists tau0, infer jt root p = Ok tau0.
Proof.
  intros C. destruct (typing_pipeline _ _ _ _ C) as (g & rb & re & s1 & s2 & al & G & R & S1 & S2 & W2 & Sa & _ & _).
  rewrite (infer_of_pipeline _ _ _ _ _ _ _ _ G R S1 S2), (sat_occurs_ok s2 al W2 Sa). eauto.
Qed.

Lemma typing_le_map s al ar : wf s -> sat al s -> arr_in (length s) ar -> occurs_ok s = true ->
  typing_le (map (res_arrow s) ar) (map (img al) ar) = true.
Proof.
  intros W Sa A O. induction ar as [|a r IH]; [reflexivity|].
  cbn [map typing_le]. apply andb_true_iff. split.
  - destruct a as [[x y]|]; [|reflexivity].
    assert (E : arr_of ((Some (x, y)) :: r) 0 = Some (x, y)) by reflexivity.
    destruct (A _ _ _ E) as [Hx Hy].
    destruct (occurs_ok_spec s O x Hx) as (tx & Rx). destruct (occurs_ok_spec s O y Hy) as (t_y & Ry).
    cbn [res_arrow img]. rewrite Rx, Ry. cbn [arrow_le].
    rewrite (resolve_least s al W Sa _ x tx Hx Rx), (resolve_least s al W Sa _ y t_y Hy Ry). reflexivity.
  - apply IH. intros c x y H. apply (A (S c) x y). exact H.
Qed.

Theorem infer_least jt root p tau0 tau : infer jt root p = Ok tau0 -> check_typing jt root p tau = true ->
  typing_le tau0 tau = true.
Proof.
  intros H C. destruct (typing_pipeline _ _ _ _ C) as (g & rb & re & s1 & s2 & al & G & R & S1 & S2 & W2 & Sa & Ta & Ain).
  rewrite (infer_of_pipeline _ _ _ _ _ _ _ _ G R S1 S2), (sat_occurs_ok s2 al W2 Sa) in H.
  injection H as <-. rewrite <- Ta. apply typing_le_map; auto. apply (sat_occurs_ok s2 al W2 Sa).
Qed.

Theorem infer_total jt root p : no_fuel_panic (infer jt root p).
Proof.
  unfold infer. destruct (gen jt p) as [g|] eqn:G; [|exact I].
  destruct (root_tmpl g root) as [[rb re]|] eqn:R; [|exact I].
  destruct (gen_nodes_inv jt p empty_g g ginv_empty G) as (Ig & _).
  pose proof (solve_total _ _ (gi_wf _ Ig) (gi_eqs _ Ig)) as T1.
  destruct (solve (g_store g) (g_eqs g)) as [s1| | |] eqn:S1; cbn [lift_solve obind]; try exact I; try contradiction.
  destruct (pipeline_wf _ _ _ _ _ _ _ G R S1) as (_ & _ & _ & W1r & E1r & _).
  pose proof (solve_total _ _ W1r E1r) as T2.
  destruct (solve (s1 ++ rb) re) as [s2| | |]; cbn [lift_solve obind]; try exact I; try contradiction.
  destruct (occurs_ok s2); exact I.
Qed.

Theorem infer_never_complete_mismatch jt root p : infer jt root p <> Err ECompleteMismatch.
Proof.
  unfold infer. destruct (gen jt p) as [g|]; [|discriminate].
  destruct (root_tmpl g root) as [[rb re]|]; [|discriminate].
  destruct (solve (g_store g) (g_eqs g)) as [s1| | |]; cbn [lift_solve obind]; try discriminate.
  destruct (solve (s1 ++ rb) re) as [s2| | |]; cbn [lift_solve obind]; try discriminate.
  destruct (occurs_ok s2); discriminate.
Qed.

(* ------------------------------------------------------------------ corollaries pinned in Props/C04.v *)

Theorem infer_complete_iff (jt : jet_table) (root : option nat) (p : prog) :
  (exists tau, check_typing jt root p tau = true) <-> (exists tau0, infer jt root p = Ok tau0).
Proof.
  split.
  - intros (tau & C). exact (infer_complete jt root p tau C).
  - intros (tau0 & E). exists tau0. exact (infer_sound jt root p tau0 E).
Qed.

Theorem infer_total_outcome (jt : jet_table) (root : option nat) (p : prog) :
  match infer jt root p with Ok _ | Err _ => True | Panic _ | OutOfFuel => False end.
Proof. pose proof (infer_total jt root p) as H. destruct (infer jt root p); auto. Qed.

Theorem infer_rejects (jt : jet_table) (root : option nat) (p : prog) :
  (forall tau, check_typing jt root p tau = false) -> exists e, infer jt root p = Err e.
Proof.
  intros H. pose proof (infer_total jt root p) as T.
  destruct (infer jt root p) as [tau|e| |] eqn:E; try contradiction; [|eauto].
  pose proof (infer_sound _ _ _ _ E) as C. rewrite H in C. discriminate.
Qed.

Theorem solve_exact (s s' : store) (eqs : list (nat * nat)) :
  wf s -> eqs_in (length s) eqs -> solve s eqs = Ok s' ->
  forall al, sat al s' <-> (sat al s /\ eqs_hold al eqs).
Proof.
  intros W In_ U al. split.
  - intros Sa. exact (proj2 (proj2 (solve_sound eqs s s' W In_ U)) al Sa).
  - intros [Sa E]. destruct (solve_complete eqs s al W In_ Sa E) as (s2 & U2 & S2).
    rewrite U in U2. injection U2 as <-. exact S2.
Qed.

Theorem solve_fails_only_without_model (s : store) (eqs : list (nat * nat)) :
  wf s -> eqs_in (length s) eqs ->
  match solve s eqs with
  | Ok _ => True
  | Err _ => forall al, ~ (sat al s /\ eqs_hold al eqs)
  | _ => False
  end.
Proof.
  intros W In_. pose proof (solve_total eqs s W In_) as T.
  destruct (solve s eqs) as [s'|e| |] eqn:U; try contradiction; [exact I|].
  intros al [Sa E]. destruct (solve_complete eqs s al W In_ Sa E) as (s2 & U2 & _). congruence.
Qed.

Theorem occurs_check_exact (s : store) : wf s -> (occurs_ok s = true <-> exists al, sat al s).
Proof.
  intros W. split.
  - intros O. exists (assign s). apply assign_sat; assumption.
  - intros (al & Sa). exact (sat_occurs_ok s al W Sa).
Qed.
