(* C14 - Jet tables and foreign bindings match libsimplicity.  Pinned statements only.
   Data: Generated/{Jets_core,Jets_elements,Jets_bitcoin,CJets_elements,Ffi}.v, regenerated from /repo by
   tools/xlate_jets.py on every run.  Model and checkers: Jets/JetTable.v, Jets/TypeName.v.
   Every statement below is a finite fact about the complete tables, established by vm_compute in
   Jets/Check*.v and lifted with forallb_forall; table lengths are part of the statements. *)
From RS Require Import Lib.Tac Lib.Outcome Lib.Bits Lib.Sweep Ty.Ty Jets.TypeName Jets.JetTable Jets.JetLemmas
  Generated.Jets_core Generated.Jets_elements Generated.Jets_bitcoin Generated.CJets_elements Generated.Ffi
  Jets.CheckCore Jets.CheckElements Jets.CheckBitcoin Jets.CheckC Jets.CheckFfi.
From Coq Require Import String.
Import ListNotations.
Local Open Scope N_scope.

(* ---------------------------------------------------------------- type names, all strings *)

Theorem C14_typename_width_sound : forall s w,
  tn_to_bit_width s = Ok w -> exists t, tn_to_final s = Ok t /\ width t = w.
Proof. exact tn_width_sound. Qed.
Print Assumptions C14_typename_width_sound.

Theorem C14_typename_final_width : forall s t,
  tn_to_final s = Ok t -> tn_to_bit_width s = Ok (width t) \/ tn_to_bit_width s = Panic 2.
Proof. exact tn_final_width. Qed.
Print Assumptions C14_typename_final_width.

(* ---------------------------------------------------------------- core family (368 jets) *)

Theorem C14_core_table :
  List.length (f_rows core_family) = 368%nat /\
  map j_idx (f_rows core_family) = upto 368 /\ f_all core_family = upto 368 /\ f_all_len core_family = 368.
Proof. exact core_table. Qed.
Print Assumptions C14_core_table.

Theorem C14_core_roundtrip : forall j, In j (f_rows core_family) -> forall r,
  jet_encode j = Ok (jet_code j) /\
  decode (f_tree core_family) (jet_code j ++ r) = Ok (j_idx j, r).
Proof. exact core_roundtrip. Qed.
Print Assumptions C14_core_roundtrip.

Theorem C14_core_decode_complete : forall b i r, decode (f_tree core_family) b = Ok (i, r) ->
  exists j, row_at core_family i = Some j /\ j_idx j = i /\ b = jet_code j ++ r.
Proof. exact core_decode_complete. Qed.
Print Assumptions C14_core_decode_complete.

Theorem C14_core_prefix_free : forall j k, In j (f_rows core_family) -> In k (f_rows core_family) ->
  j_idx j <> j_idx k -> forall r, jet_code k <> jet_code j ++ r.
Proof. exact core_prefix_free. Qed.
Print Assumptions C14_core_prefix_free.

Theorem C14_core_names :
  (forall j, In j (f_rows core_family) -> parse core_family (j_name j) = Ok (j_idx j)) /\
  (forall j k, In j (f_rows core_family) -> In k (f_rows core_family) -> j_name j = j_name k -> j_idx j = j_idx k).
Proof. exact core_names. Qed.
Print Assumptions C14_core_names.

Theorem C14_core_parse_sound : forall s i, parse core_family s = Ok i ->
  exists j, row_at core_family i = Some j /\ j_idx j = i /\ j_name j = s.
Proof. exact core_parse_sound. Qed.
Print Assumptions C14_core_parse_sound.

Theorem C14_core_types : forall j, In j (f_rows core_family) ->
  (exists t, tn_to_final (j_src j) = Ok t /\ tn_to_bit_width (j_src j) = Ok (width t)) /\
  (exists t, tn_to_final (j_tgt j) = Ok t /\ tn_to_bit_width (j_tgt j) = Ok (width t)).
Proof. exact core_types. Qed.
Print Assumptions C14_core_types.

(* ---------------------------------------------------------------- elements family (471 jets) *)

Theorem C14_elements_table :
  List.length (f_rows elements_family) = 471%nat /\
  map j_idx (f_rows elements_family) = upto 471 /\ f_all elements_family = upto 471 /\ f_all_len elements_family = 471.
Proof. exact elements_table. Qed.
Print Assumptions C14_elements_table.

Theorem C14_elements_roundtrip : forall j, In j (f_rows elements_family) -> forall r,
  jet_encode j = Ok (jet_code j) /\
  decode (f_tree elements_family) (jet_code j ++ r) = Ok (j_idx j, r).
Proof. exact elements_roundtrip. Qed.
Print Assumptions C14_elements_roundtrip.

Theorem C14_elements_decode_complete : forall b i r, decode (f_tree elements_family) b = Ok (i, r) ->
  exists j, row_at elements_family i = Some j /\ j_idx j = i /\ b = jet_code j ++ r.
Proof. exact elements_decode_complete. Qed.
Print Assumptions C14_elements_decode_complete.

Theorem C14_elements_prefix_free : forall j k, In j (f_rows elements_family) -> In k (f_rows elements_family) ->
  j_idx j <> j_idx k -> forall r, jet_code k <> jet_code j ++ r.
Proof. exact elements_prefix_free. Qed.
Print Assumptions C14_elements_prefix_free.

Theorem C14_elements_names :
  (forall j, In j (f_rows elements_family) -> parse elements_family (j_name j) = Ok (j_idx j)) /\
  (forall j k, In j (f_rows elements_family) -> In k (f_rows elements_family) -> j_name j = j_name k -> j_idx j = j_idx k).
Proof. exact elements_names. Qed.
Print Assumptions C14_elements_names.

Theorem C14_elements_parse_sound : forall s i, parse elements_family s = Ok i ->
  exists j, row_at elements_family i = Some j /\ j_idx j = i /\ j_name j = s.
Proof. exact elements_parse_sound. Qed.
Print Assumptions C14_elements_parse_sound.

Theorem C14_elements_types : forall j, In j (f_rows elements_family) ->
  (exists t, tn_to_final (j_src j) = Ok t /\ tn_to_bit_width (j_src j) = Ok (width t)) /\
  (exists t, tn_to_final (j_tgt j) = Ok t /\ tn_to_bit_width (j_tgt j) = Ok (width t)).
Proof. exact elements_types. Qed.
Print Assumptions C14_elements_types.

(* ---------------------------------------------------------------- bitcoin family (428 jets) *)

Theorem C14_bitcoin_table :
  List.length (f_rows bitcoin_family) = 428%nat /\
  map j_idx (f_rows bitcoin_family) = upto 428 /\ f_all bitcoin_family = upto 428 /\ f_all_len bitcoin_family = 428.
Proof. exact bitcoin_table. Qed.
Print Assumptions C14_bitcoin_table.

Theorem C14_bitcoin_roundtrip : forall j, In j (f_rows bitcoin_family) -> forall r,
  jet_encode j = Ok (jet_code j) /\
  decode (f_tree bitcoin_family) (jet_code j ++ r) = Ok (j_idx j, r).
Proof. exact bitcoin_roundtrip. Qed.
Print Assumptions C14_bitcoin_roundtrip.

Theorem C14_bitcoin_decode_complete : forall b i r, decode (f_tree bitcoin_family) b = Ok (i, r) ->
  exists j, row_at bitcoin_family i = Some j /\ j_idx j = i /\ b = jet_code j ++ r.
Proof. exact bitcoin_decode_complete. Qed.
Print Assumptions C14_bitcoin_decode_complete.

Theorem C14_bitcoin_prefix_free : forall j k, In j (f_rows bitcoin_family) -> In k (f_rows bitcoin_family) ->
  j_idx j <> j_idx k -> forall r, jet_code k <> jet_code j ++ r.
Proof. exact bitcoin_prefix_free. Qed.
Print Assumptions C14_bitcoin_prefix_free.

Theorem C14_bitcoin_names :
  (forall j, In j (f_rows bitcoin_family) -> parse bitcoin_family (j_name j) = Ok (j_idx j)) /\
  (forall j k, In j (f_rows bitcoin_family) -> In k (f_rows bitcoin_family) -> j_name j = j_name k -> j_idx j = j_idx k).
Proof. exact bitcoin_names. Qed.
Print Assumptions C14_bitcoin_names.

Theorem C14_bitcoin_parse_sound : forall s i, parse bitcoin_family s = Ok i ->
  exists j, row_at bitcoin_family i = Some j /\ j_idx j = i /\ j_name j = s.
Proof. exact bitcoin_parse_sound. Qed.
Print Assumptions C14_bitcoin_parse_sound.

Theorem C14_bitcoin_types : forall j, In j (f_rows bitcoin_family) ->
  (exists t, tn_to_final (j_src j) = Ok t /\ tn_to_bit_width (j_src j) = Ok (width t)) /\
  (exists t, tn_to_final (j_tgt j) = Ok t /\ tn_to_bit_width (j_tgt j) = Ok (width t)).
Proof. exact bitcoin_types. Qed.
Print Assumptions C14_bitcoin_types.

(* ---------------------------------------------------------------- Rust Elements table = C tables *)

Theorem C14_c_table :
  List.length (ct_rows c_tables) = 471%nat /\ map cj_idx (ct_rows c_tables) = upto 471.
Proof. exact c_table. Qed.
Print Assumptions C14_c_table.

(* for every Elements jet: a C row of the same name with equal commitment root (8 big-endian words = 32 bytes),
   equal source and target types (type name expanded = type-table entry expanded), equal cost, and
   decodePrimitive maps the jet's Rust code to that C jet, whatever follows *)
Theorem C14_elements_match_c : forall j, In j (f_rows elements_family) ->
  exists c, In c (ct_rows c_tables) /\ lower (cj_enum c) = j_name j /\
    j_cmr j = flat_map word_bytes (cj_cmr c) /\ List.length (j_cmr j) = 32%nat /\
    (exists t, tn_to_final (j_src j) = Ok t /\ c_type c_tables (cj_src c) = Some t) /\
    (exists t, tn_to_final (j_tgt j) = Ok t /\ c_type c_tables (cj_tgt c) = Some t) /\
    j_cost j = cj_cost c /\
    forall r, c_decode_prim c_tables (jet_code j ++ r) = Ok (cj_idx c, r).
Proof. exact elements_c. Qed.
Print Assumptions C14_elements_match_c.

(* each Core jet has the types of its Elements namesake and the same code behind the family bit 0 *)
Theorem C14_core_in_elements : forall j, In j (f_rows core_family) ->
  exists e, In e (f_rows elements_family) /\ j_name e = j_name j /\ j_src e = j_src j /\ j_tgt e = j_tgt j /\
            jet_code e = false :: jet_code j.
Proof. exact core_elements. Qed.
Print Assumptions C14_core_in_elements.

(* ---------------------------------------------------------------- bindings *)

(* jet x is executed through jets_wrapper::x -> extern fn with link name rustsimplicity_0_7_c_x -> WRAP_(x)
   -> rustsimplicity_0_7_x, which is the .jet field of the C row of x *)
Theorem C14_elements_bindings : forall j, In j (f_rows elements_family) ->
  (exists e env it, In (j_cptr j, e, env) (ft_wrappers ffi_tables) /\ In it (ft_items ffi_tables) /\
     fi_kind it = FkFn /\ fi_rust it = e /\ fi_link it = (prefix_c ++ j_name j)%string /\
     In (j_name j) (ft_wraps ffi_tables) /\ In (j_name j) (ft_inner ffi_tables)) /\
  (exists c, In c (ct_rows c_tables) /\ lower (cj_enum c) = j_name j /\ cj_fn c = (prefix_j ++ j_name j)%string).
Proof. exact elements_bindings. Qed.
Print Assumptions C14_elements_bindings.

Theorem C14_core_bindings : forall j, In j (f_rows core_family) ->
  exists e env it, In (j_cptr j, e, env) (ft_wrappers ffi_tables) /\ In it (ft_items ffi_tables) /\
     fi_kind it = FkFn /\ fi_rust it = e /\ fi_link it = (prefix_c ++ j_name j)%string /\
     In (j_name j) (ft_wraps ffi_tables) /\ In (j_name j) (ft_inner ffi_tables).
Proof. exact core_bindings. Qed.
Print Assumptions C14_core_bindings.

(* every extern fn, callback type and exported fn has the arity and parameter types of its C prototype *)
Theorem C14_ffi_params :
  List.length (ft_items ffi_tables) = 593%nat /\
  forall it, In it (ft_items ffi_tables) -> is_static it = false ->
    List.length (fi_rparams it) = List.length (fi_cparams it) /\
    Forall2 (fun r c => ft_compat ffi_tables r c = true) (fi_rparams it) (fi_cparams it).
Proof. split; [exact ffi_length|exact ffi_params]. Qed.
Print Assumptions C14_ffi_params.

Theorem C14_ffi_returns : forall it, In it (ft_items ffi_tables) -> is_static it = false ->
  ft_compat ffi_tables (fi_rret it) (fi_cret it) = true \/ In (fi_link it) tolerated_returns.
Proof. exact ffi_returns. Qed.
Print Assumptions C14_ffi_returns.

Theorem C14_ffi_statics : forall it, In it (ft_items ffi_tables) -> is_static it = true ->
  ft_compat ffi_tables (fi_rret it) (fi_cret it) = true \/ In (fi_link it) tolerated_statics.
Proof. exact ffi_statics. Qed.
Print Assumptions C14_ffi_statics.
