(* C04, phase 3 - layer (e), for the outcomes decided at construction time: at the level of the executable entry
   points RunSlab.run_rinfer (slab model) and Run.run_infer (reference), for every input,

     run_refines_bind_shape   whenever the slab run does not end in Panic / OutOfFuel and one of the two reports a
                              shape error or Error::Bind, both print exactly the same canonical output
                              (`strip99 (run_rinfer ..) = run_infer ..`), the stage of the Bind error included.

   What is left of C04_slab_refines_reference_statement: the outcomes decided at finalisation (Ok with every arrow,
   Error::OccursCheck): layer (d), and the absence of Panic / OutOfFuel in the slab model. *)
From RS Require Import Lib.Tac Lib.Outcome Lib.Sweep Ty.Ty Core.Prog Infer.Constraints Infer.Unify Infer.Infer Infer.Gen Infer.Theorems
  Infer.Principal Infer.Order Infer.Run Infer.Run2 Infer.UnionFind Infer.Slab Infer.RunSlab Infer.SlabProofs Infer.Rational Infer.ErrClass
  Infer.SlabSim Infer.SlabSimInst Infer.SlabPrims Infer.SlabNodes Infer.SlabNodes2 Infer.SlabNodes3 Infer.SlabNodes4 Infer.SlabNodes5
  Infer.SlabConstruct.
Import ListNotations.
Local Open Scope outcome_scope.

(* ------------------------------------------------------------------ r_infer = construction, then finalisation *)
Definition r_finish (fmode : nat) (p : prog) (canon : list nat) (root : nat) (c : ctx) (ar : list (option varrow))
  : rres (list (option tarrow)) :=
  let n := length p in
  c <- match fmode with
       | 0%nat =>
           match nth root ar None with
           | Some _ => fin_list true c ar (dfs_post (4 * n + 4) p [(root, false)] [] [])
           | None => Ok c
           end
       | 1%nat => fin_list true c ar (rev (seq 0 n))
       | 2%nat => fin_list false c ar (rev (seq 0 n))
       | _ => fin_list false c ar canon
       end ;;
  read_arrows c ar canon.

Lemma r_infer_split fuel jt fmode program p canon root :
  r_infer fuel jt fmode program p canon root =
  ('(c, ar) <- r_construct fuel jt program p root ;; r_finish fmode p canon root c ar).
Proof.
  unfold r_infer, r_construct, r_finish.
  destruct (r_nodes fuel jt empty_ctx [] p) as [[c ar]|e| |]; cbn [obind]; try reflexivity.
  destruct program; [|reflexivity].
  destruct (nth root ar None) as [a|] eqn:En; cbn [obind]; [|reflexivity].
  destruct (r_set_program fuel c a) as [c'|e| |]; cbn [obind]; try reflexivity.
  destruct fmode as [|[|[|k]]]; try reflexivity. unfold varrow in *. rewrite En. reflexivity.
Qed.

(* the finalisation stage only ever reports the occurs check *)
Lemma fin_ty_err c e x cx : fin_ty c e = Err (x, cx) -> x = ROccurs.
Proof.
  unfold fin_ty. destruct (finalize c e) as [[c1 [t|]]|er| |]; cbn [lift_fin obind]; try discriminate.
  intros H. injection H as <- _. reflexivity.
Qed.

Lemma fin_arrow_err sf c a x cx : fin_arrow sf c a = Err (x, cx) -> x = ROccurs.
Proof.
  unfold fin_arrow. destruct a as [[s t]|]; [|discriminate].
  destruct (if sf then (s, t) else (t, s)) as [u v].
  destruct (fin_ty c u) as [[c1 t1]|[x1 c1]| |] eqn:E1; cbn [obind]; try discriminate.
  - destruct (fin_ty c1 v) as [[c2 t2]|[x2 c2]| |] eqn:E2; cbn [obind]; try discriminate.
    intros H. injection H as <- _. apply (fin_ty_err _ _ _ _ E2).
  - intros H. injection H as <- _. apply (fin_ty_err _ _ _ _ E1).
Qed.

Lemma fin_list_err sf ar : forall l c x cx, fin_list sf c ar l = Err (x, cx) -> x = ROccurs.
Proof.
  induction l as [|i rest IH]; intros c x cx H; cbn [fin_list] in H; [discriminate|].
  destruct (fin_arrow sf c (nth i ar None)) as [c1|[x1 c1]| |] eqn:E1; cbn [obind] in H; try discriminate.
  - apply (IH _ _ _ H).
  - injection H as <- _. apply (fin_arrow_err _ _ _ _ _ E1).
Qed.

Lemma read_arrows_err ar : forall l c x cx, read_arrows c ar l = Err (x, cx) -> x = ROccurs.
Proof.
  induction l as [|i rest IH]; intros c x cx H; cbn [read_arrows] in H; [discriminate|].
  destruct (nth i ar None) as [[s t]|].
  - destruct (fin_ty c s) as [[c1 t1]|[x1 c1]| |] eqn:E1; cbn [obind] in H; try discriminate.
    + destruct (fin_ty c1 t) as [[c2 t2]|[x2 c2]| |] eqn:E2; cbn [obind] in H; try discriminate.
      * destruct (read_arrows c2 ar rest) as [r|[x3 c3]| |] eqn:E3; cbn [obind] in H; try discriminate.
        injection H as <- _. apply (IH _ _ _ E3).
      * injection H as <- _. apply (fin_ty_err _ _ _ _ E2).
    + injection H as <- _. apply (fin_ty_err _ _ _ _ E1).
  - destruct (read_arrows c ar rest) as [r|[x3 c3]| |] eqn:E3; cbn [obind] in H; try discriminate.
    injection H as <- _. apply (IH _ _ _ E3).
Qed.

Lemma r_finish_err fmode p canon root c ar x cx : r_finish fmode p canon root c ar = Err (x, cx) -> x = ROccurs.
Proof.
  unfold r_finish.
  match goal with |- context [obind ?X _] => destruct X as [c1|[x1 c1]| |] eqn:E1 end; cbn [obind]; try discriminate.
  - apply read_arrows_err.
  - intros H. injection H as <- _.
    destruct fmode as [|[|[|k]]]; try (apply (fin_list_err _ _ _ _ _ _ E1)).
    destruct (nth root ar None); [apply (fin_list_err _ _ _ _ _ _ E1)|discriminate].
Qed.

(* ------------------------------------------------------------------ construction orders: positions *)
Lemma index_of_spec x : forall l k j, index_of x l k = Some j ->
  (k <= j)%nat /\ (j - k < length l)%nat /\ nth (j - k) l 0%nat = x.
Proof.
  induction l as [|y r IH]; intros k j H; cbn [index_of] in H; [discriminate|].
  destruct (Nat.eqb_spec x y) as [->|N].
  - injection H as <-. rewrite Nat.sub_diag. cbn. split; [lia|split; [lia|reflexivity]].
  - destruct (IH _ _ H) as (L1 & L2 & L3). split; [lia|]. cbn [length]. split; [lia|].
    replace (j - k)%nat with (S (j - S k)) by lia. cbn [nth]. exact L3.
Qed.

Lemma pos_of_valid n order i : valid_order n order = true -> (i < n)%nat ->
  (pos_of order i < n)%nat /\ nth (pos_of order i) order 0%nat = i.
Proof.
  unfold valid_order. intros V Hi. apply andb_true_iff in V. destruct V as [VL VA]. apply Nat.eqb_eq in VL.
  rewrite forallb_forall in VA. specialize (VA i ltac:(apply in_seq; lia)). unfold pos_of.
  destruct (index_of i order 0) as [k|] eqn:E; [|discriminate].
  destruct (index_of_spec _ _ _ _ E) as (_ & L2 & L3). rewrite Nat.sub_0_r in *. split; [lia|exact L3].
Qed.

Lemma permute_nth p order n i : valid_order n order = true -> (i < n)%nat ->
  nth (pos_of order i) (permute p order) NIden = rename_node (pos_of order) (nth i p NIden).
Proof.
  intros V Hi. destruct (pos_of_valid n order i V Hi) as [L E].
  unfold valid_order in V. apply andb_true_iff in V. destruct V as [VL _]. apply Nat.eqb_eq in VL.
  unfold permute.
  rewrite (nth_indep _ NIden ((fun o => rename_node (pos_of order) (nth o p NIden)) 0%nat)) by (rewrite map_length; lia).
  rewrite (map_nth (fun o => rename_node (pos_of order) (nth o p NIden)) order 0%nat). rewrite E. reflexivity.
Qed.

Definition is_hidden (nd : node) : bool := match nd with NHidden _ => true | _ => false end.

Lemma is_hidden_rename f nd : is_hidden (rename_node f nd) = is_hidden nd.
Proof. destruct nd; reflexivity. Qed.

(* ------------------------------------------------------------------ the arrow of a node is None exactly for hidden nodes *)
Lemma node_tmpl_arrow_none jt n ar nd nb ne a : node_tmpl jt n ar nd = Some (nb, ne, a) ->
  (a = None <-> is_hidden nd = true).
Proof.
  intros H. destruct nd; cbn [node_tmpl is_hidden] in *;
    repeat match type of H with
           | context [match ?x with _ => _ end] => destruct x eqn:?; try discriminate H
           | context [if ?x then _ else _] => destruct x eqn:?; try discriminate H
           end;
    try (injection H as <- <- <-; split; intros; try discriminate; reflexivity).
Qed.

Lemma gen_arr_hidden jt : forall p g g', ginv g -> gen_nodes jt p g = Some g' ->
  forall i, (i < length p)%nat ->
    (arr_of (g_arr g') (length (g_arr g) + i) = None <-> is_hidden (nth i p NIden) = true).
Proof.
  induction p as [|nd rest IH]; intros g g' I H i Hi; [cbn in Hi; lia|].
  cbn [gen_nodes] in H.
  destruct (node_tmpl jt (length (g_store g)) (g_arr g) nd) as [[[nb ne] a]|] eqn:T; [|discriminate].
  pose proof (ginv_step _ _ _ _ _ _ I T) as I1.
  destruct (gen_nodes_inv jt _ _ _ I1 H) as (_ & s2 & e2 & a2 & _ & _ & Ea & La). cbn [g_arr] in Ea.
  destruct i as [|i].
  - rewrite Nat.add_0_r. cbn [nth]. rewrite Ea. rewrite arr_of_app_l by (rewrite app_length; cbn; lia).
    rewrite arr_of_app_last. apply (node_tmpl_arrow_none _ _ _ _ _ _ _ T).
  - cbn [nth length] in *. specialize (IH _ _ I1 H i ltac:(lia)). cbn [g_arr] in IH.
    rewrite app_length in IH. cbn [length] in IH.
    replace (length (g_arr g) + S i)%nat with (length (g_arr g) + 1 + i)%nat by lia. exact IH.
Qed.

Lemma strip99_bind st x : strip99 [1; 20; st; 99; x]%N = [1; 20; st]%N.
Proof.
  cbn [strip99].
  destruct st as [|pp]; [reflexivity|].
  repeat (destruct pp as [pp|pp|]; try reflexivity).
Qed.

(* ------------------------------------------------------------------ the run-level statement for Bind and shape outcomes *)
Definition bind_or_shape (l : list N) : Prop := l = [1; 11; 0]%N \/ exists st, l = [1; 20; st]%N.

Lemma show_arrow_head a : exists x r, show_arrow a = x :: r /\ (x = 4 \/ x = 5)%N.
Proof. destruct a as [[s t]|]; cbn [show_arrow]; eauto. Qed.

Lemma strip99_ok_head l : exists r, strip99 (0%N :: l) = 0%N :: r.
Proof. cbn [strip99]. eauto. Qed.

Theorem run_refines_bind_shape : forall (fmode : nat) (program : bool) (order : list nat)
    (jets : list (N * N * list N * list N)) (p : prog),
  let a := run_infer program order jets p in
  let b := run_rinfer fmode program order jets p in
  (forall k, b <> [9; k]%N) -> b <> [8]%N ->
  bind_or_shape a \/ bind_or_shape (strip99 b) -> strip99 b = a.
Proof.
  intros fmode program order jets p a b NP NF HB. subst a b. unfold run_infer, run_rinfer in *.
  set (n := length p) in *.
  set (order' := match order with [] => seq 0 n | _ => order end) in *.
  destruct (valid_order n order') eqn:V; cbn [negb] in *; [|reflexivity].
  set (pos := pos_of order') in *. set (jt := jets_of jets) in *. set (p' := permute p order') in *.
  assert (Lp' : length p' = n).
  { unfold p', permute. rewrite map_length. unfold valid_order in V. apply andb_true_iff in V. destruct V as [VL _]. apply Nat.eqb_eq in VL. exact VL. }
  assert (Hd : match nth (n - 1) p NIden with NHidden _ => true | _ => false end = is_hidden (nth (n - 1) p NIden)) by reflexivity.
  rewrite Hd in *. clear Hd.
  destruct (gen jt p') as [g|] eqn:G.
  2:{ unfold infer. rewrite G. reflexivity. }
  destruct (gen_nodes_inv jt p' empty_g g ginv_empty G) as (Ig & _).
  set (rootopt := if program then Some (pos (n - 1)%nat) else None) in *.
  (* the arrow of the root position is None exactly when the last canonical node is hidden *)
  assert (Hroot : (0 < n)%nat -> (arr_of (g_arr g) (pos (n - 1)%nat) = None <-> is_hidden (nth (n - 1) p NIden) = true)).
  { intros Hn. destruct (pos_of_valid n order' (n - 1) V ltac:(lia)) as [Lpos _]. fold pos in Lpos.
    pose proof (gen_arr_hidden jt p' empty_g g ginv_empty G (pos (n - 1)%nat) ltac:(lia)) as HH. cbn [empty_g g_arr length Nat.add] in HH.
    rewrite HH. unfold p', pos. rewrite (permute_nth p order' n (n - 1) V ltac:(lia)), is_hidden_rename. tauto. }
  destruct (root_tmpl g rootopt) as [[rb re]|] eqn:R.
  - (* the reference generates constraints *)
    assert (Chk : (program && is_hidden (nth (n - 1) p NIden))%bool = false).
    { destruct program; [|reflexivity]. cbn [andb]. destruct (is_hidden (nth (n - 1) p NIden)) eqn:Hh; [|reflexivity]. exfalso.
      assert (Hn : (0 < n)%nat).
      { destruct p as [|x r]; [cbn in Hh; discriminate|cbn [length] in n; unfold n; lia]. }
      unfold rootopt in R. cbn [root_tmpl] in R. rewrite (proj2 (Hroot Hn) eq_refl) in R. discriminate. }
    rewrite Chk in *. rewrite r_infer_split in *.
    pose proof (construct_sim (model_fuel jt p) jt program p' (pos (n - 1)%nat) g rb re G R) as CS. fold rootopt in CS.
    destruct (r_construct (model_fuel jt p) jt program p' (pos (n - 1)%nat)) as [[c ar]|[[|st ex nb|] ce]|k|]; cbn [obind show_rresult] in *;
      try (destruct CS; fail).
    + (* construction succeeded: neither side reports Bind or shape *)
      exfalso. destruct CS as [_ CS].
      assert (Na : ~ bind_or_shape (show_result n pos (infer jt rootopt p'))).
      { destruct CS as [(tau & ->)| ->]; cbn [show_result]; intros [E|(st & E)]; discriminate. }
      destruct HB as [HB|HB]; [exact (Na HB)|].
      destruct (r_finish fmode p' (map pos (seq 0 n)) (pos (n - 1)%nat) c ar) as [tau|[x cx]|k|] eqn:F; cbn [show_rresult] in *.
      * destruct (strip99_ok_head (flat_map show_arrow tau ++ [99; 0]%N)) as (r & Er). rewrite Er in HB.
        destruct HB as [E|(st & E)]; discriminate.
      * rewrite (r_finish_err _ _ _ _ _ _ _ _ F) in HB. cbn in HB. destruct HB as [E|(st & E)]; discriminate.
      * apply (NP k). reflexivity.
      * apply NF. reflexivity.
    + rewrite CS. cbn [show_result]. apply strip99_bind.
    + exfalso. apply (NP k). reflexivity.
    + exfalso. apply NF. reflexivity.
  - (* no constraints for the root: a shape error on both sides *)
    assert (Ea : infer jt rootopt p' = Err EShape) by (unfold infer; rewrite G, R; reflexivity).
    rewrite Ea. cbn [show_result].
    destruct program; [|discriminate R]. cbn [andb] in *. unfold rootopt in R. cbn [root_tmpl] in R.
    destruct (arr_of (g_arr g) (pos (n - 1)%nat)) as [[rs rt]|] eqn:Ar; [discriminate|].
    destruct (Nat.eq_dec n 0) as [N0|N0].
    + (* the empty table *)
      assert (Ep : p = []) by (destruct p; [reflexivity|cbn in n; unfold n in N0; lia]).
      assert (Eo : order' = []).
      { unfold valid_order in V. apply andb_true_iff in V. destruct V as [VL _]. apply Nat.eqb_eq in VL.
        destruct order'; [reflexivity|cbn in VL; lia]. }
      unfold p', pos, n in *. rewrite Eo. rewrite Ep. vm_compute. reflexivity.
    + rewrite (proj1 (Hroot ltac:(lia)) eq_refl). reflexivity.
Qed.
