(* RedeemNode::prune as a loop of passes, for ANY hash functions and ANY way of computing the identity
   classes and the serialised witness stream of a program ([analyse]): the executable model of
   Redeem/PruneIhr.v is the instance with SHA-256 identity roots.  Soundness: whatever the classes, when the
   loop stops without an error code the program it returns
     - runs to the unit value with the trace of the original run,
     - carries typed witnesses under its arrows, and these arrows are exactly the principal arrows of its
       own structure (what a decoder re-infers from the serialisation),
     - has the commitment roots of the original program;
   and type inference inside a pass never fails (error code 2 is unreachable).
     src/node/redeem.rs  RedeemNode::prune, prune_with_tracker *)
From RS Require Import Lib.Tac Lib.Outcome Lib.Bits Lib.Sweep Ty.Ty Core.Prog
  Redeem.Finalize Redeem.PruneProg Redeem.PruneFix Redeem.Retype
  Infer.Constraints Infer.Infer Redeem.RetypeInfer Redeem.RetypeKeep Redeem.RetypeEnd.
Import ListNotations.
Local Open Scope nat_scope.

Record loop_state := mk_ls {
  ls_rounds : list (list nat);      (* identity classes of the program every round started from *)
  ls_prog : rprog;                  (* current program: structure, witnesses shrunk *)
  ls_arrows : arrows;               (* its arrows *)
  ls_err : N                        (* 0 = ok; otherwise which step failed *)
}.

Definition ident_of_classes (cls : list nat) : nat -> nat := fun i => nth i cls i.

(* `again.to_vec_with_witness() == pruned.to_vec_with_witness()`: the program bits are equal iff the structure and
   the sharing (identity classes) are, the witness bytes iff the streams padded with zeros to whole bytes are: a
   trailing 0 bit of a witness that shrinks away is indistinguishable from padding *)
Definition same_serialisation (q p : rprog) (cls' cls : list nat) (stream' stream : list bool) : bool :=
  (if rprog_eq_dec q p then true else false) && list_beq Nat.eqb cls' cls &&
  list_beq Bool.eqb (pad_to_byte stream') (pad_to_byte stream).

Section Loop.
Variable HS : hashes.
(* identity classes and (unpadded) witness stream of a typed program *)
Variable analyse : rprog -> arrows -> outcome N (list nat * list bool).

Fixpoint prune_loop_gen (fuel : nat) (jt : jet_table) (E : list event) (st : loop_state)
    (cls : list nat) (stream : list bool) : loop_state :=
  match fuel with
  | O => mk_ls (ls_rounds st) (ls_prog st) (ls_arrows st) 8
  | S f =>
      let p := ls_prog st in
      let root := length p - 1 in
      let q := prune_struct HS (ident_of_classes cls) p E in
      let rounds := (ls_rounds st ++ [cls])%list in
      (* Pruner converts every node of p - also the ones that are dropped - into the inference context *)
      match infer_keep jt (keepb p root) q with
      | Some ar' =>
          let p' := shrink ar' q in
          match analyse p' ar' with
          | Ok (cls', stream') =>
              if same_serialisation q p cls' cls stream' stream then mk_ls rounds p' ar' 0
              else prune_loop_gen f jt E (mk_ls rounds p' ar' 0) cls' stream'
          | Err e => mk_ls rounds p' ar' (100 + e)
          | Panic c => mk_ls rounds p' ar' 9
          | OutOfFuel => mk_ls rounds p' ar' 8
          end
      | None => mk_ls rounds q (ls_arrows st) 2
      end
  end.

Definition prune_full_gen (jt : jet_table) (p : rprog) (ar : arrows) (E : list event) : loop_state :=
  match analyse p ar with
  | Ok (cls, stream) => prune_loop_gen (4 + count_case p) jt E (mk_ls [] p ar 0) cls stream
  | Err e => mk_ls [] p ar (100 + e)
  | Panic c => mk_ls [] p ar 9
  | OutOfFuel => mk_ls [] p ar 8
  end.

(* ------------------------------------------------------------------ shrinking keeps the structure *)

Lemma nth_shrink ar q i : nth i (shrink ar q) RIden = shrink_node ar i (nth i q RIden).
Proof.
  destruct (nth_error q i) as [n|] eqn:E.
  - assert (E' : nth_error (shrink ar q) i = Some (shrink_node ar i n)) by (rewrite shrink_nth, E; reflexivity).
    rewrite (nth_error_nth _ _ _ E), (nth_error_nth _ _ _ E'). reflexivity.
  - assert (E' : nth_error (shrink ar q) i = None) by (rewrite shrink_nth, E; reflexivity).
    apply nth_error_None in E, E'. rewrite !nth_overflow by assumption. reflexivity.
Qed.

Lemma marks_down_shrink ar q root : forall i above,
  marks_down (shrink ar q) root i above = marks_down q root i above.
Proof.
  induction i as [|j IH]; intros above; cbn [marks_down]; [reflexivity|]. rewrite IH. do 3 f_equal.
  unfold parent_marked. generalize (seq 0 (length above)). intros l.
  induction l as [|p l IHl]; [reflexivity|]. cbn [existsb]. rewrite IHl, nth_shrink, shrink_children. reflexivity.
Qed.

Lemma keepb_shrink ar q root i : keepb (shrink ar q) root i = keepb q root i.
Proof. unfold keepb, reach_list. rewrite shrink_length, marks_down_shrink. reflexivity. Qed.

Lemma interleave2_ext {A} (f f' g g' : nat -> A) : (forall i, f i = f' i) -> (forall i, g i = g' i) ->
  forall n i, interleave2 f g i n = interleave2 f' g' i n.
Proof. intros Hf Hg. induction n as [|n IH]; intros i; cbn [interleave2]; [reflexivity|]. rewrite Hf, Hg, IH. reflexivity. Qed.

Lemma hid_of_shrink ar i n : hid_of (shrink_node ar i n) = hid_of n.
Proof. destruct n; try reflexivity. cbn. destruct (ar i) as [[s t]|]; [destruct (value_prune c t)|]; reflexivity. Qed.

Lemma tr_node_shrink ar i n : tr_node i (shrink_node ar i n) = tr_node i n.
Proof. destruct n; try reflexivity. cbn. destruct (ar i) as [[s t]|]; [destruct (value_prune c t)|]; reflexivity. Qed.

Lemma tr_keep_shrink keep ar q : tr_keep keep (shrink ar q) = tr_keep keep q.
Proof.
  unfold tr_keep. rewrite shrink_length. apply interleave2_ext.
  - intros i. rewrite nth_shrink, hid_of_shrink. reflexivity.
  - intros i. rewrite nth_shrink, tr_node_shrink. reflexivity.
Qed.

Lemma tr_shrink ar q root : tr (shrink ar q) root = tr q root.
Proof.
  unfold tr. rewrite tr_keep_shrink. unfold tr_keep. apply interleave2_ext; [reflexivity|].
  intros i. rewrite keepb_shrink. reflexivity.
Qed.

Lemma shrink_rwf ar q : rwf q = true -> rwf (shrink ar q) = true.
Proof.
  unfold rwf, shrink. generalize 0. induction q as [|n tl IH]; intros i Hq; cbn [shrink_from rwf_from] in *; [reflexivity|].
  apply andb_true_iff in Hq. destruct Hq as [A B]. rewrite shrink_children, A. cbn. apply IH. exact B.
Qed.

Lemma shrink_word ar q i n bits :
  nth_error (shrink ar q) i = Some (RWord n bits) -> nth_error q i = Some (RWord n bits).
Proof.
  rewrite shrink_nth. destruct (nth_error q i) as [n0|]; [|discriminate]. cbn [option_map].
  destruct n0; cbn [shrink_node]; try (intros H; exact H).
  destruct (ar i) as [[s t]|]; [destruct (value_prune c t)|]; discriminate.
Qed.

Lemma okb_struct jet_ty ar i n : node_okb jet_ty ar i n = true -> struct_okb jet_ty ar i n = true.
Proof.
  intros H. destruct n; try exact H. unfold struct_okb. unfold node_okb in H. destruct (ar i); [reflexivity|discriminate].
Qed.

Lemma list_beq_nat l1 : forall l2, list_beq Nat.eqb l1 l2 = true -> l1 = l2.
Proof.
  induction l1 as [|a r1 IH]; intros [|b r2] H; cbn in H; try discriminate; [reflexivity|].
  apply andb_true_iff in H. destruct H as [A B]. apply Nat.eqb_eq in A. subst. f_equal. apply IH. exact B.
Qed.

(* pruning touches case nodes, shrinking touches witness nodes: they commute *)
Lemma pnode_shrink ident C T ar i n :
  pnode ident C T i (shrink_node ar i n) = shrink_node ar i (pnode ident C T i n).
Proof.
  destruct n; try reflexivity.
  - cbn [shrink_node pnode]. destruct (taken ident T i false), (taken ident T i true); reflexivity.
  - cbn [pnode shrink_node]. destruct (ar i) as [[s t]|]; [destruct (value_prune c t)|]; reflexivity.
Qed.

Lemma prune_shrink ident ar q T :
  prune_struct HS ident (shrink ar q) T = shrink ar (prune_struct HS ident q T).
Proof.
  unfold prune_struct. rewrite cmrs_shrink. unfold shrink. generalize (cmrs HS q) as C. generalize 0 as i.
  induction q as [|n tl IH]; intros i C; cbn [shrink_from prune_from]; [reflexivity|].
  rewrite pnode_shrink, IH. reflexivity.
Qed.

(* ------------------------------------------------------------------ soundness *)

Section Sound.
Variable jet_sem : N -> N -> sval -> option sval.
Variable hash_val : list N -> sval.
Variable jt : jet_table.
Hypothesis jet_typed : forall f j s t v o, jet_ty_of jt f j = Some (s, t) ->
  has_ty v s = true -> jet_sem f j v = Some o -> has_ty o t = true.
Hypothesis hash_typed : forall h, has_ty (hash_val h) (word_ty 8) = true.
Variable E : list event.

Notation jty := (jet_ty_of jt).

(* what every program of the loop satisfies *)
Record inv (p : rprog) (a : arrows) : Prop := mk_inv {
  i_wf : rwf p = true;
  i_ne : p <> []%list;
  i_typed : typed_from jty p a (length p - 1);
  i_words : words_small p (length p - 1);
  i_root : a (length p - 1) = Some (One, One);
  i_run : exists o, run HS jet_sem hash_val p = Ok (o, E)
}.

Lemma root_lt (p : rprog) : p <> []%list -> length p - 1 < length p.
Proof. destruct p; [congruence|cbn; lia]. Qed.

(* one pass *)
Lemma pass_inv ident p a : inv p a ->
  let root := length p - 1 in
  let q := prune_struct HS ident p E in
  exists a', infer_keep jt (keepb p root) q = Some a' /\
    inv (shrink a' q) a' /\
    run HS jet_sem hash_val (shrink a' q) = Ok (SU, E) /\
    cmrs HS (shrink a' q) = cmrs HS p /\ length (shrink a' q) = length p.
Proof.
  intros [W Ne Ht Hw Ha [o R]] root q.
  assert (Hr : root < length p) by (apply root_lt; exact Ne).
  assert (Lq : length q = length p) by (unfold q, prune_struct; apply prune_from_length).
  assert (Wq : rwf q = true) by (apply prune_struct_rwf; exact W).
  assert (Tq : typed_from jty q a root) by (apply prune_typed; exact Ht).
  assert (Rq : run HS jet_sem hash_val q = Ok (o, E)) by (apply prune_eval; assumption).
  destruct (keep_of_program HS ident p E root W Hr) as (K1 & K2 & K3). fold q in K2, K3.
  (* all nodes of p, with the pruned structure, are typed by the old arrows *)
  assert (Son : struct_typed_on q (keepb p root) jty a).
  { intros i n K En. pose proof (keepb_lt _ _ _ W K) as Li.
    apply (keepb_reach p root i W Li) in K.
    unfold q in En. rewrite prune_nth in En. destruct (nth_error p i) as [n0|] eqn:E0; [|discriminate].
    cbn in En. injection En as <-. apply okb_struct, pnode_typed. eapply Ht; eauto. }
  assert (Won : words_small_on q (keepb p root)).
  { intros i n bits K En. pose proof (keepb_lt _ _ _ W K) as Li.
    apply (keepb_reach p root i W Li) in K. eapply Hw; [exact K|]. eapply prune_struct_word. exact En. }
  destruct (infer_keep_le q root (keepb p root) Wq K2 K3 jt a Son Won) as (a' & I & S' & Le).
  exists a'. split; [exact I|].
  assert (Rk : forall i, reach q root i -> keepb p root i = true) by (apply (reach_kept q root (keepb p root) K1 K2)).
  assert (St : struct_typed jty q a' root) by (intros i n Ri En; apply S'; [apply Rk; exact Ri|exact En]).
  assert (Al : arrows_le q root a' a) by (intros i s t s' t' Ri A A'; exact (Le i s t s' t' (Rk i Ri) A A')).
  assert (T' : typed_from jty (shrink a' q) a' root) by (eapply shrink_typed; eauto).
  (* the new root arrow *)
  assert (Ar' : a' root = Some (One, One)).
  { destruct (nth_error q root) as [nr|] eqn:En; [|apply nth_error_None in En; lia].
    pose proof (St _ _ (reach_refl _ _) En) as X.
    assert (exists s t, a' root = Some (s, t)) as (s & t & E0).
    { destruct nr; cbn [struct_okb] in X; unfold node_okb in X; destruct (a' root) as [[s t]|]; try discriminate; eauto. }
    destruct (Al root One One s t (reach_refl _ _) Ha E0) as [A B].
    apply ty_le_one in A. apply ty_le_one in B. subst. exact E0. }
  assert (Ls : length (shrink a' q) = length p) by (rewrite shrink_length; exact Lq).
  assert (Rn : run HS jet_sem hash_val (shrink a' q) = Ok (SU, E)).
  { apply (retype_run_prog HS jet_sem hash_val jty jet_typed hash_typed q a a' o E); rewrite ?Lq; auto. }
  split; [|split; [exact Rn|split; [|exact Ls]]].
  - constructor.
    + apply shrink_rwf. exact Wq.
    + intros Hn. rewrite Hn in Ls. cbn in Ls. destruct p; [congruence|discriminate].
    + rewrite Ls. exact T'.
    + rewrite Ls. intros i n bits Ri En. eapply Hw.
      * eapply reach_prune. eapply reach_unshrink. exact Ri.
      * eapply prune_struct_word. eapply shrink_word. exact En.
    + rewrite Ls. exact Ar'.
    + exists SU. exact Rn.
  - rewrite cmrs_shrink. apply prune_cmrs. exact W.
Qed.

(* the loop *)
Theorem prune_loop_sound : forall fuel st cls stream p0,
  inv (ls_prog st) (ls_arrows st) ->
  cmrs HS (ls_prog st) = cmrs HS p0 -> length (ls_prog st) = length p0 ->
  let st' := prune_loop_gen fuel jt E st cls stream in
  ls_err st' <> 2%N /\
  (ls_err st' = 0%N ->
     inv (ls_prog st') (ls_arrows st') /\
     run HS jet_sem hash_val (ls_prog st') = Ok (SU, E) /\
     cmrs HS (ls_prog st') = cmrs HS p0 /\ length (ls_prog st') = length p0 /\
     infer_arrows jt false (ls_prog st') (length p0 - 1) = Some (ls_arrows st') /\
     (* one more structural pass with the classes of the RESULT changes nothing *)
     exists cls' stream', analyse (ls_prog st') (ls_arrows st') = Ok (cls', stream') /\
       prune_struct HS (ident_of_classes cls') (ls_prog st') E = ls_prog st').
Proof.
  induction fuel as [|f IH]; intros st cls stream p0 Hi Hc Hl; cbn [prune_loop_gen].
  - cbn. split; [discriminate|discriminate].
  - set (p := ls_prog st) in *. set (root := length p - 1).
    destruct (pass_inv (ident_of_classes cls) p (ls_arrows st) Hi) as (a' & I & Hi' & Rn & Cm & Ln).
    fold root in I. rewrite I.
    set (q := prune_struct HS (ident_of_classes cls) p E) in *.
    destruct (analyse (shrink a' q) a') as [[cls' stream']|e|c|] eqn:An; cbn [ls_err].
    + destruct (same_serialisation q p cls' cls stream' stream) eqn:Ss.
      * cbn [ls_err ls_prog ls_arrows]. split; [discriminate|]. intros _.
        split; [exact Hi'|]. split; [exact Rn|]. split; [congruence|]. split; [congruence|].
        (* the pass changed nothing structurally: its types are the principal types of the result *)
        unfold same_serialisation in Ss. apply andb_true_iff in Ss. destruct Ss as [Ss _].
        apply andb_true_iff in Ss. destruct Ss as [Ss Sc]. apply list_beq_nat in Sc.
        destruct (rprog_eq_dec q p) as [Eq|]; [|discriminate]. split.
        -- unfold infer_arrows, rootopt. rewrite tr_shrink. rewrite Eq.
           unfold infer_keep in I. rewrite Eq in I. unfold tr. rewrite <- Hl. fold root. exact I.
        -- exists cls', stream'. split; [exact An|]. rewrite Sc, prune_shrink. fold q. rewrite Eq.
           f_equal. exact Eq.
      * apply IH; cbn [ls_prog ls_arrows]; [exact Hi'|congruence|congruence].
    + split; [|intros H; exfalso]; destruct e; try discriminate; lia.
    + split; discriminate.
    + split; discriminate.
Qed.

(* RedeemNode::prune *)
Theorem prune_full_sound p ar o :
  let root := length p - 1 in
  rwf p = true -> p <> []%list ->
  typed_from jty p ar root -> words_small p root -> ar root = Some (One, One) ->
  run HS jet_sem hash_val p = Ok (o, E) ->
  let st := prune_full_gen jt p ar E in
  ls_err st <> 2%N /\
  (ls_err st = 0%N ->
     run HS jet_sem hash_val (ls_prog st) = Ok (SU, E) /\
     typed_from jty (ls_prog st) (ls_arrows st) root /\
     infer_arrows jt false (ls_prog st) root = Some (ls_arrows st) /\
     ls_arrows st root = Some (One, One) /\
     root_cmr HS (ls_prog st) = root_cmr HS p /\
     exists cls' stream', analyse (ls_prog st) (ls_arrows st) = Ok (cls', stream') /\
       prune_struct HS (ident_of_classes cls') (ls_prog st) E = ls_prog st).
Proof.
  intros root W Ne Ht Hw Ha R st. unfold st, prune_full_gen.
  destruct (analyse p ar) as [[cls stream]|e|c|]; cbn [ls_err].
  - assert (Hi : inv p ar) by (constructor; eauto).
    destruct (prune_loop_sound (4 + count_case p) (mk_ls [] p ar 0) cls stream p Hi eq_refl eq_refl) as [N2 S].
    split; [exact N2|]. intros Z. destruct (S Z) as (Hi' & Rn & Cm & Ln & Ia & Fx).
    split; [exact Rn|]. destruct Hi' as [_ _ T' _ Ar' _]. rewrite Ln in T', Ar'.
    split; [exact T'|]. split; [exact Ia|]. split; [exact Ar'|]. split; [|exact Fx].
    unfold root_cmr. rewrite Cm, Ln. reflexivity.
  - split; [|intros H; exfalso]; destruct e; try discriminate; lia.
  - split; discriminate.
  - split; discriminate.
Qed.

(* hence, when the classes that [analyse] computes respect the structure (equal IHR means equal form and
   children in equal classes - true of every structural hash), the program that the loop returns satisfies the
   anti-DoS rule under its OWN identity classes: every reachable class was executed, every remaining case class took
   both sides *)
Corollary prune_full_antidos p ar o :
  let root := length p - 1 in
  rwf p = true -> p <> []%list ->
  typed_from jty p ar root -> words_small p root -> ar root = Some (One, One) ->
  run HS jet_sem hash_val p = Ok (o, E) ->
  let st := prune_full_gen jt p ar E in
  ls_err st = 0%N ->
  exists cls' stream', analyse (ls_prog st) (ls_arrows st) = Ok (cls', stream') /\
    (ident_congr (ident_of_classes cls') (ls_prog st) ->
     forall j, reach (ls_prog st) (length (ls_prog st) - 1) j ->
       class_executed (ident_of_classes cls') E j /\
       (forall l r, nth_error (ls_prog st) j = Some (RCase l r) ->
          taken (ident_of_classes cls') E j false = true /\ taken (ident_of_classes cls') E j true = true)).
Proof.
  intros root W Ne Ht Hw Ha R st Z.
  destruct (prune_full_sound p ar o W Ne Ht Hw Ha R) as [_ S]. fold st in S.
  destruct (S Z) as (Rn & _ & _ & _ & _ & cls' & stream' & An & Fx).
  exists cls', stream'. split; [exact An|]. intros Hc j Rj.
  unfold run in Rn.
  exact (fixpoint_all_executed HS jet_sem hash_val (ident_of_classes cls') (ls_prog st) Hc _ _ _ _ _ Rn Fx j Rj).
Qed.

End Sound.
End Loop.
