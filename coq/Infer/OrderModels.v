(* C04, phase 3 - the constraints generated for two renumberings of one table have the same models (in any domain):
   tmpl_related     the two instances of Constraints.node_tmpl for a node and for its renumbered copy are related
                    variable by variable (fresh variables by position, child arrow variables pairwise)
   models_permuted  every model of the constraints of p yields a model of the constraints of the renumbered p'
                    with the same values on every node arrow
   class_order      ErrClass.class_order_statement: the error CLASS of the reference inference is the same for every
                    valid construction order of every table *)
From RS Require Import Lib.Tac Lib.Outcome Ty.Ty Core.Prog Infer.Constraints Infer.Unify Infer.Infer
  Infer.Principal Infer.Gen Infer.Theorems Infer.Order Infer.Run Infer.Rational Infer.ErrClass Infer.SlabNodes Infer.SlabRun
  Infer.SlabConstruct Infer.OrderRun Infer.OrderShape.
Import ListNotations.

(* ---- related instances of a template *)
Inductive brel (R : nat -> nat -> Prop) : bnd -> bnd -> Prop :=
| br_free : brel R BFree BFree
| br_one : brel R BOne BOne
| br_sum a b a' b' : R a a' -> R b b' -> brel R (BSum a b) (BSum a' b')
| br_prod a b a' b' : R a a' -> R b b' -> brel R (BProd a b) (BProd a' b').

Definition erel (R : nat -> nat -> Prop) (e e' : nat * nat) : Prop := R (fst e) (fst e') /\ R (snd e) (snd e').

Definition arel (R : nat -> nat -> Prop) (a a' : option varrow) : Prop :=
  match a, a' with
  | Some (x, y), Some (x', y') => R x x' /\ R y y'
  | None, None => True
  | _, _ => False
  end.

Section Tmpl.
  Variable jt : jet_table.
  Variables n n' : nat.
  Variables ar ar' : list (option varrow).
  Variable f : nat -> nat.
  Variable nd : node.

  Inductive CH : nat -> nat -> Prop :=
  | ch_src c x y x' y' : In c (children nd) -> arr_of ar c = Some (x, y) -> arr_of ar' (f c) = Some (x', y') -> CH x x'
  | ch_tgt c x y x' y' : In c (children nd) -> arr_of ar c = Some (x, y) -> arr_of ar' (f c) = Some (x', y') -> CH y y'.

  (* fresh variables correspond by position *)
  Definition R (v v' : nat) : Prop := ((n <= v)%nat /\ (n' <= v')%nat /\ (v - n = v' - n')%nat) \/ CH v v'.

  Definition child_ok : Prop := forall c, In c (children nd) ->
    hidden_at ar' (f c) = hidden_at ar c /\
    ((arr_of ar' (f c) = None /\ arr_of ar c = None) \/
     (exists x y x' y', arr_of ar' (f c) = Some (x', y') /\ arr_of ar c = Some (x, y))).
End Tmpl.

Lemma walloc_related (Rr : nat -> nat -> Prop) k : forall n n', (forall v v', (n <= v)%nat -> (n' <= v')%nat -> (v - n = v' - n')%nat -> Rr v v') ->
  Forall2 (brel Rr) (fst (walloc k n)) (fst (walloc k n')).
Proof.
  induction k as [|k IH]; intros n n' H.
  - cbn [walloc fst]. constructor; [constructor|]. constructor; [|constructor]. constructor; apply H; lia.
  - pose proof (walloc_length k n) as [L1 R1]. pose proof (walloc_length k n') as [L2 R2].
    specialize (IH n n' H). cbn [walloc]. destruct (walloc k n) as [l r], (walloc k n') as [l' r']. cbn [fst snd] in *.
    apply Forall2_app; [exact IH|]. constructor; [|constructor]. constructor; apply H; lia.
Qed.

Lemma galloc_related (Rr : nat -> nat -> Prop) g : forall n n', (forall v v', (n <= v)%nat -> (n' <= v')%nat -> (v - n = v' - n')%nat -> Rr v v') ->
  Forall2 (brel Rr) (fst (galloc g n)) (fst (galloc g n')) /\ length (fst (galloc g n)) = length (fst (galloc g n')) /\
  (n <= snd (galloc g n))%nat /\ (n' <= snd (galloc g n'))%nat /\ (snd (galloc g n) - n = snd (galloc g n') - n')%nat.
Proof.
  induction g as [|a IHa b IHb|a IHa b IHb|k]; intros n n' H.
  - cbn. split; [constructor; [constructor|constructor]|]. split; [reflexivity|lia].
  - cbn [galloc]. specialize (IHa n n' H). pose proof (galloc_length a n) as Ga. pose proof (galloc_length a n') as Ga'.
    destruct (galloc a n) as [l1 r1], (galloc a n') as [l1' r1']. cbn [fst snd] in *. destruct IHa as (F1 & L1 & A1 & A2 & A3).
    specialize (IHb (length l1 + n)%nat (length l1' + n')%nat ltac:(intros v v' H1 H2 H3; apply H; lia)).
    pose proof (galloc_length b (length l1 + n)) as Gb. pose proof (galloc_length b (length l1' + n')) as Gb'.
    destruct (galloc b (length l1 + n)) as [l2 r2], (galloc b (length l1' + n')) as [l2' r2']. cbn [fst snd] in *.
    destruct IHb as (F2 & L2 & B1 & B2 & B3).
    split; [|rewrite !app_length; cbn [length]; split; [lia|lia]].
    apply Forall2_app; [exact F1|]. apply Forall2_app; [exact F2|].
    constructor; [|constructor]. constructor; apply H; lia.
  - cbn [galloc]. specialize (IHa n n' H). pose proof (galloc_length a n) as Ga. pose proof (galloc_length a n') as Ga'.
    destruct (galloc a n) as [l1 r1], (galloc a n') as [l1' r1']. cbn [fst snd] in *. destruct IHa as (F1 & L1 & A1 & A2 & A3).
    specialize (IHb (length l1 + n)%nat (length l1' + n')%nat ltac:(intros v v' H1 H2 H3; apply H; lia)).
    pose proof (galloc_length b (length l1 + n)) as Gb. pose proof (galloc_length b (length l1' + n')) as Gb'.
    destruct (galloc b (length l1 + n)) as [l2 r2], (galloc b (length l1' + n')) as [l2' r2']. cbn [fst snd] in *.
    destruct IHb as (F2 & L2 & B1 & B2 & B3).
    split; [|rewrite !app_length; cbn [length]; split; [lia|lia]].
    apply Forall2_app; [exact F1|]. apply Forall2_app; [exact F2|].
    constructor; [|constructor]. constructor; apply H; lia.
  - cbn [galloc]. pose proof (walloc_length k n) as [L1 R1]. pose proof (walloc_length k n') as [L2 R2].
    split; [apply walloc_related; exact H|]. split; [lia|lia].
Qed.

Ltac rsolve :=
  unfold R; first
    [ left; lia
    | right; first [ eapply ch_src; [|eassumption|eassumption]; cbn; auto
                   | eapply ch_tgt; [|eassumption|eassumption]; cbn; auto ] ].

Ltac rlist := repeat (first [ apply Forall2_nil | apply Forall2_cons ]); try (constructor; rsolve); try (split; cbn [fst snd]; rsolve).

Local Opaque walloc galloc.

Lemma tmpl_related jt n n' ar ar' f nd nb ne a nb' ne' a' :
  child_ok ar ar' f nd -> node_tmpl jt n ar nd = Some (nb, ne, a) ->
  node_tmpl jt n' ar' (rename_node f nd) = Some (nb', ne', a') ->
  Forall2 (brel (R n n' ar ar' f nd)) nb nb' /\ Forall2 (erel (R n n' ar ar' f nd)) ne ne' /\ arel (R n n' ar ar' f nd) a a'.
Proof.
  intros K H H'.
  destruct nd; cbn [rename_node node_tmpl children] in *.
  - injection H as <- <- <-. injection H' as <- <- <-. split; [rlist|split; [rlist|cbn; split; rsolve]].
  - injection H as <- <- <-. injection H' as <- <- <-. split; [rlist|split; [rlist|cbn; split; rsolve]].
  - destruct (K c (or_introl eq_refl)) as (_ & [[E1 E2]|(x & y & x' & y' & E1 & E2)]); rewrite E1 in H'; rewrite E2 in H; [discriminate|].
    injection H as <- <- <-. injection H' as <- <- <-. split; [rlist|split; [rlist|cbn; split; rsolve]].
  - destruct (K c (or_introl eq_refl)) as (_ & [[E1 E2]|(x & y & x' & y' & E1 & E2)]); rewrite E1 in H'; rewrite E2 in H; [discriminate|].
    injection H as <- <- <-. injection H' as <- <- <-. split; [rlist|split; [rlist|cbn; split; rsolve]].
  - destruct (K c (or_introl eq_refl)) as (_ & [[E1 E2]|(x & y & x' & y' & E1 & E2)]); rewrite E1 in H'; rewrite E2 in H; [discriminate|].
    injection H as <- <- <-. injection H' as <- <- <-. split; [rlist|split; [rlist|cbn; split; rsolve]].
  - destruct (K c (or_introl eq_refl)) as (_ & [[E1 E2]|(x & y & x' & y' & E1 & E2)]); rewrite E1 in H'; rewrite E2 in H; [discriminate|].
    injection H as <- <- <-. injection H' as <- <- <-. split; [rlist|split; [rlist|cbn; split; rsolve]].
  - (* comp *)
    destruct (K l (or_introl eq_refl)) as (_ & [[E1 E2]|(x & y & x' & y' & E1 & E2)]); rewrite E1 in H'; rewrite E2 in H; [discriminate|].
    destruct (K r (or_intror (or_introl eq_refl))) as (_ & [[E3 E4]|(x2 & y2 & x2' & y2' & E3 & E4)]); rewrite E3 in H'; rewrite E4 in H; [discriminate|].
    injection H as <- <- <-. injection H' as <- <- <-. split; [rlist|split; [rlist|cbn; split; rsolve]].
  - (* case *)
    destruct (K l (or_introl eq_refl)) as (Eh1 & KL). destruct (K r (or_intror (or_introl eq_refl))) as (Eh2 & KR).
    rewrite Eh1, Eh2 in H'.
    destruct (hidden_at ar l && hidden_at ar r)%bool; [discriminate|].
    destruct KL as [[E1 E2]|(x & y & x' & y' & E1 & E2)]; rewrite E1 in H'; rewrite E2 in H;
      destruct KR as [[E3 E4]|(x2 & y2 & x2' & y2' & E3 & E4)]; rewrite E3 in H'; rewrite E4 in H;
      destruct (hidden_at ar l); destruct (hidden_at ar r); try discriminate;
      injection H as <- <- <-; injection H' as <- <- <-; (split; [rlist|split; [cbn [app]; rlist|cbn; split; rsolve]]).
  - (* pair *)
    destruct (K l (or_introl eq_refl)) as (_ & [[E1 E2]|(x & y & x' & y' & E1 & E2)]); rewrite E1 in H'; rewrite E2 in H; [discriminate|].
    destruct (K r (or_intror (or_introl eq_refl))) as (_ & [[E3 E4]|(x2 & y2 & x2' & y2' & E3 & E4)]); rewrite E3 in H'; rewrite E4 in H; [discriminate|].
    injection H as <- <- <-. injection H' as <- <- <-. split; [rlist|split; [rlist|cbn; split; rsolve]].
  - (* disconnect *)
    destruct r as [r|]; cbn [option_map children] in *.
    + destruct (K l (or_introl eq_refl)) as (_ & [[E1 E2]|(x & y & x' & y' & E1 & E2)]); rewrite E1 in H'; rewrite E2 in H; [discriminate|].
      destruct (K r (or_intror (or_introl eq_refl))) as (_ & [[E3 E4]|(x2 & y2 & x2' & y2' & E3 & E4)]); rewrite E3 in H'; rewrite E4 in H; [discriminate|].
      cbn [length Nat.add app] in H, H'.
      match type of H with context [walloc 8 ?a] => match type of H' with context [walloc 8 ?a'] =>
        pose proof (walloc_length 8 a) as [L1 R1]; pose proof (walloc_length 8 a') as [L2 R2];
        pose proof (walloc_related (R n n' ar ar' f (NDisconnect l (Some r))) 8 a a' ltac:(intros v v' A B C; left; lia)) as FW;
        destruct (walloc 8 a) as [wl w], (walloc 8 a') as [wl' w'] end end. cbn [fst snd] in *.
      injection H as <- <- <-. injection H' as <- <- <-.
      split; [|split; [rlist|cbn; split; rsolve]].
      cbn [app]. apply Forall2_cons; [constructor|]. apply Forall2_cons; [constructor|]. apply Forall2_app; [exact FW|]. rlist.
    + destruct (K l (or_introl eq_refl)) as (_ & [[E1 E2]|(x & y & x' & y' & E1 & E2)]); rewrite E1 in H'; rewrite E2 in H; [discriminate|].
      cbn [length Nat.add app] in H, H'.
      match type of H with context [walloc 8 ?a] => match type of H' with context [walloc 8 ?a'] =>
        pose proof (walloc_length 8 a) as [L1 R1]; pose proof (walloc_length 8 a') as [L2 R2];
        pose proof (walloc_related (R n n' ar ar' f (NDisconnect l None)) 8 a a' ltac:(intros v v' A B C; left; lia)) as FW;
        destruct (walloc 8 a) as [wl w], (walloc 8 a') as [wl' w'] end end. cbn [fst snd] in *.
      injection H as <- <- <-. injection H' as <- <- <-.
      split; [|split; [rlist|cbn; split; rsolve]].
      cbn [app]. do 4 (apply Forall2_cons; [constructor|]). apply Forall2_app; [exact FW|]. rlist.
  - injection H as <- <- <-. injection H' as <- <- <-. split; [rlist|split; [rlist|exact I]].
  - injection H as <- <- <-. injection H' as <- <- <-. split; [rlist|split; [rlist|cbn; split; rsolve]].
  - (* jet *)
    destruct (jet_lookup jt family name_id) as [[gs gt]|]; [|discriminate].
    destruct (galloc_related (R n n' ar ar' f (NJet family name_id)) gs n n' ltac:(intros v v' A B C; left; lia)) as (F1 & L1 & A1 & A2 & A3).
    destruct (galloc gs n) as [l1 r1], (galloc gs n') as [l1' r1']. cbn [fst snd] in *.
    destruct (galloc_related (R n n' ar ar' f (NJet family name_id)) gt (length l1 + n) (length l1' + n') ltac:(intros v v' A B C; left; lia)) as (F2 & L2 & B1 & B2 & B3).
    destruct (galloc gt (length l1 + n)) as [l2 r2], (galloc gt (length l1' + n')) as [l2' r2']. cbn [fst snd] in *.
    injection H as <- <- <-. injection H' as <- <- <-.
    split; [apply Forall2_app; assumption|split; [rlist|cbn; split; rsolve]].
  - (* word *)
    destruct (Nat.leb n0 31 && Nat.eqb (length bits) (2 ^ n0))%bool; [|discriminate].
    pose proof (walloc_length n0 (1 + n)) as [L1 R1]. pose proof (walloc_length n0 (1 + n')) as [L2 R2].
    pose proof (walloc_related (R n n' ar ar' f (NWord n0 bits)) n0 (1 + n) (1 + n') ltac:(intros v v' A B C; left; lia)) as FW.
    destruct (walloc n0 (1 + n)) as [wl w], (walloc n0 (1 + n')) as [wl' w']. cbn [fst snd] in *.
    injection H as <- <- <-. injection H' as <- <- <-.
    split; [apply Forall2_cons; [constructor|exact FW]|split; [rlist|cbn; split; rsolve]].
  - injection H as <- <- <-. injection H' as <- <- <-. split; [rlist|split; [rlist|cbn; split; rsolve]].
Qed.

Lemma Forall2_nth {A B} (Rl : A -> B -> Prop) (d : A) (d' : B) : forall l l', Forall2 Rl l l' ->
  length l = length l' /\ forall k, (k < length l)%nat -> Rl (nth k l d) (nth k l' d').
Proof.
  induction 1 as [|x y l l' Hxy Hl IH]; [split; [reflexivity|intros k Hk; cbn in Hk; lia]|].
  destruct IH as [L N]. split; [cbn; lia|]. intros [|k] Hk; cbn [nth]; [exact Hxy|]. apply N. cbn in Hk. lia.
Qed.

Lemma Forall2_in_r {A B} (Rl : A -> B -> Prop) : forall l l', Forall2 Rl l l' -> forall y, In y l' -> exists x, In x l /\ Rl x y.
Proof.
  induction 1 as [|x y0 l l' Hxy Hl IH]; intros y Hy; [destruct Hy|].
  destruct Hy as [<-|Hy]; [exists x; split; [left; reflexivity|exact Hxy]|].
  destruct (IH y Hy) as (x0 & Hin & Hr). exists x0. split; [right; exact Hin|exact Hr].
Qed.

Lemma gen_index jt p g i : gen jt p = Some g -> (i < length p)%nat ->
  exists Gi nb ne a s2 e2 a2, gen_nodes jt (firstn i p) empty_g = Some Gi /\
    node_tmpl jt (length (g_store Gi)) (g_arr Gi) (nth i p NIden) = Some (nb, ne, a) /\
    g_store g = (g_store Gi ++ nb) ++ s2 /\ g_eqs g = (g_eqs Gi ++ ne) ++ e2 /\ g_arr g = (g_arr Gi ++ [a]) ++ a2 /\
    ginv Gi /\ length (g_arr Gi) = i.
Proof.
  intros G Hi. unfold gen in G.
  assert (Ep : p = firstn i p ++ nth i p NIden :: skipn (S i) p).
  { rewrite <- (firstn_skipn i p) at 1. f_equal. clear G. revert i Hi. induction p as [|x p IH]; intros [|i] Hi; cbn in *; try lia; [reflexivity|]. apply IH. lia. }
  assert (G2 : gen_nodes jt (firstn i p ++ nth i p NIden :: skipn (S i) p) empty_g = Some g) by (rewrite <- Ep; exact G).
  clear G Ep. rename G2 into G. rewrite gen_nodes_app in G.
  destruct (gen_nodes jt (firstn i p) empty_g) as [Gi|] eqn:HG; [|discriminate].
  cbn [gen_nodes] in G.
  destruct (node_tmpl jt (length (g_store Gi)) (g_arr Gi) (nth i p NIden)) as [[[nb ne] a]|] eqn:T; [|discriminate].
  destruct (gen_nodes_inv jt _ _ _ ginv_empty HG) as (Ii & _).
  destruct (gen_nodes_inv jt _ _ _ (ginv_step _ _ _ _ _ _ Ii T) G) as (_ & s2 & e2 & a2 & E1 & E2 & E3 & _).
  cbn [g_store g_eqs g_arr] in E1, E2, E3.
  destruct (prefix_arrows jt p i Gi HG ltac:(lia)) as [La _].
  exists Gi, nb, ne, a, s2, e2, a2. split; [reflexivity|]. split; [exact T|]. split; [exact E1|]. split; [exact E2|]. split; [exact E3|]. split; [exact Ii|exact La].
Qed.

Section ModelsPermuted.
  Variable D : Type.
  Variable deq : D -> D -> Prop.
  Variable done : D.
  Variable dsum dprod : D -> D -> D.
  Hypothesis deq_refl : forall a, deq a a.
  Hypothesis deq_sym : forall a b, deq a b -> deq b a.
  Hypothesis deq_trans : forall a b c, deq a b -> deq b c -> deq a c.
  Hypothesis dsum_cong : forall a b c d, deq a c -> deq b d -> deq (dsum a b) (dsum c d).
  Hypothesis dprod_cong : forall a b c d, deq a c -> deq b d -> deq (dprod a b) (dprod c d).
  Hypothesis dsum_inj : forall a b c d, deq (dsum a b) (dsum c d) -> deq a c /\ deq b d.
  Hypothesis dprod_inj : forall a b c d, deq (dprod a b) (dprod c d) -> deq a c /\ deq b d.
  Hypothesis one_sum : forall a b, ~ deq done (dsum a b).
  Hypothesis one_prod : forall a b, ~ deq done (dprod a b).
  Hypothesis sum_prod : forall a b c d, ~ deq (dsum a b) (dprod c d).

  Let rsat_ := dsat D deq done dsum dprod.
  Let rhold := deqs_hold D deq.
  Let rh := dholds D deq done dsum dprod.
  Let dfrom := dsat_from D deq done dsum dprod.

  Definition acorr (al' al : nat -> D) (a' a : option varrow) : Prop :=
    match a', a with
    | Some (x', y'), Some (x, y) => deq (al' x') (al x) /\ deq (al' y') (al y)
    | None, None => True
    | _, _ => False
    end.

  Lemma brel_holds (al al2 : nat -> D) (Rr : nat -> nat -> Prop) x x' b b' : (forall v v', Rr v v' -> deq (al2 v') (al v)) ->
    Rr x x' -> brel Rr b b' -> rh al x b -> rh al2 x' b'.
  Proof.
    intros HR Hx Hb H. unfold rh in *. destruct Hb as [| |a b a' b' Ha Hb|a b a' b' Ha Hb]; cbn [dholds] in *.
    - exact I.
    - eapply deq_trans; [apply HR; exact Hx|exact H].
    - eapply deq_trans; [apply HR; exact Hx|]. eapply deq_trans; [exact H|]. apply dsum_cong; apply deq_sym; apply HR; assumption.
    - eapply deq_trans; [apply HR; exact Hx|]. eapply deq_trans; [exact H|]. apply dprod_cong; apply deq_sym; apply HR; assumption.
  Qed.

  Lemma related_sat (al al2 : nat -> D) (Rr : nat -> nat -> Prop) N N' nb nb' : (forall v v', Rr v v' -> deq (al2 v') (al v)) ->
    (forall k, (k < length nb)%nat -> Rr (N + k)%nat (N' + k)%nat) ->
    Forall2 (brel Rr) nb nb' -> dfrom al N nb -> dfrom al2 N' nb'.
  Proof.
    intros HR Hp F H k Hk. destruct (Forall2_nth (brel Rr) BFree BFree nb nb' F) as [L Nn]. rewrite <- L in Hk.
    apply (brel_holds al al2 Rr (N + k)%nat (N' + k)%nat (nth k nb BFree)); auto. apply H. exact Hk.
  Qed.

  Lemma related_eqs (al al2 : nat -> D) (Rr : nat -> nat -> Prop) ne ne' : (forall v v', Rr v v' -> deq (al2 v') (al v)) ->
    Forall2 (erel Rr) ne ne' -> rhold al ne -> rhold al2 ne'.
  Proof.
    intros HR F H x' y' Hin. destruct (Forall2_in_r (erel Rr) ne ne' F (x', y') Hin) as ([x y] & Hi & [R1 R2]). cbn [fst snd] in *.
    eapply deq_trans; [apply HR; exact R1|]. eapply deq_trans; [apply (H x y Hi)|]. apply deq_sym. apply HR. exact R2.
  Qed.

  Variable jt : jet_table.
  Variables p p' : prog.
  Variables pi pinv : nat -> nat.
  Variables g g' : gstate.
  Hypothesis P : perm_of (length p) pi pinv.
  Hypothesis Pm : permuted pi p p'.
  Hypothesis T : topo p.
  Hypothesis T' : topo p'.
  Hypothesis G : gen jt p = Some g.
  Hypothesis G' : gen jt p' = Some g'.
  Variable al : nat -> D.
  Hypothesis Sal : rsat_ al (g_store g).
  Hypothesis Eal : rhold al (g_eqs g).

  Lemma models_prefix : forall k, (k <= length p)%nat ->
    exists Gk alk, gen_nodes jt (firstn k p') empty_g = Some Gk /\ rsat_ alk (g_store Gk) /\ rhold alk (g_eqs Gk) /\
      forall j, (j < k)%nat -> acorr alk al (arr_of (g_arr Gk) j) (arr_of (g_arr g) (pinv j)).
  Proof.
    destruct Pm as [Lp Hp]. set (n := length p) in *.
    induction k as [|k IH]; intros Hk.
    - exists empty_g, al. split; [reflexivity|]. split; [intros v Hv; cbn in Hv; lia|]. split; [intros x y []|]. intros j Hj. lia.
    - destruct (IH ltac:(lia)) as (Gk & alk & HG & Sk & Ek & Ck). clear IH.
      assert (Lk : (k < n)%nat) by lia.
      set (i := pinv k). pose proof (pinv_lt _ _ _ P k Lk) as Li. fold i in Li.
      assert (Enode : nth k p' NIden = rename_node pi (nth i p NIden)).
      { rewrite <- (pi_pinv _ _ _ P k Lk). fold i. apply Hp. exact Li. }
      destruct (gen_index jt p g i G Li) as (Gi & nb & ne & a & s2 & e2 & a2 & HGi & Ti & E1 & E2 & E3 & Ii & Lai).
      destruct (gen_nodes_inv jt _ _ _ ginv_empty HG) as (Ik & _).
      destruct (prefix_arrows jt p' k Gk HG ltac:(rewrite Lp; fold n; lia)) as [Lak _].
      pose proof (gen_step jt p' empty_g g' k Gk G' ltac:(rewrite Lp; exact Lk) HG) as St.
      destruct (node_tmpl jt (length (g_store Gk)) (g_arr Gk) (nth k p' NIden)) as [[[nb' ne'] a']|] eqn:Tk; [|discriminate]. clear St.
      set (N := length (g_store Gi)) in *. set (N' := length (g_store Gk)) in *.
      (* al satisfies the instance of the template in g *)
      assert (Snb : dfrom al N nb /\ rhold al ne).
      { rewrite E1 in Sal. apply (dsat_app D deq done dsum dprod) in Sal; auto. destruct Sal as [Sal1 _].
        apply (dsat_app D deq done dsum dprod) in Sal1; auto. destruct Sal1 as [_ Sn]. split; [exact Sn|].
        intros x y Hin. apply Eal. rewrite E2. apply in_or_app. left. apply in_or_app. right. exact Hin. }
      destruct Snb as [Snb Sne].
      (* the children correspond *)
      assert (Cc : forall c, In c (children (nth i p NIden)) ->
                (c < i)%nat /\ (pi c < k)%nat /\ acorr alk al (arr_of (g_arr Gk) (pi c)) (arr_of (g_arr Gi) c)).
      { intros c Hc. pose proof (T i c Li Hc) as Lc.
        assert (Lpc : (pi c < k)%nat).
        { apply (T' k (pi c)); [rewrite Lp; exact Lk|]. rewrite Enode, children_rename. apply in_map. exact Hc. }
        split; [exact Lc|]. split; [exact Lpc|].
        pose proof (Ck (pi c) Lpc) as Cj. rewrite (pinv_pi _ _ _ P c ltac:(lia)) in Cj.
        rewrite E3 in Cj. rewrite !arr_of_app_l in Cj by (rewrite ?app_length; cbn [length]; lia). exact Cj. }
      assert (CO : child_ok (g_arr Gi) (g_arr Gk) pi (nth i p NIden)).
      { intros c Hc. destruct (Cc c Hc) as (Lc & Lpc & Cj).
        rewrite (hidden_at_arr_none (g_arr Gk) (pi c)) by lia. rewrite (hidden_at_arr_none (g_arr Gi) c) by lia. unfold arr_none.
        destruct (arr_of (g_arr Gk) (pi c)) as [[x' y']|], (arr_of (g_arr Gi) c) as [[x y]|]; cbn [acorr] in Cj; try contradiction.
        - split; [reflexivity|right; eauto 8].
        - split; [reflexivity|left; auto]. }
      rewrite Enode in Tk.
      destruct (tmpl_related jt N N' (g_arr Gi) (g_arr Gk) pi (nth i p NIden) nb ne a nb' ne' a' CO Ti Tk) as (Fb & Fe & Fa).
      set (Rr := R N N' (g_arr Gi) (g_arr Gk) pi (nth i p NIden)) in *.
      set (al2 := fun v => if Nat.ltb v N' then alk v else al (v - N' + N)%nat).
      assert (A2 : forall v, (v < N')%nat -> al2 v = alk v) by (intros v Hv; unfold al2; destruct (Nat.ltb_spec v N'); [reflexivity|lia]).
      assert (HR : forall v v', Rr v v' -> deq (al2 v') (al v)).
      { intros v v' [(H1 & H2 & H3)|Hch].
        - unfold al2. destruct (Nat.ltb_spec v' N'); [lia|]. replace (v' - N' + N)%nat with v by lia. apply deq_refl.
        - destruct Hch as [c x y x' y' Hc Ea Ea'|c x y x' y' Hc Ea Ea']; destruct (Cc c Hc) as (_ & _ & Cj); rewrite Ea, Ea' in Cj; cbn [acorr] in Cj;
            destruct (gi_arr _ Ik _ _ _ Ea') as [Lx' Ly']; rewrite A2 by assumption; tauto. }
      exists (mk_gstate (g_store Gk ++ nb') (g_eqs Gk ++ ne') (g_arr Gk ++ [a'])), al2.
      split; [|split; [|split]].
      + rewrite (firstn_S_nth NIden p' k ltac:(rewrite Lp; exact Lk)), gen_nodes_app, HG. cbn [gen_nodes]. fold N'. rewrite Enode, Tk. reflexivity.
      + cbn [g_store]. apply (dsat_app D deq done dsum dprod); auto. split.
        * apply (dsat_agree D deq done dsum dprod) with (al := alk); auto. apply (gi_wf _ Ik).
        * apply (related_sat al al2 Rr N N' nb nb'); auto. intros t Ht. left. lia.
      + cbn [g_eqs]. intros x y Hin. apply in_app_or in Hin. destruct Hin as [Hin|Hin].
        * destruct (gi_eqs _ Ik x y Hin). rewrite !A2 by assumption. apply Ek. exact Hin.
        * apply (related_eqs al al2 Rr ne ne' HR Fe Sne). exact Hin.
      + intros j Hj. cbn [g_arr]. destruct (Nat.eq_dec j k) as [->|Nj].
        * assert (Ek1 : arr_of (g_arr Gk ++ [a']) k = a') by (rewrite <- Lak; apply arr_of_app_last).
          assert (Ei1 : arr_of (g_arr g) i = a).
          { rewrite E3. rewrite arr_of_app_l by (rewrite app_length; cbn [length]; lia). rewrite <- Lai. apply arr_of_app_last. }
          rewrite Ek1. fold i. rewrite Ei1.
          destruct a as [[x y]|], a' as [[x' y']|]; cbn [arel acorr] in *; try contradiction; auto. destruct Fa as [F1 F2]. split; apply HR; assumption.
        * rewrite arr_of_app_l by lia. pose proof (Ck j ltac:(lia)) as Cj.
          destruct (arr_of (g_arr Gk) j) as [[x' y']|] eqn:Ej; [|exact Cj].
          destruct (gi_arr _ Ik _ _ _ Ej) as [Lx' Ly']. destruct (arr_of (g_arr g) (pinv j)) as [[x y]|]; cbn [acorr] in *; [|exact Cj].
          rewrite !A2 by assumption. exact Cj.
  Qed.

  Theorem models_permuted : exists al', rsat_ al' (g_store g') /\ rhold al' (g_eqs g') /\
    forall i, (i < length p)%nat -> acorr al' al (arr_of (g_arr g') (pi i)) (arr_of (g_arr g) i).
  Proof.
    destruct (models_prefix (length p) ltac:(lia)) as (Gk & alk & HG & Sk & Ek & Ck).
    destruct Pm as [Lp Hp]. rewrite firstn_all2 in HG by lia.
    assert (Eg : Some Gk = Some g') by (rewrite <- HG; exact G'). injection Eg as ->.
    exists alk. split; [exact Sk|]. split; [exact Ek|]. intros i Hi.
    pose proof (Ck (pi i) (pi_lt _ _ _ P i Hi)) as C. rewrite (pinv_pi _ _ _ P i Hi) in C. exact C.
  Qed.
End ModelsPermuted.

Section ConsTransfer.
  Variable D : Type.
  Variable deq : D -> D -> Prop.
  Variable done : D.
  Variable dsum dprod : D -> D -> D.
  Hypothesis deq_refl : forall a, deq a a.
  Hypothesis deq_sym : forall a b, deq a b -> deq b a.
  Hypothesis deq_trans : forall a b c, deq a b -> deq b c -> deq a c.
  Hypothesis dsum_cong : forall a b c d, deq a c -> deq b d -> deq (dsum a b) (dsum c d).
  Hypothesis dprod_cong : forall a b c d, deq a c -> deq b d -> deq (dprod a b) (dprod c d).
  Hypothesis dsum_inj : forall a b c d, deq (dsum a b) (dsum c d) -> deq a c /\ deq b d.
  Hypothesis dprod_inj : forall a b c d, deq (dprod a b) (dprod c d) -> deq a c /\ deq b d.
  Hypothesis one_sum : forall a b, ~ deq done (dsum a b).
  Hypothesis one_prod : forall a b, ~ deq done (dprod a b).
  Hypothesis sum_prod : forall a b c d, ~ deq (dsum a b) (dprod c d).

  Definition dmodel (s : store) (eqs : list (nat * nat)) : Prop :=
    exists al, dsat D deq done dsum dprod al s /\ deqs_hold D deq al eqs.

  Lemma cons_transfer jt p p' pi pinv g g' (root : option nat) rb re rb' re' :
    perm_of (length p) pi pinv -> permuted pi p p' -> topo p -> topo p' ->
    gen jt p = Some g -> gen jt p' = Some g' -> (forall r, root = Some r -> (r < length p)%nat) ->
    root_tmpl g root = Some (rb, re) -> root_tmpl g' (option_map pi root) = Some (rb', re') ->
    dmodel (g_store g ++ rb) (g_eqs g ++ re) -> dmodel (g_store g' ++ rb') (g_eqs g' ++ re').
  Proof.
    intros P Pm T T' G G' Hr R R' (al & Sa & Ea).
    apply (dsat_app D deq done dsum dprod) in Sa; auto. destruct Sa as [Sa Srb].
    apply (deqs_app D deq deq_sym) in Ea. destruct Ea as [Ea Ere].
    destruct (models_permuted D deq done dsum dprod deq_refl deq_sym deq_trans dsum_cong dprod_cong dsum_inj dprod_inj
                one_sum one_prod sum_prod jt p p' pi pinv g g' P Pm T T' G G' al Sa Ea) as (al' & Sa' & Ea' & Ca).
    destruct (gen_nodes_inv jt p' empty_g g' ginv_empty G') as (Ig' & _).
    destruct root as [r|]; cbn [option_map root_tmpl] in *.
    - specialize (Hr r eq_refl). specialize (Ca r Hr).
      destruct (arr_of (g_arr g) r) as [[rs rt]|]; [|discriminate]. injection R as <- <-.
      destruct (arr_of (g_arr g') (pi r)) as [[rs' rt']|] eqn:Ar'; [|discriminate]. injection R' as <- <-.
      cbn [acorr] in Ca. destruct Ca as [C1 C2]. destruct (gi_arr _ Ig' _ _ _ Ar') as [L1 L2].
      set (u := length (g_store g)) in *. set (u' := length (g_store g')) in *.
      apply (dsat_from_one D deq done dsum dprod) in Srb; auto. unfold dholds in Srb.
      assert (E1 : deq (al rs) (al u)) by (apply Ere; left; reflexivity).
      assert (E2 : deq (al rt) (al u)) by (apply Ere; right; left; reflexivity).
      exists (fun v => if Nat.eqb v u' then done else al' v).
      assert (A : forall v, (v < u')%nat -> (if Nat.eqb v u' then done else al' v) = al' v)
        by (intros v Hv; destruct (Nat.eqb_spec v u'); [lia|reflexivity]).
      split.
      + apply (dsat_app D deq done dsum dprod); auto. split.
        * apply (dsat_agree D deq done dsum dprod) with (al := al'); auto. apply (gi_wf _ Ig').
        * apply (dsat_from_one D deq done dsum dprod); auto. cbn [dholds]. fold u'. rewrite Nat.eqb_refl. apply deq_refl.
      + apply (deqs_app D deq deq_sym). split.
        * apply (deqs_agree D deq al' _ u'); auto. apply (gi_eqs _ Ig').
        * intros x y [E|[E|[]]]; injection E as <- <-; rewrite Nat.eqb_refl; rewrite A by assumption.
          -- eapply deq_trans; [exact C1|]. eapply deq_trans; [exact E1|exact Srb].
          -- eapply deq_trans; [exact C2|]. eapply deq_trans; [exact E2|exact Srb].
    - injection R as <- <-. injection R' as <- <-. rewrite !app_nil_r. exists al'. split; assumption.
  Qed.
End ConsTransfer.

Lemma fm_iff s eqs : finite_model s eqs <-> dmodel ty eq One Sum Prod s eqs.
Proof.
  unfold finite_model, dmodel. split; intros (al & Sa & Ea); exists al.
  - split; [|exact Ea]. intros v Hv. specialize (Sa v Hv). destruct (sget s v); exact Sa.
  - split; [|exact Ea]. intros v Hv. specialize (Sa v Hv). destruct (sget s v); exact Sa.
Qed.

Lemma cons_iff s eqs : consistent s eqs <-> dmodel itree teq tone tsum tprod s eqs.
Proof. reflexivity. Qed.

Theorem class_order : class_order_statement.
Proof.
  unfold class_order_statement. intros jt program p order V W W'.
  destruct (Nat.eq_dec (length p) 0) as [N0|N0].
  { assert (Ep : p = []) by (destruct p; [reflexivity|cbn in N0; lia]).
    destruct (valid_order_facts _ _ V) as [L _]. rewrite N0 in L.
    assert (Eo : order = []) by (destruct order; [reflexivity|cbn in L; lia]).
    subst p order. destruct program; vm_compute; reflexivity. }
  pose proof (valid_order_perm _ _ V) as P. pose proof (permute_permuted p order V) as Pm.
  pose proof (wf_prog_topo _ W) as T. pose proof (wf_prog_topo _ W') as T'.
  pose proof (permuted_inv _ _ _ _ P Pm T) as Pm'. pose proof (perm_of_inv _ _ _ P) as P'.
  pose proof Pm as [Lp _].
  set (pos := pos_of order) in *. set (pinv := fun k => nth k order 0%nat) in *. set (p' := permute p order) in *.
  set (r0 := root_of program p (fun i => i)).
  assert (Er : root_of program p pos = option_map pos r0) by (unfold r0, root_of; destruct program; reflexivity).
  rewrite Er.
  assert (Hr : forall r, r0 = Some r -> (r < length p)%nat).
  { intros r E. unfold r0, root_of in E. destruct program; [|discriminate]. injection E as <-. lia. }
  assert (Hr' : forall r, option_map pos r0 = Some r -> (r < length p')%nat).
  { intros r E. rewrite Lp. destruct r0 as [q|]; [|discriminate]. injection E as <-. apply (pi_lt _ _ _ P). apply Hr. reflexivity. }
  assert (Eback : option_map pinv (option_map pos r0) = r0).
  { destruct r0 as [q|] eqn:E0; [|reflexivity]. cbn. rewrite (pinv_pi _ _ _ P q (Hr q eq_refl)). reflexivity. }
  pose proof (class_order_shape jt program p order V W W') as Sh. fold pos p' in Sh. rewrite Er in Sh. fold r0 in Sh.
  assert (C1 : forall r, class_of r = 1%N <-> r = Err EShape).
  { intros r. destruct r as [tau|e| |]; cbn [class_of]; try (split; intros; discriminate).
    destruct e; cbn; split; intros E; try discriminate; try reflexivity. destruct stage as [|q]; try discriminate; destruct q; discriminate. }
  destruct (N.eq_dec (class_of (infer jt r0 p)) 1) as [Es|Ns].
  { rewrite Es. apply Sh. exact Es. }
  assert (Ns' : class_of (infer jt (option_map pos r0) p') <> 1%N) by (intros E; apply Ns; apply Sh; exact E).
  (* both generate constraints *)
  destruct (gen jt p) as [g|] eqn:G.
  2:{ exfalso. apply Ns. apply C1. apply infer_shape_iff. left. exact G. }
  destruct (root_tmpl g r0) as [[rb re]|] eqn:R.
  2:{ exfalso. apply Ns. apply C1. apply infer_shape_iff. right. exists g. auto. }
  destruct (gen jt p') as [g'|] eqn:G'.
  2:{ exfalso. apply Ns'. apply C1. apply infer_shape_iff. left. exact G'. }
  destruct (root_tmpl g' (option_map pos r0)) as [[rb' re']|] eqn:R'.
  2:{ exfalso. apply Ns'. apply C1. apply infer_shape_iff. right. exists g'. auto. }
  destruct (infer_class_char jt r0 p g rb re G R) as (A0 & A1 & A2 & A3).
  destruct (infer_class_char jt (option_map pos r0) p' g' rb' re' G' R') as (B0 & B1 & B2 & B3).
  (* the three conditions are the same on both sides *)
  assert (Fwd : forall (D : Type) (deq : D -> D -> Prop) (done : D) (dsum dprod : D -> D -> D), (forall a, deq a a) -> (forall a b, deq a b -> deq b a) -> (forall a b c, deq a b -> deq b c -> deq a c) ->
            (forall a b c d, deq a c -> deq b d -> deq (dsum a b) (dsum c d)) -> (forall a b c d, deq a c -> deq b d -> deq (dprod a b) (dprod c d)) ->
            (forall a b c d, deq (dsum a b) (dsum c d) -> deq a c /\ deq b d) -> (forall a b c d, deq (dprod a b) (dprod c d) -> deq a c /\ deq b d) ->
            (forall a b, ~ deq done (dsum a b)) -> (forall a b, ~ deq done (dprod a b)) -> (forall a b c d, ~ deq (dsum a b) (dprod c d)) ->
            (dmodel D deq done dsum dprod (g_store g) (g_eqs g) <-> dmodel D deq done dsum dprod (g_store g') (g_eqs g')) /\
            (dmodel D deq done dsum dprod (g_store g ++ rb) (g_eqs g ++ re) <-> dmodel D deq done dsum dprod (g_store g' ++ rb') (g_eqs g' ++ re'))).
  { intros D deq done dsum dprod h1 h2 h3 h4 h5 h6 h7 h8 h9 h10. split; split; intros M.
    - pose proof (cons_transfer D deq done dsum dprod h1 h2 h3 h4 h5 h6 h7 h8 h9 h10 jt p p' pos pinv g g' None [] [] [] [] P Pm T T' G G'
                    ltac:(intros r E; discriminate) eq_refl eq_refl) as X. rewrite !app_nil_r in X. apply X. exact M.
    - pose proof (cons_transfer D deq done dsum dprod h1 h2 h3 h4 h5 h6 h7 h8 h9 h10 jt p' p pinv pos g' g None [] [] [] []
                    ltac:(rewrite Lp; exact P') Pm' T' T G' G ltac:(intros r E; discriminate) eq_refl eq_refl) as X. rewrite !app_nil_r in X. apply X. exact M.
    - apply (cons_transfer D deq done dsum dprod h1 h2 h3 h4 h5 h6 h7 h8 h9 h10 jt p p' pos pinv g g' r0 rb re rb' re' P Pm T T' G G' Hr R R'). exact M.
    - apply (cons_transfer D deq done dsum dprod h1 h2 h3 h4 h5 h6 h7 h8 h9 h10 jt p' p pinv pos g' g (option_map pos r0) rb' re' rb re
               ltac:(rewrite Lp; exact P') Pm' T' T G' G Hr' R'); [rewrite Eback; exact R|exact M]. }
  destruct (Fwd itree teq tone tsum tprod ltac:(dom_hyps) ltac:(dom_hyps) ltac:(dom_hyps) ltac:(dom_hyps) ltac:(dom_hyps)
              ltac:(dom_hyps) ltac:(dom_hyps) ltac:(dom_hyps) ltac:(dom_hyps) ltac:(dom_hyps)) as [Tc0 Tc1].
  destruct (Fwd ty eq One Sum Prod ltac:(SlabSimInst.fin_hyps) ltac:(SlabSimInst.fin_hyps) ltac:(SlabSimInst.fin_hyps) ltac:(SlabSimInst.fin_hyps) ltac:(SlabSimInst.fin_hyps)
              ltac:(SlabSimInst.fin_hyps) ltac:(SlabSimInst.fin_hyps) ltac:(SlabSimInst.fin_hyps) ltac:(SlabSimInst.fin_hyps) ltac:(SlabSimInst.fin_hyps)) as [_ Tf].
  rewrite <- !cons_iff in Tc0, Tc1. rewrite <- !fm_iff in Tf.
  cbv zeta in A0, A1, A2, A3, B0, B1, B2, B3.
  pose proof (infer_total_outcome jt r0 p) as Tot.
  destruct (infer jt r0 p) as [tau|e| |] eqn:I0; try contradiction.
  - (* accepted *)
    assert (F : finite_model (g_store g ++ rb) (g_eqs g ++ re)) by (apply A3; eauto).
    apply Tf in F. apply B3 in F. destruct F as (tau' & ->). reflexivity.
  - destruct (infer_err_kinds jt r0 p g rb re e G R I0) as [-> | [-> | ->]].
    + assert (N : ~ consistent (g_store g') (g_eqs g')) by (intros C; apply (proj1 A0 eq_refl); apply Tc0; exact C).
      rewrite (proj2 B0 N). reflexivity.
    + destruct (proj1 A1 eq_refl) as [Y N]. rewrite (proj2 B1 (conj (proj1 Tc0 Y) (fun C => N (proj2 Tc1 C)))). reflexivity.
    + destruct (proj1 A2 eq_refl) as [Y N]. rewrite (proj2 B2 (conj (proj1 Tc1 Y) (fun C => N (proj2 Tf C)))). reflexivity.
Qed.
