(* C04 - the display bounds instantiated with the constants of types/mod.rs
   (Generated/Consts.v: MAX_DISPLAY_DEPTH, MAX_DISPLAY_LENGTH), and the refutation of the
   boundedness clause for complete types (F-C04). *)
From RS Require Import Lib.Tac Lib.Outcome Ty.Ty Core.Prog Generated.Consts
  Infer.Constraints Infer.Unify Infer.Infer Infer.Display.
Import ListNotations.

Theorem display_bounded (g : igraph) (root : nat) :
  exists out, print_inc g root (N.to_nat c_max_display_depth) (N.to_nat c_max_display_length) = Ok out /\
    (length out <= 3 * (N.to_nat c_max_display_length + N.to_nat c_max_display_depth))%nat.
Proof.
  destruct (print_inc_bounded g root (N.to_nat c_max_display_depth) (N.to_nat c_max_display_length)) as (out & E & L).
  exists out. split; [exact E|].
  assert (2 <= N.to_nat c_max_display_depth)%nat by (unfold c_max_display_depth; lia). lia.
Qed.

Theorem display_final_unbounded_refuted : forall B : nat, exists t : ty,
  (B < length (display_final t))%nat.
Proof.
  intros B. exists (bomb_ty B). pose proof (display_final_bomb B) as H.
  assert (B < 2 ^ B)%nat by (apply Nat.pow_gt_lin_r; lia). lia.
Qed.
