(* C05 - Bit Machine execution equals the denotational semantics.
   Only pinned statements (`Theorem name : statement. Proof. exact lemma. Qed.`) and
   `Print Assumptions`.  Models: Core/{Term,Typing,Sem,Machine}.v; proofs Core/MachineLemmas.v,
   Core/MachineCorrect.v, Core/MachineCorrect2.v, Core/ExecCorrect.v; examples Core/Examples.v;
   jets Jets/JetSpec.v. *)
From RS Require Import Lib.Tac Lib.Outcome Lib.Bits Ty.Ty Core.Prog Core.Term Core.Typing Core.Sem
  Core.Bounds Core.Limits Core.Machine Core.MachineLemmas Core.MachineCorrect Core.MachineCorrect2
  Core.ExecCorrect Core.Examples Jets.JetSpec.
Import ListNotations.
Local Open Scope N_scope.

(* 1. the main lemma: for every build profile, every frame capacity, every jet semantics that
   respects the jets' types, every well-typed term whose type widths are not saturated:
   started on [Goto t] with an arbitrary remaining call stack k, in a state satisfying [pre]
   (arbitrary memory contents, arbitrary next_frame_start, arbitrary lower frames) whose active
   read frame holds some padded encoding of a, the machine reaches k - in at most [steps t]
   steps, without a panic - with a padded encoding of the result in the write window, the
   read cursor and all frames restored, every cell outside the write window and the fresh
   cells unchanged and the high-water marks within nfs + cells t / depth + frames t ([post]);
   or it returns the error matching the semantic failure, within the same marks *)
Theorem C05_machine_correct : forall prof cap jet_sem jet_ty t A B,
  jets_typed jet_ty jet_sem -> typed jet_ty t A B -> small t ->
  forall a st k, pre cap st A B t -> enc_at (mem st) (rcur st) A a ->
    match eval jet_sem t a with
    | ROk b => exists st' n, (n <= steps t)%nat /\
                 mstar prof cap jet_sem n (st, CGoto t :: k) (st', k) /\ post st st' B t b
    | RErr e => exists st' n, (n <= steps t)%nat /\
                 mfail prof cap jet_sem n (st, CGoto t :: k) (err_of e, st') /\ hw_ok st st' t
    | RStuck => False
    end.
Proof. exact machine_correct. Qed.
Print Assumptions C05_machine_correct.

(* 2. exec_correct: for_program + input + exec on an accepted well-typed program, for every
   input value a, every padded encoding pbits of it (any padding contents) and every initial
   content m0 of the data buffer: the value returned denotes eval t a, each error kind is
   returned exactly for the corresponding semantic failure *)
Theorem C05_exec_correct : forall prof jet_ty jet_cost jet_sem t A B,
  jets_typed jet_ty jet_sem -> typed jet_ty t A B ->
  check_program prof (bw A) (bw B) (bounds jet_cost t) = Ok tt ->
  forall a pbits m0, padded_of A a pbits -> length m0 = N.to_nat (machine_cells jet_cost t) ->
    match eval jet_sem t a with
    | ROk b => exists st bits,
        machine_exec prof jet_cost jet_sem t m0 (Some (A, pbits)) = Ok (st, bits) /\
        of_padded B bits = b /\ length bits = N.to_nat (width B) /\
        hwc st <= width A + width B + extra_cells (bounds jet_cost t) /\ hwc st <= msize m0 /\
        hwf st <= extra_frames (bounds jet_cost t) + IO_EXTRA_FRAMES
    | RErr e => exists st,
        machine_exec prof jet_cost jet_sem t m0 (Some (A, pbits)) = Err (err_of e, st) /\
        hwc st <= width A + width B + extra_cells (bounds jet_cost t) /\ hwc st <= msize m0 /\
        hwf st <= extra_frames (bounds jet_cost t) + IO_EXTRA_FRAMES
    | RStuck => False
    end.
Proof. exact exec_master. Qed.
Print Assumptions C05_exec_correct.

(* the same when `input` is not called (programs of empty source type) *)
Theorem C05_exec_correct_noinput : forall prof jet_ty jet_cost jet_sem t A B,
  jets_typed jet_ty jet_sem -> typed jet_ty t A B ->
  check_program prof (bw A) (bw B) (bounds jet_cost t) = Ok tt ->
  forall a m0, width A = 0 -> has_ty a A = true -> length m0 = N.to_nat (machine_cells jet_cost t) ->
    match eval jet_sem t a with
    | ROk b => exists st bits,
        machine_exec prof jet_cost jet_sem t m0 None = Ok (st, bits) /\
        of_padded B bits = b /\ length bits = N.to_nat (width B) /\
        hwc st <= width A + width B + extra_cells (bounds jet_cost t) /\ hwc st <= msize m0 /\
        hwf st <= extra_frames (bounds jet_cost t) + IO_EXTRA_FRAMES
    | RErr e => exists st,
        machine_exec prof jet_cost jet_sem t m0 None = Err (err_of e, st) /\
        hwc st <= width A + width B + extra_cells (bounds jet_cost t) /\ hwc st <= msize m0 /\
        hwf st <= extra_frames (bounds jet_cost t) + IO_EXTRA_FRAMES
    | RStuck => False
    end.
Proof. exact exec_master_noinput. Qed.
Print Assumptions C05_exec_correct_noinput.

(* 3. the converse directions *)
Theorem C05_exec_ok_inv : forall prof jet_ty jet_cost jet_sem t A B,
  jets_typed jet_ty jet_sem -> typed jet_ty t A B ->
  check_program prof (bw A) (bw B) (bounds jet_cost t) = Ok tt ->
  forall a pbits m0 st bits, padded_of A a pbits -> length m0 = N.to_nat (machine_cells jet_cost t) ->
    machine_exec prof jet_cost jet_sem t m0 (Some (A, pbits)) = Ok (st, bits) ->
    eval jet_sem t a = ROk (of_padded B bits).
Proof. exact exec_ok_inv. Qed.
Print Assumptions C05_exec_ok_inv.

Theorem C05_exec_err_inv : forall prof jet_ty jet_cost jet_sem t A B,
  jets_typed jet_ty jet_sem -> typed jet_ty t A B ->
  check_program prof (bw A) (bw B) (bounds jet_cost t) = Ok tt ->
  forall a pbits m0 e st, padded_of A a pbits -> length m0 = N.to_nat (machine_cells jet_cost t) ->
    machine_exec prof jet_cost jet_sem t m0 (Some (A, pbits)) = Err (e, st) ->
    exists se, eval jet_sem t a = RErr se /\ e = err_of se.
Proof. exact exec_err_inv. Qed.
Print Assumptions C05_exec_err_inv.

(* 4. independence of where values sit: initial buffer contents and input padding *)
Theorem C05_exec_independent : forall prof jet_ty jet_cost jet_sem t A B,
  jets_typed jet_ty jet_sem -> typed jet_ty t A B ->
  check_program prof (bw A) (bw B) (bounds jet_cost t) = Ok tt ->
  forall a pbits pbits' m0 m0', padded_of A a pbits -> padded_of A a pbits' ->
    length m0 = N.to_nat (machine_cells jet_cost t) -> length m0' = N.to_nat (machine_cells jet_cost t) ->
    match machine_exec prof jet_cost jet_sem t m0 (Some (A, pbits)),
          machine_exec prof jet_cost jet_sem t m0' (Some (A, pbits')) with
    | Ok (_, bits), Ok (_, bits') => of_padded B bits = of_padded B bits'
    | Err (e, _), Err (e', _) => e = e'
    | _, _ => False
    end.
Proof. exact exec_independent. Qed.
Print Assumptions C05_exec_independent.

(* 5. the semantics are type safe; the specified jets respect their types *)
Theorem C05_eval_typed : forall jet_ty jet_sem, jets_typed jet_ty jet_sem ->
  forall t A B, typed jet_ty t A B -> forall a, has_ty a A = true ->
    match eval jet_sem t a with
    | ROk b => has_ty b B = true
    | RErr _ => True
    | RStuck => False
    end.
Proof. exact eval_typed. Qed.
Print Assumptions C05_eval_typed.

Theorem C05_jet_spec_typed : jets_typed jet_spec_ty jet_spec.
Proof. exact jet_spec_typed. Qed.
Print Assumptions C05_jet_spec_typed.

Theorem C05_wt_iff : forall jet_ty t, wt jet_ty t = true <-> typed jet_ty t (src t) (tgt t).
Proof. exact wt_iff. Qed.
Print Assumptions C05_wt_iff.

(* 6. non-vacuity: a case through a padded sum, a comp, a disconnect, a failing assertion *)
Theorem C05_example_case :
  typed no_jet_ty ex_case (Prod (Sum One W1) One) Bit /\
  check_program Debug (bw (Prod (Sum One W1) One)) (bw Bit) (bounds no_jet_cost ex_case) = Ok tt /\
  eval no_jet_sem ex_case (SP (SL SU) SU) = ROk (SL SU) /\
  exists st, machine_exec Release no_jet_cost no_jet_sem ex_case (dirty ex_case)
               (Some (Prod (Sum One W1) One, [false; true; true])) = Ok (st, [false]).
Proof. exact (conj ex_case_typed (conj ex_case_accepted ex_case_left)). Qed.
Print Assumptions C05_example_case.

Theorem C05_example_comp :
  typed no_jet_ty ex_comp Bit Bit /\
  eval no_jet_sem ex_comp (SR SU) = ROk (SR SU) /\
  exists st, machine_exec Debug no_jet_cost no_jet_sem ex_comp (dirty ex_comp) (Some (Bit, [true])) = Ok (st, [true]) /\
             hwc st = 4 /\ hwf st = 3 /\ bounds no_jet_cost ex_comp = mkNB 2 1 605.
Proof. exact (conj ex_comp_typed ex_comp_run). Qed.
Print Assumptions C05_example_comp.

Theorem C05_example_disconnect :
  typed no_jet_ty ex_disc One (Prod W256 One) /\
  eval no_jet_sem ex_disc SU = ROk (SP (cmr_value ex_cmr) SU) /\
  exists st, machine_exec Debug no_jet_cost no_jet_sem ex_disc (dirty ex_disc) None
             = Ok (st, bits_of_bytes ex_cmr) /\ hwf st = 3 /\ hwc st = 768.
Proof. exact (conj ex_disc_typed ex_disc_run). Qed.
Print Assumptions C05_example_disconnect.

Theorem C05_example_assert :
  typed no_jet_ty ex_assert (Prod Bit One) One /\
  eval no_jet_sem ex_assert (SP (SR SU) SU) = RErr (Pruned (repeat 7 32)) /\
  exists st, machine_exec Debug no_jet_cost no_jet_sem ex_assert (dirty ex_assert) (Some (Prod Bit One, [true]))
             = Err (ReachedPrunedBranch (repeat 7 32), st).
Proof. exact ex_assert_run. Qed.
Print Assumptions C05_example_assert.
