(* C09 - The commitment root depends only on committed structure.
   Only pinned statements (`Theorem .. exact lemma`) and `Print Assumptions`.
   Models: Merkle/Tagged.v (tagged hashes, const_word), Merkle/Cmr.v (committed structure,
   node tables, algebras, convert, Hiding); proofs: Merkle/CmrStructure.v, Merkle/CmrInjective.v;
   SHA-256 instance and discharged side conditions: Merkle/Sha256.v, Merkle/Real.v.

   Every theorem of part A/B quantifies over an ARBITRARY compression function
     H, compress : H -> H * H -> H, iv : tag -> H, zero, of_weight,
   the constant tables of the code (bit_cmr = Cmr::BITS, tmr_unit, tmr_two_two_n = Tmr::TWO_TWO_N),
   the jet table jet_cmr and the byte conversion h_of_bytes.  `tables_ok` says that the constant
   tables agree with hashing from scratch; part C proves it for the regenerated tables. *)
From Coq Require Import Uint63.
From RS Require Import Lib.Tac Lib.Outcome Ty.Ty Core.Prog
  Merkle.Sha256 Merkle.Tagged Merkle.Cmr Merkle.CmrStructure Merkle.CmrInjective Merkle.CmrCollision
  Merkle.Real Merkle.RealSpec Merkle.RealCollision Generated.Ivs.
Import ListNotations.
Local Open Scope N_scope.

(* ============================ A. the root is a function of the committed structure ============== *)

(* A1. Cmr::const_word (stack algorithm, two passes, jet tagging) = the jet-tagged identity root of
   the pair-tree of bit constants, for every word size *)
Theorem C09_const_word_scribe :
  forall H compress iv zero of_weight bit_cmr tmr_unit tmr_two_two_n jet_cmr,
  tables_ok H compress iv zero bit_cmr tmr_unit tmr_two_two_n ->
  forall n bits, length bits = (2 ^ n)%nat -> (n < 32)%nat ->
  cmr_const_word H compress iv zero of_weight bit_cmr tmr_unit tmr_two_two_n n bits =
  Ok (cmr_spec H compress iv zero of_weight jet_cmr (CWord n bits)).
Proof. intros until jet_cmr. intros [A [B C]]. exact (const_word_scribe H compress iv zero of_weight bit_cmr tmr_unit tmr_two_two_n jet_cmr A B C). Qed.
Print Assumptions C09_const_word_scribe.

(* A2. node_cmr_spec: every cmr cached by the Node constructors over a node table is cmr_spec of the
   erased structure of its node (no witness value, no disconnected branch, no types in it) *)
Theorem C09_node_cmr_spec :
  forall H compress iv zero of_weight bit_cmr tmr_unit tmr_two_two_n jet_cmr h_of_bytes,
  tables_ok H compress iv zero bit_cmr tmr_unit tmr_two_two_n ->
  forall (D : Type) (d : inner H wit_spec -> D) p t,
  construct H compress iv zero of_weight bit_cmr tmr_unit tmr_two_two_n jet_cmr h_of_bytes d p = Ok t ->
  map (val_cmr H (node_alg H compress iv zero of_weight bit_cmr tmr_unit tmr_two_two_n jet_cmr d)) t =
  map (cmr_spec H compress iv zero of_weight jet_cmr) (erase_prog H h_of_bytes p).
Proof. intros until h_of_bytes. intros [A [B C]] D. exact (@node_cmr_spec H compress iv zero of_weight bit_cmr tmr_unit tmr_two_two_n jet_cmr h_of_bytes A B C D). Qed.
Print Assumptions C09_node_cmr_spec.

(* A3. the same for ANY implementation of the construction traits whose cmr obeys the constructor
   laws (ConstructNode, CommitNode-like nodes, ConstructibleCmr, Hiding<..>, policies' targets) *)
Theorem C09_drive_cmr_spec :
  forall H compress iv zero of_weight bit_cmr tmr_unit tmr_two_two_n jet_cmr h_of_bytes,
  tables_ok H compress iv zero bit_cmr tmr_unit tmr_two_two_n ->
  forall (A : Type) (alg : algebra H A),
  homomorphic H compress iv zero of_weight bit_cmr tmr_unit tmr_two_two_n jet_cmr alg ->
  forall p t, drive H h_of_bytes alg p = Ok t ->
  map (val_cmr H alg) t = map (cmr_spec H compress iv zero of_weight jet_cmr) (erase_prog H h_of_bytes p).
Proof. intros until h_of_bytes. intros [A [B C]] X. exact (@drive_cmr_spec H compress iv zero of_weight bit_cmr tmr_unit tmr_two_two_n jet_cmr h_of_bytes A B C X). Qed.
Print Assumptions C09_drive_cmr_spec.

Theorem C09_ccmr_homomorphic :
  forall H compress iv zero of_weight bit_cmr tmr_unit tmr_two_two_n jet_cmr,
  homomorphic H compress iv zero of_weight bit_cmr tmr_unit tmr_two_two_n jet_cmr
    (ccmr_alg H compress iv zero of_weight bit_cmr tmr_unit tmr_two_two_n jet_cmr).
Proof. exact ccmr_alg_hom. Qed.
Print Assumptions C09_ccmr_homomorphic.

(* A4. independence of witness data and of the presence / content of disconnected branches *)
Theorem C09_indep_witness_disconnect :
  forall H compress iv zero of_weight bit_cmr tmr_unit tmr_two_two_n jet_cmr h_of_bytes,
  tables_ok H compress iv zero bit_cmr tmr_unit tmr_two_two_n ->
  forall (D : Type) (d : inner H wit_spec -> D) p1 p2 t1 t2,
  map strip p1 = map strip p2 ->
  construct H compress iv zero of_weight bit_cmr tmr_unit tmr_two_two_n jet_cmr h_of_bytes d p1 = Ok t1 ->
  construct H compress iv zero of_weight bit_cmr tmr_unit tmr_two_two_n jet_cmr h_of_bytes d p2 = Ok t2 ->
  map (val_cmr H (node_alg H compress iv zero of_weight bit_cmr tmr_unit tmr_two_two_n jet_cmr d)) t1 =
  map (val_cmr H (node_alg H compress iv zero of_weight bit_cmr tmr_unit tmr_two_two_n jet_cmr d)) t2.
Proof. intros until h_of_bytes. intros [A [B C]] D. exact (@cmr_indep_witness_disconnect H compress iv zero of_weight bit_cmr tmr_unit tmr_two_two_n jet_cmr h_of_bytes A B C D). Qed.
Print Assumptions C09_indep_witness_disconnect.

(* A5. equal erasure => equal root, across tables and across algebras *)
Theorem C09_equal_erasure_equal_root :
  forall H compress iv zero of_weight bit_cmr tmr_unit tmr_two_two_n jet_cmr h_of_bytes,
  tables_ok H compress iv zero bit_cmr tmr_unit tmr_two_two_n ->
  forall (A B : Type) (alg1 : algebra H A) (alg2 : algebra H B) p1 p2 t1 t2 i j v1 v2,
  homomorphic H compress iv zero of_weight bit_cmr tmr_unit tmr_two_two_n jet_cmr alg1 ->
  homomorphic H compress iv zero of_weight bit_cmr tmr_unit tmr_two_two_n jet_cmr alg2 ->
  drive H h_of_bytes alg1 p1 = Ok t1 -> drive H h_of_bytes alg2 p2 = Ok t2 ->
  nth_error t1 i = Some v1 -> nth_error t2 j = Some v2 ->
  nth i (erase_prog H h_of_bytes p1) CUnit = nth j (erase_prog H h_of_bytes p2) CUnit ->
  val_cmr H alg1 v1 = val_cmr H alg2 v2.
Proof. intros until h_of_bytes. intros [A [B C]] X Y. exact (@equal_erasure_equal_root H compress iv zero of_weight bit_cmr tmr_unit tmr_two_two_n jet_cmr h_of_bytes A B C X Y). Qed.
Print Assumptions C09_equal_erasure_equal_root.

(* A6. the constructors and Node::from_parts agree; a from_parts-consistent table carries cmr_spec *)
Theorem C09_construct_consistent :
  forall H compress iv zero of_weight bit_cmr tmr_unit tmr_two_two_n jet_cmr h_of_bytes,
  forall (D : Type) (d : inner H wit_spec -> D) p t,
  construct H compress iv zero of_weight bit_cmr tmr_unit tmr_two_two_n jet_cmr h_of_bytes d p = Ok t ->
  consistent H compress iv zero of_weight bit_cmr tmr_unit tmr_two_two_n jet_cmr (map (to_entry H) t).
Proof. exact construct_consistent. Qed.
Print Assumptions C09_construct_consistent.

Theorem C09_consistent_cmr_spec :
  forall H compress iv zero of_weight bit_cmr tmr_unit tmr_two_two_n jet_cmr,
  tables_ok H compress iv zero bit_cmr tmr_unit tmr_two_two_n ->
  forall (W D : Type) (t : list (entry H W D)),
  consistent H compress iv zero of_weight bit_cmr tmr_unit tmr_two_two_n jet_cmr t ->
  map entry_cmr t = map (cmr_spec H compress iv zero of_weight jet_cmr) (erase_table H t).
Proof. intros until jet_cmr. intros [A [B C]] W D. exact (@consistent_cmr_spec H compress iv zero of_weight bit_cmr tmr_unit tmr_two_two_n jet_cmr A B C W D). Qed.
Print Assumptions C09_consistent_cmr_spec.

(* A7. convert_cmr: Node::convert with ANY converter (finalize_types, finalize_unpruned, prune,
   unfinalize, unfinalize_types, to_construct_node, Namer / Forgetter / Populator ...) copies the
   roots, keeps the table from_parts-consistent (also where it prunes a case into an assertion),
   and yields, node by node, the source structure up to hiding *)
Theorem C09_convert_cmr :
  forall H (W D W' D' : Type) (cv : converter H W D W' D') src dst,
  convert H cv src = Ok dst -> map entry_cmr dst = map entry_cmr src.
Proof. exact convert_cmr. Qed.
Print Assumptions C09_convert_cmr.

Theorem C09_convert_consistent :
  forall H compress iv zero of_weight bit_cmr tmr_unit tmr_two_two_n jet_cmr,
  forall (W D W' D' : Type) (cv : converter H W D W' D') src dst,
  consistent H compress iv zero of_weight bit_cmr tmr_unit tmr_two_two_n jet_cmr src ->
  convert H cv src = Ok dst ->
  consistent H compress iv zero of_weight bit_cmr tmr_unit tmr_two_two_n jet_cmr dst.
Proof. exact convert_consistent. Qed.
Print Assumptions C09_convert_consistent.

Theorem C09_convert_heq :
  forall H compress iv zero of_weight bit_cmr tmr_unit tmr_two_two_n jet_cmr,
  tables_ok H compress iv zero bit_cmr tmr_unit tmr_two_two_n ->
  forall (W D W' D' : Type) (cv : converter H W D W' D') src dst,
  consistent H compress iv zero of_weight bit_cmr tmr_unit tmr_two_two_n jet_cmr src ->
  convert H cv src = Ok dst ->
  Forall2 (heq H compress iv zero of_weight jet_cmr) (erase_table H dst) (erase_table H src).
Proof. intros until jet_cmr. intros [A [B C]] W D W' D'. exact (@convert_heq H compress iv zero of_weight bit_cmr tmr_unit tmr_two_two_n jet_cmr A B C W D W' D'). Qed.
Print Assumptions C09_convert_heq.

(* ============================ B. hiding ========================================================= *)

(* B1. hide_cmr: replacing any sub-expressions by hidden nodes carrying their roots preserves the root;
   more generally structures equal up to hiding have equal roots *)
Theorem C09_hide_cmr :
  forall H compress iv zero of_weight jet_cmr a b,
  hides H compress iv zero of_weight jet_cmr a b ->
  cmr_spec H compress iv zero of_weight jet_cmr b = cmr_spec H compress iv zero of_weight jet_cmr a.
Proof. exact hide_cmr. Qed.
Print Assumptions C09_hide_cmr.

Theorem C09_heq_cmr :
  forall H compress iv zero of_weight jet_cmr a b,
  heq H compress iv zero of_weight jet_cmr a b ->
  cmr_spec H compress iv zero of_weight jet_cmr a = cmr_spec H compress iv zero of_weight jet_cmr b.
Proof. exact heq_cmr. Qed.
Print Assumptions C09_heq_cmr.

(* B2. the wrapper Hiding<N>: obeys the constructor laws when N does; whatever is hidden on the way
   every value carries the root of the UN-hidden structure of its node; over the structure-tracking
   algebra an un-hidden value is that structure up to hiding *)
Theorem C09_hiding_homomorphic :
  forall H compress iv zero of_weight bit_cmr tmr_unit tmr_two_two_n jet_cmr (A : Type) (alg : algebra H A),
  homomorphic H compress iv zero of_weight bit_cmr tmr_unit tmr_two_two_n jet_cmr alg ->
  homomorphic H compress iv zero of_weight bit_cmr tmr_unit tmr_two_two_n jet_cmr (hiding_alg H compress iv zero alg).
Proof. exact hiding_alg_hom. Qed.
Print Assumptions C09_hiding_homomorphic.

Theorem C09_hiding_cmr_spec :
  forall H compress iv zero of_weight bit_cmr tmr_unit tmr_two_two_n jet_cmr h_of_bytes,
  tables_ok H compress iv zero bit_cmr tmr_unit tmr_two_two_n ->
  forall (A : Type) (alg : algebra H A),
  homomorphic H compress iv zero of_weight bit_cmr tmr_unit tmr_two_two_n jet_cmr alg ->
  forall hs p t, drive_hiding H compress iv zero h_of_bytes alg hs p = Ok t ->
  map (h_cmr H alg) t = map (cmr_spec H compress iv zero of_weight jet_cmr) (erase_prog H h_of_bytes p).
Proof. intros until h_of_bytes. intros [A [B C]] X. exact (@hiding_cmr_spec H compress iv zero of_weight bit_cmr tmr_unit tmr_two_two_n jet_cmr h_of_bytes A B C X). Qed.
Print Assumptions C09_hiding_cmr_spec.

Theorem C09_hiding_structure :
  forall H compress iv zero of_weight jet_cmr h_of_bytes hs p t,
  drive_hiding H compress iv zero h_of_bytes (cstruct_alg H compress iv zero of_weight jet_cmr) hs p = Ok t ->
  Forall2 (hid_rel H compress iv zero of_weight jet_cmr) t (erase_prog H h_of_bytes p).
Proof. exact hiding_structure. Qed.
Print Assumptions C09_hiding_structure.

(* B3. cmr_injective: for a collision-free compression function, equal roots => structures equal up to
   hiding (hidden nodes and jets are opaque leaves identified with their root); without opaque leaves:
   equal structures.  compress_inj / iv_inj / iv_leaf are premises (the idealisation), never axioms. *)
Theorem C09_cmr_injective :
  forall H (compress : H -> H * H -> H) (iv : tag -> H) zero of_weight jet_cmr,
  (forall s b s' b', compress s b = compress s' b' -> s = s' /\ b = b') ->
  (forall a b, In a cmr_tags -> In b cmr_tags -> iv a = iv b -> a = b) ->
  (forall a b x, In a cmr_tags -> In b cmr_tags -> iv a <> compress (iv b) x) ->
  forall s1 s2, cwf H s1 -> cwf H s2 ->
  cmr_spec H compress iv zero of_weight jet_cmr s1 = cmr_spec H compress iv zero of_weight jet_cmr s2 ->
  heq H compress iv zero of_weight jet_cmr s1 s2.
Proof. exact cmr_injective. Qed.
Print Assumptions C09_cmr_injective.

Theorem C09_cmr_injective_plain :
  forall H (compress : H -> H * H -> H) (iv : tag -> H) zero of_weight jet_cmr,
  (forall s b s' b', compress s b = compress s' b' -> s = s' /\ b = b') ->
  (forall a b, In a cmr_tags -> In b cmr_tags -> iv a = iv b -> a = b) ->
  (forall a b x, In a cmr_tags -> In b cmr_tags -> iv a <> compress (iv b) x) ->
  forall s1 s2, cwf H s1 -> cwf H s2 -> plain H s1 -> plain H s2 ->
  cmr_spec H compress iv zero of_weight jet_cmr s1 = cmr_spec H compress iv zero of_weight jet_cmr s2 ->
  s1 = s2.
Proof. exact cmr_injective_plain. Qed.
Print Assumptions C09_cmr_injective_plain.

(* B4. cmr_collision: the same without any premise that is false of a real hash function: equal roots
   => equal up to hiding, OR two different inputs of the compression function with the same output
   are exhibited.  (An IV that is the compression of a block from another IV is such a collision,
   because every IV is also compress iv0 (tag block).) *)
Theorem C09_cmr_collision :
  forall H (compress : H -> H * H -> H) (iv : tag -> H) zero of_weight jet_cmr (iv0 : H) (tag_block : tag -> H * H),
  (forall a b : H, {a = b} + {a <> b}) ->
  (forall t, iv t = compress iv0 (tag_block t)) ->
  (forall t, In t cmr_tags -> iv0 <> iv t) ->
  (forall a b, In a cmr_tags -> In b cmr_tags -> iv a = iv b -> a = b) ->
  forall s1 s2, cwf H s1 -> cwf H s2 ->
  cmr_spec H compress iv zero of_weight jet_cmr s1 = cmr_spec H compress iv zero of_weight jet_cmr s2 ->
  heq H compress iv zero of_weight jet_cmr s1 s2 \/
  (exists s b s' b', compress s b = compress s' b' /\ (s <> s' \/ b <> b')).
Proof. exact cmr_collision. Qed.
Print Assumptions C09_cmr_collision.

(* where the leaf condition comes from: every IV is one compression away from one start state that
   has no preimage *)
Theorem C09_iv_leaf_from_free :
  forall H (compress : H -> H * H -> H) (iv : tag -> H) (iv0 : H) (tag_block : tag -> H * H),
  (forall s b s' b', compress s b = compress s' b' -> s = s' /\ b = b') ->
  (forall t, iv t = compress iv0 (tag_block t)) ->
  (forall s b, compress s b <> iv0) ->
  forall a b x, iv a <> compress (iv b) x.
Proof. exact iv_leaf_from_free. Qed.
Print Assumptions C09_iv_leaf_from_free.

(* the hypotheses are satisfiable: the free term algebra *)
Theorem C09_injective_hypotheses_satisfiable :
  (forall s b s' b', t_compress s b = t_compress s' b' -> s = s' /\ b = b') /\
  (forall a b, t_iv a = t_iv b -> a = b) /\
  (forall a b x, t_iv a <> t_compress (t_iv b) x).
Proof. exact (conj free_compress_inj (conj free_iv_inj free_iv_leaf)). Qed.
Print Assumptions C09_injective_hypotheses_satisfiable.

(* ============================ C. the SHA-256 instance with the regenerated constants ============= *)

(* (the `Check` lines after `Print Assumptions` only separate the blocks of listed primitives in the log) *)

(* C1. iv_is_tag_hash: every IV constant of cmr.rs / ihr.rs / amr.rs / tmr.rs is the SHA-256 tagged-hash
   midstate of its tag string, computed in Coq *)
Theorem C09_iv_is_tag_hash :
  (* iv_table_ok = forallb (fun p => bytes_eqb (bytes_of_state (sha_hash_tag (fst p))) (snd p)) all_ivs *)
  iv_table_ok = true /\
  length all_ivs = 42%nat /\
  forall t, r_iv t = sha_hash_tag (r_tag_string t).
Proof. exact (conj iv_table_checked (conj eq_refl iv_is_tag_hash_all)). Qed.
Print Assumptions C09_iv_is_tag_hash.
Check C09_iv_is_tag_hash.

(* C2. the IVs a commitment root is built from are pairwise different *)
Theorem C09_real_iv_inj : forall a b,
  In a (cmr_tags ++ [TtUnit; TtSum; TtProd]) -> In b (cmr_tags ++ [TtUnit; TtSum; TtProd]) ->
  r_iv a = r_iv b -> a = b.
Proof. exact real_iv_inj. Qed.
Print Assumptions C09_real_iv_inj.
Check C09_real_iv_inj.

(* C3. Cmr::BITS, Tmr::unit, Tmr::TWO_TWO_N agree with hashing from scratch *)
Theorem C09_real_tables_ok : tables_ok rH r_compress r_iv r_zero r_bit_cmr r_tmr_unit r_two_two_n.
Proof. exact real_tables_ok. Qed.
Print Assumptions C09_real_tables_ok.
Check C09_real_tables_ok.

(* C4. hence, for SHA-256 and the constants of the code, with no hypothesis left: *)
Theorem C09_real_node_cmr_spec : forall p t,
  r_construct p = Ok t -> map (val_cmr rH r_node_alg) t = map r_cmr_spec (r_erase p).
Proof. exact real_node_cmr_spec. Qed.
Print Assumptions C09_real_node_cmr_spec.
Check C09_real_node_cmr_spec.

(* C5. injectivity for SHA-256 under exactly two idealising premises (the IV side conditions are
   discharged by computation) *)
Theorem C09_real_cmr_injective :
  (forall s b s' b', r_compress s b = r_compress s' b' -> s = s' /\ b = b') ->
  (forall s b, r_compress s b <> sha_iv0) ->
  forall s1 s2, cwf rH s1 -> cwf rH s2 -> r_cmr_spec s1 = r_cmr_spec s2 ->
  heq rH r_compress r_iv r_zero r_of_weight r_jet_cmr s1 s2.
Proof. exact real_cmr_injective. Qed.
Print Assumptions C09_real_cmr_injective.
Check C09_real_cmr_injective.

(* C6. distinct jets of the tables have distinct roots *)
Theorem C09_jet_cmrs_distinct : nodup_N core_jet_cmrs = true /\ nodup_N elements_jet_cmrs = true.
Proof. exact jet_cmrs_distinct. Qed.
Print Assumptions C09_jet_cmrs_distinct.
Check C09_jet_cmrs_distinct.

(* C7. SHA-256 itself: FIPS 180-4 vectors *)
Theorem C09_sha256_vectors :
  sha256 [97; 98; 99] =
    bytes_of_state (0xba7816bf, 0x8f01cfea, 0x414140de, 0x5dae2223, 0xb00361a3, 0x96177a9c, 0xb410ff61, 0xf20015ad)%uint63 /\
  sha256 [] =
    bytes_of_state (0xe3b0c442, 0x98fc1c14, 0x9afbf4c8, 0x996fb924, 0x27ae41e4, 0x649b934c, 0xa495991b, 0x7852b855)%uint63 /\
  sha256 msg_two_blocks =
    bytes_of_state (0x248d6a61, 0xd20638b8, 0xe5c02693, 0x0c3e6039, 0xa33ce459, 0x64ff2167, 0xf6ecedd4, 0x19db06c1)%uint63.
Proof. exact (conj sha256_abc (conj sha256_empty sha256_two_blocks)). Qed.
Print Assumptions C09_sha256_vectors.
Check C09_sha256_vectors.

(* C8. for SHA-256 and the constants of the code, with no idealising premise: two well-formed
   structures with the same root are equal up to hiding, or an explicit SHA-256 compression
   collision exists.  (Decidable equality of primitive integers: Uint63.eqb_spec, whose
   standard-library axioms eqb_correct / eqb_refl are listed.) *)
Theorem C09_real_cmr_collision : forall s1 s2,
  cwf rH s1 -> cwf rH s2 -> r_cmr_spec s1 = r_cmr_spec s2 ->
  heq rH r_compress r_iv r_zero r_of_weight r_jet_cmr s1 s2 \/
  (exists s b s' b', r_compress s b = r_compress s' b' /\ (s <> s' \/ b <> b')).
Proof. exact real_cmr_collision. Qed.
Print Assumptions C09_real_cmr_collision.
Check C09_real_cmr_collision.
