"""C01 - Program and witness bit-encoding round-trips."""
import json
import os

import proggen as pg
import vplib
from vplib import Case
from props import codec_common as cc

PROP = "C01"
LEVEL = "proof"
IMPORTS = ["Ty.Ty", "Core.Prog", "Codec.NodeCodec", "Codec.JetTab", "Codec.Run"]
CRATE = None  # merged into the main harness crate
import os as _os
_os.environ.setdefault("VERIF_AS_LIMIT_MB", "2048")  # address-space limit of the harness process
MAX_NODES = 260


# ------------------------------------------------------------------ program surgery (object DAGs)
class T:
    __slots__ = ("k", "a", "kids")

    def __init__(self, k, a, kids):
        self.k = k        # kind
        self.a = a        # payload tuple
        self.kids = kids  # list of T | None (absent disconnect branch)


def to_dag(prog):
    objs = []
    for n in prog:
        k = n[0]
        if k in ("injl", "injr", "take", "drop"):
            objs.append(T(k, (), [objs[n[1]]]))
        elif k in ("comp", "case", "pair"):
            objs.append(T(k, (), [objs[n[1]], objs[n[2]]]))
        elif k == "disc":
            objs.append(T(k, (), [objs[n[1]], None if n[2] is None else objs[n[2]]]))
        else:
            objs.append(T(k, tuple(n[1:]), []))
    return objs[-1]


def flatten(root):
    """node table in post order, sharing = object identity"""
    out = []
    memo = {}
    stack = [(root, False)]
    while stack:
        t, done = stack.pop()
        if id(t) in memo:
            continue
        if not done:
            stack.append((t, True))
            for c in reversed(t.kids):
                if c is not None and id(c) not in memo:
                    stack.append((c, False))
        else:
            ix = [None if c is None else memo[id(c)] for c in t.kids]
            if t.k in ("injl", "injr", "take", "drop"):
                out.append((t.k, ix[0]))
            elif t.k in ("comp", "case", "pair", "disc"):
                out.append((t.k, ix[0], ix[1]))
            else:
                out.append((t.k,) + t.a)
            memo[id(t)] = len(out) - 1
    return out


def all_nodes(root):
    seen = {}
    stack = [root]
    while stack:
        t = stack.pop()
        if id(t) in seen:
            continue
        seen[id(t)] = t
        stack += [c for c in t.kids if c is not None]
    return list(seen.values())


def clone(t, memo=None):
    """copy of the sub-DAG (sharing inside the copy preserved)"""
    memo = {} if memo is None else memo
    if id(t) in memo:
        return memo[id(t)]
    c = T(t.k, t.a, [None if x is None else clone(x, memo) for x in t.kids])
    memo[id(t)] = c
    return c


def duplicate_some(rng, prog, times):
    """replace some references by references to a structurally equal copy (unshared duplicates)"""
    root = to_dag(prog)
    for _ in range(times):
        nodes = [t for t in all_nodes(root) if any(c is not None and c.k != "hid" for c in t.kids)]
        if not nodes:
            break
        p = rng.choice(nodes)
        slots = [i for i, c in enumerate(p.kids) if c is not None and c.k != "hid"]
        s = rng.choice(slots)
        p.kids[s] = clone(p.kids[s])
    return flatten(root)


def contains_noid(t, memo):
    if id(t) in memo:
        return memo[id(t)]
    r = t.k in ("wit", "disc") or any(c is not None and contains_noid(c, memo) for c in t.kids)
    memo[id(t)] = r
    return r


def unshare_noid(prog, limit=MAX_NODES):
    """commitment time: every sub-expression that contains a witness or disconnect node occurs once"""
    root = to_dag(prog)
    noid = {}
    count = [0]

    def go(t, memo):
        if not contains_noid(t, noid):
            if id(t) in memo:
                return memo[id(t)]
        count[0] += 1
        if count[0] > 4 * limit:
            raise OverflowError()
        c = T(t.k, t.a, [None if x is None else go(x, memo) for x in t.kids])
        if not contains_noid(t, noid):
            memo[id(t)] = c
        return c
    try:
        out = flatten(go(root, {}))
    except (OverflowError, RecursionError):
        return None
    return out if len(out) <= limit else None


def drop_disc_branches(prog):
    """commitment-time programs: disconnect nodes carry no attached branch (CommitNode has none; a branch attached
    at construction time would be an expression outside the program constraining its types)"""
    root = to_dag(prog)
    for t in all_nodes(root):
        if t.k == "disc":
            t.kids[1] = None
    return flatten(root)


# ------------------------------------------------------------------ hand-written shapes
H1 = "ab" * 32
H2 = "cd" * 32
E1 = "5a" * 64


def fixed_programs():
    """(name, pdl tuples).  Witness nodes are ('wit', None): filled after inference."""
    W8 = ("word", 3, [1, 0, 1, 0, 0, 1, 0, 1])
    out = []
    out.append(("unit", [("unit",)]))
    out.append(("iden", [("iden",)]))
    out.append(("comp-iden-iden-shared", [("iden",), ("comp", 0, 0)]))
    out.append(("comp-iden-iden-dup", [("iden",), ("iden",), ("comp", 0, 1)]))
    out.append(("witness-unit", [("wit", None), ("unit",), ("comp", 0, 1)]))
    out.append(("word", [W8, ("unit",), ("comp", 0, 1)]))
    out.append(("two-witnesses", [("wit", None), ("wit", None), ("pair", 0, 1), ("jet", "c", "eq_8"), ("comp", 2, 3),
                                  ("unit",), ("comp", 4, 5)]))
    W8v = ("wit", ("c", [1, 0, 1, 0, 0, 1, 0, 1]))
    out.append(("two-witnesses-equal", [W8v, W8v, ("pair", 0, 1), ("jet", "c", "eq_8"), ("comp", 2, 3),
                                        ("unit",), ("comp", 4, 5)]))
    out.append(("two-witnesses-equal-deep", [W8v, ("iden",), ("comp", 0, 1), W8v, ("iden",), ("comp", 3, 4), ("pair", 2, 5),
                                             ("jet", "c", "eq_8"), ("comp", 6, 7), ("unit",), ("comp", 8, 9)]))
    out.append(("witness-shared", [("wit", None), ("pair", 0, 0), ("jet", "c", "eq_8"), ("comp", 1, 2), ("unit",), ("comp", 3, 4)]))
    out.append(("assertl", [W8, ("jet", "c", "eq_8"), ("take", 1), ("hid", H1), ("case", 2, 3), ("iden",),
                            ("injl", 5), ("unit",), ("pair", 6, 7), ("comp", 8, 4), ("pair", 0, 0), ("comp", 10, 9),
                            ("unit",), ("comp", 11, 12)]))
    out.append(("assert-both-sides", [("unit",), ("hid", H1), ("case", 0, 1), ("hid", H2), ("unit",), ("case", 3, 4),
                                      ("unit",), ("injl", 6), ("unit",), ("pair", 7, 8), ("comp", 9, 2),
                                      ("unit",), ("injr", 11), ("unit",), ("pair", 12, 13), ("comp", 14, 5),
                                      ("pair", 10, 15), ("unit",), ("comp", 16, 17)]))
    out.append(("same-hidden-twice", [("unit",), ("hid", H1), ("case", 0, 1), ("unit",), ("hid", H1), ("case", 3, 4),
                                      ("unit",), ("injl", 6), ("unit",), ("pair", 7, 8), ("comp", 9, 2),
                                      ("iden",), ("injl", 11), ("unit",), ("pair", 12, 13), ("comp", 14, 5),
                                      ("pair", 10, 15), ("unit",), ("comp", 16, 17)]))
    out.append(("fail", [("fail", E1), ("unit",), ("comp", 0, 1)]))
    out.append(("disconnect", [("iden",), ("take", 0), ("unit",), ("pair", 1, 2), ("unit",), ("disc", 3, 4), ("unit",), ("comp", 5, 6)]))
    out.append(("diamond", [("unit",), ("injl", 0), ("pair", 1, 1), ("pair", 2, 2), ("unit",), ("comp", 3, 4)]))
    # identity-hash-equal nodes whose children differ in a type the parent does not show (see report)
    poly_a = [("unit",), ("injl", 0), ("unit",), ("comp", 1, 2), ("pair", 0, 0), ("injr", 4), ("comp", 5, 2),
              ("injl", 0), ("unit",), ("comp", 7, 8)]
    out.append(("poly-siblings", poly_a + [("comp", 3, 9), ("comp", 10, 6)]))
    out.append(("poly-cousins", poly_a + [("comp", 9, 6), ("comp", 3, 10)]))
    out.append(("poly-fail-siblings", [("fail", E1), ("unit",), ("comp", 0, 1), ("fail", E1), ("unit",), ("comp", 3, 4),
                                       ("unit",), ("take", 6), ("comp", 0, 7), ("comp", 2, 5), ("comp", 9, 8)]))
    return out


def twin_assert_programs(binary, workdir):
    """`case L R` and `assertl L #cmr(R)` / `assertr #cmr(L) R` as distinct nodes with equal types: the IMR of a
    witness-free node equals its CMR, so the assertion and the case have the same identity hash.
    Returns (name, prog, hid_alias)."""
    shapes = []
    LRs = [([("iden",), ("drop", 0)], [("unit",), ("drop", 0)]),
           ([("unit",), ("take", 0)], [("unit",), ("drop", 0)]),
           ([("unit",), ("drop", 0)], [("unit",), ("drop", 0)])]
    lines = []
    for k, (L, R) in enumerate(LRs):
        lines.append("l%d cmr %s" % (k, pg.prog_pdl(L)))
        lines.append("r%d cmr %s" % (k, pg.prog_pdl(R)))
    res = vplib.run_harness(binary, "c01", lines, workdir=workdir)
    for k, (L, R) in enumerate(LRs):
        cl, cr = res.get("l%d" % k), res.get("r%d" % k)
        if not (isinstance(cl, list) and isinstance(cr, list) and cl[0] == 0 and cr[0] == 0):
            continue
        hl = "".join("%02x" % b for b in cl[1:])
        hr = "".join("%02x" % b for b in cr[1:])
        for variant in ("assertl", "assertr"):
            for order in (0, 1):
                nodes = []

                def emit(ns):
                    base = len(nodes)
                    for n in ns:
                        if n[0] in ("take", "drop", "injl", "injr"):
                            nodes.append((n[0], n[1] + base))
                        else:
                            nodes.append(n)
                    return len(nodes) - 1
                li = emit(L)
                ri = emit(R)
                if variant == "assertl":
                    nodes.append(("hid", hr))
                    h = len(nodes) - 1
                    alias = {str(h): ri}
                    nodes.append(("case", li, h))
                else:
                    nodes.append(("hid", hl))
                    h = len(nodes) - 1
                    alias = {str(h): li}
                    nodes.append(("case", h, ri))
                x = len(nodes) - 1
                nodes.append(("case", li, ri))
                y = len(nodes) - 1
                # inputs: the assertion is fed the side that is present
                nodes += [("unit",), ("injl" if variant == "assertl" else "injr", len(nodes)), ("unit",)]
                nodes.append(("pair", len(nodes) - 2, len(nodes) - 1))
                in1 = len(nodes) - 1
                nodes += [("unit",), ("injr" if variant == "assertl" else "injl", len(nodes)), ("unit",)]
                nodes.append(("pair", len(nodes) - 2, len(nodes) - 1))
                in2 = len(nodes) - 1
                nodes.append(("comp", in1, x))
                cx = len(nodes) - 1
                nodes.append(("comp", in2, y))
                cy = len(nodes) - 1
                nodes.append(("pair", cx, cy) if order == 0 else ("pair", cy, cx))
                nodes += [("unit",), ("comp", len(nodes) - 1, len(nodes))]
                shapes.append(("twin-%s-%d-%d" % (variant, k, order), nodes, alias))
    return shapes


def equalise_witnesses(rng, prog, arrows):
    """give some witness nodes of equal type the value of an earlier one (identity-hash-equal twins that are
    separate nodes: the encoder merges them and must write the value once)"""
    seen = {}
    out = []
    for n, ar in zip(prog, arrows):
        if n[0] == "wit" and n[1] is not None and ar is not None:
            if ar[1] in seen and rng.chance(1, 2):
                n = ("wit", seen[ar[1]])
            else:
                seen[ar[1]] = n[1]
        out.append(n)
    return out


def poly_program(rng):
    """random member of the family above: p_i = comp (injl u) t_i with the hidden middle type forced differently"""
    forcing = rng.choice([[("pair", 0, 0)], [("word", rng.range(0, 4), None)], [("injl", 0)], [("pair", 0, 0), ("pair", 4, 4)]])
    nodes = [("unit",), ("injl", 0), ("unit",), ("comp", 1, 2)]
    for f in forcing:
        if f[0] == "word":
            f = ("word", f[1], rng.bits(2 ** f[1]))
        nodes.append(f)
    nodes.append(("injr", len(nodes) - 1))
    nodes.append(("comp", len(nodes) - 1, 2))
    q = len(nodes) - 1
    nodes += [("injl", 0), ("unit",), ("comp", len(nodes), len(nodes) + 1)]
    p2 = len(nodes) - 1
    shape = rng.below(3)
    if shape == 0:
        nodes += [("comp", 3, p2), ("comp", len(nodes), q)]
    elif shape == 1:
        nodes += [("comp", p2, q), ("comp", 3, len(nodes))]
    else:
        nodes += [("pair", 3, p2), ("pair", len(nodes), q), ("unit",), ("comp", len(nodes) + 1, len(nodes) + 2)]
    return nodes


# ------------------------------------------------------------------ witnesses of pinned (padded) types
def padfree(t):
    """no sum with branches of different width anywhere in t (Final::has_padding is false)"""
    if t[0] == "u":
        return True
    if t[0] == "s":
        return pg.width(t[1]) == pg.width(t[2]) and padfree(t[1]) and padfree(t[2])
    return padfree(t[1]) and padfree(t[2])


def prod_with_pad(t):
    """t contains a product type that contains padding (the structural branch of Value::from_compact_bits)"""
    if t[0] == "u":
        return False
    if t[0] == "p" and not padfree(t):
        return True
    return prod_with_pad(t[1]) or prod_with_pad(t[2])


class PinBuilder(pg.Builder):
    """Builder whose witness nodes are followed by a consumer that pins their target type: without it the
    principal target of nearly every generated witness node is the unit type (269 witness nodes of a quick
    run: 22 non-unit, none a product with padding).
      pin(T) : T -> 1 has principal source exactly T:
        pin(1) = unit;  pin(A + B) = comp (pair iden unit) (case (take pin A) (take pin B));
        pin(A * B) = comp (pair (take pin A) (drop pin B)) unit;  optionally a jet `is_zero_N` for words
      witness w : a -> T becomes  comp w (comp (pair iden (pin T)) (take iden))  : a -> T"""

    def __init__(self, rng, opts=None, pin_pct=70, word_jets=None):
        super().__init__(rng, opts)
        self.pin_pct = pin_pct
        self.pins = {}
        self.word_jets = word_jets or {}     # n -> (fam, name) of a jet 2^(2^n) -> 2

    def pin(self, t):
        rng = self.rng
        if t == pg.U:
            return self.add(("unit",))          # never shared: its source is a free variable
        if t in self.pins and rng.below(100) < 75:
            return self.pins[t]
        n = pg.as_word(t)
        if n is not None and n in self.word_jets and rng.below(100) < 60:
            j = self.add(("jet",) + self.word_jets[n])
            u = self.add(("unit",))
            r = self.add(("comp", j, u))
        elif t[0] == "s":
            pa = self.pin(t[1])
            pb = self.pin(t[2])
            ta = self.add(("take", pa))
            tb = self.add(("take", pb))
            cs = self.add(("case", ta, tb))
            idn = self.add(("iden",))
            un = self.add(("unit",))
            pr = self.add(("pair", idn, un))
            r = self.add(("comp", pr, cs))
        else:
            pa = self.pin(t[1])
            pb = self.pin(t[2])
            ta = self.add(("take", pa))
            db = self.add(("drop", pb))
            pr = self.add(("pair", ta, db))
            un = self.add(("unit",))
            r = self.add(("comp", pr, un))
        self.pins[t] = r
        return r

    def pinned_witness(self, t):
        """index of a term ? -> t: a fresh witness node whose target is pinned to t"""
        w = self.add(("wit", None))
        if t == pg.U:
            return w
        p = self.pin(t)
        i1 = self.add(("iden",))
        pr = self.add(("pair", i1, p))
        i2 = self.add(("iden",))
        tk = self.add(("take", i2))
        c1 = self.add(("comp", pr, tk))
        return self.add(("comp", w, c1))

    def gen(self, a, b, depth):
        i = super().gen(a, b, depth)
        if i == len(self.nodes) - 1 and self.nodes[i] == ("wit", None) and b != pg.U and self.rng.below(100) < self.pin_pct:
            self.nodes.pop()
            return self.pinned_witness(b)
        return i


W = pg.word
_PAD_TYPES = None


def pad_types():
    """witness types with padding inside products at several nesting depths and bit offsets"""
    global _PAD_TYPES
    if _PAD_TYPES is None:
        U, S, P, BIT = pg.U, pg.S, pg.P, pg.BIT
        o8 = S(U, W(3))
        _PAD_TYPES = [
            P(o8, W(3)), P(W(3), o8), P(o8, o8), P(S(W(3), U), W(3)),
            P(S(U, BIT), BIT), P(BIT, S(U, BIT)), P(S(BIT, U), S(U, BIT)),
            S(U, P(o8, W(3))), S(P(W(3), o8), U), S(P(S(U, BIT), W(2)), W(1)),
            P(P(S(U, W(1)), W(1)), S(W(2), U)), P(W(1), P(S(U, W(2)), W(4))), P(P(W(2), S(W(1), U)), BIT),
            P(S(U, P(S(U, BIT), BIT)), BIT), P(BIT, S(P(BIT, S(U, W(1))), U)),
            P(S(U, P(S(U, P(S(U, BIT), BIT)), BIT)), W(1)),
            P(U, S(U, BIT)), P(S(U, BIT), U), P(P(U, U), S(U, W(1))), P(S(U, U), S(U, W(1))),
            P(S(W(1), W(3)), S(W(3), W(1))), P(S(S(U, BIT), W(2)), S(W(2), S(BIT, U))),
            P(S(U, W(4)), W(3)), P(W(5), S(U, W(3))), P(S(U, W(3)), P(S(U, W(3)), S(U, W(3)))),
            S(P(BIT, BIT), P(S(U, W(2)), BIT)), P(S(P(BIT, BIT), W(3)), S(U, P(BIT, W(1)))),
        ]
    return _PAD_TYPES


def rand_pad_ty(rng, depth=4):
    for _ in range(200):
        t = pg.rand_ty(rng, depth)
        if prod_with_pad(t) and pg.width(t) <= 96:
            return t
    return rng.choice(pad_types())


def biased_value(rng, t, mode):
    """mode 0 random, 1 all left (= zero value), 2 all right, 3 alternating by depth, 4 words all ones"""
    def go(t, d):
        if t[0] == "u":
            return ("U",)
        if t[0] == "s":
            if mode == 0:
                right = rng.below(2)
            elif mode == 1:
                right = 0
            elif mode in (2, 4):
                right = 1
            else:
                right = d % 2
            if t[1] == pg.U and t[2] == pg.U and mode == 4:
                right = 1
            return ("R", go(t[2], d + 1)) if right else ("L", go(t[1], d + 1))
        return ("P", go(t[1], d + 1), go(t[2], d + 1))
    return go(t, 0)


def wpad_structures(rng, tier, jets_c):
    """programs 1 -> 1 whose witness nodes have pinned padded types:
       shape 0  comp w pin;  shape 1  several witnesses in a pair tree;  shape 2  a shared witness used twice;
       shape 3  witness of (A + B) * C consumed by a case whose branches pin the components"""
    out = []
    wj = {}
    for j in jets_c:
        for n in (3, 4, 5, 6):
            if j[1] == "is_zero_%d" % (2 ** n) and j[2] == pg.word(n) and j[3] == pg.BIT:
                wj[n] = ("c", j[1])
    n_rand = 40 if tier == "quick" else 600
    tys = list(pad_types()) + [rand_pad_ty(rng) for _ in range(n_rand)]
    for k, t in enumerate(tys):
        bld = PinBuilder(rng, None, word_jets=wj if k % 2 else None)
        shape = k % 4 if k >= len(pad_types()) else 0
        if shape == 0:
            w = bld.pinned_witness(t)
            u = bld.add(("unit",))
            bld.add(("comp", w, u))
        elif shape == 1:
            t2 = rng.choice(tys)
            t3 = rng.choice(tys)
            w1, w2, w3 = bld.pinned_witness(t), bld.pinned_witness(t2), bld.pinned_witness(t3)
            p1 = bld.add(("pair", w2, w3))
            p2 = bld.add(("pair", w1, p1))
            u = bld.add(("unit",))
            bld.add(("comp", p2, u))
        elif shape == 2:
            w = bld.pinned_witness(t)
            p1 = bld.add(("pair", w, w))
            p2 = bld.add(("pair", p1, w))
            u = bld.add(("unit",))
            bld.add(("comp", p2, u))
        else:
            a, b, c = pg.rand_ty(rng, 1), rng.choice(tys), pg.rand_ty(rng, 1)
            w = bld.add(("wit", None))
            l2 = bld.add(("pair", bld.add(("take", bld.pin(a))), bld.add(("drop", bld.pin(c)))))
            r2 = bld.add(("pair", bld.add(("take", bld.pin(b))), bld.add(("drop", bld.pin(c)))))
            cs = bld.add(("case", l2, r2))
            cm = bld.add(("comp", w, cs))
            u = bld.add(("unit",))
            bld.add(("comp", cm, u))
        p = pg.compact_prog(bld.nodes)
        if len(p) <= MAX_NODES:
            out.append(("wpad", "r", "c", p))
    return out


# ------------------------------------------------------------------ explicit witness values (wspec of codec_wit.rs)
def val_token(rng, v, t):
    if t == pg.BIT and rng.below(2):
        return "1" if v[0] == "R" else "0"
    if t == pg.word(3) and rng.below(2):
        bits = pg.compact_bits(v)
        x = 0
        for b in bits:
            x = 2 * x + b
        return "H%02x" % x
    if v[0] == "U":
        return "U"
    if v[0] == "L":
        return "L" + val_token(rng, v[1], t[1]) + pg.ty_pdl(t[2])
    if v[0] == "R":
        return "R" + pg.ty_pdl(t[1]) + val_token(rng, v[1], t[2])
    return "P" + val_token(rng, v[1], t[1]) + val_token(rng, v[2], t[2])


def val_dump(v):
    if v[0] == "U":
        return [0]
    if v[0] == "L":
        return [1] + val_dump(v[1])
    if v[0] == "R":
        return [2] + val_dump(v[1])
    return [3] + val_dump(v[1]) + val_dump(v[2])


def expected_obs(v, t):
    return pg.ty_nums(t) + [99] + val_dump(v) + [98] + pg.compact_bits(v) + [97] + pg.padded_bits(t, v)


def obs_text(o):
    """human-readable form of a witness observation"""
    try:
        i99, i98, i97 = o.index(99), o.index(98), o.index(97)
        t, _ = pg.ty_from_nums(o, 0)
        return "type %s dump %s compact %s padded %s" % (pg.ty_str(t), "".join(str(x) for x in o[i99 + 1:i98]),
                                                          pg.bstr(o[i98 + 1:i97]), pg.bstr(o[i97 + 1:]))
    except Exception:
        return str(o)


# ------------------------------------------------------------------ generation
def gen_root(rng, depth, opts, pin=False):
    """a program 1 -> 1 whose root is a composition through a random middle type (plain `unit`/`iden` roots are
    covered by the fixed programs)"""
    bld = PinBuilder(rng, opts) if pin else pg.Builder(rng, opts)
    m = pg.rand_ty(rng, 2)
    x = bld.gen(pg.U, m, depth)
    y = bld.gen(m, pg.U, depth)
    bld.add(("comp", x, y))
    return pg.compact_prog(bld.nodes)


def gen_structures(rng, tier, jets_c, jets_e, n_rand=None, n_poly=None, jet1=True):
    """list of (family, time, fam, prog) before witnesses are filled"""
    out = []
    for name, p in fixed_programs():
        fam = "e" if any(n[0] == "jet" and n[1] == "e" for n in p) else "c"
        out.append(("fixed:" + name, "r", fam, p))
        out.append(("fixed:" + name, "c", fam, drop_disc_branches(p)))
    if n_rand is None:
        n_rand = 260 if tier == "quick" else 6000
    if n_poly is None:
        n_poly = 12 if tier == "quick" else 200
    small_c = [j for j in jets_c if pg.width(j[2]) <= 64 and pg.width(j[3]) <= 64]
    small_e = [j for j in jets_e if pg.width(j[2]) <= 64 and pg.width(j[3]) <= 64]
    for k in range(n_rand):
        fam = "e" if k % 3 == 2 else "c"
        pool = small_e if fam == "e" else small_c
        jets = [(fam, j[1], j[2], j[3]) for j in rng.shuffle(pool)[:40]]
        opts = dict(share=rng.choice([0, 25, 50]), witness=rng.choice([5, 15, 30]), hidden=rng.choice([0, 25, 60]),
                    disconnect=rng.choice([0, 8, 20]), fail=rng.choice([0, 2]), jets=jets, word=20, comp=30)
        mode = k % 4
        if mode == 3:
            opts["witness"] = rng.choice([30, 60])
        try:
            p = gen_root(rng, rng.range(2, 6), opts, pin=(mode == 3))
        except RecursionError:
            continue
        if len(p) > MAX_NODES:
            continue
        if mode == 1:
            p = duplicate_some(rng, p, rng.range(1, 3))
            family = "dup"
        elif mode == 3:
            family = "pin"
        else:
            family = "rand"
        if len(p) > MAX_NODES:
            continue
        out.append((family, "r", fam, p))
        q = unshare_noid(drop_disc_branches(p))
        if q is not None:
            out.append((family, "c", fam, q))
    for _ in range(n_poly):
        p = poly_program(rng)
        out.append(("poly", "r", "c", p))
        out.append(("poly", "c", "c", p))
    if n_rand:
        out += wpad_structures(rng, tier, jets_c)
    if jet1:
        # every jet of both families once: 1 -witness-> A -jet-> B -unit-> 1 (a change to one jet's code is
        # found with a concrete program, not only by the regenerated table proofs)
        for fam, jets in (("c", jets_c), ("e", jets_e)):
            for j in jets:
                if pg.width(j[2]) <= 4096:
                    out.append(("jet1", "r", fam, [("wit", None), ("jet", fam, j[1]), ("comp", 0, 1), ("unit",), ("comp", 2, 3)]))
    return out


def load_corpus():
    d = os.path.join(vplib.VERIF, "corpus", PROP)
    out = []
    if os.path.isdir(d):
        for fn in sorted(os.listdir(d)):
            if fn.endswith(".case"):
                for line in open(os.path.join(d, fn)):
                    t = line.split()
                    if len(t) >= 3 and not line.startswith("#"):
                        out.append((fn, t[0], t[1], t[2]))   # time, fam, pdl
    return out


def pdl_to_prog(pdl):
    """inverse of proggen.prog_pdl (for corpus entries)"""
    out = []
    for s in pdl.split(","):
        f = s.split(".")
        k = f[0]
        if k in ("iden", "unit"):
            out.append((k,))
        elif k in ("injl", "injr", "take", "drop"):
            out.append((k, int(f[1])))
        elif k in ("comp", "case", "pair"):
            out.append((k, int(f[1]), int(f[2])))
        elif k == "disc":
            out.append((k, int(f[1]), None if f[2] == "-" else int(f[2])))
        elif k in ("hid", "fail"):
            out.append((k, f[1]))
        elif k == "jet":
            out.append((k, f[1], f[2]))
        elif k == "word":
            out.append((k, int(f[1]), [int(c) for c in f[2]]))
        elif k == "wit":
            if f[1] == "-":
                out.append((k, None))
            elif f[1] == "c":
                out.append((k, ("c", [] if f[2] == "-" else [int(c) for c in f[2]])))
            else:
                raise ValueError("typed witnesses are not used by this check")
    return out


_JTY = {}


def make_cases(rng, tier, binary, workdir, n_rand=None, n_poly=None, corpus=True, jet1=True):
    jets_c = pg.jet_list(binary, "c", workdir)
    jets_e = pg.jet_list(binary, "e", workdir)
    _JTY.update({("c", j[1]): (j[2], j[3]) for j in jets_c})
    _JTY.update({("e", j[1]): (j[2], j[3]) for j in jets_e})
    jidx = {("c", j[1]): j[0] for j in jets_c}
    jidx.update({("e", j[1]): j[0] for j in jets_e})
    structs = [("corpus:" + fn, tm, fam, pdl_to_prog(pdl)) for fn, tm, fam, pdl in load_corpus()] if corpus else []
    structs += gen_structures(rng, tier, jets_c, jets_e, n_rand, n_poly, jet1=jet1)
    aliases = {}
    if n_poly is None or n_poly > 0:
        for name, p, alias in twin_assert_programs(binary, workdir):
            for tm in ("r", "c"):
                aliases[len(structs)] = alias
                structs.append(("twin:" + name, tm, "c", p))
    # phase 1: arrows of every structure (program: root 1 -> 1)
    lines = ["s%d arrows 1 %s" % (i, pg.prog_pdl(s[3])) for i, s in enumerate(structs)]
    res = vplib.run_harness(binary, "prog", lines, workdir=workdir)
    cases = []
    rejected = {}
    for i, (family, tm, fam, p) in enumerate(structs):
        ar = pg.parse_arrows(res.get("s%d" % i))
        if isinstance(ar, tuple):
            rejected[ar[1]] = rejected.get(ar[1], 0) + 1
            continue
        if any(n[0] == "disc" and (n[2] is None) == (tm == "r") for n in p):
            continue   # redemption time needs every branch, commitment time has none
        wspec = ""
        wvals = {}
        if tm == "r":
            if family in ("wpad", "pin"):
                mode = rng.choice([0, 0, 0, 1, 2, 3, 4])
                q = [("wit", ("c", pg.compact_bits(biased_value(rng, a[1], mode)))) if n == ("wit", None) and a is not None else n
                     for n, a in zip(p, ar)]
            else:
                q = pg.fill_witnesses(rng, p, ar, zero=rng.chance(1, 8))
            if family == "dup":
                q = equalise_witnesses(rng, q, ar)
            # the intended value of every populated witness node as a typed tree (python reference decoder),
            # handed to the harness as explicit constructor calls
            ent = []
            for j, (n, a) in enumerate(zip(q, ar)):
                if n[0] == "wit" and n[1] is not None and a is not None:
                    r_ = pg.of_compact(a[1], n[1][-1])
                    if r_ is None or r_[1] != len(n[1][-1]):
                        continue
                    wvals[j] = r_[0]
                    ent.append("%d=%s" % (j, val_token(rng, r_[0], a[1])))
            wspec = " " + (";".join(ent) if ent else "-")
        else:
            q = p
        pdl = pg.prog_pdl(q)
        meta = {"family": family, "time": tm, "fam": fam, "prog": q, "arrows": ar, "wvals": wvals}
        if i in aliases:
            meta["hid_alias"] = aliases[i]
        cases.append(Case("p%d" % i, "rt", "%s %s %s%s" % (tm, fam, pdl, wspec), None, meta))
    return cases, rejected, jidx


# ------------------------------------------------------------------ result parsing
def parse_result(r):
    """-> dict"""
    if r in ("CRASH", "TIMEOUT") or r is None:
        return {"status": r or "CRASH"}
    if r == [9]:
        return {"status": "panic"}
    if r[0] == 1:
        return {"status": "build", "code": r[1]}
    pos = 1
    npb = r[pos]
    pb = r[pos + 1:pos + 1 + npb]
    pos += 1 + npb
    nwb = r[pos]
    wb = r[pos + 1:pos + 1 + nwb]
    pos += 1 + nwb
    d = {"status": "ok", "prog": pb, "wit": wb}
    if r[pos] != 0:
        d["decode"] = r[pos:pos + 3]
        return d
    d["decode"] = None
    pos += 1
    names = ["n_orig", "n_dec", "m_cmr", "m_arrow", "m_ihr", "m_amr", "m_wit", "m_shape", "m_root", "coll", "re_prog", "re_wit"]
    for k, nm in enumerate(names):
        d[nm] = r[pos + k]
    pos += len(names)
    ln = r[pos]
    d["dnodes"] = r[pos + 1:pos + 1 + ln]
    pos += 1 + ln
    d["c"] = r[pos] if pos < len(r) else 2
    pos += 1
    for nm in ("wobs_orig", "wobs_dec"):
        if pos >= len(r):
            d[nm] = None
            continue
        cnt = r[pos]
        pos += 1
        lst = []
        for _ in range(cnt):
            ln = r[pos]
            lst.append(r[pos + 1:pos + 1 + ln])
            pos += 1 + ln
        d[nm] = lst
    return d


def ihr_collision(meta):
    """two distinct reachable nodes with the same sharing id whose children have different sharing ids"""
    prog, ar, tm = meta["prog"], meta["arrows"], meta["time"]
    keys = cc.ihr_keys(prog, ar, tm, meta.get("hid_alias"))
    raw = cc.ihr_keys(prog, ar, tm)       # child identities: a hidden child is identified by its CMR
    ch = cc.enc_children(prog, tm)
    first = {}
    for i, k in enumerate(keys):
        if k is None or k[0] == "H":
            continue
        sig = tuple(raw[c] for c in ch(i))
        if k in first and first[k] != sig:
            return True
        first.setdefault(k, sig)
    return False


_JT = {}
_JIDX = {}
_TIER = ["quick"]
# how many cases per generator family are also evaluated in the Coq model (all of them in the thorough tier)
_MODEL_LIMIT = {"quick": {"rand": 110, "dup": 50, "pin": 36, "wpad": 36, "poly": 12, "jet1": 20, "*": 10 ** 9},
                "thorough": {"rand": 2200, "dup": 700, "pin": 700, "wpad": 700, "poly": 100, "jet1": 900, "*": 10 ** 9}}


def witness_clause(m, d, order):
    """witness clause, independent of the library's own witness decoder on the construction side: the intended
    values are typed trees known to this reference; the harness built them from explicit constructors; the
    bytes written are compared with the reference separately; every witness node of the original and of the
    decoded program (yield order of the linearisation) must show the intended tree through the structural
    accessors, the compact and the padded iterator.  Returns (failure | None, is_value_mismatch)."""
    if m["time"] != "r" or d.get("wobs_dec") is None:
        return None, False
    exp = []
    for i in order:
        n = m["prog"][i]
        if n[0] == "wit":
            t = m["arrows"][i][1]
            v = m["wvals"].get(i)
            if v is None:
                v = pg.zero_value(t)
            exp.append(expected_obs(v, t))
    for nm, cls, what in (("wobs_orig", "witness-constructed-differs", "built from explicit constructors"),
                          ("wobs_dec", "witness-read-differs", "read back by RedeemNode::decode")):
        got = d[nm]
        if len(got) != len(exp):
            return (cls, "%d witness nodes %s, %d expected" % (len(got), what, len(exp))), False
        for k, (g, e) in enumerate(zip(got, exp)):
            if g != e:
                return (cls, "witness node #%d %s shows [%s], intended [%s]" % (k, what, obs_text(g), obs_text(e))), True
    return None, False


def prop_check(c, r):
    m = c.meta
    d = parse_result(r)
    st = d["status"]
    if st in ("CRASH", "TIMEOUT", "panic"):
        return ("crash", "encode/decode of a well-typed program %s (%s)" % (st, c.line[:200]))
    if st == "build":
        return ("build", "generated program was rejected at construction (code %s): generator/harness disagreement" % d["code"])
    if d["decode"] is not None:
        return ("encode-not-decodable",
                "the library's own serialisation is rejected by its decoder: %s" % cc.ERR.get(d["decode"][0], d["decode"]))
    # two distinct nodes with equal identity hash but different child identity hashes, as observed by the
    # harness on the real IHRs; the structural keys of the reference must agree on that
    coll = bool(d["coll"])
    if coll != ihr_collision(m):
        return ("sharing-key-reference", "identity-hash collision pattern: implementation %s, structural keys %s" % (coll, not coll))
    jt = _JT[m["fam"]]
    dn, _order = cc.linearise(m["prog"], m["arrows"], m["time"], _JIDX, alias=m.get("hid_alias"))
    wfail, wvalue = witness_clause(m, d, _order)
    if wvalue and not coll:
        return wfail
    bad = [k for k in ("m_cmr", "m_ihr", "m_wit", "m_shape") if d[k]]
    if d["n_orig"] != d["n_dec"]:
        bad.append("node-count")
    if d["m_root"] & 3:
        bad.append("root:" + "".join(n for b, n in ((1, "cmr"), (2, "ihr")) if d["m_root"] & b))
    soft = [k for k in ("m_arrow", "m_amr") if d[k]]
    if d["m_root"] & 4:
        soft.append("root:amr")
    if not d["re_prog"] or not d["re_wit"]:
        return ("reencode-differs", "re-serialising the decoded program does not reproduce the bytes (prog %s, witness %s)"
                % (bool(d["re_prog"]), bool(d["re_wit"])))
    if bad or (soft and not coll):
        return ("decoded-differs", "decoded program differs from the original in: %s" % ",".join(bad + soft))
    pending = None
    if soft:
        # only the annotated roots / arrows above identity-hash-equal twins differ: finding F-C01
        # (everything else, including the reference encoding below, must still hold)
        pending = ("amr-differs+ihr-equal-children-differ",
                   "identity-hash sharing merged two nodes with equal IHR and different children; decoded program differs in: %s" % ",".join(soft))
    # the independent reference: the bytes are the specified encoding of the linearised DAG
    ref_p = cc.pack(cc.enc_prog(dn, jt))
    if ref_p != d["prog"]:
        return ("encoding-differs-from-reference", "program bytes %s differ from the reference encoding %s" % (cc.hexs(d["prog"]), cc.hexs(ref_p)))
    ref_w = cc.pack(cc.witness_bits(m["prog"], m["arrows"], alias=m.get("hid_alias"))) if m["time"] == "r" else []
    if ref_w != d["wit"]:
        return ("witness-differs-from-reference", "witness bytes %s differ from the reference %s" % (cc.hexs(d["wit"]), cc.hexs(ref_w)))
    if d["dnodes"] != cc.dnodes_nums(dn):
        return ("decoded-node-list", "the decoded DAG is not the node list that was written")
    if wfail is not None and not coll:
        # (with identity-hash-equal twins merged, the types below the merged node may change: finding F-C01;
        # the witness bytes were compared with the reference above in any case)
        return wfail
    # third party (Elements family, redemption time): libsimplicity decodes the same bytes to the same roots;
    # it refuses `fail` nodes by design (SIMPLICITY_ERR_FAIL_CODE)
    if d["c"] == 0:
        return ("libsimplicity-roots-differ", "libsimplicity computes different roots for the serialised program")
    if d["c"] >= 10 and not (d["c"] == 16 and any(n[0] == "fail" for n in m["prog"])):
        return ("libsimplicity-rejects", "libsimplicity rejects the serialised program with error -%d" % (d["c"] - 10))
    return pending


# ------------------------------------------------------------------ roots of the decoded program (kind rr)
_RR_LIMIT = {"quick": {"fixed": 12, "twin": 4, "poly": 4, "rand": 16, "dup": 8, "pin": 8, "wpad": 8, "jet1": 8, "corpus": 4},
             "thorough": {"fixed": 40, "twin": 12, "poly": 30, "rand": 300, "dup": 120, "pin": 120, "wpad": 100, "jet1": 200, "corpus": 50}}


def roots_cases(cases, full, tier):
    """sample of the redemption-time cases: the Coq model decodes, re-infers (C04 reference) and hashes (SHA-256
    in Coq, about 0.15 ms per compression) every node of the decoded program; the implementation prints CMR, IHR,
    AMR and arrow of every node of the decoded RedeemNode, libsimplicity its root values"""
    out = []
    count = {}
    lim = _RR_LIMIT[tier]
    for c in cases:
        m = c.meta
        if m["time"] != "r" or len(m["prog"]) > (50 if tier == "quick" else 120):
            continue
        d = parse_result(full.get(c.cid))
        if d.get("status") != "ok" or d.get("decode") is not None:
            continue
        if sum(len(n[1][-1]) for n in m["prog"] if n[0] == "wit" and n[1] is not None) > 1500:
            continue
        fam = m["family"].split(":")[0]
        # Elements programs first within a family (three-way with libsimplicity)
        count[fam] = count.get(fam, 0) + 1
        if count[fam] > lim.get(fam, 5):
            continue
        t = c.line.split()
        line = "%s %s %s" % (t[1], t[2], t[3] if len(t) > 3 else "-")
        out.append(Case("r" + c.cid, "rr", line, cc.c01_roots_expr(m, _JIDX, _JTY), m))
    return out


def rr_check(c, r):
    m = c.meta
    d = cc.parse_rr(r)
    if d["status"] != "ok":
        return ("roots-run", "encode/decode for the roots comparison failed: %s" % (d,))
    # the property, on the implementation: same arrow at every node (decoded node k = original node order[k])
    dn, order = cc.linearise(m["prog"], m["arrows"], "r", _JIDX, alias=m.get("hid_alias"))
    if len(order) != len(d["nodes"]):
        return ("decoded-node-count", "%d decoded nodes, %d expected" % (len(d["nodes"]), len(order)))
    if not ihr_collision(m):
        for k, i in enumerate(order):
            a = m["arrows"][i]
            nd = d["nodes"][k]
            if (a is None) != (nd[0] == 5) or (a is not None and (nd[4], nd[5]) != a):
                return ("decoded-arrow-differs", "decoded node %d has arrow %s -> %s, the original node %d has %s" % (
                    k, nd[4] and pg.ty_str(nd[4]), nd[5] and pg.ty_str(nd[5]), i, a and (pg.ty_str(a[0]), pg.ty_str(a[1]))))
    cpart = d["c"]
    if cpart and cpart[0] == 1:
        root = d["nodes"][-1]
        if (cpart[1:33], cpart[33:65], cpart[65:97]) != (root[1], root[2], root[3]):
            return ("libsimplicity-roots-differ", "libsimplicity computes different root values (cmr/ihr/amr) for the serialised program")
    elif cpart and cpart[0] >= 10 and not (cpart[0] == 16 and any(n[0] == "fail" for n in m["prog"])):
        return ("libsimplicity-rejects", "libsimplicity rejects the serialised program with error -%d" % (cpart[0] - 10))
    return None


def finding_match(c, r, cls):
    d = parse_result(r)
    if cls == "amr-differs+ihr-equal-children-differ" and d.get("coll") == 1 and ihr_collision(c.meta):
        for f in vplib.open_findings(PROP):
            if f.get("match", {}).get("kind") == "ihr-equal-children-differ":
                return f["id"]
    return None


def nontrivial(c, r):
    d = parse_result(r)
    if d.get("status") != "ok" or d.get("decode") is not None:
        return None
    p = c.meta["prog"]
    shared = len(p) != d["n_dec"] or any(sum(1 for n in p if i in pg.children(n)) > 1 for i in range(len(p)))
    if len(p) < 4 or not (shared or d["wit"]):
        return None
    return (c.meta["time"], tuple(d["prog"]), tuple(d["wit"]))


def histogram(cases, impl):
    h = {}
    sizes = {}
    for c in cases:
        for n in c.meta["prog"]:
            h[n[0]] = h.get(n[0], 0) + 1
        b = min(8, len(c.meta["prog"]).bit_length())
        sizes[2 ** b] = sizes.get(2 ** b, 0) + 1
    return {"node_kinds": h, "programs_by_size_lt": sizes}


def run(rep, tier, rng):
    _TIER[0] = tier
    proof_ok = vplib.proof_stage(rep, "Props/C01.v", extra_targets=["Codec/Run.vo"], translators=("xlate_consts.py", "xlate_jets.py")) if os.path.exists(
        os.path.join(vplib.COQ, "Props", "C01.v")) else None
    rep.coverage["trusted_base"] = vplib.GENERIC_TRUSTED + [
        "models coq/Codec/*.v written by hand from bit_encoding/{encode,decode}.rs, node/{mod,redeem,commit,construct}.rs, dag.rs",
        "python reference tools/props/codec_common.py (assembler/disassembler/linearisation), jet codes read from the implementation",
        "final arrows of every node are taken from the implementation (harness `prog arrows`): type inference is C04's subject",
        "identity hashes are represented by structural keys (kind, children's keys, payload; root arrow): hash collisions are not modelled",
        "roots comparison (kind rr): decoded program built in Coq from the original and its structural sharing keys, typed by C04's reference "
        "inference (Infer/Infer.v), hashed with the Coq SHA-256 of C09 (Uint63 primitives under vm_compute); jet types read from the implementation",
    ]
    binary, out = vplib.harness_build("debug", crate=CRATE)
    if binary is None:
        raise vplib.Infra("harness build failed:\n" + out[-3000:])
    cases, rejected, jidx = make_cases(rng, tier, binary, rep.workdir())
    for fam in ("c", "e"):
        _JT[fam] = cc.jet_table(binary, fam, rep.workdir())
    _JIDX.update(jidx)
    add_model_exprs(cases)
    impl, model = cc.eval_cases(rep, binary, "c01", cases, IMPORTS, _JT, tag="c01", batch=24)
    impl_proj = {cid: project(r) for cid, r in impl.items()}
    full = dict(impl)
    pfail, mism = vplib.decide(rep, cases, impl_proj, model, lambda c, _r: prop_check(c, full.get(c.cid)),
                               lambda c, _r, cls: finding_match(c, full.get(c.cid), cls),
                               lambda c, _r: nontrivial(c, full.get(c.cid)),
                               what="correspondence Codec/Run.v (linearise, enc_prog, witness stream) vs encode_program/encode_witness")
    # roots of the decoded program: Coq (reference inference + SHA-256) vs implementation vs libsimplicity
    rcases = roots_cases(cases, full, tier)
    rimpl, rmodel = cc.eval_cases(rep, binary, "c01", rcases, IMPORTS + ["Codec.RunRoots"], _JT, tag="c01rr", batch=max(1, (len(rcases) + 15) // 16))
    rproj = {cid: (cc.parse_rr(r).get("model_view", r) if isinstance(r, list) else r) for cid, r in rimpl.items()}
    rfull = dict(rimpl)
    pf2, _m2 = vplib.decide(rep, rcases, rproj, rmodel, lambda c, _r: rr_check(c, rfull.get(c.cid)), None, None,
                            what="correspondence Codec/RunRoots.v (decoded program, C04 reference inference, SHA-256 CMR/IHR/AMR of every node) vs RedeemNode::decode")
    pfail = list(pfail) + list(pf2)
    three = sum(1 for c in rcases if isinstance(rfull.get(c.cid), list) and cc.parse_rr(rfull[c.cid]).get("c", [2])[:1] == [1])
    rep.coverage["roots_comparison"] = {"cases": len(rcases), "nodes": sum(len(cc.parse_rr(rfull[c.cid]).get("nodes", [])) for c in rcases if isinstance(rfull.get(c.cid), list)),
                                        "three_way_with_libsimplicity": three,
                                        "note": "sample of the redemption-time cases (per-family limits %s); every node of the decoded program: CMR, IHR, AMR, arrow" % json.dumps(_RR_LIMIT[tier])}
    rep.coverage["rule"] = ("type-directed random programs 1 -> 1 (Core / Elements jets, witnesses, hidden branches, disconnect, fail, words), "
                            "the same with sub-DAGs duplicated as separate nodes, hand-written shapes, and the family of identity-hash-equal "
                            "nodes with differently typed children; witness nodes whose target type is PINNED by a consumer (without it the "
                            "principal target of nearly every generated witness is the unit type): family `pin` (random programs, pinned "
                            "witnesses) and `wpad` (witness types with padding inside products at several depths and bit offsets, random / "
                            "all-left / all-right / alternating values); every Core and Elements jet once (`jet1`); each at redemption time "
                            "(all witnesses populated; construction-time witnesses built from explicit Value constructors, not by the "
                            "library's witness decoder; written bytes compared with the python reference, values read back compared with "
                            "the intended typed tree through as_left/as_right/as_product, iter_compact and iter_padded) and commitment time "
                            "(witness/disconnect-containing sub-expressions unshared, disconnect branches optionally absent).  Distinct = distinct "
                            "(time, program bytes, witness bytes); non-trivial = at least 4 nodes and (a shared node or a non-empty witness stream)")
    rep.coverage["generated"] = histogram(cases, impl)
    rep.coverage["rejected_structures_by_type_error_code"] = rejected
    rep.coverage["samples"] = [{"kind": c.kind, "args": c.line[:300], "impl": (impl.get(c.cid) or [])[:40] if isinstance(impl.get(c.cid), list) else impl.get(c.cid)}
                               for c in cases[::max(1, len(cases) // 5)][:6]]
    vplib.finish_proof_verdict(rep, pfail)


def project(r):
    """the part of the harness result that the Coq model computes: status, program bytes, witness bytes"""
    if not isinstance(r, list) or not r or r[0] != 0:
        return r
    pos = 1
    npb = r[pos]
    pos += 1 + npb
    nwb = r[pos]
    pos += 1 + nwb
    ok = 1 if r[pos] == 0 else 0
    return r[:pos] + [ok, ok]


def add_model_exprs(cases):
    """filled in when coq/Codec/Run.v is present"""
    if not os.path.exists(os.path.join(vplib.COQ, "Codec", "Run.v")):
        return
    cc.c01_exprs(cases, _JT, _JIDX, limit=_MODEL_LIMIT.get(_TIER[0]))


def replay(obj):
    print(json.dumps(obj, indent=1)[:4000])
    c = obj.get("case")
    if not c:
        return 0
    binary, _ = vplib.harness_build("debug", crate=CRATE)
    rep = vplib.Report(PROP, "quick", 0)
    res = vplib.run_harness(binary, "c01", ["%s %s %s" % (c["id"], c["kind"], c["harness_args"])], workdir=rep.workdir())
    r = res.get(c["id"])
    print("implementation:", r)
    if c["kind"] == "rr":
        d = cc.parse_rr(r)
        print("parsed        :", {"status": d.get("status"), "nodes": len(d.get("nodes", [])), "libsimplicity": (d.get("c") or [None])[0]})
    else:
        print("parsed        :", {k: v for k, v in parse_result(r).items() if k not in ("dnodes",)})
    return 0
